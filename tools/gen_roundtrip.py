"""Gen/IdSites.v: every place of crates/usvg/src/writer.rs that emits an element id or a reference to one,
as the token list of what ends up in the attribute value (source-derived, C08).

For each site the id expression is followed back through the function it sits in (and, for a parameter, through
every caller) until it is one of
    KRaw      an id read from the tree (`x.id()`, `&x.id`)
    KPrefix   WriteOptions::id_prefix (`opt.id_prefix.as_deref().unwrap_or_default()` / `Some(ref prefix) = opt.id_prefix`)
    KLit s    literal text of a format string
and the tokens the emitting helper adds itself (write_id_attribute: `format!("{}{}", prefix, id)`; write_func_iri:
`url(#{}{})`) are put around it.  Sites:
    SDef   xml.write_id_attribute(E, opt)
    SIri   xml.write_func_iri(aid, E, opt) and the inline `format!("url(#{}{})", prefix, E)` of the filter list
    SHref  xlink:href written with format_args!("#{}{}", prefix, E)
`Path::new(E0, ..)` objects handed to write_path (write_text_path_paths) are followed: the path's id is E0.
Anything the analysis does not recognise is a broken tie, not a guess."""
import re

PROPS = ['C08']
REL = 'crates/usvg/src/writer.rs'

IDENT = r"[A-Za-z_][A-Za-z_0-9]*"


def split_args(s):
    """top-level comma split of an argument list"""
    out, depth, cur, i, instr = [], 0, '', 0, False
    while i < len(s):
        c = s[i]
        if instr:
            cur += c
            if c == '\\':
                cur += s[i + 1]
                i += 1
            elif c == '"':
                instr = False
        elif c == '"':
            instr = True
            cur += c
        elif c in '([{':
            depth += 1
            cur += c
        elif c in ')]}':
            depth -= 1
            cur += c
        elif c == ',' and depth == 0:
            out.append(cur.strip())
            cur = ''
        elif c == '|' and depth == 0 and False:
            cur += c
        else:
            cur += c
        i += 1
    if cur.strip():
        out.append(cur.strip())
    return out


def call_args(src, pos):
    """src[pos] == '(' -> (text between the matching parentheses, index after the closing one)"""
    depth, j, instr = 0, pos, False
    while True:
        c = src[j]
        if instr:
            if c == '\\':
                j += 1
            elif c == '"':
                instr = False
        elif c == '"':
            instr = True
        elif c == '(':
            depth += 1
        elif c == ')':
            depth -= 1
            if depth == 0:
                return src[pos + 1:j], j + 1
        j += 1


class Fn:
    def __init__(self, name, params, body, start):
        self.name, self.params, self.body, self.start = name, params, body, start
        self.pnames = [re.match(r"\s*(?:mut\s+)?(&?\s*(?:mut\s+)?self|%s)" % IDENT, p).group(1).replace('&', '').replace('mut', '').strip()
                       for p in split_args(params) if p.strip()]


def all_fns(src, Unsupported):
    fns = {}
    for m in re.finditer(r"\bfn\s+(%s)\s*(?:<[^>]*>)?\s*\(" % IDENT, src):
        name = m.group(1)
        params, after = call_args(src, m.end() - 1)
        k = after
        while src[k] not in '{;':
            k += 1
        if src[k] == ';':
            continue                     # trait method declaration
        depth, e = 0, k
        while True:
            c = src[e]
            if c == '{':
                depth += 1
            elif c == '}':
                depth -= 1
                if depth == 0:
                    break
            e += 1
        fns.setdefault(name, []).append(Fn(name, params, src[k:e + 1], k))
    return fns


class Analysis:
    def __init__(self, src, Unsupported):
        self.src = src
        self.U = Unsupported
        self.fns = all_fns(src, Unsupported)
        self.active = set()

    def fn_at(self, pos):
        best = None
        for l in self.fns.values():
            for f in l:
                if f.start <= pos < f.start + len(f.body) and (best is None or f.start > best.start):
                    best = f
        if best is None:
            raise self.U("no enclosing function at offset %d" % pos)
        return best

    def fmt_tokens(self, fmt, args, fn, upto, depth):
        """tokens of format!(fmt, args..)"""
        parts = re.split(r"(\{\})", fmt)
        toks, k = [], 0
        for p in parts:
            if p == '{}':
                if k >= len(args):
                    raise self.U("format string %r has more holes than arguments" % fmt)
                toks += self.expr(args[k], fn, upto, depth + 1)
                k += 1
            elif p:
                if '{' in p or '}' in p:
                    raise self.U("format string %r: only `{}` holes are understood" % fmt)
                toks.append(('lit', p))
        if k != len(args):
            raise self.U("format string %r: %d arguments for %d holes" % (fmt, len(args), k))
        return toks

    def expr(self, e, fn, upto, depth=0):
        """tokens of the string expression `e` evaluated inside `fn` before body offset `upto`"""
        if depth > 12:
            raise self.U("id expression too deep: %r" % e)
        e = e.strip()
        while True:
            e0 = e
            e = re.sub(r"^&\s*", "", e)
            e = re.sub(r"\.(to_string|to_owned|clone|as_str|as_deref|as_ref)\(\)$", "", e)
            e = re.sub(r"^\((.*)\)$", r"\1", e) if e.startswith('(') and call_args(e, 0)[1] == len(e) else e
            if e == e0:
                break
        m = re.fullmatch(r"(?:format|format_args)!\((.*)\)", e, re.S)
        if m:
            a = split_args(m.group(1))
            if not a or not re.fullmatch(r'"(?:[^"\\]|\\.)*"', a[0]):
                raise self.U("format! without a literal format string: %r" % e)
            return self.fmt_tokens(a[0][1:-1], a[1:], fn, upto, depth)
        if re.fullmatch(r"opt\.id_prefix(\.unwrap_or_default\(\))?", e):
            return [('prefix',)]
        m = re.fullmatch(r"(%s)((?:\.%s)*)\.id(\(\))?" % (IDENT, IDENT), e)
        if m:
            base = m.group(1)
            # a parameter object whose id is decided by the callers (write_path's `path`)
            if base in fn.pnames and not m.group(2):
                return self.param_field_id(fn, base, depth)
            b = self.binding(base, fn, upto)
            if b and b[0] == 'new':
                return self.expr(b[1], b[2], b[3], depth + 1)
            return [('raw', e)]
        m = re.fullmatch(r"(%s)\.or\((.+)\)" % IDENT, e, re.S)
        if m:
            # Option::or: either operand
            a = self.expr(m.group(1), fn, upto, depth + 1)
            b = self.expr(m.group(2), fn, upto, depth + 1)
            return [('alts', (('or-left', tuple(a)), ('or-right', tuple(b))))]
        m = re.fullmatch(r"(.+)\.map\(\|\s*(%s)\s*\|\s*(.+)\)" % IDENT, e, re.S)
        if m:
            return self.expr(m.group(3), fn, upto, depth + 1)
        if re.fullmatch(IDENT, e):
            b = self.binding(e, fn, upto)
            if b is None and e in fn.pnames:
                return self.param(fn, e, depth)
            if b is None:
                raise self.U("%s: cannot find what `%s` is bound to" % (fn.name, e))
            if b[0] == 'expr':
                return self.expr(b[1], fn, b[2], depth + 1)
            if b[0] == 'prefix':
                return [('prefix',)]
            raise self.U("%s: `%s` is an object, not a string" % (fn.name, e))
        raise self.U("%s: id expression %r is not understood" % (fn.name, e))

    def binding(self, name, fn, upto):
        """last binding of `name` in fn.body[:upto]:
           ('expr', rhs, pos) | ('prefix',) | ('new', id_expr, fn, pos) | ('obj',) | None"""
        body = fn.body[:upto]
        best = None
        for m in re.finditer(r"\blet\s+(?:mut\s+)?%s\s*(?::[^=;]+)?=\s*" % re.escape(name), body):
            # rhs up to the terminating `;` at depth 0
            j, depth, instr = m.end(), 0, False
            while j < len(fn.body):
                c = fn.body[j]
                if instr:
                    if c == '\\':
                        j += 1
                    elif c == '"':
                        instr = False
                elif c == '"':
                    instr = True
                elif c in '([{':
                    depth += 1
                elif c in ')]}':
                    depth -= 1
                elif c == ';' and depth == 0:
                    break
                j += 1
            rhs = fn.body[m.end():j].strip()
            best = (m.start(), 'let', rhs)
        for m in re.finditer(r"\b(?:if|while)\s+let\s+Some\(\s*(?:ref\s+)?%s\s*\)\s*=\s*&?\s*([^{]+?)\s*\{" % re.escape(name), body):
            if best is None or m.start() > best[0]:
                best = (m.start(), 'some', m.group(1).strip())
        for m in re.finditer(r"\b(?:if\s+let\s+)?(?:%s::)+%s\(\s*(?:ref\s+)?%s\s*\)\s*(?:=>|=)" % (IDENT, IDENT, re.escape(name)), body):
            if best is None or m.start() > best[0]:
                best = (m.start(), 'obj', '')
        for m in re.finditer(r"\bfor\s+%s\s+in\b" % re.escape(name), body):
            if best is None or m.start() > best[0]:
                best = (m.start(), 'obj', '')
        for m in re.finditer(r"\|\s*%s\s*\|" % re.escape(name), body):
            if best is None or m.start() > best[0]:
                best = (m.start(), 'obj', '')
        if best is None:
            return None
        pos, kind, rhs = best
        if kind == 'obj':
            return ('obj',)
        if re.fullmatch(r"opt\.id_prefix(\.as_deref\(\))?(\.unwrap_or_default\(\))?", rhs):
            return ('prefix',)
        m = re.fullmatch(r"Path::new\((.*)\)", rhs, re.S)
        if m:
            return ('new', split_args(m.group(1))[0], fn, pos)
        if kind == 'some' and re.fullmatch(IDENT, rhs) and rhs == name:
            # `if let Some(ref path) = path`: look further back
            sub = Fn(fn.name, fn.params, fn.body, fn.start)
            return Analysis.binding(self, name, sub, pos)
        if kind == 'some' and re.fullmatch(r"(%s\.)*%s" % (IDENT, IDENT), rhs) and not re.fullmatch(IDENT, rhs):
            # a field of a tree object (g.clip_path, chunk.text_flow ..): an object unless it is the prefix
            return ('obj',)
        return ('expr', rhs, pos)

    def callers(self, name):
        """(caller fn, body offset of the call, argument texts)"""
        out = []
        for l in self.fns.values():
            for f in l:
                for m in re.finditer(r"(?<![A-Za-z_0-9.])%s\(" % re.escape(name), f.body):
                    if f.body[:m.start()].rstrip().endswith('fn'):
                        continue
                    a, _ = call_args(f.body, m.end() - 1)
                    out.append((f, m.start(), split_args(a)))
        return out

    def merge(self, alts, what):
        alts = [tuple(self.norm(a)) for a in alts]
        if not alts:
            raise self.U("%s: no caller found" % what)
        return alts

    def param(self, fn, pname, depth):
        """a string parameter: one alternative per caller (returned as a marker resolved by the site loop)"""
        idx = fn.pnames.index(pname)
        alts = []
        for f, pos, args in self.callers(fn.name):
            if idx >= len(args):
                raise self.U("call of %s with too few arguments" % fn.name)
            if args[idx] == 'None':
                continue
            key = (fn.name, pname)
            if f.name == fn.name:
                if key in self.active:
                    continue             # recursive call seen from inside its own resolution: no new source
                self.active.add(key)
                try:
                    alts.append((f.name, self.expr(args[idx], f, pos, depth + 1)))
                finally:
                    self.active.discard(key)
                continue
            alts.append((f.name, self.expr(args[idx], f, pos, depth + 1)))
        return [('alts', tuple((n, tuple(t)) for n, t in alts))]

    def param_field_id(self, fn, pname, depth):
        idx = fn.pnames.index(pname)
        alts = []
        for f, pos, args in self.callers(fn.name):
            a = re.sub(r"^&\s*", "", args[idx].strip())
            if re.fullmatch(r"%s(\.%s(\(\))?)+" % (IDENT, IDENT), a):
                # a field / accessor of a tree object (text.flattened(), pattern.root ..)
                alts.append((f.name, [('raw', a + '.id')]))
                continue
            if not re.fullmatch(IDENT, a):
                raise self.U("call of %s in %s: argument %r is not a plain variable" % (fn.name, f.name, a))
            b = self.binding(a, f, pos)
            if b is None:
                raise self.U("%s: cannot find what `%s` is bound to" % (f.name, a))
            if b[0] == 'new':
                alts.append((f.name, self.expr(b[1], b[2], b[3], depth + 1)))
            elif b[0] == 'obj':
                alts.append((f.name, [('raw', a + '.id')]))
            else:
                raise self.U("%s: `%s` handed to %s is neither a tree node nor Path::new(..)" % (f.name, a, fn.name))
        return [('alts', tuple((n, tuple(t)) for n, t in alts))]

    @staticmethod
    def norm(toks):
        out = []
        for t in toks:
            if t[0] == 'lit' and out and out[-1][0] == 'lit':
                out[-1] = ('lit', out[-1][1] + t[1])
            else:
                out.append(t)
        return out

    def expand(self, toks):
        """alternatives (caller label, token list) of a token list that may contain ('alts', ..) markers"""
        res = [('', [])]
        for t in toks:
            if t[0] == 'alts':
                new = []
                for lab, pre in res:
                    for n, sub in t[1]:
                        for lab2, sub2 in self.expand(list(sub)):
                            new.append((lab + '<-' + n + lab2, pre + sub2))
                res = new
            else:
                res = [(lab, pre + [t]) for lab, pre in res]
        return [(lab, self.norm(t)) for lab, t in res]


def helper_template(an, name):
    """tokens a helper (write_id_attribute / write_func_iri) writes for its `id` parameter: list with ('arg',) for the parameter;
    both branches of an `if let Some(ref prefix) = opt.id_prefix` are returned: (with prefix, without)"""
    fs = [f for f in an.fns.get(name, []) if 'id' in f.pnames]
    if len(fs) != 1:
        raise an.U("helper %s: %d definitions" % (name, len(fs)))
    f = fs[0]
    body = f.body

    def arg_expr(e, upto):
        e = e.strip()
        if re.fullmatch(r"&?\s*id", e):
            return [('arg',)]
        if re.fullmatch(r"&?\s*prefix", e):
            b = an.binding('prefix', f, upto)
            if not b or b[0] != 'prefix':
                raise an.U("helper %s: `prefix` is not opt.id_prefix" % name)
            return [('prefix',)]
        m = re.fullmatch(r"&?\s*(%s)" % IDENT, e)
        if m:
            b = an.binding(m.group(1), f, upto)
            if b and b[0] == 'expr':
                return arg_expr(b[1], b[2])
        m = re.fullmatch(r"(?:format|format_args)!\((.*)\)", e, re.S)
        if m:
            a = split_args(m.group(1))
            parts = re.split(r"(\{\})", a[0][1:-1])
            toks, k = [], 0
            for p in parts:
                if p == '{}':
                    toks += arg_expr(a[1 + k], upto)
                    k += 1
                elif p:
                    toks.append(('lit', p))
            if k != len(a) - 1:
                raise an.U("helper %s: format arguments" % name)
            return toks
        raise an.U("helper %s: value expression %r is not understood" % (name, e))

    writes = []
    for m in re.finditer(r"self\.write_attribute(_fmt)?\(", body):
        a, _ = call_args(body, m.end() - 1)
        args = split_args(a)
        writes.append((m.start(), args[0], an.norm(arg_expr(args[1], m.start()))))
    if name == 'write_id_attribute':
        if len(writes) != 2 or any(w[1] != '"id"' for w in writes):
            raise an.U("write_id_attribute: expected two writes of the `id` attribute (with / without a prefix), found %r" % [w[1] for w in writes])
        if not re.search(r"if\s+let\s+Some\(ref\s+prefix\)\s*=\s*opt\.id_prefix\s*\{", body):
            raise an.U("write_id_attribute: the `if let Some(ref prefix) = opt.id_prefix` split is gone")
        return writes[0][2], writes[1][2]
    if len(writes) != 1:
        raise an.U("%s: expected one attribute write, found %d" % (name, len(writes)))
    return writes[0][2], None


def coq_tok(t):
    if t[0] == 'raw':
        return 'KRaw'
    if t[0] == 'prefix':
        return 'KPrefix'
    return 'KLit "%s"' % t[1].replace('"', '""')


def generate(api):
    try:
        src = api.rd(REL)
        an = Analysis(src, api.Unsupported)
        id_with, id_without = helper_template(an, 'write_id_attribute')
        iri_t, _ = helper_template(an, 'write_func_iri')
        sites = []          # (label, kind, tokens)

        def wrap(tmpl, inner):
            out = []
            for t in tmpl:
                out += inner if t[0] == 'arg' else [t]
            return an.norm(out)

        def add(kind, fn, line, tmpl, etoks, what):
            for lab, toks in an.expand(etoks):
                sites.append(("%s:%d %s%s" % (fn.name, line, what, lab), kind, wrap(tmpl, toks)))

        for m in re.finditer(r"\.write_id_attribute\(", src):
            fn = an.fn_at(m.start())
            a, _ = call_args(src, m.end() - 1)
            args = split_args(a)
            line = src.count('\n', 0, m.start()) + 1
            add('SDef', fn, line, id_with, an.expr(args[0], fn, m.start() - fn.start), args[0])
        for m in re.finditer(r"\.write_func_iri\(", src):
            fn = an.fn_at(m.start())
            a, _ = call_args(src, m.end() - 1)
            args = split_args(a)
            line = src.count('\n', 0, m.start()) + 1
            add('SIri', fn, line, iri_t, an.expr(args[1], fn, m.start() - fn.start), args[1])
        # inline reference formats: every format!/format_args! whose literal contains `#`
        for m in re.finditer(r"\b(?:format|format_args)!\(", src):
            a, _ = call_args(src, m.end() - 1)
            args = split_args(a)
            if not args or not args[0].startswith('"') or '#' not in args[0]:
                continue
            fn = an.fn_at(m.start())
            if fn.name in ('write_func_iri', 'write_id_attribute'):
                continue
            line = src.count('\n', 0, m.start()) + 1
            kind = 'SIri' if args[0].startswith('"url(#') else 'SHref'
            add(kind, fn, line, [('arg',)], an.expr(src[m.start():m.start() + len(a) + len(m.group(0)) + 1], fn, m.start() - fn.start), args[-1])
        # any other way an `id` attribute could be written
        for m in re.finditer(r'write_attribute(?:_fmt|_raw)?\(\s*"id"', src):
            fn = an.fn_at(m.start())
            if fn.name != 'write_id_attribute':
                raise api.Unsupported("an id attribute is written outside write_id_attribute (in %s)" % fn.name)
        ndef = sum(1 for s in sites if s[1] == 'SDef')
        labels = ' '.join(s[0] for s in sites)
        for need in ('write_text_path_paths', 'write_defs', 'write_filters', 'write_group_element', 'write_element', 'write_paint'):
            if need not in labels:
                raise api.Unsupported("no id site found in / through %s" % need)
        if ndef < 11 or len(sites) < 22:
            raise api.Unsupported("only %d definition / %d total id sites found (11 / 22 expected at least)" % (ndef, len(sites)))
        out = [api.HEADER, "From Coq Require Import String List.\nImport ListNotations.\nLocal Open Scope string_scope.\n",
               "Inductive idtok := KPrefix | KRaw | KLit (s : string).",
               "Inductive sitekind := SDef | SIri | SHref.\n",
               "(* %s :: write_id_attribute without a prefix (`else` branch) *)" % REL,
               "Definition id_attr_no_prefix : list idtok := [%s].\n" % "; ".join(coq_tok(t) for t in wrap(id_without, [('raw', 'id')])),
               "(* every site that writes an id or a reference to one: (function:line expression<-callers, kind, what is written) *)",
               "Definition id_sites : list (string * sitekind * list idtok) := ["]
        out.append(";\n".join('  ("%s", %s, [%s])' % (lab.replace('"', "'"), kind, "; ".join(coq_tok(t) for t in toks))
                              for lab, kind, toks in sites))
        out.append("].\n")
        api.write_gen('IdSites.v', "\n".join(out))
        api.ok('tables', 'writer.id_sites', sites=len(sites), defs=ndef)
    except (api.Unsupported, OSError, ValueError, IndexError, AttributeError) as e:
        api.broken('table', 'writer.id_sites', PROPS, e)
