#!/usr/bin/env python3
"""Confirm a seeded change and run the checks against it.

usage: tools/seedtest.py <seeded-dir> [--no-suite] [--no-demo] [--tier quick] [--props C17,C02]

<seeded-dir> holds patch.diff, demo.rs (an integration test using the public API) and meta.json.
Steps (all in scratch copies, /repo is never modified):
  1. worktree of /repo HEAD + patch            2. full test-suite with the patch (must pass)
  3. demo with patch (must fail) / without (must pass)
  4. VERIF_REPO=<worktree> ./check <prop>      (must exit 1 with a VIOLATION line)
Results are merged into meta.json under "confirmed".
"""
import json
import os
import re
import shutil
import subprocess
import sys
import time

VERIF = os.path.dirname(os.path.dirname(os.path.abspath(__file__)))
SUITE = ['cargo', 'nextest', 'run', '--workspace', '--no-fail-fast', '--offline', '--test-threads', '8']


def sh(cmd, cwd=None, env=None, timeout=3600):
    e = dict(os.environ)
    e['CARGO_NET_OFFLINE'] = 'true'
    if env:
        e.update(env)
    p = subprocess.run(cmd, cwd=cwd, env=e, stdout=subprocess.PIPE, stderr=subprocess.STDOUT, text=True,
                       errors='replace', timeout=timeout)
    return p.returncode, p.stdout


def main():
    args = sys.argv[1:]
    d = os.path.abspath(args[0])
    name = os.path.basename(d)
    tier = 'quick'
    do_suite = '--no-suite' not in args
    do_demo = '--no-demo' not in args
    meta = json.load(open(os.path.join(d, 'meta.json')))
    props = [meta['property']]
    if '--props' in args:
        props = args[args.index('--props') + 1].split(',')
    if '--tier' in args:
        tier = args[args.index('--tier') + 1]
    slot = args[args.index('--slot') + 1] if '--slot' in args else name
    wt = '/tmp/sv-' + slot
    tgt = '/tmp/sv-target-' + slot
    # one user per slot at a time (several agents may pick the same slot)
    import fcntl
    _slot_lock = open('/tmp/sv-lock-' + slot, 'w')
    fcntl.flock(_slot_lock, fcntl.LOCK_EX)
    conf = dict(when=time.strftime('%Y-%m-%d %H:%M'), repo_head=sh(['git', '-C', '/repo', 'rev-parse', '--short', 'HEAD'])[1].strip())
    # a re-run that skips the suite / demo keeps what an earlier full run established
    prev = meta.get('confirmed') or {}
    if not do_suite:
        for k in ('suite_with_change', 'suite_passes', 'suite_failures'):
            if k in prev:
                conf[k] = prev[k]
    if not do_demo:
        for k in ('demo_with_change', 'demo_without_change'):
            if k in prev:
                conf[k] = prev[k]
    sh(['git', '-C', '/repo', 'worktree', 'remove', '--force', wt])
    rc, out = sh(['git', '-C', '/repo', 'worktree', 'add', '--detach', wt, 'HEAD'])
    if rc != 0:
        print(out)
        return 2
    try:
        rc, out = sh(['git', 'apply', os.path.join(d, 'patch.diff')], cwd=wt)
        if rc != 0:
            rc, out = sh(['git', 'apply', '-3', os.path.join(d, 'patch.diff')], cwd=wt)
        conf['patch_applies'] = rc == 0
        if rc != 0:
            print("patch does not apply:\n" + out)
            meta['confirmed'] = conf
            json.dump(meta, open(os.path.join(d, 'meta.json'), 'w'), indent=1)
            return 2
        if do_suite:
            rc, out = sh(SUITE, cwd=wt, env={'CARGO_TARGET_DIR': tgt})
            m = re.search(r"(\d+) tests run: (\d+) passed(?: \((\d+) (?:slow|flaky)[^)]*\))?(?:, (\d+) failed)?", out)
            conf['suite_with_change'] = m.group(0) if m else ('rc=%d ' % rc + out[-300:])
            conf['suite_passes'] = bool(m) and m.group(1) == m.group(2) and rc == 0
            print("suite:", conf['suite_with_change'])
            if not conf['suite_passes']:
                fails = sorted(set(re.findall(r"^\s+(?:FAIL|TIMEOUT|SIGABRT|SIGSEGV)\s+\[[^\]]*\]\s+(\S.*)$", out, re.M)))
                conf['suite_failures'] = fails[:20]
                print("  failing tests:", fails[:10])
        demo = os.path.join(d, 'demo.rs')
        if do_demo and os.path.exists(demo):
            dc = '/tmp/sv-demo-' + name
            shutil.rmtree(dc, ignore_errors=True)
            os.makedirs(os.path.join(dc, 'tests'))
            os.makedirs(os.path.join(dc, 'src'))
            open(os.path.join(dc, 'src', 'lib.rs'), 'w').write('')
            open(os.path.join(dc, 'Cargo.toml'), 'w').write(
                '[package]\nname = "seed-demo"\nversion = "0.0.0"\nedition = "2021"\n\n[workspace]\n\n[dependencies]\n'
                'usvg = { path = "%s/crates/usvg" }\nresvg = { path = "%s/crates/resvg" }\ntiny-skia = "0.11.4"\n' % (wt, wt))
            shutil.copy(os.path.join(wt, 'Cargo.lock'), os.path.join(dc, 'Cargo.lock'))
            pidm = re.match(r"(C\d+)", name)
            seedroot = '/tmp/seed-' + (pidm.group(1) if pidm else 'X')
            bindir = tgt + '/debug'
            dsrc = open(demo).read()
            needs_bins = 'SEED_BIN_DIR' in dsrc or 'Command::new' in dsrc
            dsrc = dsrc.replace(seedroot + '-target/debug', bindir).replace(seedroot + '/', wt + '/')
            open(os.path.join(dc, 'tests', 'demo.rs'), 'w').write(dsrc)
            for extra in os.listdir(d):
                if extra.startswith('demo_') or extra.endswith('.svg'):
                    shutil.copy(os.path.join(d, extra), os.path.join(dc, 'tests', extra))
            env = {'CARGO_TARGET_DIR': tgt + '-demo', 'SEED_BIN_DIR': bindir,
                   'SEED_FONTS_DIR': wt + '/crates/resvg/tests/fonts'}
            binbuild = ['cargo', 'build', '--offline', '-p', 'resvg', '-p', 'usvg', '--bins']
            if needs_bins:
                sh(binbuild, cwd=wt, env={'CARGO_TARGET_DIR': tgt})
            rc1, out1 = sh(['cargo', 'test', '--offline', '--test', 'demo'], cwd=dc, env=env)
            sh(['git', 'apply', '-R', os.path.join(d, 'patch.diff')], cwd=wt)   # NOT git stash: the stash is shared between worktrees
            assert sh(['git', 'status', '--porcelain'], cwd=wt)[1].strip() == '', 'worktree not clean after reverting the patch'
            if needs_bins:
                sh(binbuild, cwd=wt, env={'CARGO_TARGET_DIR': tgt})
            rc0, out0 = sh(['cargo', 'test', '--offline', '--test', 'demo'], cwd=dc, env=env)
            rcp, outp = sh(['git', 'apply', os.path.join(d, 'patch.diff')], cwd=wt)
            assert rcp == 0, 'could not re-apply the patch: ' + outp
            conf['demo_with_change'] = 'fail' if rc1 != 0 else 'pass'
            conf['demo_without_change'] = 'pass' if rc0 == 0 else 'fail'
            if rc0 != 0:
                print(out0[-1500:])
            print("demo: with change %s, without %s" % (conf['demo_with_change'], conf['demo_without_change']))
            shutil.rmtree(dc, ignore_errors=True)
        conf['diff_at_check'] = sh(['git', 'diff', '--stat'], cwd=wt)[1].strip().splitlines()[-1:]
        checks = {}
        for pid in props:
            t0 = time.time()
            rc, out = sh([os.path.join(VERIF, 'check'), pid, '--tier', tier], cwd=VERIF, env={'VERIF_REPO': wt})
            viol = [l for l in out.splitlines() if l.startswith('VIOLATION ')]
            notes = [l for l in out.splitlines() if 'no longer check' in l or 'broken tie' in l or 'disagree' in l]
            checks[pid] = dict(exit=rc, caught=(rc == 1 and bool(viol)), violations=[v[:260] for v in viol[:4]],
                               signals=[n[:200] for n in notes[:6]], wall_s=round(time.time() - t0, 1))
            print("check %s: exit %d, %d VIOLATION lines" % (pid, rc, len(viol)))
            for v in viol[:3]:
                print("   ", v[:220])
            if rc not in (0, 1) or (rc == 1 and not viol):
                print(out[-2000:])
        conf['checks'] = checks
        meta['confirmed'] = conf
        json.dump(meta, open(os.path.join(d, 'meta.json'), 'w'), indent=1)
    finally:
        sh(['git', '-C', '/repo', 'worktree', 'remove', '--force', wt])
        # shadow build products of this worktree
        if '--clean' in args:
            import hashlib
            h = hashlib.sha256(os.path.realpath(wt).encode()).hexdigest()[:10]
            shutil.rmtree(os.path.join(VERIF, 'work', 'alt-' + h), ignore_errors=True)
    return 0


if __name__ == '__main__':
    sys.exit(main())
