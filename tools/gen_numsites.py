"""Gen/NumSites.v: where crates/usvg/src/writer.rs prints numbers through write_num (C08): the six numbers of
write_transform in order, and per tiny_skia_path::PathSegment kind of write_path the command letter, the points the
match arm binds and the coordinates written in order; plus the WriteOptions precision each of the two uses.
Broken tie: a write_num call anywhere else, a precision that is not the expected WriteOptions field, a point coordinate
of the path-data closure that is printed without write_num (`{}` / to_string of p.x), a separator other than one space."""
import re

PROPS = ['C08']
REL = 'crates/usvg/src/writer.rs'


def generate(api):
    try:
        src = api.rd(REL)
        _, _, tbody = api.rs2coq.find_fn(src, 'write_transform', after=r"impl XmlWriterExt for XmlWriter")
        calls = re.findall(r"write_num\(\s*ts\.([a-z]+)\s*,\s*buf\s*,\s*opt\.([a-z_]+)\s*\)", tbody)
        if len(calls) != len(re.findall(r"write_num\(", tbody)) or len(calls) != 6:
            raise api.Unsupported("write_transform: expected six write_num(ts.<field>, buf, opt.<precision>) calls, found %d" % len(calls))
        tprec = set(c[1] for c in calls)
        if len(tprec) != 1:
            raise api.Unsupported("write_transform: mixed precisions %s" % sorted(tprec))
        if not re.search(r"if\s*!\s*ts\.is_default\(\)\s*\{", tbody) or 'b"matrix("' not in tbody:
            raise api.Unsupported("write_transform: `if !ts.is_default()` / matrix( not found")
        seps = re.findall(r"write_num\([^;]*;\s*buf\.(push\(b' '\)|extend_from_slice\(b\"\)\"\))", tbody)
        if len(seps) != 6:
            raise api.Unsupported("write_transform: a number is not followed by a single space / the closing parenthesis")
        _, _, pbody = api.rs2coq.find_fn(src, 'write_path')
        m = re.search(r'write_attribute_raw\("d",\s*\|buf\|\s*\{(.*?)\n    \}\);', pbody, re.S)
        if not m:
            raise api.Unsupported("write_path: the path-data closure was not found")
        clo = m.group(1)
        segs = []
        pprec = set()
        arms = list(re.finditer(r"PathSegment::([A-Za-z]+)(?:\(([^)]*)\))?\s*=>\s*\{", clo))
        for i, a in enumerate(arms):
            body = clo[a.end():arms[i + 1].start() if i + 1 < len(arms) else len(clo)]
            binders = [b.strip() for b in (a.group(2) or '').split(',') if b.strip()]
            ml = re.search(r'buf\.extend_from_slice\(b"([A-Za-z]) "\);', body)
            if not ml:
                raise api.Unsupported("write_path: segment %s writes no command letter followed by a space" % a.group(1))
            cs = re.findall(r"write_num\(\s*([a-z0-9_]+)\.([xy])\s*,\s*buf\s*,\s*opt\.([a-z_]+)\s*\);\s*buf\.push\(b' '\);", body)
            if len(cs) != len(re.findall(r"write_num\(", body)):
                raise api.Unsupported("write_path: segment %s: a write_num call is not `write_num(<point>.<x|y>, buf, opt.<precision>); buf.push(b' ')`" % a.group(1))
            mentions = len(re.findall(r"\b(?:%s)\.[xy]\b" % '|'.join(map(re.escape, binders)), body)) if binders else 0
            if mentions != len(cs):
                raise api.Unsupported("write_path: segment %s prints a coordinate without write_num" % a.group(1))
            pprec |= set(c[2] for c in cs)
            segs.append((a.group(1), ml.group(1), binders, [(c[0], c[1]) for c in cs]))
        if len(pprec) != 1:
            raise api.Unsupported("write_path: mixed precisions %s" % sorted(pprec))
        total = len(re.findall(r"(?<!fn )\bwrite_num\(", src))
        inside = 6 + sum(len(s[3]) for s in segs)
        if total != inside:
            raise api.Unsupported("%d write_num calls in writer.rs, %d of them in write_transform / the path data: an unmodelled site" % (total, inside))
        # floats printed in the two closures by anything else
        for name, body in (('write_transform', tbody), ('path data', clo)):
            if re.search(r"format_args!|write!\(|to_string\(\)|write_fmt", body):
                raise api.Unsupported("%s: a value is formatted without write_num" % name)
        out = [api.HEADER, "From Coq Require Import String List.\nImport ListNotations.\nLocal Open Scope string_scope.\n",
               "(* %s :: write_transform: the fields written inside matrix(..), in order, and the precision option *)" % REL,
               "Definition transform_order : list string := [%s]." % "; ".join('"%s"' % c[0] for c in calls),
               'Definition transform_precision : string := "%s".\n' % tprec.pop(),
               "(* %s :: write_path: (PathSegment kind, command letter, bound points, coordinates written in order) *)" % REL,
               "Definition path_segs : list (string * string * list string * list (string * string)) := ["]
        out.append(";\n".join('  ("%s", "%s", [%s], [%s])' % (k, l, "; ".join('"%s"' % b for b in bs), "; ".join('("%s", "%s")' % c for c in cs))
                              for k, l, bs, cs in segs))
        out.append("].")
        out.append('Definition path_precision : string := "%s".\n' % pprec.pop())
        api.write_gen('NumSites.v', "\n".join(out))
        api.ok('tables', 'writer.num_sites', write_num_calls=total, segments=len(segs))
    except (api.Unsupported, OSError, ValueError, IndexError) as e:
        api.broken('table', 'writer.num_sites', PROPS, e)
