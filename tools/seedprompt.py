#!/usr/bin/env python3
"""Print the red-team prompt for a property id (only the property text goes in; nothing from /verif)."""
import json, sys
pid = sys.argv[1]
n = sys.argv[2] if len(sys.argv) > 2 else '4'
for l in open('/verif/properties.jsonl'):
    p = json.loads(l)
    if p['id'] == pid:
        break
print(f"""You are a red-team engineer. You have a scratch git worktree of the Rust project RazrFalcon/resvg at /tmp/seed-{pid} (crates: usvg = SVG parser/simplifier/writer, resvg = renderer with filters, both with CLI binaries). Work ONLY inside /tmp/seed-{pid} (and scratch dirs named /tmp/seed-{pid}-*). Do not look at or touch /verif or /repo. No network: build offline (`CARGO_NET_OFFLINE=true`, `--offline`), and `export CARGO_TARGET_DIR=/tmp/seed-{pid}-target`.

The project is supposed to satisfy this semantic property ({pid}: {p['title']}):

  "{p['statement']}"

  It is meant to hold over: {p['quantifier']['text']}

Your job: produce {n} different, realistic changes to the source (each an independent small patch against the current HEAD of the worktree) that each BREAK this property while (1) the workspace still compiles, and (2) the project's existing test-suite still passes completely:
    cd /tmp/seed-{pid} && cargo nextest run --workspace --no-fail-fast --offline --test-threads 8 2>&1 | tail -3      (expect "1749 tests run: 1749 passed")
The changes should look like plausible regressions a maintainer could introduce (a refactor slip, an "optimisation", a wrong sign/comparison/off-by-one in a rarely used branch, a dropped guard, a wrong table entry, a cache keyed too coarsely, a mis-handled combination of attributes), and must need something specific to manifest — a particular interleaving, a fault at a particular point, a multi-step sequence of operations, an unusual input or combination of inputs, or two cooperating sites that each look fine alone — not something that ordinary use exposes at once. Spread them over different code sites and different clauses of the property; at least one should involve two cooperating sites or a multi-condition trigger. Do not touch code under `#[cfg(resvg_verif)]` or the modules named `verif_hooks` (instrumentation, not product code), and do not edit tests or reference images.

For each change i = 1..{n} create a directory /tmp/seed-{pid}-out/<i>/ containing:
  - patch.diff  : `git diff` of the change against HEAD (applies with `git apply`); after saving it, restore the worktree (`git checkout -- .`) before the next one;
  - demo.rs : a small demonstration written as a Rust integration test file using only the public API of usvg/resvg/tiny-skia (it will be run as `tests/demo.rs` of a scratch crate with path deps on the worktree's crates/usvg and crates/resvg plus `tiny-skia = "0.11.4"`, an empty `[workspace]` table and a copy of the worktree's Cargo.lock; for CLI behaviour it may spawn the binaries built from the worktree — build them with `cargo build --offline -p resvg -p usvg --bins` and locate them via `env!("CARGO_MANIFEST_DIR")`-independent absolute paths passed through the env var SEED_BIN_DIR, falling back to /tmp/seed-{pid}-target/debug) that FAILS with the change applied and PASSES without it. Build such a scratch crate under /tmp/seed-{pid}-demo, actually run the demo both ways and record the outputs in demo.log;
  - meta.json : {{"property":"{pid}","title":..., "files_touched":[...], "what_it_breaks": "...which clause...", "needs_to_manifest": "...the specific input/conditions...", "suite_result": "1749 passed", "demo_without_change": "pass", "demo_with_change": "fail: <short>"}}.
You must actually run the full test-suite with each change applied and confirm 1749 passed (if a change makes any existing test fail, discard or adjust it). The first build takes a few minutes.

When done: `git -C /tmp/seed-{pid} checkout -- .` (clean worktree), delete /tmp/seed-{pid}-target and the demo crate's target dir, and reply with a short table of the changes (site, clause broken, trigger, suite result, demo result).""")
