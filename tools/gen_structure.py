"""T1 plug-in: Gen/StructTables.v from the structural converters of usvg (C10).

  * switch.rs        : the FEATURES list and the shape of is_condition_passed
  * svgtree/parse.rs : `a` is re-tagged as `g`
  * converter.rs     : resolve_transform - the transform-origin product, transcribed from the builder chain
  * use_node.rs      : how the use / nested-svg transforms are composed (translate, viewBox transform, concat)
  * shapes.rs        : rect radius rules (negative = absent, one-sided = both, clamp to half the side)
Anchors that are not found exactly are broken ties (api.broken).
"""
import re

PROPS = ['C10']
SWITCH = 'crates/usvg/src/parser/switch.rs'
PARSE = 'crates/usvg/src/parser/svgtree/parse.rs'
CONV = 'crates/usvg/src/parser/converter.rs'
USE = 'crates/usvg/src/parser/use_node.rs'
SHAPES = 'crates/usvg/src/parser/shapes.rs'


class Missing(Exception):
    pass


def strip_comments(src):
    src = re.sub(r"/\*.*?\*/", "", src, flags=re.S)
    src = re.sub(r"(?m)^\s*//[^\n]*$", "", src)
    return re.sub(r"(?m)^([^\"\n]*?)//[^\n]*$", r"\1", src)


def norm(s):
    return re.sub(r"\s+", " ", s).strip()


def fn_body(src, fn):
    ms = list(re.finditer(r"fn %s\s*(?:<[^>]*>)?\s*\(" % fn, src))
    if len(ms) != 1:
        raise Missing("fn %s: expected exactly one definition, found %d" % (fn, len(ms)))
    i = src.index('{', ms[0].end())
    depth = 0
    j = i
    while True:
        if src[j] == '{':
            depth += 1
        elif src[j] == '}':
            depth -= 1
            if depth == 0:
                return src[i + 1:j]
        j += 1


def chain_to_coq(expr, env):
    """`Transform::default().pre_translate(a, b).pre_concat(t)...` -> nested ts_concat (pre_X = multiply on the right)"""
    e = norm(expr)
    m = re.match(r"(Transform::default\(\)|[a-z_]+)", e)
    if not m:
        raise Missing("transform chain %r: unknown head" % e)
    head = m.group(1)
    acc = 'ts_identity' if head.startswith('Transform') else env[head]
    rest = e[m.end():]
    while rest:
        rest = rest.lstrip()
        m = re.match(r"\.pre_translate\(\s*(-?)([a-z_]+)\s*,\s*(-?)([a-z_]+)\s*\)", rest)
        if m:
            a = ('(- %s)' if m.group(1) else '%s') % env[m.group(2)]
            b = ('(- %s)' if m.group(3) else '%s') % env[m.group(4)]
            acc = "(ts_concat %s (from_translate %s %s))" % (acc, a, b)
            rest = rest[m.end():]
            continue
        m = re.match(r"\.pre_concat\(\s*([a-z_]+)\s*\)", rest)
        if m:
            acc = "(ts_concat %s %s)" % (acc, env[m.group(1)])
            rest = rest[m.end():]
            continue
        raise Missing("transform chain %r: cannot parse %r" % (e, rest[:30]))
    return acc


def parse_tables(rd, strict=True):
    t = {'errors': []}

    def step(f):
        try:
            f()
        except (Missing, ValueError, IndexError, KeyError) as e:
            if strict:
                raise Missing(str(e))
            t['errors'].append(str(e))

    def features():
        src = rd(SWITCH)
        m = re.search(r"static FEATURES: &\[&str\] = &\[(.*?)\];", src, re.S)
        if not m:
            raise Missing("switch.rs: FEATURES list not found")
        fs = []
        for line in m.group(1).splitlines():
            line = line.strip()
            if not line or line.startswith('//'):         # commented-out entries are not supported features
                continue
            mm = re.match(r'"([^"]*)"\s*,\s*(//.*)?$', line)
            if not mm:
                raise Missing("switch.rs: unexpected line in FEATURES: %r" % line)
            fs.append(mm.group(1))
        if not fs or len(set(fs)) != len(fs):
            raise Missing("switch.rs: FEATURES list empty or with duplicates")
        t['features'] = fs
        b = norm(strip_comments(fn_body(src, 'is_condition_passed')))
        for frag in ("if !node.is_element() { return false; }",
                     "if node.has_attribute(AId::RequiredExtensions) { return false; }",
                     "for feature in features.split(' ') { if !FEATURES.contains(&feature) { return false; } }",
                     "if !is_valid_sys_lang(node, opt) { return false; } true"):
            if frag not in b:
                raise Missing("switch.rs is_condition_passed: fragment %r not found" % frag)
        c = norm(strip_comments(fn_body(src, 'convert')))
        if ".children() .find(|n| is_condition_passed(*n, state.opt))?;" not in c:
            raise Missing("switch.rs convert: first-passing-child selection changed")
        lang = norm(strip_comments(fn_body(src, 'is_valid_sys_lang')))
        for frag in ("for lang in langs.split(',') {", "let lang = lang.trim();", "if opt.languages.iter().any(|v| v == lang) {",
                     "if let Some(idx) = lang.bytes().position(|c| c == b'-') {", "let lang_prefix = &lang[..idx];",
                     "if opt.languages.iter().any(|v| v == lang_prefix) {", "} else { true }"):
            if frag not in lang:
                raise Missing("switch.rs is_valid_sys_lang: fragment %r not found" % frag)
    step(features)

    def retag():
        src = norm(strip_comments(rd(PARSE)))
        m = re.findall(r"if tag_name == EId::(\w+) \{ tag_name = EId::(\w+); \}", src)
        if len(m) != 1:
            raise Missing("parse.rs: expected one re-tagging rule, found %r" % (m,))
        t['retag'] = m[0]
    step(retag)

    def origin():
        src = strip_comments(rd(CONV))
        b = fn_body(src, 'resolve_transform')
        m = re.search(r"transform = (Transform::default\(\)(?:\s*\.\w+\([^)]*\))+);", b)
        if not m:
            raise Missing("converter.rs resolve_transform: transform-origin product not found")
        t['origin'] = chain_to_coq(m.group(1), {'dx': 'dx', 'dy': 'dy', 'transform': 'transform'})
        nb = norm(b)
        if "let mut transform: Transform = self.attribute(transform_aid).unwrap_or_default();" not in nb or \
                "if let Some(transform_origin) = transform_origin {" not in nb:
            raise Missing("converter.rs resolve_transform: structure changed")
    step(origin)

    def use_ts():
        src = strip_comments(rd(USE))
        b = norm(fn_body(src, 'convert'))
        for frag in ("let mut orig_ts = node.resolve_transform(AId::Transform, state);", "let mut new_ts = Transform::default();",
                     "new_ts = new_ts.pre_translate(x, y);", "if let Some(ts) = viewbox_transform(node, child, state) { new_ts = new_ts.pre_concat(ts); }",
                     "if let Some(clip_rect) = get_clip_rect(node, child, state) {",
                     "orig_ts = orig_ts.pre_concat(new_ts);",
                     "convert_children(node, orig_ts, &use_state, cache, true, parent);"):
            if frag not in b:
                raise Missing("use_node.rs convert: fragment %r not found" % frag)
        t['use_ts'] = chain_to_coq("orig_ts.pre_concat(new_ts)", {
            'orig_ts': 'orig_ts', 'new_ts': chain_to_coq("Transform::default().pre_translate(x, y)", {'x': 'x', 'y': 'y'})})
        t['use_vb_ts'] = chain_to_coq("orig_ts.pre_concat(new_ts)", {
            'orig_ts': 'orig_ts',
            'new_ts': chain_to_coq("Transform::default().pre_translate(x, y).pre_concat(ts)", {'x': 'x', 'y': 'y', 'ts': 'vbts'})})
        s = norm(fn_body(src, 'convert_svg'))
        for frag in ("new_ts = new_ts.pre_translate(x, y);", "if let Some(ts) = viewbox_transform(node, node, state) { new_ts = new_ts.pre_concat(ts); }",
                     "w = state.use_size.0.unwrap_or(w);", "h = state.use_size.1.unwrap_or(h);"):
            if frag not in s:
                raise Missing("use_node.rs convert_svg: fragment %r not found" % frag)
        # since fb5447a convert_svg only sets up the viewport: no second resolve_transform / convert_group on the element
        for frag in ("let mut g = clip_element(node, clip_rect, Transform::default(), state, cache);",
                     "convert_svg_children(node, new_ts, &new_state, cache, &mut g);",
                     "} else { convert_svg_children(node, new_ts, &new_state, cache, parent); }"):
            if frag not in s:
                raise Missing("use_node.rs convert_svg: fragment %r not found" % frag)
        if "resolve_transform" in s or "convert_group" in s:
            raise Missing("use_node.rs convert_svg resolves the element's own transform / group attributes again")
        c = norm(fn_body(src, 'convert_svg_children'))
        for frag in ("if transform.is_identity() { converter::convert_children(node, state, cache, parent); return; }",
                     "let mut g = Group { transform, abs_transform: parent.abs_transform.pre_concat(transform), ..Group::empty() };",
                     "converter::convert_children(node, state, cache, &mut g);"):
            if frag not in c:
                raise Missing("use_node.rs convert_svg_children: fragment %r not found" % frag)
        g = norm(fn_body(src, 'get_clip_rect'))
        for frag in ('Some("visible") | Some("auto")', "NonZeroRect::from_xywh(x, y, w, h)"):
            if frag not in g:
                raise Missing("use_node.rs get_clip_rect: fragment %r not found" % frag)
        v = norm(fn_body(src, 'viewbox_transform'))
        for frag in ("let size = Size::from_wh(w, h)?;", "let rect = linked.parse_viewbox()?;", "Some(view_box.to_transform(size))"):
            if frag not in v:
                raise Missing("use_node.rs viewbox_transform: fragment %r not found" % frag)
    step(use_ts)

    def radii():
        src = strip_comments(rd(SHAPES))
        r = norm(fn_body(src, 'convert_rect'))
        for frag in ("if rx > width / 2.0 { rx = width / 2.0; }", "if ry > height / 2.0 { ry = height / 2.0; }",
                     "let (mut rx, mut ry) = resolve_rx_ry(node, state);"):
            if frag not in r:
                raise Missing("shapes.rs convert_rect: fragment %r not found" % frag)
        q = norm(fn_body(src, 'resolve_rx_ry'))
        for frag in ("if v.number.is_sign_negative() { rx_opt = None; }", "if v.number.is_sign_negative() { ry_opt = None; }",
                     "(None, None) => (0.0, 0.0),", "(rx, rx) }", "(ry, ry) }", "(rx, ry) }"):
            if frag not in q:
                raise Missing("shapes.rs resolve_rx_ry: fragment %r not found" % frag)
        m = re.findall(r"if (rx|ry) > (width|height) / ([\d.]+) \{ (?:rx|ry) = (?:width|height) / ([\d.]+); \}", r)
        if len(m) != 2 or any(a != b for _, _, a, b in m):
            raise Missing("shapes.rs convert_rect: clamp expressions changed: %r" % (m,))
        from fractions import Fraction
        t['clamp_div'] = [Fraction(x[2]) for x in m]
    step(radii)
    return t


def render(t, header):
    o = [header, "From Coq Require Import String.\nFrom RV Require Import Model.Base Gen.SvgTables.\nLocal Open Scope string_scope.\n"]
    o.append("(* switch.rs: supported feature strings *)")
    o.append("Definition FEATURES : list string :=\n  [%s].\n" % ";\n   ".join('"%s"' % f for f in t['features']))
    o.append("(* svgtree/parse.rs: `if tag_name == EId::%s { tag_name = EId::%s; }` *)" % t['retag'])
    o.append("Definition retag (e : EId) : EId := if EId_eqb e E_%s then E_%s else e.\n" % t['retag'])
    o.append("Local Open Scope Q_scope.")
    o.append("(* converter.rs resolve_transform: the product used when transform-origin = (dx, dy) is present *)")
    o.append("Definition resolve_transform_origin (transform : ts) (dx dy : Q) : ts :=\n  %s.\n" % t['origin'])
    o.append("(* use_node.rs convert: transform of the group generated for `use x y` (orig_ts = its transform attribute) *)")
    o.append("Definition use_group_ts (orig_ts : ts) (x y : Q) : ts :=\n  %s.\n" % t['use_ts'])
    o.append("(* ... and for a symbol / nested svg target with a viewBox transform vbts *)")
    o.append("Definition use_viewport_ts (orig_ts : ts) (x y : Q) (vbts : ts) : ts :=\n  %s.\n" % t['use_vb_ts'])
    o.append("(* shapes.rs convert_rect: radii are clamped to side / RX_DIV, side / RY_DIV *)")
    o.append("Definition RX_DIV : Q := (%d # %d).\nDefinition RY_DIV : Q := (%d # %d).\n" % (
        t['clamp_div'][0].numerator, t['clamp_div'][0].denominator, t['clamp_div'][1].numerator, t['clamp_div'][1].denominator))
    return "\n".join(o) + "\n"


NEEDED = ('features', 'retag', 'origin', 'use_ts', 'use_vb_ts', 'clamp_div')


def generate(api):
    try:
        t = parse_tables(api.rd, strict=False)
    except (Missing, OSError) as e:
        api.broken('table', 'StructTables', PROPS, e)
        return
    if t['errors']:
        api.broken('table', 'StructTables', PROPS, '; '.join(t['errors']))
    # a lost control-flow anchor is a broken tie, but the definitions that could still be read are written, so
    # that the model the correspondences run against is never an arbitrary older state
    if all(k in t for k in NEEDED):
        api.write_gen('StructTables.v', render(t, api.HEADER))
        if not t['errors']:
            api.ok('tables', 'StructTables', props=PROPS, features=len(t['features']))
