"""T1 plug-in: Gen/StructTables.v from the structural converters of usvg (C10).

  * switch.rs        : the FEATURES list and the shape of is_condition_passed
  * svgtree/parse.rs : `a` is re-tagged as `g`
  * converter.rs     : resolve_transform - the transform-origin product, transcribed from the builder chain
  * use_node.rs      : how the use / nested-svg transforms are composed (translate, viewBox transform, concat)
  * shapes.rs        : rect radius rules (negative = absent, one-sided = both, clamp to half the side)
Anchors that are not found exactly are broken ties (api.broken).
"""
import re

PROPS = ['C10']
SWITCH = 'crates/usvg/src/parser/switch.rs'
PARSE = 'crates/usvg/src/parser/svgtree/parse.rs'
CONV = 'crates/usvg/src/parser/converter.rs'
USE = 'crates/usvg/src/parser/use_node.rs'
SHAPES = 'crates/usvg/src/parser/shapes.rs'


class Missing(Exception):
    pass


def strip_comments(src):
    src = re.sub(r"/\*.*?\*/", "", src, flags=re.S)
    src = re.sub(r"(?m)^\s*//[^\n]*$", "", src)
    return re.sub(r"(?m)^([^\"\n]*?)//[^\n]*$", r"\1", src)


def norm(s):
    return re.sub(r"\s+", " ", s).strip()


def fn_body(src, fn):
    ms = list(re.finditer(r"fn %s\s*(?:<[^>]*>)?\s*\(" % fn, src))
    if len(ms) != 1:
        raise Missing("fn %s: expected exactly one definition, found %d" % (fn, len(ms)))
    i = src.index('{', ms[0].end())
    depth = 0
    j = i
    while True:
        if src[j] == '{':
            depth += 1
        elif src[j] == '}':
            depth -= 1
            if depth == 0:
                return src[i + 1:j]
        j += 1


def chain_to_coq(expr, env):
    """`Transform::default().pre_translate(a, b).pre_concat(t)...` -> nested ts_concat (pre_X = multiply on the right)"""
    e = norm(expr)
    m = re.match(r"(Transform::default\(\)|[a-z_]+)", e)
    if not m:
        raise Missing("transform chain %r: unknown head" % e)
    head = m.group(1)
    acc = 'ts_identity' if head.startswith('Transform') else env[head]
    rest = e[m.end():]
    while rest:
        rest = rest.lstrip()
        m = re.match(r"\.pre_translate\(\s*(-?)([a-z_]+)\s*,\s*(-?)([a-z_]+)\s*\)", rest)
        if m:
            a = ('(- %s)' if m.group(1) else '%s') % env[m.group(2)]
            b = ('(- %s)' if m.group(3) else '%s') % env[m.group(4)]
            acc = "(ts_concat %s (from_translate %s %s))" % (acc, a, b)
            rest = rest[m.end():]
            continue
        m = re.match(r"\.pre_concat\(\s*([a-z_]+)\s*\)", rest)
        if m:
            acc = "(ts_concat %s %s)" % (acc, env[m.group(1)])
            rest = rest[m.end():]
            continue
        raise Missing("transform chain %r: cannot parse %r" % (e, rest[:30]))
    return acc


def parse_tables(rd, strict=True):
    t = {'errors': []}

    def step(f):
        try:
            f()
        except (Missing, ValueError, IndexError, KeyError) as e:
            if strict:
                raise Missing(str(e))
            t['errors'].append(str(e))

    def features():
        src = rd(SWITCH)
        m = re.search(r"static FEATURES: &\[&str\] = &\[(.*?)\];", src, re.S)
        if not m:
            raise Missing("switch.rs: FEATURES list not found")
        fs = []
        for line in m.group(1).splitlines():
            line = line.strip()
            if not line or line.startswith('//'):         # commented-out entries are not supported features
                continue
            mm = re.match(r'"([^"]*)"\s*,\s*(//.*)?$', line)
            if not mm:
                raise Missing("switch.rs: unexpected line in FEATURES: %r" % line)
            fs.append(mm.group(1))
        if not fs or len(set(fs)) != len(fs):
            raise Missing("switch.rs: FEATURES list empty or with duplicates")
        t['features'] = fs
        b = norm(strip_comments(fn_body(src, 'is_condition_passed')))
        for frag in ("if !node.is_element() { return false; }",
                     "if node.has_attribute(AId::RequiredExtensions) { return false; }",
                     "for feature in features.split(' ') { if !FEATURES.contains(&feature) { return false; } }",
                     "if !is_valid_sys_lang(node, opt) { return false; } true"):
            if frag not in b:
                raise Missing("switch.rs is_condition_passed: fragment %r not found" % frag)
        c = norm(strip_comments(fn_body(src, 'convert')))
        if ".children() .find(|n| is_condition_passed(*n, state.opt))?;" not in c:
            raise Missing("switch.rs convert: first-passing-child selection changed")
        lang = norm(strip_comments(fn_body(src, 'is_valid_sys_lang')))
        for frag in ("for lang in langs.split(',') {", "let lang = lang.trim();", "if opt.languages.iter().any(|v| v == lang) {",
                     "if let Some(idx) = lang.bytes().position(|c| c == b'-') {", "let lang_prefix = &lang[..idx];",
                     "if opt.languages.iter().any(|v| v == lang_prefix) {", "} else { true }"):
            if frag not in lang:
                raise Missing("switch.rs is_valid_sys_lang: fragment %r not found" % frag)
    step(features)

    def retag():
        src = norm(strip_comments(rd(PARSE)))
        m = re.findall(r"if tag_name == EId::(\w+) \{ tag_name = EId::(\w+); \}", src)
        if len(m) != 1:
            raise Missing("parse.rs: expected one re-tagging rule, found %r" % (m,))
        t['retag'] = m[0]
    step(retag)

    def origin():
        src = strip_comments(rd(CONV))
        b = fn_body(src, 'resolve_transform')
        m = re.search(r"transform = (Transform::default\(\)(?:\s*\.\w+\([^)]*\))+);", b)
        if not m:
            raise Missing("converter.rs resolve_transform: transform-origin product not found")
        t['origin'] = chain_to_coq(m.group(1), {'dx': 'dx', 'dy': 'dy', 'transform': 'transform'})
        nb = norm(b)
        if "let mut transform: Transform = self.attribute(transform_aid).unwrap_or_default();" not in nb or \
                "if let Some(transform_origin) = transform_origin {" not in nb:
            raise Missing("converter.rs resolve_transform: structure changed")
    step(origin)

    def use_ts():
        src = strip_comments(rd(USE))
        b = norm(fn_body(src, 'convert'))
        for frag in ("let mut orig_ts = node.resolve_transform(AId::Transform, state);", "let mut new_ts = Transform::default();",
                     "new_ts = new_ts.pre_translate(x, y);", "if let Some(ts) = viewbox_transform(node, child, state) { new_ts = new_ts.pre_concat(ts); }",
                     "if let Some(clip_rect) = get_clip_rect(node, child, state) {",
                     "orig_ts = orig_ts.pre_concat(new_ts);",
                     "convert_children(node, orig_ts, &use_state, cache, true, parent);"):
            if frag not in b:
                raise Missing("use_node.rs convert: fragment %r not found" % frag)
        # use -> symbol group structure (since 214a8de the use group keeps orig_ts in both branches; Model.Structure.convert_use_symbol)
        for frag in ("let mut g = clip_element(node, clip_rect, orig_ts, &use_state, cache);",
                     "converter::convert_group(node, &use_state, true, cache, &mut g, &|cache, g2| { convert_children(child, new_ts, &use_state, cache, false, g2); })",
                     "g2.transform = Transform::default();",
                     "converter::convert_group(node, &use_state, false, cache, parent, &|cache, g| { convert_children(child, new_ts, &use_state, cache, false, g); })",
                     "} else { orig_ts = orig_ts.pre_concat(new_ts); let linked_to_svg = child.tag_name() == Some(EId::Svg);"):
            if frag not in b:
                raise Missing("use_node.rs convert (use -> symbol): fragment %r not found" % frag)
        if re.search(r"\bg\.transform = ", b):
            raise Missing("use_node.rs convert: the use group's transform is reassigned (convert_use_symbol expects it kept)")
        t['use_ts'] = chain_to_coq("orig_ts.pre_concat(new_ts)", {
            'orig_ts': 'orig_ts', 'new_ts': chain_to_coq("Transform::default().pre_translate(x, y)", {'x': 'x', 'y': 'y'})})
        t['use_vb_ts'] = chain_to_coq("orig_ts.pre_concat(new_ts)", {
            'orig_ts': 'orig_ts',
            'new_ts': chain_to_coq("Transform::default().pre_translate(x, y).pre_concat(ts)", {'x': 'x', 'y': 'y', 'ts': 'vbts'})})
        s = norm(fn_body(src, 'convert_svg'))
        for frag in ("new_ts = new_ts.pre_translate(x, y);", "if let Some(ts) = viewbox_transform(node, node, state) { new_ts = new_ts.pre_concat(ts); }",
                     "w = state.use_size.0.unwrap_or(w);", "h = state.use_size.1.unwrap_or(h);"):
            if frag not in s:
                raise Missing("use_node.rs convert_svg: fragment %r not found" % frag)
        # since fb5447a convert_svg only sets up the viewport: no second resolve_transform / convert_group on the element
        for frag in ("let mut g = clip_element(node, clip_rect, Transform::default(), state, cache);",
                     "convert_svg_children(node, new_ts, &new_state, cache, &mut g);",
                     "} else { convert_svg_children(node, new_ts, &new_state, cache, parent); }"):
            if frag not in s:
                raise Missing("use_node.rs convert_svg: fragment %r not found" % frag)
        if "resolve_transform" in s or "convert_group" in s:
            raise Missing("use_node.rs convert_svg resolves the element's own transform / group attributes again")
        c = norm(fn_body(src, 'convert_svg_children'))
        for frag in ("if transform.is_identity() { converter::convert_children(node, state, cache, parent); return; }",
                     "let mut g = Group { transform, abs_transform: parent.abs_transform.pre_concat(transform), ..Group::empty() };",
                     "converter::convert_children(node, state, cache, &mut g);"):
            if frag not in c:
                raise Missing("use_node.rs convert_svg_children: fragment %r not found" % frag)
        g = norm(fn_body(src, 'get_clip_rect'))
        for frag in ('Some("visible") | Some("auto")', "NonZeroRect::from_xywh(x, y, w, h)"):
            if frag not in g:
                raise Missing("use_node.rs get_clip_rect: fragment %r not found" % frag)
        v = norm(fn_body(src, 'viewbox_transform'))
        for frag in ("let size = Size::from_wh(w, h)?;", "let rect = linked.parse_viewbox()?;", "Some(view_box.to_transform(size))"):
            if frag not in v:
                raise Missing("use_node.rs viewbox_transform: fragment %r not found" % frag)
    step(use_ts)

    def radii():
        src = strip_comments(rd(SHAPES))
        r = norm(fn_body(src, 'convert_rect'))
        for frag in ("if rx > width / 2.0 { rx = width / 2.0; }", "if ry > height / 2.0 { ry = height / 2.0; }",
                     "let (mut rx, mut ry) = resolve_rx_ry(node, state);"):
            if frag not in r:
                raise Missing("shapes.rs convert_rect: fragment %r not found" % frag)
        q = norm(fn_body(src, 'resolve_rx_ry'))
        for frag in ("if v.number.is_sign_negative() { rx_opt = None; }", "if v.number.is_sign_negative() { ry_opt = None; }",
                     "(None, None) => (0.0, 0.0),", "(rx, rx) }", "(ry, ry) }", "(rx, ry) }"):
            if frag not in q:
                raise Missing("shapes.rs resolve_rx_ry: fragment %r not found" % frag)
        m = re.findall(r"if (rx|ry) > (width|height) / ([\d.]+) \{ (?:rx|ry) = (?:width|height) / ([\d.]+); \}", r)
        if len(m) != 2 or any(a != b for _, _, a, b in m):
            raise Missing("shapes.rs convert_rect: clamp expressions changed: %r" % (m,))
        from fractions import Fraction
        t['clamp_div'] = [Fraction(x[2]) for x in m]
    step(radii)
    return t



# ---- shapes.rs: the builder-call scripts of the basic shapes (Gen/ShapePaths.v) ------------------------------
WARN = r"log::warn!\((?:[^;\"]|\"[^\"]*\")*\);"
NEWB = r"let mut builder = tiny_skia_path::PathBuilder::new\(\);"
CALL = r"builder\.\w+\((?:[^;]*)\);"


def split_args(a):
    out, depth, cur = [], 0, ''
    for ch in a:
        if ch in '([':
            depth += 1
        elif ch in ')]':
            depth -= 1
        if ch == ',' and depth == 0:
            out.append(cur.strip())
            cur = ''
        else:
            cur += ch
    if cur.strip():
        out.append(cur.strip())
    return out


def expr_to_coq(e):
    """arithmetic over identifiers (+ - * / and float literals, `as f32` casts dropped) -> Q expression text"""
    e = re.sub(r"\s+as f32\b", "", e.strip())
    if not re.fullmatch(r"[a-z_0-9 +\-*/().]+", e) or not e:
        raise Missing("shapes.rs: expression %r is outside the transcribed subset" % e)
    e = re.sub(r"\b(\d+)\.0\b", r"\1", e)
    if re.search(r"\d\.\d", e):
        raise Missing("shapes.rs: non-integral literal in %r" % e)
    return "(%s)" % e if re.search(r"[ +\-*/]", e) else e


def call_to_bop(call):
    m = re.fullmatch(r"builder\.(\w+)\((.*)\);", call.strip())
    if not m:
        raise Missing("shapes.rs: %r is not a builder call" % call)
    name, args = m.group(1), split_args(m.group(2))
    arity = {'move_to': ('BMove', 2), 'line_to': ('BLine', 2), 'quad_to': ('BQuad', 4), 'cubic_to': ('BCubic', 6), 'close': ('BClose', 0)}
    if name == 'arc_to':
        if len(args) != 7 or [norm(a) for a in args[2:5]] != ['0.0', 'false', 'true']:
            raise Missing("shapes.rs: arc_to with unexpected flags: %r" % call)
        return "BArc %s" % ' '.join(expr_to_coq(a) for a in args[:2] + args[5:])
    if name not in arity or len(args) != arity[name][1]:
        raise Missing("shapes.rs: unexpected builder call %r" % call)
    return ("%s %s" % (arity[name][0], ' '.join(expr_to_coq(a) for a in args))).strip()


def script_of(text):
    calls = re.findall(CALL, text)
    if norm(''.join(calls)) != norm(text).replace('; ', ';'):
        raise Missing("shapes.rs: statements other than builder calls in %r" % text[:80])
    return "[%s]" % '; '.join(call_to_bop(c) for c in calls)


def full(pattern, text, what):
    m = re.fullmatch(pattern, text)
    if not m:
        raise Missing("shapes.rs %s: body no longer has the transcribed form" % what)
    return m


def parse_shapes(rd):
    src = strip_comments(rd(SHAPES))
    s = {}
    b = norm(fn_body(src, 'points_to_path'))
    m = full(r"use svgtypes::PointsParser; " + NEWB + r" match node\.attribute::<&str>\(AId::Points\) \{ Some\(text\) => \{ "
             r"for \(x, y\) in PointsParser::from\(text\) \{ if builder\.is_empty\(\) \{ (" + CALL + r") \} else \{ (" + CALL + r") \} \} \} "
             r"_ => \{ " + WARN + r" return None; \} \}; if builder\.len\(\) < (\d+) \{ " + WARN + r" return None; \} Some\(builder\)",
             b, 'points_to_path')
    s['pts_first'], s['pts_next'], s['pts_min'] = call_to_bop(m.group(1)), call_to_bop(m.group(2)), int(m.group(3))
    m = full(r'let builder = points_to_path\(node, "Polyline"\)\?; builder\.finish\(\)\.map\(Arc::new\)',
             norm(fn_body(src, 'convert_polyline')), 'convert_polyline')
    m = full(r'let mut builder = points_to_path\(node, "Polygon"\)\?; ((?:' + CALL + r' )*)builder\.finish\(\)\.map\(Arc::new\)',
             norm(fn_body(src, 'convert_polygon')), 'convert_polygon')
    s['polygon_tail'] = script_of(m.group(1))
    lens = r"((?:let \w+ = node\.convert_user_length\(AId::\w+, state, Length::zero\(\)\); )+)"
    m = full(lens + NEWB + r" ((?:" + CALL + r" )+)builder\.finish\(\)\.map\(Arc::new\)", norm(fn_body(src, 'convert_line')), 'convert_line')
    if re.findall(r"let (\w+) = node\.convert_user_length\(AId::(\w+),", m.group(1)) != [('x1', 'X1'), ('y1', 'Y1'), ('x2', 'X2'), ('y2', 'Y2')]:
        raise Missing("shapes.rs convert_line: attribute bindings changed")
    s['line'] = script_of(m.group(2))
    m = full(NEWB + r" ((?:" + CALL + r" )+)builder\.finish\(\)\.map\(Arc::new\)", norm(fn_body(src, 'ellipse_to_path')), 'ellipse_to_path')
    s['ellipse'] = script_of(m.group(1))
    guard = r"if !(\w+)\.is_valid_length\(\) \{ " + WARN + r" return None; \}"
    c = norm(fn_body(src, 'convert_circle'))
    m = full(lens + r"((?:" + guard + r" )*)ellipse_to_path\(cx, cy, r, r\)", c, 'convert_circle')
    if re.findall(r"let (\w+) = node\.convert_user_length\(AId::(\w+),", m.group(1)) != [('cx', 'Cx'), ('cy', 'Cy'), ('r', 'R')]:
        raise Missing("shapes.rs convert_circle: attribute bindings changed")
    s['circle_guards'] = re.findall(guard, m.group(2))
    e = norm(fn_body(src, 'convert_ellipse'))
    m = full(lens + r"let \(rx, ry\) = resolve_rx_ry\(node, state\); ((?:" + guard + r" )*)ellipse_to_path\(cx, cy, rx, ry\)", e, 'convert_ellipse')
    if re.findall(r"let (\w+) = node\.convert_user_length\(AId::(\w+),", m.group(1)) != [('cx', 'Cx'), ('cy', 'Cy')]:
        raise Missing("shapes.rs convert_ellipse: attribute bindings changed")
    s['ellipse_guards'] = re.findall(guard, m.group(2))
    r_ = norm(fn_body(src, 'convert_rect'))
    m = full(r"let width = node\.convert_user_length\(AId::Width, state, Length::zero\(\)\); "
             r"let height = node\.convert_user_length\(AId::Height, state, Length::zero\(\)\); ((?:" + guard + r" )*)"
             r"let x = node\.convert_user_length\(AId::X, state, Length::zero\(\)\); let y = node\.convert_user_length\(AId::Y, state, Length::zero\(\)\); "
             r"let \(mut rx, mut ry\) = resolve_rx_ry\(node, state\); "
             r"if rx > width / [\d.]+ \{ rx = width / [\d.]+; \} if ry > height / [\d.]+ \{ ry = height / [\d.]+; \} "
             r"let path = if rx\.approx_eq_ulps\(&0\.0, 4\) \{ tiny_skia_path::PathBuilder::from_rect\(Rect::from_xywh\(x, y, width, height\)\?\) \} "
             r"else \{ " + NEWB + r" ((?:" + CALL + r" )+)builder\.finish\(\)\? \}; Some\(Arc::new\(path\)\)", r_, 'convert_rect')
    s['rect_guards'] = re.findall(guard, m.group(1))
    s['rect_round'] = script_of(m.groups()[-1])
    p = norm(fn_body(src, 'convert_path'))
    m = full(r"let value: &str = node\.attribute\(AId::D\)\?; " + NEWB + r" for segment in svgtypes::SimplifyingPathParser::from\(value\) \{ "
             r"let segment = match segment \{ Ok\(v\) => v, Err\(_\) => break, \}; match segment \{ (.*) \} \} builder\.finish\(\)\.map\(Arc::new\)",
             p, 'convert_path')
    arms = re.findall(r"svgtypes::SimplePathSegment::(\w+)(?: \{ ([\w, ]*?),? \})? => \{ (" + CALL + r") \}", m.group(1))
    rest = re.sub(r"svgtypes::SimplePathSegment::(\w+)(?: \{ ([\w, ]*?),? \})? => \{ (" + CALL + r") \}", "", m.group(1)).strip()
    ctor = {'MoveTo': ('PMove', 'x y'), 'LineTo': ('PLine', 'x y'), 'Quadratic': ('PQuad', 'x1 y1 x y'),
            'CurveTo': ('PCurve', 'x1 y1 x2 y2 x y'), 'ClosePath': ('PClose', '')}
    if rest or sorted(a[0] for a in arms) != sorted(ctor):
        raise Missing("shapes.rs convert_path: segment dispatch changed (%r)" % (rest or [a[0] for a in arms]))
    s['path_arms'] = []
    for name, fields, call in arms:
        if ' '.join(f.strip() for f in fields.split(',') if f.strip()) != ctor[name][1]:
            raise Missing("shapes.rs convert_path: fields of %s changed" % name)
        s['path_arms'].append((ctor[name][0], ctor[name][1], call_to_bop(call)))
    return s


# transcription of shapes.rs at /repo cc5bdf2; used ONLY after a broken tie has been reported (see generate)
PINNED_SHAPES = {'circle_guards': ['r'],
 'ellipse': '[BMove (cx + rx) cy; BArc rx ry cx (cy + ry); BArc rx ry (cx - rx) cy; BArc rx ry cx (cy - ry); BArc rx ry (cx + rx) cy; BClose]',
 'ellipse_guards': ['rx', 'ry'],
 'line': '[BMove x1 y1; BLine x2 y2]',
 'path_arms': [('PMove', 'x y', 'BMove x y'),
               ('PLine', 'x y', 'BLine x y'),
               ('PQuad', 'x1 y1 x y', 'BQuad x1 y1 x y'),
               ('PCurve', 'x1 y1 x2 y2 x y', 'BCubic x1 y1 x2 y2 x y'),
               ('PClose', '', 'BClose')],
 'polygon_tail': '[BClose]',
 'pts_first': 'BMove x y',
 'pts_min': 2,
 'pts_next': 'BLine x y',
 'rect_guards': ['width', 'height'],
 'rect_round': '[BMove (x + rx) y; BLine (x + width - rx) y; BArc rx ry (x + width) (y + ry); BLine (x + width) (y + height - ry); BArc rx ry (x + '
               'width - rx) (y + height); BLine (x + rx) (y + height); BArc rx ry x (y + height - ry); BLine x (y + ry); BArc rx ry (x + rx) y; '
               'BClose]'}


def render_shapes(s, header):
    def guards(gs):
        return ' && '.join('valid_length %s' % g for g in gs) if gs else 'true'
    o = [header, "From RV Require Import Model.Base Model.ShapePath.\nLocal Open Scope Q_scope.\n",
         "(* IsValidLength::is_valid_length: > 0 (and finite) *)\nDefinition valid_length (v : Q) : bool := Qltb 0 v.\n",
         "(* shapes.rs points_to_path: the loop body, the minimal number of verbs *)",
         "Definition points_to_path_step (builder : pbuilder) (p : Q * Q) : pbuilder :=\n  let x := fst p in let y := snd p in\n"
         "  if pb_is_empty builder then run_op builder (%s) else run_op builder (%s)." % (s['pts_first'], s['pts_next']),
         "Definition POINTS_MIN_LEN : nat := %d." % s['pts_min'],
         "Definition points_to_path (pts : list (Q * Q)) : option pbuilder :=\n  let builder := fold_left points_to_path_step pts pb_new in\n"
         "  if Nat.ltb (pb_len builder) POINTS_MIN_LEN then None else Some builder.",
         "Definition convert_polyline (pts : list (Q * Q)) : option (list seg) :=\n  match points_to_path pts with Some builder => pb_finish builder | None => None end.",
         "Definition convert_polygon (pts : list (Q * Q)) : option (list seg) :=\n  match points_to_path pts with Some builder => pb_finish (run_script %s builder) | None => None end.\n" % s['polygon_tail'],
         "Definition convert_line (x1 y1 x2 y2 : Q) : option (list seg) :=\n  pb_finish (run_script %s pb_new).\n" % s['line'],
         "Definition ellipse_to_path (cx cy rx ry : Q) : option (list seg) :=\n  pb_finish (run_script\n    %s pb_new)." % s['ellipse'],
         "Definition convert_circle (cx cy r : Q) : option (list seg) :=\n  if %s then ellipse_to_path cx cy r r else None." % guards(s['circle_guards']),
         "(* rx, ry as resolved by resolve_rx_ry *)\nDefinition convert_ellipse (cx cy rx ry : Q) : option (list seg) :=\n  if %s then ellipse_to_path cx cy rx ry else None.\n" % guards(s['ellipse_guards']),
         "(* shapes.rs convert_rect after the radii are resolved and clamped *)",
         "Definition rect_guard (width height : Q) : bool := %s." % guards(s['rect_guards']),
         "Definition rect_path (x y width height rx ry : Q) : option (list seg) :=\n  if Qeqb rx 0 then Some (path_from_rect x y width height)\n"
         "  else pb_finish (run_script\n    %s pb_new).\n" % s['rect_round'],
         "(* shapes.rs convert_path: one builder call per simplified segment *)",
         "Definition path_seg_op (s : simple_seg) : bop :=\n  match s with\n%s\n  end." % "\n".join(
             "  | %s %s => %s" % (c, f, b) for c, f, b in s['path_arms']),
         "Definition convert_path (d : list simple_seg) : option (list seg) :=\n  pb_finish (run_script (map path_seg_op d) pb_new)."]
    return "\n".join(o) + "\n"



# ---- use_node.rs get_clip_rect: the decision whether a new viewport is clipped, and by which rectangle (Gen/UseClip.v) ----
COND_TOKENS = [("state.use_size.0.is_none()", "is_none us0"), ("state.use_size.1.is_none()", "is_none us1"),
               ("use_node.has_attribute(AId::Width)", "has_width"), ("use_node.has_attribute(AId::Height)", "has_height"),
               ("!w.is_valid_length()", "negb (valid_len w)"), ("!h.is_valid_length()", "negb (valid_len h)"),
               ("w.is_valid_length()", "valid_len w"), ("h.is_valid_length()", "valid_len h"), ("!(", "negb (")]


def cond_to_coq(c):
    for a, b in COND_TOKENS:
        c = c.replace(a, b)
    if not re.fullmatch(r"(?:is_none us[01]|has_width|has_height|negb|valid_len [wh]|&&|\|\||[() ])+", c):
        raise Missing("use_node.rs get_clip_rect: condition %r is outside the transcribed subset" % c)
    return c


def parse_use_clip(rd):
    src = strip_comments(rd(USE))
    b = norm(fn_body(src, 'get_clip_rect'))
    is_svg = r"use_node\.tag_name\(\) == Some\(EId::Svg\)"
    m = re.fullmatch(
        r"if matches!\( symbol_node\.attribute\(AId::Overflow\), ((?:Some\(\"[a-z-]+\"\)(?: \| )?)+) \) \{ return None; \} "
        r"if " + is_svg + r" \{ if (.+?) \{ if (.+?) \{ return None; \} \} \} "
        r"let \(x, y, mut w, mut h\) = \{ let x = use_node\.convert_user_length\(AId::X, state, Length::zero\(\)\); "
        r"let y = use_node\.convert_user_length\(AId::Y, state, Length::zero\(\)\); let \(w, h\) = use_node_size\(use_node, state\); \(x, y, w, h\) \}; "
        r"if " + is_svg + r" \{ w = state\.use_size\.0\.unwrap_or\(w\); h = state\.use_size\.1\.unwrap_or\(h\); \} "
        r"if (.+?) \{ return None; \} NonZeroRect::from_xywh\(x, y, w, h\)", b)
    if not m:
        raise Missing("use_node.rs get_clip_rect: body no longer has the transcribed form")
    u = {'overflow': re.findall(r'Some\("([a-z-]+)"\)', m.group(1)),
         'c1': cond_to_coq(m.group(2)), 'c2': cond_to_coq(m.group(3)), 'invalid': cond_to_coq(m.group(4))}
    n = norm(fn_body(src, 'use_node_size'))
    if n != ("let def = Length::new(100.0, LengthUnit::Percent); let w = node.convert_user_length(AId::Width, state, def); "
             "let h = node.convert_user_length(AId::Height, state, def); (w, h)"):
        raise Missing("use_node.rs use_node_size changed")
    return u


PINNED_USE_CLIP = {'overflow': ['visible', 'auto'], 'c1': 'is_none us0 && is_none us1', 'c2': 'negb (has_width && has_height)',
                   'invalid': 'negb (valid_len w) || negb (valid_len h)'}


def render_use_clip(u, header):
    return "\n".join([
        header, "From Coq Require Import String.\nFrom RV Require Import Model.Base Model.GeomPrims.\nLocal Open Scope Q_scope.\n",
        "Definition is_none {A} (o : option A) : bool := match o with None => true | Some _ => false end.",
        "Definition unwrap_or (o : option Q) (d : Q) : Q := match o with Some v => v | None => d end.",
        "Definition valid_len (v : Q) : bool := Qltb 0 v.\n",
        "(* use_node.rs get_clip_rect: overflow values that switch the viewport clip off *)",
        "Definition OVERFLOW_NO_CLIP : list string := [%s]%%string.\n" % '; '.join('"%s"' % o for o in u['overflow']),
        "(* get_clip_rect(use_node, symbol_node, state): `is_svg` = use_node is an svg element; us0, us1 = state.use_size;",
        "   x, y, w, h = the resolved x, y, width (default 100%), height (default 100%) of use_node *)",
        "Definition get_clip_rect (is_svg : bool) (overflow : option string) (us0 us1 : option Q) (has_width has_height : bool)",
        "    (x y w h : Q) : option qrect :=",
        "  if match overflow with Some o => existsb (String.eqb o) OVERFLOW_NO_CLIP | None => false end then None",
        "  else if is_svg && (%s) && (%s) then None" % (u['c1'], u['c2']),
        "  else let w := if is_svg then unwrap_or us0 w else w in",
        "       let h := if is_svg then unwrap_or us1 h else h in",
        "       if %s then None else Some {| rx := x; ry := y; rw := w; rh := h |}." % u['invalid'], ""])


def render(t, header):
    o = [header, "From Coq Require Import String.\nFrom RV Require Import Model.Base Gen.SvgTables.\nLocal Open Scope string_scope.\n"]
    o.append("(* switch.rs: supported feature strings *)")
    o.append("Definition FEATURES : list string :=\n  [%s].\n" % ";\n   ".join('"%s"' % f for f in t['features']))
    o.append("(* svgtree/parse.rs: `if tag_name == EId::%s { tag_name = EId::%s; }` *)" % t['retag'])
    o.append("Definition retag (e : EId) : EId := if EId_eqb e E_%s then E_%s else e.\n" % t['retag'])
    o.append("Local Open Scope Q_scope.")
    o.append("(* converter.rs resolve_transform: the product used when transform-origin = (dx, dy) is present *)")
    o.append("Definition resolve_transform_origin (transform : ts) (dx dy : Q) : ts :=\n  %s.\n" % t['origin'])
    o.append("(* use_node.rs convert: transform of the group generated for `use x y` (orig_ts = its transform attribute) *)")
    o.append("Definition use_group_ts (orig_ts : ts) (x y : Q) : ts :=\n  %s.\n" % t['use_ts'])
    o.append("(* ... and for a symbol / nested svg target with a viewBox transform vbts *)")
    o.append("Definition use_viewport_ts (orig_ts : ts) (x y : Q) (vbts : ts) : ts :=\n  %s.\n" % t['use_vb_ts'])
    o.append("(* shapes.rs convert_rect: radii are clamped to side / RX_DIV, side / RY_DIV *)")
    o.append("Definition RX_DIV : Q := (%d # %d).\nDefinition RY_DIV : Q := (%d # %d).\n" % (
        t['clamp_div'][0].numerator, t['clamp_div'][0].denominator, t['clamp_div'][1].numerator, t['clamp_div'][1].denominator))
    return "\n".join(o) + "\n"


NEEDED = ('features', 'retag', 'origin', 'use_ts', 'use_vb_ts', 'clamp_div')


def gen_use_clip(api):
    try:
        u = parse_use_clip(api.rd)
    except (Missing, OSError, ValueError, IndexError, KeyError) as e:
        api.broken('table', 'UseClip', PROPS, e)
        # as for ShapePaths: pinned text only so that the correspondence can search for a failing input
        api.write_gen('UseClip.v', render_use_clip(PINNED_USE_CLIP, api.HEADER + "(* BROKEN TIE: pinned transcription of get_clip_rect "
                                                   "at /repo cc5bdf2, not the current source *)\n"))
        return
    api.write_gen('UseClip.v', render_use_clip(u, api.HEADER))
    api.ok('tables', 'UseClip', props=PROPS)


MOD = 'crates/usvg/src/parser/mod.rs'


def gen_gzip_magic(api):
    """Tree::from_data: the byte prefix that selects the gzip path (RFC 1952: ID1 ID2 only; CM / FLG belong to the decoder)"""
    try:
        b = norm(fn_body(strip_comments(api.rd(MOD)), 'from_data'))
        m = re.match(r"if data\.starts_with\(&\[((?:0x[0-9a-fA-F]{2}(?:, )?)+)\]\) \{ let data = decompress_svgz\(data\)\?; "
                     r"let text = std::str::from_utf8\(&data\)\.map_err\(\|_\| Error::NotAnUtf8Str\)\?; Self::from_str\(text, opt\) \} else \{", b)
        if not m:
            raise Missing("mod.rs Tree::from_data: gzip detection no longer has the transcribed form")
        magic = [int(x, 16) for x in m.group(1).split(', ')]
    except (Missing, OSError, ValueError) as e:
        api.broken('table', 'GzipMagic', PROPS, e)
        magic = [0x1f, 0x8b]
    api.write_gen('GzipMagic.v', api.HEADER + "From RV Require Import Model.Base.\n(* mod.rs Tree::from_data: data.starts_with(&[..]) selects "
                  "the gzip path *)\nDefinition GZIP_MAGIC : list N := [%s]%%N.\n" % '; '.join(str(v) for v in magic))


def generate(api):
    try:
        t = parse_tables(api.rd, strict=False)
    except (Missing, OSError) as e:
        api.broken('table', 'StructTables', PROPS, e)
        return
    if t['errors']:
        api.broken('table', 'StructTables', PROPS, '; '.join(t['errors']))
    # a lost control-flow anchor is a broken tie, but the definitions that could still be read are written, so
    # that the model the correspondences run against is never an arbitrary older state
    if all(k in t for k in NEEDED):
        api.write_gen('StructTables.v', render(t, api.HEADER))
        if not t['errors']:
            api.ok('tables', 'StructTables', props=PROPS, features=len(t['features']))
    gen_use_clip(api)
    gen_gzip_magic(api)
    try:
        sh = parse_shapes(api.rd)
    except (Missing, OSError, ValueError, IndexError, KeyError) as e:
        # the previous Gen/ShapePaths.v stays: the correspondence `shape-path` then runs the last readable scripts
        # against the current code, which is what finds the failing input
        api.broken('table', 'ShapePaths', PROPS, e)
        # broken tie (always reported): the pinned transcription is written only so that the model still compiles and the
        # correspondence `shape-path` can search for a concrete failing input against the changed code
        api.write_gen('ShapePaths.v', render_shapes(PINNED_SHAPES, api.HEADER + "(* BROKEN TIE: pinned transcription of shapes.rs at /repo cc5bdf2, "
                                                    "not the current source *)\n"))
        return
    api.write_gen('ShapePaths.v', render_shapes(sh, api.HEADER))
    api.ok('tables', 'ShapePaths', props=PROPS, scripts=6)
