#!/bin/bash
# usage: run_seeds.sh <slot> <names...>
slot=$1; shift
cd /verif
for n in "$@"; do echo "=== $n"; python3 tools/seedtest.py seeded/$n --slot $slot; done
