"""Plug-in (C02, extension round 4): source-derived Coq for the surfaces resvg allocates and the data-dependent loops of
the filter kernels.

Gen/C02Sites.v
  alloc_sites          every buffer-creating expression of crates/resvg/src (all files but main.rs / verif_hooks.rs):
                       Pixmap::new / try_create / from_vec / decode_png, Mask::new / from_pixmap, vec![..], Vec::with_capacity,
                       .to_vec(), .clone(), .copy_region(, .collect::<Vec..  Key = (file, fn, constructor, argument text, ordinal).
  panic_sites          every unwrap / expect / assert / debug_assert / unreachable / panic of the same files (same key shape)
  index_counts         number of index expressions per (file, fn)
  translate_checked    filter/mod.rs: the checked move of a primitive subregion into the region's frame (rs2coq), its i64 steps
  surface_buffers      the size arguments of every Pixmap::new / Mask::new of clip.rs, mask.rs, image.rs::render_vector as a
                       function of the size of the surface the function was handed (rs2coq; vocabulary pixmap.width()/height())
  surface_calls_ok     render_group hands its own layer (`&mut sub_pixmap`) to filter / clip / mask, clip.rs / mask.rs recurse with
                       the surface they were given or with a buffer of its size
  pattern_tile_size    path.rs::render_pattern_pixmap: the IntSize::from_wh arguments
  filter_alloc_args    the argument vocabulary of every Pixmap::try_create in filter/mod.rs ("region" | "input")

Gen/LeafLoops.v
  bb_*                 box_blur.rs: the range expressions of the four per-line loops and the guard between them (vert = horz)
  conv_wrap_step/_fin  convolve_matrix.rs EdgeMode::Wrap: body of `while tx < 0`, the final `%=`
  iir_*                iir_blur.rs: buffer length, start / step / condition of the two vertical `while` loops, `steps`
  turb_octave_trips    turbulence.rs: bound of the per-pixel octave loop as a function of the document's numOctaves

Coq/Proofs/C02Ledger.v classifies every key (hand-maintained); Props/C02.v proves the ledger covers the generated lists,
so a new / edited allocation or panic site has no entry and breaks `C02_sites_discharged` / `C02_alloc_sites_classified`.
"""
import os
import re

PROPS = ['C02']
ROOT = 'crates/resvg/src'
SKIP = ('main.rs', 'verif_hooks.rs')

ALLOC = [
    ('Pixmap::new', r"\bPixmap::new\s*\("),
    ('Pixmap::try_create', r"\bPixmap::try_create\s*\("),
    ('Pixmap::from_vec', r"\bPixmap::from_vec\s*\("),
    ('Pixmap::decode_png', r"\bPixmap::decode_png\s*\("),
    ('Mask::new', r"\bMask::new\s*\("),
    ('Mask::from_pixmap', r"\bMask::from_pixmap\s*\("),
    ('vec!', r"\bvec!\s*\["),
    ('Vec::with_capacity', r"\bVec::with_capacity\s*\("),
    ('Vec::new', r"\bVec::new\s*\("),
    ('to_vec', r"\.\s*to_vec\s*\("),
    ('clone', r"\.\s*clone\s*\("),
    ('copy_region', r"\.\s*copy_region\s*\("),
    ('collect', r"\.\s*collect\s*(?:::\s*<[^;()]*>)?\s*\("),
    ('render_tree', r"\bcrate::render\s*\("),
]


def balanced(src, i):
    o = src[i]
    c = {'(': ')', '[': ']', '{': '}'}[o]
    depth = 0
    j = i
    while j < len(src):
        if src[j] == o:
            depth += 1
        elif src[j] == c:
            depth -= 1
            if depth == 0:
                return j + 1
        j += 1
    raise ValueError("unbalanced")


def squeeze(t):
    return re.sub(r"\s+", " ", t).strip()


def receiver(code, src, a):
    """postfix chain that ends at position a (for method-call constructors)"""
    j = a
    while j > 0:
        ch = code[j - 1]
        if ch.isalnum() or ch in '_.:*&':
            j -= 1
        elif ch in ')]':
            depth = 0
            k = j - 1
            while k >= 0:
                if code[k] in ')]':
                    depth += 1
                elif code[k] in '([':
                    depth -= 1
                    if depth == 0:
                        break
                k -= 1
            j = max(k, 0)
        elif ch in ' \n' and re.search(r"[)\w]\s*$", code[:j]) and re.match(r"\s*\.", code[j:a + 1]):
            j -= 1
        else:
            break
    return squeeze(src[j:a])[-120:]


def generate(api):
    import gen_sites as gs
    rs = api.rs2coq
    U = api.Unsupported
    repo = os.environ.get('VERIF_REPO', '/repo')
    base = os.path.join(repo, ROOT)
    files = []
    for d, _, fs in os.walk(base):
        for f in sorted(fs):
            rel = os.path.relpath(os.path.join(d, f), base)
            if f.endswith('.rs') and rel not in SKIP:
                files.append(rel)
    files.sort()

    out = [api.HEADER,
           "From Coq Require Import String List ZArith QArith.\nFrom RV Require Import Model.Base Model.RenderPrims.\nImport ListNotations.\nLocal Open Scope string_scope.\n",
           "Record asite := mk_asite { a_file : string; a_fn : string; a_ctor : string; a_args : string; a_ord : nat }.",
           "Inductive pkind := PUnwrap | PExpect | PAssert | PDebugAssert | PUnreachable | PPanic.",
           "Record psite := mk_psite { p_file : string; p_fn : string; p_kind : pkind; p_text : string; p_ord : nat }.\n"]
    lines_txt = []
    try:
        asites, psites, icounts = [], [], []
        for rel in files:
            src0 = api.rd(os.path.join(ROOT, rel))
            code = gs.blank_comments_and_strings(src0)
            src = gs.blank_comments(src0)
            tm = re.search(r"#\[cfg\((?:test|resvg_verif)\)\]\s*(?:pub\s+)?mod\b", code)
            limit = tm.start() if tm else len(code)
            spans = gs.fn_spans(code)
            found = []
            for ctor, pat in ALLOC:
                for m in re.finditer(pat, code):
                    if m.start() >= limit:
                        continue
                    if re.search(r"\bfn\s+$", code[max(0, m.start() - 8):m.start()]):
                        continue
                    p = m.end() - 1
                    args = squeeze(src[p + 1:balanced(code, p) - 1])
                    if ctor in ('to_vec', 'clone', 'copy_region', 'collect'):
                        args = receiver(code, src, m.start()) + (' | ' + args if args else '')
                    if len(args) > 150:
                        args = args[:147] + '...'
                    found.append((m.start(), ctor, args))
            found.sort()
            seen = {}
            for pos, ctor, args in found:
                fn = gs.enclosing(spans, pos)
                if re.search(r"\bfn\s+%s\s*$" % re.escape(ctor.split('::')[-1]), code[max(0, pos - 40):pos]):
                    continue
                key = (fn, ctor, args)
                seen[key] = seen.get(key, 0) + 1
                asites.append((rel, fn, ctor, args, seen[key] - 1))
                lines_txt.append("alloc %s:%d %s %s(%s)" % (rel, src.count('\n', 0, pos) + 1, fn, ctor, args))
            nidx = {}
            for s in gs.sites_of(rel, src0):
                _, fn, kind, text, ordn, line, _ = s
                if kind == 'index':
                    nidx[fn] = nidx.get(fn, 0) + 1
                else:
                    psites.append((rel, fn, kind, text, ordn))
                    lines_txt.append("panic %s:%d %s %s %s" % (rel, line, fn, kind, text))
            for fn in sorted(nidx):
                icounts.append((rel, fn, nidx[fn]))
        out.append("Definition alloc_sites : list asite := [\n%s\n]%%list.\n" % ";\n".join(
            "  mk_asite %s %s %s %s %d" % (gs.coq_str(a), gs.coq_str(b), gs.coq_str(c), gs.coq_str(d), e) for a, b, c, d, e in asites))
        kmap = {'unwrap': 'PUnwrap', 'expect': 'PExpect', 'assert': 'PAssert', 'debug_assert': 'PDebugAssert',
                'unreachable': 'PUnreachable', 'panic': 'PPanic'}
        out.append("Definition panic_sites : list psite := [\n%s\n]%%list.\n" % ";\n".join(
            "  mk_psite %s %s %s %s %d" % (gs.coq_str(a), gs.coq_str(b), kmap[c], gs.coq_str(d), e) for a, b, c, d, e in psites))
        out.append("Definition index_counts : list (string * string * nat) := [\n%s\n]%%list.\n" % ";\n".join(
            "  (%s, %s, %d%%nat)" % (gs.coq_str(a), gs.coq_str(b), n) for a, b, n in icounts))
        api.ok('tables', 'c02_sites', props=PROPS, rel=ROOT + '/**', n_alloc=len(asites), n_panic=len(psites), n_index_fns=len(icounts))
    except (U, OSError, ValueError, IndexError) as ex:
        api.broken('table', 'c02_sites', PROPS, ex)
        out.append("Definition alloc_sites : list asite := []%list.\nDefinition panic_sites : list psite := []%list.\n"
                   "Definition index_counts : list (string * string * nat) := []%list.\n")

    # ---- surface-sized buffers: clip.rs, mask.rs, image.rs::render_vector --------------------------------------
    class Em(rs.Emitter):
        def expr(self, e):
            if e[0] == 'mcall' and e[1][0] == 'var':
                tab = self.cfg.get('recv_methods', {}).get(e[1][1])
                if tab is not None and e[2] in tab and not e[3]:
                    return "(%s %s)" % (tab[e[2]], e[1][1])
            return rs.Emitter.expr(self, e)
    bufs = []
    try:
        cfgs = dict(dom='Z', methods={}, calls={}, casts={'u32': 'as_u32', 'i32': 'as_i32'},
                    recv_methods={'pixmap': {'width': 'fst', 'height': 'snd'}})
        for rel, expect in (('clip.rs', 2), ('mask.rs', 2), ('image.rs', 1)):
            src = gs.blank_comments(api.rd(os.path.join(ROOT, rel)))
            if rel == 'image.rs':
                m = re.search(r"\bfn\s+render_vector\s*\(", src)
                if not m:
                    raise U("image.rs: fn render_vector not found")
                b0 = src.index('{', m.end())
                src = src[b0:balanced(src, b0)]
            n = 0
            for m in re.finditer(r"\b(Pixmap|Mask)::new\s*\(", src):
                p = m.end() - 1
                args = src[p + 1:balanced(src, p) - 1]
                d = Em(cfgs).block(rs.parse_body("{ (%s) }" % args))
                name = "%s_%s_%d" % (rel[:-3], m.group(1).lower(), n)
                bufs.append((name, squeeze(args), d))
                n += 1
            if n != expect:
                raise U("%s: %d Pixmap::new / Mask::new sites, the model knows %d" % (rel, n, expect))
        # who is handed which surface
        rsrc = squeeze(gs.blank_comments(api.rd(os.path.join(ROOT, 'render.rs'))))
        csrc = squeeze(gs.blank_comments(api.rd(os.path.join(ROOT, 'clip.rs'))))
        msrc = squeeze(gs.blank_comments(api.rd(os.path.join(ROOT, 'mask.rs'))))
        isrc = squeeze(gs.blank_comments(api.rd(os.path.join(ROOT, 'image.rs'))))
        need = [
            (rsrc, "crate::filter::apply(filter, transform, &mut sub_pixmap);", 1, "render_group filters its own layer"),
            (rsrc, "crate::clip::apply(clip_path, transform, &mut sub_pixmap);", 1, "render_group clips its own layer"),
            (rsrc, "crate::mask::apply(mask, ctx, transform, &mut sub_pixmap);", 1, "render_group masks its own layer"),
            (csrc, "apply(clip, transform, pixmap);", 1, "clip::apply recurses on the surface it was given"),
            (csrc, "apply(clip, transform, &mut clip_pixmap);", 1, "clip_group clips its own buffer"),
            (csrc, "clip_group(group, clip, transform, pixmap);", 1, "draw_children hands on its surface"),
            (csrc, "&mut clip_pixmap.as_mut(), );", 2, "clip children are drawn into the buffer"),
            (msrc, "self::apply(mask, ctx, transform, pixmap);", 1, "mask::apply recurses on the surface it was given"),
            (msrc, "crate::render::render_nodes(mask.root(), ctx, transform, &mut mask_pixmap.as_mut());", 1, "mask content is rendered into the buffer"),
            (isrc, "crate::render(tree, transform, &mut sub_pixmap.as_mut());", 1, "a nested SVG is rendered into a canvas-sized buffer"),
        ]
        for text, lit, cnt, what in need:
            if text.count(lit) != cnt:
                raise U("surface hand-over changed (%s): `%s` occurs %d times, expected %d" % (what, lit, text.count(lit), cnt))
        if len(re.findall(r"\bapply\s*\(", csrc)) != 3 or len(re.findall(r"\bapply\s*\(", msrc)) != 2:
            raise U("clip.rs / mask.rs: number of apply( calls changed")
        out.append("(* size arguments of every Pixmap::new / Mask::new of clip.rs, mask.rs and image.rs::render_vector as a function of\n"
                   "   the size (width, height) of the surface `pixmap` the function was handed *)")
        for name, args, d in bufs:
            out.append("(* %s *)\nDefinition buf_%s (pixmap : Z * Z) : Z * Z :=\n  %s." % (args, name, d))
        out.append("Definition surface_buffers : list (string * (Z * Z -> Z * Z)) := [\n%s\n]%%list.\n"
                   "Definition surface_calls_ok : bool := true.\n" % ";\n".join("  (%s, buf_%s)" % (gs.coq_str(n), n) for n, _, _ in bufs))
        api.ok('leaves', 'surface_buffers', props=PROPS, rel='clip.rs mask.rs image.rs render.rs')
    except (U, OSError, ValueError, IndexError) as ex:
        api.broken('leaf', 'surface_buffers', PROPS, ex)
        out.append("Definition surface_buffers : list (string * (Z * Z -> Z * Z)) := []%list.\nDefinition surface_calls_ok : bool := false.\n")

    # ---- pattern tile --------------------------------------------------------------------------------------------
    try:
        psrc = gs.blank_comments(api.rd(os.path.join(ROOT, 'path.rs')))
        m = re.search(r"\bfn\s+render_pattern_pixmap\s*\(", psrc)
        if not m:
            raise U("fn render_pattern_pixmap not found")
        b0 = psrc.index('{', psrc.index('->', m.end()))
        body = psrc[b0:balanced(psrc, b0)]
        m = re.search(r"let\s+img_size\s*=\s*tiny_skia::IntSize::from_wh\s*\(", body)
        if not m:
            raise U("`let img_size = tiny_skia::IntSize::from_wh(` not found")
        p = m.end() - 1
        e = balanced(body, p)
        args = body[p + 1:e - 1]
        if not re.match(r"\s*\?\s*;", body[e:]):
            raise U("img_size is not `IntSize::from_wh(..)?;`")
        if not re.search(r"let\s+mut\s+pixmap\s*=\s*tiny_skia::Pixmap::new\(\s*img_size\.width\(\)\s*,\s*img_size\.height\(\)\s*\)\s*\?\s*;", body):
            raise U("the tile is not `Pixmap::new(img_size.width(), img_size.height())?`")
        if not re.search(r"let\s+rect\s*=\s*pattern\.rect\(\)\s*;", body):
            raise U("`let rect = pattern.rect();` not found")

        class EmQ(rs.Emitter):
            """f32 expression; float -> int through round/floor/ceil, then `as u32` saturates"""
            def expr(self, e):
                if e[0] == 'cast' and e[2] in ('u32', 'i32'):
                    inner = e[1]
                    if inner[0] == 'mcall' and inner[2] in ('round', 'floor', 'ceil', 'trunc') and not inner[3]:
                        return "(%s (f32_%s %s))" % ('as_u32' if e[2] == 'u32' else 'as_i32', inner[2], self.expr(inner[1]))
                    return "(%s (f32_trunc %s))" % ('as_u32' if e[2] == 'u32' else 'as_i32', self.expr(inner))
                if e[0] == 'mcall' and e[2] in ('min', 'max') and len(e[3]) == 1:
                    # integer min / max after the cast, or float min / max before it
                    a, b = self.expr(e[1]), self.expr(e[3][0])
                    if e[1][0] == 'cast':
                        return "(Z.%s %s %s)" % (e[2], a, b)
                    return "(Q%s %s %s)" % (e[2], a, b)
                if e[0] == 'num' and re.search(r"(u32|i32|usize)$", e[1]):
                    return "(%s)%%Z" % re.sub(r"_?(u32|i32|usize)$", "", e[1]).replace('_', '')
                return rs.Emitter.expr(self, e)
        cfgp = dict(dom='Q', methods={'width': 'rw', 'height': 'rh', 'x': 'rx', 'y': 'ry', 'abs': 'Qabs'}, calls={}, casts={})
        d = EmQ(cfgp).block(rs.parse_body("{ (%s) }" % args))
        out.append("(* path.rs :: render_pattern_pixmap: IntSize::from_wh(%s)?  ->  Pixmap::new(img_size.width(), img_size.height())? *)\n"
                   "Definition pattern_tile_size (rect : qrect) (sx sy : Q) : Z * Z :=\n  %s.\n" % (squeeze(args), d))
        api.ok('leaves', 'pattern_tile_size', props=PROPS, rel='crates/resvg/src/path.rs')
    except (U, OSError, ValueError, IndexError) as ex:
        api.broken('leaf', 'pattern_tile_size', PROPS, ex)

    # ---- filter results ------------------------------------------------------------------------------------------
    try:
        fsrc = gs.blank_comments(api.rd(os.path.join(ROOT, 'filter/mod.rs')))
        tm = re.search(r"#\[cfg\(resvg_verif\)\]\s*pub\s+mod\b", fsrc)
        fsrc = fsrc[:tm.start()] if tm else fsrc
        vocab = []
        for m in re.finditer(r"\bPixmap::try_create\s*\(", fsrc):
            p = m.end() - 1
            a = squeeze(fsrc[p + 1:balanced(fsrc, p) - 1])
            if a == 'region.width(), region.height()':
                vocab.append('region')
            elif a == 'input.width(), input.height()':
                vocab.append('input')
            else:
                raise U("filter/mod.rs: Pixmap::try_create(%s): size is neither the filter region nor an existing image" % a)
        if not re.search(r"fn\s+try_create\s*\(\s*width:\s*u32,\s*height:\s*u32\s*\)\s*->\s*Result<tiny_skia::Pixmap,\s*Error>\s*\{\s*"
                         r"tiny_skia::Pixmap::new\(width,\s*height\)\.ok_or\(Error::InvalidRegion\)\s*\}", fsrc):
            raise U("PixmapExt::try_create is not `Pixmap::new(width, height).ok_or(InvalidRegion)`")
        # the clip of a primitive result to its subregion (since b25a51c: checked helper translate_checked, i64 arithmetic)
        fsq = squeeze(fsrc)
        if re.search(r"\.translate\(", fsq):
            raise U("filter/mod.rs calls IntRect::translate( again (plain i32 `+` inside tiny-skia-path; fixed in b25a51c by translate_checked)")
        if not re.search(r"let subregion2 = if let usvg::filter::Kind::Offset\(\.\.\) = primitive\.kind\(\) \{ region\.translate_to\(0, 0\) \} "
                         r"else \{ translate_checked\(subregion, region\) \} ?\.ok_or\(Error::InvalidRegion\)\?;", fsq):
            raise U("filter/mod.rs: `let subregion2 = if let Kind::Offset(..) { region.translate_to(0, 0) } else { translate_checked(subregion, region) }"
                    ".ok_or(Error::InvalidRegion)?;` not found")
        if not re.search(r"let subregion = translate_checked\(input\.region, region\)\.ok_or\(Error::InvalidRegion\)\?;", fsq):
            raise U("apply_tile: `let subregion = translate_checked(input.region, region).ok_or(Error::InvalidRegion)?;` not found")
        if len(re.findall(r"\btranslate_checked\(", fsq)) != 3:
            raise U("translate_checked: expected the definition and two calls")
        m = re.search(r"fn\s+translate_checked\s*\(\s*r:\s*IntRect,\s*origin:\s*IntRect\s*\)\s*->\s*Option<IntRect>\s*\{", fsrc)
        if not m:
            raise U("fn translate_checked(r: IntRect, origin: IntRect) -> Option<IntRect> not found")
        b0 = fsrc.index('{', m.start())
        fn = fsrc[m.start():balanced(fsrc, b0)]
        i64args = re.findall(r"i32::try_from\(([^;]*?)\)\.ok\(\)\?", fn)
        fn2 = re.sub(r"i32::try_from\(([^;]*?)\)\.ok\(\)\?", r"try_i32(\1)?", fn)
        if 'try_from' in fn2 or 'unwrap' in fn2 or 'expect' in fn2:
            raise U("translate_checked: conversion outside the subset: %s" % squeeze(fn2))
        cfgt = dict(dom='Z', types={'IntRect': 'irect'}, ret='option irect', option_ret=True,
                    methods={'x': 'ix', 'y': 'iy', 'width': 'iw', 'height': 'ih'}, casts={'i64': None},
                    calls={'IntRect::from_xywh': 'irect_from_xywh', 'try_i32': 'i32_try_from'})
        d = rs.translate_fn(fn2, 'translate_checked', cfgt, 'translate_checked')
        # every i64 intermediate (operands are `.. as i64` of i32 values)
        steps = []
        for a in i64args:
            if not re.match(r"^\s*(r|origin)\.(x|y)\(\) as i64 [-+] (r|origin)\.(x|y)\(\) as i64\s*$", a):
                raise U("translate_checked: i64 expression outside the subset: %s" % a)
            t = a
            for v in ('r', 'origin'):
                for f in ('x', 'y'):
                    t = t.replace("%s.%s()" % (v, f), "%s_%s" % (v, f))
            steps.append(zexpr(rs, U, t, {'r_x': '(ix r)', 'r_y': '(iy r)', 'origin_x': '(ix origin)', 'origin_y': '(iy origin)'}))
        out.append("(* i32::try_from(v: i64).ok() *)\nDefinition i32_try_from (z : Z) : option Z := if in_i32 z then Some z else None.\n"
                   "(* filter/mod.rs :: translate_checked (used by apply_inner and apply_tile, both `.ok_or(Error::InvalidRegion)?`) *)\n%s\n"
                   "(* its i64 intermediates, as unbounded integers *)\n"
                   "Definition translate_checked_i64_steps (r origin : irect) : list Z := [%s]%%list.\n"
                   "Definition subregion2 (region subregion : irect) : option irect := translate_checked subregion region.\n"
                   "Definition subregion2_unwraps : bool := false.\n" % (d, "; ".join(steps)))
        out.append("(* filter/mod.rs: what every Pixmap::try_create is sized by *)\nDefinition filter_alloc_args : list string := [%s]%%list.\n"
                   % "; ".join(gs.coq_str(v) for v in vocab))
        api.ok('leaves', 'filter_alloc_args', props=PROPS, rel='crates/resvg/src/filter/mod.rs')
    except (U, OSError, ValueError, IndexError) as ex:
        api.broken('leaf', 'filter_alloc_args', PROPS, ex)
    api.write_gen('C02Sites.v', "\n".join(out) + "\n")
    try:
        with open(os.path.join(os.path.dirname(os.path.abspath(__file__)), '..', 'coq', 'Gen', 'C02Sites.lines.txt'), 'w') as f:
            f.write("\n".join(lines_txt) + "\n")
    except OSError:
        pass
    gen_loops(api, rs, U, gs)
    gen_kernels(api, rs, U, gs)


def zexpr(rs, U, text, env):
    """usize / i32 expression over the names of env -> Coq term over Z (unbounded; the theorems state the ranges)"""
    ast = rs.Parser(rs.tokenize("{ %s }" % text)).block()
    if ast[1] or ast[2] is None:
        raise U("not a single expression: %s" % text)

    def go(e):
        k = e[0]
        if k == 'num':
            return "(%s)%%Z" % re.sub(r"_?(i32|u32|usize|isize)$", "", e[1]).replace('_', '')
        if k == 'var':
            if e[1] not in env:
                raise U("unknown variable %s in %s" % (e[1], text))
            return env[e[1]]
        if k == 'bin' and e[1] in ('+', '-', '*'):
            return "(%s %s %s)" % ({'+': 'Z.add', '-': 'Z.sub', '*': 'Z.mul'}[e[1]], go(e[2]), go(e[3]))
        if k == 'bin' and e[1] in ('<', '<=', '>', '>='):
            return "(%s %s %s)" % ({'<': 'Z.ltb', '<=': 'Z.leb', '>': 'Z.gtb', '>=': 'Z.geb'}[e[1]], go(e[2]), go(e[3]))
        if k == 'call' and e[1][-1] in ('min', 'max') and len(e[2]) == 2:
            return "(Z.%s %s %s)" % (e[1][-1], go(e[2][0]), go(e[2][1]))
        if k == 'mcall' and e[2] in ('min', 'max') and len(e[3]) == 1:
            return "(Z.%s %s %s)" % (e[2], go(e[1]), go(e[3][0]))
        if k == 'bin' and e[1] in ('%', '/'):
            return "(%s %s %s)" % ({'%': 'Z.rem', '/': 'Z.quot'}[e[1]], go(e[2]), go(e[3]))
        if k == 'bin' and e[1] in ('==', '&&', '||'):
            return "(%s %s %s)" % ({'==': 'Z.eqb', '&&': 'andb', '||': 'orb'}[e[1]], go(e[2]), go(e[3]))
        if k == 'path' and '::'.join(e[1]) in env:
            return env['::'.join(e[1])]
        if k == 'field' and e[1][0] == 'var' and "%s.%s" % (e[1][1], e[2]) in env:
            return env["%s.%s" % (e[1][1], e[2])]
        if k == 'mcall' and e[1][0] == 'var' and not e[3] and "%s.%s()" % (e[1][1], e[2]) in env:
            return env["%s.%s()" % (e[1][1], e[2])]
        if k == 'cast' and e[2] == 'usize' and e[1][0] == 'mcall' and e[1][2] in ('floor', 'round', 'ceil') and 'FLOAT' in env:
            # float -> usize: saturating, NaN -> 0; the float argument is translated by env['FLOAT']
            return "(as_usize (f32_%s %s))" % (e[1][2], env['FLOAT'](e[1][1]))
        if k == 'cast':
            return go(e[1])
        if k == 'paren':
            return go(e[1])
        raise U("construct outside the loop-bound subset in `%s`: %r" % (text, e[:2]))
    return go(ast[2])


def gen_loops(api, rs, U, gs):
    out = [api.HEADER, "From RV Require Import Model.Base Model.RenderPrims.\nLocal Open Scope Z_scope.\n"]
    # ---- box blur ------------------------------------------------------------------------------------------------
    BREL = ROOT + '/filter/box_blur.rs'
    try:
        src = gs.blank_comments(api.rd(BREL))
        forms = {}
        for fn, dim in (('box_blur_vert', 'height'), ('box_blur_horz', 'width')):
            m = re.search(r"\bfn\s+%s\s*\(" % fn, src)
            if not m:
                raise U("fn %s not found" % fn)
            b0 = src.index('{', m.end())
            body = src[b0:balanced(src, b0)]
            if not re.search(r"if\s+blur_radius\s*==\s*0\s*\{\s*frontbuf\.data\.copy_from_slice\(backbuf\.data\);\s*return;\s*\}", body):
                raise U("%s: the radius-0 early return is gone" % fn)
            outer = re.search(r"for\s+i\s+in\s+0\s*\.\.\s*(\w+)\s*\{", body)
            if not outer:
                raise U("%s: outer loop not found" % fn)
            o0 = body.index('{', outer.start())
            lbody = body[o0:balanced(body, o0)]
            items = []
            for mm in re.finditer(r"\bfor\s+(\w+)\s+in\s+([^{]+?)\s*\{|\bif\s+(\w+)\s*(<=|<|>=|>)\s*(\w+)\s*\{\s*continue;\s*\}", lbody):
                if mm.group(1) is not None:
                    rng = mm.group(2)
                    lo, hi = rng.split('..')
                    lo = lo.strip().strip('()') or '0'
                    hi = hi.strip()
                    if hi.startswith('(') and balanced(hi, 0) == len(hi):
                        hi = hi[1:-1]
                    items.append(('for', squeeze(lo).replace(dim, 'n'), squeeze(hi).replace(dim, 'n')))
                else:
                    items.append(('skip', squeeze("%s %s %s" % (mm.group(3), mm.group(4), mm.group(5))).replace(dim, 'n')))
            # writes to the output line
            nwr = len(re.findall(r"frontbuf\.data\[ti\]\s*=", lbody))
            adv = len(re.findall(r"\bti\s*\+=", lbody))
            forms[fn] = (items, nwr, adv)
        if forms['box_blur_vert'] != forms['box_blur_horz']:
            raise U("box_blur_vert and box_blur_horz differ in their loop structure: %r vs %r" % (forms['box_blur_vert'], forms['box_blur_horz']))
        items, nwr, adv = forms['box_blur_vert']
        kinds = [k for k, *_ in items]
        if kinds != ['for', 'for', 'skip', 'for', 'for'] or nwr != 3 or adv != 3:
            raise U("box blur: expected pre-sum loop, head loop, `continue` guard, middle loop, tail loop with one output write each "
                    "(head, middle, tail); found %r, %d writes, %d advances" % (items, nwr, adv))
        env = {'blur_radius': 'r', 'n': 'n'}
        names = ['pre', 'head', None, 'mid', 'tail']
        for it, nm in zip(items, names):
            if it[0] == 'skip':
                out.append("(* if %s { continue; }  (n = height in box_blur_vert, width in box_blur_horz) *)\n"
                           "Definition bb_skip (r n : Z) : bool := %s.\n" % (it[1], zexpr(rs, U, it[1], env)))
            else:
                out.append("(* for _ in %s..%s *)\nDefinition bb_%s_lo (r n : Z) : Z := %s.\nDefinition bb_%s_hi (r n : Z) : Z := %s.\n"
                           % (it[1], it[2], nm, zexpr(rs, U, it[1], env), nm, zexpr(rs, U, it[2], env)))
        api.ok('leaves', 'box_blur_loops', props=PROPS, rel=BREL)
    except (U, OSError, ValueError, IndexError) as ex:
        api.broken('leaf', 'box_blur_loops', PROPS, ex)

    # ---- convolve matrix, edgeMode=wrap --------------------------------------------------------------------------
    CREL = ROOT + '/filter/convolve_matrix.rs'
    try:
        src = squeeze(gs.blank_comments(api.rd(CREL)))
        forms = []
        for v, dim in (('tx', 'width'), ('ty', 'height')):
            m = re.search(r"while %s < 0 \{ %s \+= ([^;]+); \} %s %%= ([^;]+);" % (v, v, v), src)
            if not m:
                raise U("`while %s < 0 { %s += ..; } %s %%= ..;` not found in the EdgeMode::Wrap arm" % (v, v, v))
            if squeeze(m.group(1)) != "src.%s as i32" % dim or squeeze(m.group(2)) != "src.%s as i32" % dim:
                raise U("wrap of %s does not add / reduce by src.%s: += %s ; %%= %s" % (v, dim, m.group(1), m.group(2)))
            forms.append(1)
            mt = re.search(r"let mut %s = ([^;]+);" % v, src)
            exp = "%s as i32 - matrix.matrix().target_%s() as i32 + o%s as i32" % (v[1], v[1], v[1])
            if not mt or squeeze(mt.group(1)) != exp:
                raise U("`let mut %s = %s;` not found" % (v, exp))
        if not re.search(r"for oy in 0\.\.matrix\.matrix\(\)\.rows\(\) \{ for ox in 0\.\.matrix\.matrix\(\)\.columns\(\) \{", src):
            raise U("kernel loops `for oy in 0..rows() { for ox in 0..columns() {` not found")
        out.append("(* %s, EdgeMode::Wrap: let mut t = p as i32 - target as i32 + o as i32; while t < 0 { t += dim as i32; } t %%= dim as i32; *)\n"
                   "Definition conv_start (p target o : Z) : Z := p - target + o.\nDefinition conv_wrap_cond (t : Z) : bool := t <? 0.\n"
                   "Definition conv_wrap_step (t dim : Z) : Z := t + dim.\nDefinition conv_wrap_fin (t dim : Z) : Z := Z.rem t dim.\n" % CREL)
        api.ok('leaves', 'convolve_wrap', props=PROPS, rel=CREL)
    except (U, OSError, ValueError, IndexError) as ex:
        api.broken('leaf', 'convolve_wrap', PROPS, ex)

    # ---- IIR blur ------------------------------------------------------------------------------------------------
    IREL = ROOT + '/filter/iir_blur.rs'
    try:
        src = squeeze(gs.blank_comments(api.rd(IREL)))
        m = re.search(r"let buf_size = \(([^;]+)\) as usize; let mut buf = vec!\[0\.0; buf_size\];", src)
        if not m:
            raise U("`let buf_size = (..) as usize; let mut buf = vec![0.0; buf_size];` not found")
        bl = zexpr(rs, U, m.group(1).replace('src.width', 'w').replace('src.height', 'h'), {'w': 'w', 'h': 'h'})
        m = re.search(r"\bsteps: (\d+),", src)
        if not m:
            raise U("BlurData { steps: <literal> } not found")
        steps = int(m.group(1))
        if not re.search(r"width: src\.width as usize, height: src\.height as usize,", src):
            raise U("BlurData width / height are not the image's")
        pats = [
            (r"let mut y = d\.width; while y < buf\.len\(\) \{ buf\[idx \+ y\] \+= dnu \* buf\[idx \+ y - d\.width\]; y \+= d\.width; \}", "downward loop"),
            (r"y = buf\.len\(\) - d\.width; while y > 0 \{ buf\[idx \+ y - d\.width\] \+= dnu \* buf\[idx \+ y\]; y -= d\.width; \}", "upward loop"),
            (r"for x in 1\.\.d\.width \{ buf\[idx \+ x\] \+= dnu \* buf\[idx \+ x - 1\]; \}", "rightward loop"),
            (r"let mut x = d\.width - 1; while x > 0 \{ buf\[idx \+ x - 1\] \+= dnu \* buf\[idx \+ x\]; x -= 1; \}", "leftward loop"),
            (r"for x in 0\.\.d\.width \{ for _ in 0\.\.d\.steps \{ let idx = x;", "column loop"),
            (r"for y in 0\.\.d\.height \{ for _ in 0\.\.d\.steps \{ let idx = d\.width \* y;", "row loop"),
        ]
        for pat, what in pats:
            if not re.search(pat, src):
                raise U("iir_blur: %s not found in its known form" % what)
        out.append("(* %s *)\nDefinition iir_buf_len (w h : Z) : Z := %s.\nDefinition iir_steps : Z := %d.\n"
                   "(* y = buf.len() - d.width; while y > 0 { buf[idx + y - d.width] += ..buf[idx + y]; y -= d.width; } *)\n"
                   "Definition iir_up_start (len w : Z) : Z := len - w.\nDefinition iir_up_cond (y : Z) : bool := y >? 0.\n"
                   "Definition iir_up_step (y w : Z) : Z := y - w.\n"
                   "(* let mut y = d.width; while y < buf.len() { buf[idx + y] += ..buf[idx + y - d.width]; y += d.width; } *)\n"
                   "Definition iir_down_start (w : Z) : Z := w.\nDefinition iir_down_cond (y len : Z) : bool := y <? len.\n"
                   "Definition iir_down_step (y w : Z) : Z := y + w.\n" % (IREL, bl, steps))
        api.ok('leaves', 'iir_loops', props=PROPS, rel=IREL)
    except (U, OSError, ValueError, IndexError) as ex:
        api.broken('leaf', 'iir_loops', PROPS, ex)

    # ---- turbulence octaves --------------------------------------------------------------------------------------
    TREL = ROOT + '/filter/turbulence.rs'
    try:
        src = squeeze(gs.blank_comments(api.rd(TREL)))
        m = re.search(r"for _ in 0\.\.([^{]+?) \{", src)
        if not m:
            raise U("octave loop `for _ in 0..<bound> {` not found in turbulence")
        bound = m.group(1).strip()
        msrc = squeeze(gs.blank_comments(api.rd(ROOT + '/filter/mod.rs')))
        ma = re.search(r"turbulence::apply\((.*?)\);", msrc)
        if not ma:
            raise U("call of turbulence::apply not found in filter/mod.rs")
        argl = [a.strip() for a in ma.group(1).split(',') if a.strip()]
        oarg = [a for a in argl if 'num_octaves' in a]
        if len(oarg) != 1:
            raise U("turbulence::apply is not handed exactly one num_octaves argument: %r" % argl)
        env = {'num_octaves': 'num_octaves'}
        t_loop = zexpr(rs, U, bound, env)
        t_arg = zexpr(rs, U, oarg[0].replace('fe.num_octaves()', 'num_octaves'), env)
        # inside turbulence.rs the value must be handed on unchanged
        if len(re.findall(r"\bnum_octaves\b", src)) != len(re.findall(r"\bnum_octaves(?:: u32)?,", src)) + 1:
            raise U("turbulence.rs uses num_octaves in more places than the parameter lists and the loop bound")
        out.append("(* %s: for _ in 0..%s   with   turbulence::apply(.., %s, ..) in filter/mod.rs *)\n"
                   "Definition turb_octave_arg (num_octaves : Z) : Z := %s.\n"
                   "Definition turb_octave_trips (num_octaves : Z) : Z := let num_octaves := turb_octave_arg num_octaves in %s.\n"
                   % (TREL, bound, oarg[0], t_arg, t_loop))
        api.ok('leaves', 'turbulence_octaves', props=PROPS, rel=TREL)
    except (U, OSError, ValueError, IndexError) as ex:
        api.broken('leaf', 'turbulence_octaves', PROPS, ex)
    api.write_gen('LeafLoops.v', "\n".join(out) + "\n")


def gen_kernels(api, rs, U, gs):
    """Gen/LeafKernels.v (second pass): index expressions of the lighting, displacement map and component transfer kernels, the
    integer part of box_blur::create_box_gauss, the (min, max) arguments of every filter::f32_bound call."""
    out = [api.HEADER, "From Coq Require Import String List.\nFrom RV Require Import Model.Base Model.RenderPrims.\nImport ListNotations.\n"
           "Local Open Scope Z_scope.\n",
           "(* `f as usize` for an integral float value: saturating (NaN -> 0) *)\nDefinition as_usize (z : Z) : Z := Z.max 0 (Z.min 18446744073709551615 z).\n"]
    # ---- lighting ------------------------------------------------------------------------------------------------
    LREL = ROOT + '/filter/lighting.rs'
    try:
        src = gs.blank_comments(api.rd(LREL))
        sq = squeeze(src)
        m = re.search(r"fn apply\( light_source: LightSource,.*?\) \{ if ([^{]+?) \{ return; \} let width = src\.width; let height = src\.height;", sq)
        if not m:
            raise U("lighting::apply: `if <too small> { return; } let width = src.width; let height = src.height;` not found at the top")
        envg = {'src.width': 'w', 'src.height': 'h'}
        out.append("(* %s :: apply: if %s { return; } *)\nDefinition light_guard (w h : Z) : bool := %s.\n" % (LREL, m.group(1), zexpr(rs, U, m.group(1), envg)))
        # the normal functions: every alpha_at(ax, ay)
        env = {'img.width': 'w', 'img.height': 'h', 'x': 'x', 'y': 'y'}
        fns = {}
        for fm in re.finditer(r"fn (\w+_normal)\(img: ImageRef((?:, [xy]: u32)*)\) -> Normal \{", sq):
            b0 = sq.index('{', fm.start())
            body = sq[b0:balanced(sq, b0)]
            samples = []
            for am in re.finditer(r"img\.alpha_at\(", body):
                p = am.end() - 1
                args = body[p + 1:balanced(body, p) - 1]
                parts = [a.strip() for a in args.split(',')]
                if len(parts) != 2:
                    raise U("alpha_at with %d arguments in %s" % (len(parts), fm.group(1)))
                samples.append("(%s, %s)" % (zexpr(rs, U, parts[0], env), zexpr(rs, U, parts[1], env)))
            if len(re.findall(r"alpha_at", body)) != len(samples) or re.search(r"\bdata\b|\[", body):
                raise U("%s reads the image in another way than img.alpha_at(..)" % fm.group(1))
            fns[fm.group(1)] = samples
            out.append("Definition ls_%s (w h x y : Z) : list (Z * Z) := [%s]%%list." % (fm.group(1), "; ".join(samples)))
        if len(re.findall(r"alpha_at\(", sq)) != sum(len(v) for v in fns.values()) + 2:
            raise U("lighting.rs: alpha_at is used outside the *_normal functions and the two light-vector sites of apply")
        # the schedule of apply
        a0 = sq.index("calc(0, 0, top_left_normal(src));")
        tail = sq[a0:]
        tail = tail[:tail.index("fn light_color")]
        norm = re.sub(r"\s+", " ", tail).strip()
        calls = []
        loops = re.findall(r"for (\w) in ([^{]+?) \{", norm)
        if [l for l in loops] != [('x', '1..width - 1'), ('y', '1..height - 1'), ('y', '1..height - 1'), ('x', '1..width - 1')]:
            raise U("lighting::apply: loops are not `for x in 1..width - 1`, `for y in 1..height - 1`, `for y .. { for x .. }`: %r" % (loops,))
        # walk the text keeping track of the open loops
        pos = 0
        stack = []
        tok = re.compile(r"for (\w) in [^{]+? \{|\}|calc\(([^;]*?), (\w+_normal)\(src((?:, [xy])*)\)\);")
        for tm in tok.finditer(norm):
            t = tm.group(0)
            if t.startswith('for'):
                stack.append(tm.group(1))
            elif t == '}':
                if stack:
                    stack.pop()
            else:
                pa = [a.strip() for a in tm.group(2).split(',')]
                if len(pa) != 2 or tm.group(3) not in fns:
                    raise U("lighting::apply: unexpected calc call %s" % t)
                fargs = [a.strip() for a in tm.group(4).split(',') if a.strip()]
                if sorted(fargs) != sorted(stack):
                    raise U("lighting::apply: %s is handed %r inside loops %r" % (tm.group(3), fargs, stack))
                envc = {'width': 'w', 'height': 'h', 'x': 'x', 'y': 'y'}
                calls.append("(%s%%string, ((%s, %s), (%s, %s)), ls_%s w h x y)" % (gs.coq_str(tm.group(3)), 'true' if 'x' in stack else 'false',
                                                                           'true' if 'y' in stack else 'false', zexpr(rs, U, pa[0], envc),
                                                                           zexpr(rs, U, pa[1], envc), tm.group(3)))
        if len(calls) != 9 or len(re.findall(r"\bcalc\(", norm)) != 9:
            raise U("lighting::apply: expected 9 calc(..) calls (4 corners, 2 + 2 edges, interior), found %d" % len(calls))
        if not re.search(r"let nz = src\.alpha_at\(nx, ny\)", sq) or not re.search(r"\*dest\.pixel_at_mut\(nx, ny\) =", sq):
            raise U("lighting::apply: calc does not read / write at (nx, ny)")
        out.append("(* lighting::apply: every calc(nx, ny, <normal>(src, ..)) - name, (inside the x loop, inside the y loop), (nx, ny), the pixels the normal reads;\n"
                   "   loops are `for x in 1..width - 1`, `for y in 1..height - 1` *)\n"
                   "Definition light_calls (w h x y : Z) : list (string * ((bool * bool) * (Z * Z)) * list (Z * Z)) := [\n  %s\n]%%list.\n" % ";\n  ".join(calls))
        api.ok('leaves', 'lighting_indices', props=PROPS, rel=LREL)
    except (U, OSError, ValueError, IndexError) as ex:
        api.broken('leaf', 'lighting_indices', PROPS, ex)

    # ---- displacement map ----------------------------------------------------------------------------------------
    DREL = ROOT + '/filter/displacement_map.rs'
    try:
        sq = squeeze(gs.blank_comments(api.rd(DREL)))
        for v, p in (('ox', 'x'), ('oy', 'y')):
            if not re.search(r"let %s = \(%s as f32 \+ d%s \* s%s \* fe\.scale\(\)\)\.round\(\) as i32;" % (v, p, p, p), sq):
                raise U("`let %s = (%s as f32 + d%s * s%s * fe.scale()).round() as i32;` not found" % (v, p, p, p))
        if not re.search(r"let w = src\.width as i32; let h = src\.height as i32;", sq):
            raise U("`let w = src.width as i32; let h = src.height as i32;` not found")
        m = re.search(r"if ([^{]+?) \{ let idx = \(([^;]+)\) as usize; let idx1 = \(([^;]+)\) as usize; dest\.data\[idx1\] = src\.data\[idx\]; \}", sq)
        if not m:
            raise U("the guarded copy `if <guard> { let idx = (..) as usize; let idx1 = (..) as usize; dest.data[idx1] = src.data[idx]; }` not found")
        if len(re.findall(r"\.data\[", sq)) != 2:
            raise U("displacement_map indexes image data outside the guarded copy")
        env = {k: k for k in ('w', 'h', 'x', 'y', 'ox', 'oy')}
        out.append("(* %s: if %s { idx = %s; idx1 = %s; dest.data[idx1] = src.data[idx] }   (ox, oy = `(..).round() as i32`: any i32) *)\n"
                   "Definition dm_guard (w h x y ox oy : Z) : bool := %s.\nDefinition dm_idx (w h x y ox oy : Z) : Z := %s.\n"
                   "Definition dm_idx1 (w h x y ox oy : Z) : Z := %s.\n"
                   % (DREL, m.group(1), m.group(2), m.group(3), zexpr(rs, U, m.group(1), env), zexpr(rs, U, m.group(2), env), zexpr(rs, U, m.group(3), env)))
        mm = re.match(r"^(\w+) \* (\w+) \+ (\w+)$", m.group(2).strip())
        if not mm:
            raise U("idx is not of the form a * b + c: %s" % m.group(2))
        out.append("Definition dm_idx_steps (w h x y ox oy : Z) : list Z := [%s; %s]%%list.\n"
                   % (zexpr(rs, U, "%s * %s" % (mm.group(1), mm.group(2)), env), zexpr(rs, U, m.group(2), env)))
        api.ok('leaves', 'displacement_indices', props=PROPS, rel=DREL)
    except (U, OSError, ValueError, IndexError) as ex:
        api.broken('leaf', 'displacement_indices', PROPS, ex)

    # ---- component transfer --------------------------------------------------------------------------------------
    TREL = ROOT + '/filter/component_transfer.rs'
    try:
        sq = squeeze(gs.blank_comments(api.rd(TREL)))
        for ch in 'rgba':
            if not re.search(r"if !is_dummy\(fe\.func_%s\(\)\) \{ pixel\.%s = transfer\(fe\.func_%s\(\), pixel\.%s\); \}" % (ch, ch, ch, ch), sq):
                raise U("apply: channel %s is not `if !is_dummy(..) { pixel.%s = transfer(..) }`" % (ch, ch))
        if len(re.findall(r"\btransfer\(", sq)) != 5:
            raise U("transfer( is called from somewhere else than the four guarded channel sites")
        if not re.search(r"TransferFunction::Table\(values\) => values\.is_empty\(\), TransferFunction::Discrete\(values\) => values\.is_empty\(\),", sq):
            raise U("is_dummy does not report empty Table / Discrete value lists")

        def fl(e):
            # c * (n as f32)
            if e[0] == 'bin' and e[1] == '*' and e[2] == ('var', 'c') and e[3][0] == 'cast' and e[3][1] == ('var', 'n') and e[3][2] == 'f32':
                return "(Qmult c (inject_Z n))"
            raise U("component transfer: float expression outside the subset: %r" % (e,))
        env = {'values.len()': 'len', 'n': 'n', 'k': 'k', 'FLOAT': fl}
        mt = re.search(r"TransferFunction::Table\(values\) => \{ let n = ([^;]+); let k = ([^;]+); let k = ([^;]+); if ([^{]+) \{ values\[([^\]]+)\] \} else \{ "
                       r"let vk = values\[([^\]]+)\]; let vk1 = values\[([^\]]+)\];", sq)
        if not mt:
            raise U("the Table arm of transfer is not in its known form")
        n_, k1, k2, cond, i0, i1, i2 = [zexpr(rs, U, mt.group(i), env) for i in range(1, 8)]
        md = re.search(r"TransferFunction::Discrete\(values\) => \{ let n = ([^;]+); let k = ([^;]+); values\[([^\]]+)\] \}", sq)
        if not md:
            raise U("the Discrete arm of transfer is not in its known form")
        dn, dk, di = [zexpr(rs, U, md.group(i), env) for i in range(1, 4)]
        if len(re.findall(r"values\[", sq)) != 4:
            raise U("component_transfer indexes `values` in more places than the four known ones")
        out.append("(* %s :: transfer, Table arm: n = %s; k = %s; k = %s; if %s { values[%s] } else { values[%s], values[%s] } *)\n"
                   "Definition ct_table_indices (len : Z) (c : Q) : list Z :=\n  let n := %s in let k := %s in let k := %s in if %s then [%s]%%list else [%s; %s]%%list.\n"
                   "Definition ct_table_usize_steps (len : Z) : list Z := [%s]%%list.\n"
                   % (TREL, mt.group(1), mt.group(2), mt.group(3), mt.group(4), mt.group(5), mt.group(6), mt.group(7), n_, k1, k2, cond, i0, i1, i2, n_))
        out.append("(* Discrete arm: n = %s; k = %s; values[%s] *)\n"
                   "Definition ct_discrete_indices (len : Z) (c : Q) : list Z :=\n  let n := %s in let k := %s in [%s]%%list.\n"
                   "Definition ct_discrete_usize_steps (len : Z) : list Z := let n := %s in [Z.sub n 1]%%list.\n"
                   % (md.group(1), md.group(2), md.group(3), dn, dk, di, dn))
        api.ok('leaves', 'component_transfer_indices', props=PROPS, rel=TREL)
    except (U, OSError, ValueError, IndexError) as ex:
        api.broken('leaf', 'component_transfer_indices', PROPS, ex)

    # ---- create_box_gauss ----------------------------------------------------------------------------------------
    BREL = ROOT + '/filter/box_blur.rs'
    try:
        sq = squeeze(gs.blank_comments(api.rd(BREL)))
        if not re.search(r"fn create_box_gauss\(sigma: f32\) -> \[i32; STEPS\] \{ if sigma > 0\.0 \{", sq) or not re.search(r"\} else \{ \[1; STEPS\] \}", sq):
            raise U("create_box_gauss: `if sigma > 0.0 { .. } else { [1; STEPS] }` not found")
        if not re.search(r"let w_ideal = \(12\.0 \* sigma \* sigma / n_float\)\.sqrt\(\) \+ 1\.0;", sq):
            raise U("create_box_gauss: w_ideal is not `(..).sqrt() + 1.0` (>= 1 for every sigma > 0)")
        m = re.search(r"let mut wl = ([^;]+); if ([^{]+) \{ wl -= (\d+); \} let wu = ([^;]+);", sq)
        if not m:
            raise U("create_box_gauss: `let mut wl = ..; if .. { wl -= 1; } let wu = ..;` not found")
        env = {'wf': 'wf', 'wl': 'wl', 'i32::MAX': 'I32_MAX'}
        wl0 = zexpr(rs, U, m.group(1).replace('w_ideal.floor() as i32', 'wf'), env)
        if 'w_ideal' in m.group(1).replace('w_ideal.floor() as i32', ''):
            raise U("wl uses w_ideal in another way than `w_ideal.floor() as i32`")
        out.append("(* %s :: create_box_gauss, wf = `w_ideal.floor() as i32` (saturating): let mut wl = %s; if %s { wl -= %s; } let wu = %s; *)\n"
                   "Definition bg_wl (wf : Z) : Z := let wl := %s in if %s then Z.sub wl %s else wl.\nDefinition bg_wu (wl : Z) : Z := %s.\n"
                   % (BREL, m.group(1), m.group(2), m.group(3), m.group(4), wl0, zexpr(rs, U, m.group(2), env), m.group(3), zexpr(rs, U, m.group(4), env)))
        if not re.search(r"if i < m \{ sizes\[i\] = wl; \} else \{ sizes\[i\] = wu; \}", sq):
            raise U("create_box_gauss: the box sizes are not wl / wu")
        rads = re.findall(r"let radius_(?:horz|vert) = \(([^;]+)\) as usize;", sq)
        rads = [re.sub(r"box_size_(horz|vert)", "b", r) for r in rads]
        if len(rads) != 2 or rads[0] != rads[1]:
            raise U("box_blur::apply: the two radius expressions differ or are missing: %r" % rads)
        out.append("(* box_blur::apply: let radius = (%s) as usize; *)\nDefinition bg_radius (b : Z) : Z := %s.\n" % (rads[0], zexpr(rs, U, rads[0], {'b': 'b'})))
        api.ok('leaves', 'box_gauss', props=PROPS, rel=BREL)
    except (U, OSError, ValueError, IndexError) as ex:
        api.broken('leaf', 'box_gauss', PROPS, ex)

    # ---- f32_bound call sites ------------------------------------------------------------------------------------
    try:
        calls = []
        base = os.path.join(os.environ.get('VERIF_REPO', '/repo'), ROOT, 'filter')
        for f in sorted(os.listdir(base)):
            if not f.endswith('.rs'):
                continue
            code = gs.blank_comments(api.rd(os.path.join(ROOT, 'filter', f)))
            tm = re.search(r"#\[cfg\(resvg_verif\)\]\s*pub\s+mod\b", code)
            code = code[:tm.start()] if tm else code
            for m in re.finditer(r"\bf32_bound\s*\(", code):
                if re.search(r"\bfn\s+$", code[max(0, m.start() - 8):m.start()]):
                    continue
                p = m.end() - 1
                args = code[p + 1:balanced(code, p) - 1]
                parts, depth, cur = [], 0, ''
                for ch in args:
                    if ch in '([':
                        depth += 1
                    elif ch in ')]':
                        depth -= 1
                    if ch == ',' and depth == 0:
                        parts.append(cur)
                        cur = ''
                    else:
                        cur += ch
                parts.append(cur)
                if len(parts) != 3:
                    raise U("f32_bound call with %d arguments in %s" % (len(parts), f))
                calls.append((f, squeeze(parts[0]), squeeze(parts[2])))
        out.append("(* every call of filter::f32_bound(min, val, max): file, min, max *)\nDefinition f32_bound_calls : list (string * string * string) := [\n  %s\n]%%list.\n"
                   % ";\n  ".join("(%s, %s, %s)%%string" % (gs.coq_str(a), gs.coq_str(b), gs.coq_str(c)) for a, b, c in calls))
        api.ok('tables', 'f32_bound_calls', props=PROPS, rel=ROOT + '/filter/*.rs', n=len(calls))
    except (U, OSError, ValueError, IndexError) as ex:
        api.broken('table', 'f32_bound_calls', PROPS, ex)
    api.write_gen('LeafKernels.v', "\n".join(out) + "\n")
