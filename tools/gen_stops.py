"""Gen/StopSites.v: the loop of crates/usvg/src/writer.rs::write_base_grad that writes the <stop> children (C08):
what it iterates over, whether anything in its body can skip or end an iteration (`continue`, `break`, `return`, an `if` around
the element, an iterator adaptor such as filter / skip / step_by / take / dedup), and which fields it writes."""
import re

PROPS = ['C08']
REL = 'crates/usvg/src/writer.rs'


def generate(api):
    try:
        src = api.rd(REL)
        _, _, body = api.rs2coq.find_fn(src, 'write_base_grad')
        m = re.search(r"for\s+([a-z_]+)\s+in\s+([^{]+?)\s*\{", body)
        if not m:
            raise api.Unsupported("write_base_grad: the stop loop was not found")
        var, it = m.group(1), re.sub(r"\s+", "", m.group(2))
        depth, i = 0, m.end() - 1
        while True:
            if body[i] == '{':
                depth += 1
            elif body[i] == '}':
                depth -= 1
                if depth == 0:
                    break
            i += 1
        loop = body[m.end():i]
        skips = []
        if it != '&g.stops':
            skips.append('iterates over %s' % it)
        for kw in ('continue', 'break', 'return'):
            if re.search(r"\b%s\b" % kw, loop):
                skips.append(kw)
        pre = body[:m.start()]
        if re.search(r"\bstops\b[^;]*\.(filter|skip|step_by|take|dedup|retain)", pre + loop):
            skips.append('iterator adaptor')
        # the element must be opened and closed at the top level of the loop body
        top = re.sub(r"\{[^{}]*\}", "{}", loop)
        if not re.search(r"xml\.start_svg_element\(EId::Stop\);", top) or not re.search(r"xml\.end_element\(\);", top):
            skips.append('the <stop> element is opened / closed under a condition')
        ifs = [re.sub(r"\s+", " ", c).strip() for c in re.findall(r"\bif\s+([^{]+)\{", loop)]
        for c in ifs:
            if c != '%s.opacity != Opacity::ONE' % var:
                skips.append('if ' + c)
        fields = re.findall(r"xml\.write_(?:svg_attribute|color)\(\s*AId::([A-Za-z]+)\s*,\s*&?\s*%s\.([a-z_]+)" % var, loop)
        out = [api.HEADER, "From Coq Require Import String List.\nImport ListNotations.\nLocal Open Scope string_scope.\n",
               "(* %s :: write_base_grad: what can make the stop loop skip or end an iteration (must be empty) *)" % REL,
               "Definition stop_loop_skips : list string := [%s]." % "; ".join('"%s"' % s.replace('"', "'") for s in skips),
               "(* (attribute, field of the stop) written per iteration, in order *)",
               "Definition stop_fields : list (string * string) := [%s].\n" % "; ".join('("%s", "%s")' % f for f in fields)]
        api.write_gen('StopSites.v', "\n".join(out))
        api.ok('tables', 'writer.stop_loop', skips=skips, fields=fields)
    except (api.Unsupported, OSError, ValueError, IndexError) as e:
        api.broken('table', 'writer.stop_loop', PROPS, e)
