"""Gen/C06Sites.v: source-derived ledger for C06 (reproducibility).

Scans the *library* sources of usvg and resvg (crates/usvg/src/**, crates/resvg/src/** without the
two main.rs and without code that is compiled only under `#[cfg(resvg_verif)]`) and emits

  c06_hash_sites      one record per method call on a HashMap/HashSet typed binding or field,
                      per `for .. in` over one, and per whole-value use of one
  c06_hash_ctor_sites the constructor calls (HashMap::new() ...)
  c06_shared_sites    one record per shared-state / ambient-input construct (static, static mut,
                      thread_local!, Cell, RefCell, Mutex, RwLock, atomics, Lazy/OnceCell/OnceLock, Rc,
                      unsafe, raw pointers / addresses, std::env, std::time, std::thread, read_dir, ...)
  c06_hasher_sites    hasher construction sites (DefaultHasher::new() = fixed keys; RandomState / BuildHasher = seeded)
  c06_forbid_unsafe   per lib.rs: is `#![forbid(unsafe_code)]` present
  c06_cache_new_sites `Cache::new(` call sites (file, enclosing fn)
  c06_gen_id_fns      the `gen_*_id` functions of `Cache`: (fn, counter field, prefix) + shape flags
  c06_counter_inits   the counter initialisers in `Cache::new`

The theorems of Props/C06.v are stated over these lists, so an edit of the Rust source changes the
obligation itself.  Receiver typing is syntactic (Rust requires type annotations on fn parameters, struct
fields and fn results, which is what the scanner follows); a field access whose receiver cannot be typed and
whose field name is hash-typed in some struct is emitted with owner "?" and is rejected by the theorem
(C06_hash_receivers_resolved), i.e. the scanner fails closed.
"""
import os
import re

PROPS = ['C06']
ROOTS = ['crates/usvg/src', 'crates/resvg/src']
HASH_TYPES = ['HashMap', 'HashSet']
WRAPPERS = ('Option', 'Box', 'Arc', 'Rc', 'Vec', 'Result')


# ------------------------------------------------------------------------------------------------
# lexical preparation
# ------------------------------------------------------------------------------------------------
def blank(s):
    return re.sub(r"[^\n]", " ", s)


def strip_code(src):
    """Replace comments and the contents of string / char literals by spaces (same length, same lines)."""
    out = []
    i = 0
    n = len(src)
    while i < n:
        c = src[i]
        if src.startswith('//', i):
            j = src.find('\n', i)
            j = n if j < 0 else j
            out.append(' ' * (j - i))
            i = j
        elif src.startswith('/*', i):
            depth = 1
            j = i + 2
            while j < n and depth:
                if src.startswith('/*', j):
                    depth += 1
                    j += 2
                elif src.startswith('*/', j):
                    depth -= 1
                    j += 2
                else:
                    j += 1
            out.append(blank(src[i:j]))
            i = j
        elif c == 'r' and re.match(r'r#*"', src[i:i + 8]) and (i == 0 or not (src[i - 1].isalnum() or src[i - 1] == '_')):
            m = re.match(r'r(#*)"', src[i:])
            hashes = m.group(1)
            end = src.find('"' + hashes, i + len(m.group(0)))
            end = n if end < 0 else end + 1 + len(hashes)
            out.append('r' + hashes + '"' + blank(src[i + len(m.group(0)):end - 1 - len(hashes)]) + '"' + hashes)
            i = end
        elif c == '"':
            j = i + 1
            while j < n and src[j] != '"':
                j += 2 if src[j] == '\\' else 1
            out.append('"' + blank(src[i + 1:j]) + '"')
            i = j + 1
        elif c == "'":
            m = re.match(r"'(\\.[^']*|[^\\'])'", src[i:])
            if m:
                out.append("'" + ' ' * (len(m.group(0)) - 2) + "'")
                i += len(m.group(0))
            else:
                out.append(c)
                i += 1
        else:
            out.append(c)
            i += 1
    return ''.join(out)


def match_brace(s, i, open_='{', close='}'):
    """s[i] == open_; index of the matching close (or len(s)-1)."""
    depth = 0
    j = i
    while j < len(s):
        if s[j] == open_:
            depth += 1
        elif s[j] == close:
            depth -= 1
            if depth == 0:
                return j
        j += 1
    return len(s) - 1


def strip_verif_cfg(code):
    """Blank every item / statement that follows `#[cfg(resvg_verif)]` (hooks: never in a normal build)."""
    pos = 0
    while True:
        m = re.search(r"#\[cfg\(resvg_verif\)\]", code[pos:])
        if not m:
            return code
        a = pos + m.start()
        j = pos + m.end()
        # the item ends at the first `;` or at the end of the first `{...}` block, at depth 0 of ()/[]
        depth = 0
        k = j
        end = len(code)
        while k < len(code):
            ch = code[k]
            if ch in '([':
                depth += 1
            elif ch in ')]':
                depth -= 1
            elif ch == ';' and depth == 0:
                end = k + 1
                break
            elif ch == '{' and depth == 0:
                end = match_brace(code, k) + 1
                break
            k += 1
        code = code[:a] + blank(code[a:end]) + code[end:]
        pos = end


def split_top(s, sep=','):
    parts = []
    depth = 0
    cur = []
    i = 0
    while i < len(s):
        ch = s[i]
        if ch in '(<[{':
            depth += 1
        elif ch in ')]}':
            depth -= 1
        elif ch == '>':
            if i > 0 and s[i - 1] in '-=':
                pass
            else:
                depth -= 1
        if ch == sep and depth == 0:
            parts.append(''.join(cur))
            cur = []
        else:
            cur.append(ch)
        i += 1
    if ''.join(cur).strip():
        parts.append(''.join(cur))
    return parts


def core_type(t, hash_names):
    """Reduce a type text to its head name: strip refs, lifetimes, `mut`, `dyn`, paths and the
    transparent wrappers Option/Box/Arc/...; returns ('hash', name) when a hash container occurs."""
    t = t.strip()
    if re.search(r"\b(%s)\b" % '|'.join(map(re.escape, hash_names)), t):
        return ('hash', re.search(r"\b(%s)\b" % '|'.join(map(re.escape, hash_names)), t).group(1))
    while True:
        t = t.strip()
        t2 = re.sub(r"^(&\s*('\w+\s*)?(mut\s+)?|mut\s+|dyn\s+|impl\s+)", '', t)
        if t2 != t:
            t = t2
            continue
        m = re.match(r"^(?:[\w]+::)*(\w+)\s*<(.*)>$", t, re.S)
        if m and m.group(1) in WRAPPERS:
            inner = split_top(m.group(2))
            inner = [x for x in inner if not x.strip().startswith("'")]
            if inner:
                t = inner[0]
                continue
        break
    m = re.match(r"^(?:[\w]+::)*(\w+)", t)
    return ('type', m.group(1)) if m else ('type', '?')


class FileInfo:
    def __init__(self, rel, code):
        self.rel = rel
        self.code = code
        self.fns = []      # (name, sig_start, body_start, body_end, params_text, ret_text)
        self.impls = []    # (type, start, end)
        self.line_starts = [0]
        for m in re.finditer(r"\n", code):
            self.line_starts.append(m.end())

    def line(self, pos):
        import bisect
        return bisect.bisect_right(self.line_starts, pos)

    def enclosing_fn(self, pos):
        best = None
        for f in self.fns:
            if f[1] <= pos <= f[3]:
                if best is None or f[1] >= best[1]:
                    best = f
        return best

    def enclosing_impl(self, pos):
        best = None
        for t, a, b in self.impls:
            if a <= pos <= b and (best is None or a >= best[1]):
                best = (t, a, b)
        return best[0] if best else None


def index_file(rel, code):
    fi = FileInfo(rel, code)
    for m in re.finditer(r"\bfn\s+(\w+)", code):
        i = m.end()
        # generics
        j = i
        while j < len(code) and code[j].isspace():
            j += 1
        if j < len(code) and code[j] == '<':
            depth = 0
            while j < len(code):
                if code[j] == '<':
                    depth += 1
                elif code[j] == '>' and code[j - 1] != '-':
                    depth -= 1
                    if depth == 0:
                        j += 1
                        break
                j += 1
        while j < len(code) and code[j].isspace():
            j += 1
        if j >= len(code) or code[j] != '(':
            continue
        pe = match_brace(code, j, '(', ')')
        params = code[j + 1:pe]
        k = pe + 1
        depth = 0
        while k < len(code):
            ch = code[k]
            if ch in '([':
                depth += 1
            elif ch in ')]':
                depth -= 1
            elif depth == 0 and ch in '{;':
                break
            k += 1
        if k >= len(code) or code[k] == ';':
            continue
        ret = code[pe + 1:k]
        be = match_brace(code, k)
        fi.fns.append((m.group(1), m.start(), k, be, params, ret))
    for m in re.finditer(r"\bimpl\b", code):
        k = code.find('{', m.end())
        semi = code.find(';', m.end())
        if k < 0 or (0 <= semi < k):
            continue
        head = code[m.end():k]
        head = re.sub(r"\bwhere\b.*", '', head, flags=re.S)
        head = re.sub(r"^\s*<[^{]*?>\s+(?=[\w:&])", ' ', head, count=1) if head.lstrip().startswith('<') else head
        if ' for ' in head:
            head = head.split(' for ', 1)[1]
        tm = re.match(r"\s*(?:[\w]+::)*(\w+)", head.strip())
        if tm:
            fi.impls.append((tm.group(1), m.start(), match_brace(code, k)))
    return fi


def coq_str(s):
    s = re.sub(r"\s+", " ", s.strip())
    s = ''.join(ch if 32 <= ord(ch) < 127 else '?' for ch in s)
    return '"' + s.replace('"', '""') + '"'


def scan_shared(infos, raw):
    """one record per shared-state / ambient-input construct, anywhere in the file (nested inline modules,
    feature-gated items and fn-local statics included: the scan is purely lexical)"""
    SHARED = [
        ('static_mut', r"(?<!')\bstatic\s+mut\b"),
        ('static', r"(?<!')\bstatic\s+(?!mut\b)\w+\s*:"),
        ('thread_local', r"\bthread_local\s*!"),
        ('Cell', r"\b(?:Cell|UnsafeCell|OnceCell|LazyCell)\s*(?:<|::)"),
        ('RefCell', r"\bRefCell\s*(?:<|::)"),
        ('Mutex', r"\bMutex\s*(?:<|::)"),
        ('RwLock', r"\bRwLock\s*(?:<|::)"),
        ('Atomic', r"\bAtomic(?:Bool|Usize|Isize|U8|U16|U32|U64|I8|I16|I32|I64|Ptr)\b"),
        ('Lazy', r"\b(?:Lazy|LazyLock|OnceLock|lazy_static|Once)\s*(?:<|::|!)"),
        ('Rc', r"\bRc\s*(?:<|::)"),
        ('unsafe', r"\bunsafe\b"),
        ('raw_ptr', r"\*\s*(?:const|mut)\s+\w|\bas_ptr\s*\(|\baddr_of|\{:p\}|\bas\s+usize\s*\)?\s*//ptr"),
        ('ptr_identity', r"\bptr_eq\s*\(|\bptr::eq\s*\("),
        ('env', r"\bstd::env\b|\benv::(?:var|vars|args|current_dir)\b|\benv!\s*\(|\boption_env!\s*\("),
        ('time', r"\bstd::time\b|\bInstant::|\bSystemTime::"),
        ('thread', r"\bstd::thread\b|\bthread::spawn\b|\brayon\b|\bpar_iter\b"),
        ('random', r"\bRandomState\b|\bgetrandom\b|\brand::|\bfastrand\b|\bthread_rng\b"),
        ('read_dir', r"\bread_dir\s*\("),
        ('process', r"\bstd::process\b|\bprocess::(?:exit|abort|id)\b"),
        # round 4: more ways for state to outlive a call / for the environment to leak in
        ('fs', r"\bstd::fs\b|\bfs::(?:read|read_to_string|write|metadata|canonicalize)\b|\bFile::(?:open|create)\b"),
        ('leak', r"\bBox::leak\b|\bmem::forget\b|\bManuallyDrop\b|\bWeak\s*(?:<|::)"),
        ('thread', r"\bthread::current\b|\bThreadId\b|\bavailable_parallelism\b|\bthread::(?:scope|Builder)\b"),
        ('uninit', r"\bMaybeUninit\b|\bset_len\s*\(|\bmem::(?:uninitialized|zeroed)\b"),
        ('alloc', r"\bGlobalAlloc\b|\bglobal_allocator\b|\bstd::alloc\b"),
    ]
    shared_sites = []
    for fi in infos:
        for kind, pat in SHARED:
            for m in re.finditer(pat, fi.code):
                f = fi.enclosing_fn(m.start())
                ls = fi.code.rfind('\n', 0, m.start()) + 1
                le = fi.code.find('\n', m.start())
                text = raw[fi.rel][ls:le if le >= 0 else None]
                # `static X: T = ..` : classify immutable statics of plain data separately
                k = kind
                if kind == 'raw_ptr':
                    # an address that is only ever a KEY of a hash set: `set.insert(Arc::as_ptr(x))` / `set.contains(&Arc::as_ptr(x))`
                    # and the element type in `HashSet<*const T>`.  Membership in a set is equality of addresses (like
                    # Arc::ptr_eq); the value of the address decides a bucket only, and hash containers are confined to the
                    # lookup-only fragment (c06_hash_sites: no iteration, no order).  Anything else stays raw_ptr.
                    line = fi.code[ls:le if le >= 0 else None]
                    off = m.start() - ls
                    for km in re.finditer(r"\b\w+\s*\.\s*(?:insert|contains)\s*\(\s*&?\s*Arc::as_ptr\(\s*\w+\s*\)\s*\)|\bHashSet<\s*\*const\s+[\w:]+\s*>", line):
                        if km.start() <= off < km.end():
                            k = 'ptr_key'
                if kind == 'static':
                    decl = fi.code[m.start():fi.code.find('=', m.start())]
                    if re.search(r"Cell|Mutex|RwLock|Atomic|Lazy|Once|\bmut\b", decl):
                        k = 'static_interior'
                shared_sites.append((fi.rel, f[0] if f else '', k, text, fi.line(m.start())))
        # addresses printed through a format string: `{:p}` / `{name:p}` inside a string literal that is code (the
        # stripped text has a blanked literal at the same offsets; a comment is blanked without the quotes)
        for m in re.finditer(r"\{\w*:#?p\}", raw[fi.rel]):
            a = m.start()
            ql = fi.code.rfind('"', 0, a)
            qr = fi.code.find('"', a)
            if ql < 0 or qr < 0 or fi.code[ql + 1:qr].strip() != '' or '\n' in fi.code[ql:qr] and not raw[fi.rel][ql] == '"':
                continue
            if raw[fi.rel][ql] != '"' or fi.code[a] != ' ':
                continue
            f = fi.enclosing_fn(a)
            ls = raw[fi.rel].rfind('\n', 0, a) + 1
            le = raw[fi.rel].find('\n', a)
            shared_sites.append((fi.rel, f[0] if f else '', 'fmt_ptr', raw[fi.rel][ls:le if le >= 0 else None], fi.line(a)))
    return shared_sites


ORDER_KINDS = [
    ('sort_unstable', r"\.\s*(?:sort_unstable(?:_by(?:_key)?)?|select_nth_unstable(?:_by(?:_key)?)?)\s*\("),
    ('sort_stable', r"\.\s*(?:sort|sort_by|sort_by_key|sort_by_cached_key)\s*\("),
    ('dedup', r"\.\s*dedup(?:_by(?:_key)?)?\s*\("),
    ('binary_search', r"\.\s*binary_search(?:_by(?:_key)?)?\s*\("),
    ('heap', r"\bBinaryHeap\b"),
    ('par', r"\bpar_(?:iter|sort\w*|chunks\w*|bridge)\b"),
]


def scan_order(infos, raw):
    """every place where the order of a sequence is (re)established: sorts (stable / unstable), dedup, heaps, parallel
    iterators.  Hash-container iteration is in c06_hash_sites."""
    out = []
    for fi in infos:
        for kind, pat in ORDER_KINDS:
            for m in re.finditer(pat, fi.code):
                f = fi.enclosing_fn(m.start())
                ls = fi.code.rfind('\n', 0, m.start()) + 1
                le = fi.code.find('\n', m.start())
                out.append((fi.rel, f[0] if f else '', kind, raw[fi.rel][ls:le if le >= 0 else None], fi.line(m.start())))
    return out


SELFTEST_SRC = """
#[cfg(feature = "raster-images")]
mod outer {
    pub mod inner {
        use std::sync::Mutex;
        /// doc comment mentioning static FOO: Mutex<u8>
        static CACHE: Mutex<Vec<(u64, Vec<u8>)>> = Mutex::new(Vec::new());
        thread_local! { static LOCAL: std::cell::Cell<u32> = std::cell::Cell::new(0); }
        fn f() -> usize {
            static COUNTER: std::sync::atomic::AtomicUsize = std::sync::atomic::AtomicUsize::new(0);
            static ONCE: std::sync::OnceLock<u32> = std::sync::OnceLock::new();
            let s = "static NOT_CODE: Mutex<u8>";
            // not code: {:p}
            let a = format!("{:p} {}", &s, 1);
            let l: &'static mut u8 = Box::leak(Box::new(0));
            v.sort_unstable_by_key(|x| x.0);
            COUNTER.fetch_add(1, std::sync::atomic::Ordering::Relaxed)
        }
        static TABLE: &[u8] = b"ok";
        static LOCK: std::sync::RwLock<u8> = std::sync::RwLock::new(0);
    }
}
"""


def scanner_selftest():
    """The scanner must see statics / thread_local / Mutex / RwLock / atomics / OnceLock inside nested inline modules,
    feature-gated code and fn bodies, and must not see them in comments or string literals."""
    code = strip_verif_cfg(strip_code(SELFTEST_SRC))
    fi = index_file('selftest.rs', code)
    sites = scan_shared([fi], {'selftest.rs': SELFTEST_SRC})
    kinds = sorted(k for _, _, k, _, _ in sites)
    want = {'static_interior': 5, 'static': 1, 'thread_local': 1, 'Mutex': 2, 'RwLock': 2, 'Atomic': 2, 'Lazy': 2, 'Cell': 2,
            'fmt_ptr': 1, 'leak': 1}
    order = scan_order([fi], {'selftest.rs': SELFTEST_SRC})
    if [k for _, _, k, _, _ in order] != ['sort_unstable']:
        return False, {'order': len(order)}
    got = {}
    for k in kinds:
        got[k] = got.get(k, 0) + 1
    ok = all(got.get(k, 0) == v for k, v in want.items()) and set(got) <= set(want)
    return ok, got


def generate(api):
    for mode in ('lib', 'bin'):
        try:
            _generate(api, mode)
        except (api.Unsupported, OSError, ValueError, IndexError, KeyError) as e:
            api.broken('sites', 'c06-' + mode, PROPS, e)


def lib_files(api):
    repo = os.environ.get('VERIF_REPO', '/repo')
    out = []
    for root in ROOTS:
        for d, _, fs in os.walk(os.path.join(repo, root)):
            for f in sorted(fs):
                if f.endswith('.rs'):
                    rel = os.path.relpath(os.path.join(d, f), repo)
                    out.append(rel)
    out.sort()
    return out


BIN_FILES = ('crates/usvg/src/main.rs', 'crates/resvg/src/main.rs')

# third-party crates whose ORDER reaches the output: simplecss (CSS rules sorted by specificity, applied in list order by
# usvg's parse.rs) and fontdb (faces() / query() order is what the fallback selector and the family match walk through)
DEP_CRATES = ('simplecss', 'fontdb')
DEP_STRUCTS = {'fontdb': ('Database',), 'simplecss': ('StyleSheet',)}


def scan_deps(api):
    """shared-state + order sites of the pinned (Cargo.lock) versions of DEP_CRATES, read from the offline cargo registry;
    plus the field types of the containers whose iteration order usvg consumes"""
    import glob
    lock = api.rd('Cargo.lock')
    sites, fields, versions = [], [], []
    for crate in DEP_CRATES:
        m = re.search(r'name = "%s"\s*\nversion = "([^"]+)"' % re.escape(crate), lock)
        if not m:
            raise api.Unsupported("%s is not in Cargo.lock" % crate)
        ver = m.group(1)
        dirs = sorted(glob.glob(os.path.expanduser('~/.cargo/registry/src/*/%s-%s' % (crate, ver))))
        if not dirs:
            raise api.Unsupported("source of %s-%s not found in the cargo registry" % (crate, ver))
        versions.append((crate, ver))
        infos, raw = [], {}
        for d, _, fs in os.walk(os.path.join(dirs[0], 'src')):
            for f in sorted(fs):
                if f.endswith('.rs'):
                    rel = '%s/%s' % (crate, os.path.relpath(os.path.join(d, f), dirs[0]))
                    raw[rel] = open(os.path.join(d, f), encoding='utf-8', errors='replace').read()
                    infos.append(index_file(rel, strip_code(raw[rel])))
        if not infos:
            raise api.Unsupported("no sources in %s" % dirs[0])
        # test modules of the dependency are not part of the build
        def in_tests(fi, pos):
            return any(t == 'tests' and a <= pos <= b for t, a, b in getattr(fi, 'mods', []))
        for fi in infos:
            fi.mods = []
            for mm in re.finditer(r"#\[cfg\(test\)\]\s*mod\s+(\w+)\s*\{", fi.code):
                fi.mods.append(('tests', mm.start(), match_brace(fi.code, mm.end() - 1)))
        for rec in scan_shared(infos, raw) + scan_order(infos, raw):
            fi = [x for x in infos if x.rel == rec[0]][0]
            pos = fi.line_starts[rec[4] - 1]
            if in_tests(fi, pos):
                continue
            sites.append(rec)
        for fi in infos:
            for line_no, text in enumerate(fi.code.split('\n')):
                if re.search(r"\b(HashMap|HashSet)\b", text) and not in_tests(fi, fi.line_starts[line_no]):
                    f = fi.enclosing_fn(fi.line_starts[line_no])
                    sites.append((fi.rel, f[0] if f else '', 'hash_mention', raw[fi.rel].split('\n')[line_no].strip(), line_no + 1))
            for sname in DEP_STRUCTS.get(crate, ()):
                sm = re.search(r"\bstruct\s+%s\s*(?:<[^{;(]*>)?\s*\{" % sname, fi.code)
                if not sm:
                    continue
                body = fi.code[sm.end():match_brace(fi.code, sm.end() - 1)]
                body = re.sub(r"#\[[^\]]*\]", ' ', body)
                for part in split_top(body):
                    pm = re.match(r"\s*(?:pub(?:\([^)]*\))?\s+)?(\w+)\s*:\s*(.+)$", part.strip(), re.S)
                    if pm:
                        fields.append((crate + '::' + sname, pm.group(1), re.sub(r"\s+", ' ', pm.group(2).strip())))
        for sname in DEP_STRUCTS.get(crate, ()):
            if not any(a == crate + '::' + sname for a, _, _ in fields):
                raise api.Unsupported("struct %s not found in %s-%s" % (sname, crate, ver))
    return sites, fields, versions


def _generate(api, mode='lib'):
    """mode 'lib': the library sources -> Gen/C06Sites.v;  mode 'bin': the two command-line front ends
    (the property's "separate processes" clause covers the shipped binaries) -> Gen/C06BinSites.v"""
    files = lib_files(api)
    if len(files) < 40:
        raise api.Unsupported("library sources not found (%d files)" % len(files))
    infos = []
    skipped = []
    cfg_mods = set()
    raw = {}
    for rel in files:
        if (rel in BIN_FILES) != (mode == 'bin'):
            continue
        raw[rel] = api.rd(rel)
    if mode == 'bin' and len(raw) != 2:
        raise api.Unsupported("main.rs of resvg / usvg not found")
    # modules declared under #[cfg(resvg_verif)] (file modules): excluded, the guard itself is checked
    for rel, src in raw.items():
        for m in re.finditer(r"#\[cfg\(resvg_verif\)\]\s*(?:pub\s+)?mod\s+(\w+)\s*;", strip_code(src)):
            cfg_mods.add(os.path.join(os.path.dirname(rel), m.group(1) + '.rs'))
    for rel, src in raw.items():
        if rel in cfg_mods:
            skipped.append(rel)
            continue
        code = strip_verif_cfg(strip_code(src))
        infos.append(index_file(rel, code))

    # ---------------------------------------------------------------- type aliases, structs
    hash_names = list(HASH_TYPES)
    for fi in infos:
        for m in re.finditer(r"\btype\s+(\w+)\s*(?:<[^=]*>)?\s*=\s*([^;]+);", fi.code):
            if re.search(r"\b(HashMap|HashSet)\b", m.group(2)):
                hash_names.append(m.group(1))
    structs = {}     # name -> {field: ('hash', T) | ('type', T)}   (merged over crates: names are unique enough,
    dup_structs = set()   # duplicates are merged field-wise; a conflicting field becomes ambiguous)
    for fi in infos:
        for m in re.finditer(r"\bstruct\s+(\w+)\s*(?:<[^{;(]*>)?\s*(?:where[^{;]*)?\{", fi.code):
            name = m.group(1)
            k = m.end() - 1
            e = match_brace(fi.code, k)
            body = fi.code[k + 1:e]
            body = re.sub(r"#\[[^\]]*\]", ' ', body)
            fields = {}
            for part in split_top(body):
                pm = re.match(r"\s*(?:pub(?:\([^)]*\))?\s+)?(\w+)\s*:\s*(.+)$", part.strip(), re.S)
                if pm:
                    fields[pm.group(1)] = core_type(pm.group(2), hash_names)
            if name in structs:
                dup_structs.add(name)
                for f, t in fields.items():
                    if f in structs[name] and structs[name][f] != t:
                        structs[name][f] = ('type', '?') if 'hash' not in (t[0], structs[name][f][0]) else ('hash', 'HashMap')
                    else:
                        structs[name][f] = t
            else:
                structs[name] = fields
    hash_fields = {}   # field name -> [owner structs]
    for s, fs in structs.items():
        for f, t in fs.items():
            if t[0] == 'hash':
                hash_fields.setdefault(f, []).append(s)
    if not hash_fields and mode == 'lib':
        raise api.Unsupported("no HashMap/HashSet typed struct field found (anchor `Cache` lost?)")

    # fns returning some type: name -> core type (for `let x = f(..)` / `Type::f(..)`)
    fn_ret = {}
    for fi in infos:
        for f in fi.fns:
            r = f[5].strip()
            if r.startswith('->'):
                r = re.sub(r"\bwhere\b.*", '', r[2:], flags=re.S)
                ct = core_type(r, hash_names)
                if ct[1] == 'Self':
                    it = fi.enclosing_impl(f[1])
                    ct = ('type', it or '?')
                fn_ret.setdefault(f[0], set()).add(ct)

    hash_sites = []     # (file, fn, owner, name, method, line)
    ctor_sites = []
    METHOD = r"\s*\.\s*(\w+)\s*(?:::\s*<[^;(){}]*?>)?\s*\("

    def bindings_of(fi, f):
        """name -> ('hash', T) | ('type', T) for parameters and lets of fn f (flow-insensitive)."""
        b = {}
        for part in split_top(f[4]):
            part = part.strip()
            if re.match(r"^&?\s*('\w+\s+)?(mut\s+)?self$", part):
                it = fi.enclosing_impl(f[1])
                b['self'] = ('type', it or '?')
                continue
            pm = re.match(r"(?:#\[[^\]]*\]\s*)*(?:mut\s+)?(\w+)\s*:\s*(.+)$", part, re.S)
            if pm:
                b[pm.group(1)] = core_type(pm.group(2), hash_names)
        body = fi.code[f[2]:f[3] + 1]
        for m in re.finditer(r"\blet\s+(?:mut\s+)?(\w+)\s*(?::\s*([^=;]+?))?\s*=\s*([^;]*)", body):
            name, ann, init = m.group(1), m.group(2), m.group(3).strip()
            if ann:
                b[name] = core_type(ann, hash_names)
                continue
            im = re.match(r"(?:&\s*(?:mut\s+)?)?(?:[\w]+::)*(\w+)\s*(?:::\s*<[^>]*>)?\s*(::\s*\w+\s*\(|\{)", init)
            if im:
                t = im.group(1)
                if t in hash_names:
                    b[name] = ('hash', t)
                elif t == 'Self':
                    b[name] = ('type', fi.enclosing_impl(f[1]) or '?')
                elif t[:1].isupper():
                    b[name] = ('type', t)
                continue
            if re.search(r"collect\s*::\s*<\s*(?:[\w]+::)*(%s)\b" % '|'.join(hash_names), init):
                b[name] = ('hash', 'collect')
                continue
            cm = re.match(r"(?:[\w]+::)*(\w+)\s*\(", init)
            if cm and cm.group(1) in fn_ret and len(fn_ret[cm.group(1)]) == 1:
                b[name] = list(fn_ret[cm.group(1)])[0]
        # closure parameters and pattern bindings stay untyped (-> receiver unresolved)
        return b

    def resolve_chain(b, chain):
        """chain = ['cache', 'paint'] -> type of the last element or None."""
        t = b.get(chain[0])
        if t is None:
            return None
        for fld in chain[1:]:
            if t[0] != 'type' or t[1] not in structs or fld not in structs[t[1]]:
                return None
            t = structs[t[1]][fld]
        return t

    CHAIN = r"((?:\b\w+\s*\.\s*)*\b\w+)"
    n_unresolved = 0
    for fi in infos:
        for f in fi.fns:
            # innermost fns only get their own text: nested fns are indexed separately; avoid double counting by
            # attributing each match to the innermost enclosing fn
            b = bindings_of(fi, f)
            body_a, body_b = f[2], f[3] + 1
            seg = fi.code[body_a:body_b]
            # 1. method calls on chains
            for m in re.finditer(CHAIN + METHOD, seg):
                pos = body_a + m.start()
                if fi.enclosing_fn(pos) is not f:
                    continue
                chain = re.split(r"\s*\.\s*", m.group(1))
                if chain[0][:1].isdigit():
                    continue
                # try every prefix of the chain as receiver: a.b.c.method( -> receiver a.b.c; but also
                # a.b.insert(x).c is not produced by this regex (method parens break the chain)
                t = resolve_chain(b, chain)
                last = chain[-1]
                if t is not None and t[0] == 'hash':
                    owner = 'local' if len(chain) == 1 else (resolve_chain(b, chain[:-1]) or ('type', '?'))[1]
                    hash_sites.append((fi.rel, f[0], owner, last, m.group(2), fi.line(pos)))
                elif t is None and len(chain) >= 2 and last in hash_fields:
                    # the receiver could not be typed: is the field name hash-typed ONLY (in every struct that has it)?
                    owners_all = [s for s, fs in structs.items() if last in fs]
                    only_hash = all(structs[s][last][0] == 'hash' for s in owners_all)
                    recv_t = resolve_chain(b, chain[:-1])
                    if recv_t is not None and recv_t[0] == 'type' and recv_t[1] in structs and last not in structs[recv_t[1]]:
                        continue
                    if only_hash:
                        hash_sites.append((fi.rel, f[0], '?', last, m.group(2), fi.line(pos)))
                        n_unresolved += 1
                    elif m.group(2) in ORDER_METHODS:
                        # ambiguous field name, untyped receiver, order-exposing method: fail closed
                        hash_sites.append((fi.rel, f[0], '?', last, m.group(2), fi.line(pos)))
                        n_unresolved += 1
            # 2. for .. in <chain>
            for m in re.finditer(r"\bfor\b[^{;]*?\bin\s+(?:&\s*(?:mut\s+)?)?" + CHAIN + r"\s*\{", seg):
                pos = body_a + m.start()
                if fi.enclosing_fn(pos) is not f:
                    continue
                chain = re.split(r"\s*\.\s*", m.group(1))
                t = resolve_chain(b, chain)
                if t is not None and t[0] == 'hash':
                    owner = 'local' if len(chain) == 1 else (resolve_chain(b, chain[:-1]) or ('type', '?'))[1]
                    hash_sites.append((fi.rel, f[0], owner, chain[-1], 'for_in', fi.line(pos)))
            # 3. whole-value uses of hash typed locals / fields (not followed by `.method(`, not a declaration)
            for m in re.finditer(CHAIN, seg):
                pos = body_a + m.start()
                if fi.enclosing_fn(pos) is not f:
                    continue
                chain = re.split(r"\s*\.\s*", m.group(1))
                if chain[0] not in b:
                    continue
                t = resolve_chain(b, chain)
                if t is None or t[0] != 'hash':
                    continue
                after = seg[m.end():m.end() + 40]
                before = seg[max(0, m.start() - 40):m.start()]
                if re.match(METHOD, after):
                    continue
                if re.search(r"\blet\s+(mut\s+)?$", before) or re.match(r"\s*:", after) and re.search(r"[\(,]\s*(mut\s+)?$", before):
                    continue   # its own declaration
                if re.search(r"\bin\s+(&\s*(mut\s+)?)?$", before):
                    continue   # counted by rule 2
                if re.match(r"\s*(,|\))", after) and re.search(r"[\(,]\s*(&\s*(mut\s+)?)?$", before):
                    kind = 'pass_arg'       # handed to a callee whose parameter is typed (and scanned)
                    # ... unless the callee is a macro (format!("{:?}", map) prints the physical order): fail closed
                    depth = 0
                    q = m.start() - 1
                    while q >= 0:
                        ch = seg[q]
                        if ch in ')]}':
                            depth += 1
                        elif ch in '([{':
                            if depth == 0:
                                break
                            depth -= 1
                        q -= 1
                    if q > 0 and re.search(r"!\s*$", seg[:q]):
                        kind = 'macro_arg'
                elif re.match(r"\s*;", after) and re.search(r"=\s*$", before):
                    kind = 'move_assign'    # moved into a (typed, scanned) field or binding
                elif re.match(r"\s*=[^=]", after):
                    kind = 'assigned'       # target of an assignment
                elif re.match(r"\s*,|\s*\}", after) and re.search(r"[\{,]\s*$", before):
                    kind = 'struct_init'
                else:
                    kind = 'whole_other'
                owner = 'local' if len(chain) == 1 else (resolve_chain(b, chain[:-1]) or ('type', '?'))[1]
                hash_sites.append((fi.rel, f[0], owner, chain[-1], kind, fi.line(pos)))
        # constructor sites (anywhere in the file)
        for m in re.finditer(r"\b(%s)\s*(?:::\s*<[^>]*>)?\s*::\s*(\w+)\s*\(" % '|'.join(map(re.escape, hash_names)), fi.code):
            f = fi.enclosing_fn(m.start())
            ctor_sites.append((fi.rel, f[0] if f else '', m.group(1), m.group(2), fi.line(m.start())))

    shared_sites = scan_shared(infos, raw)
    order_sites = scan_order(infos, raw)

    # ---------------------------------------------------------------- hashers
    hasher_sites = []
    for fi in infos:
        for m in re.finditer(r"\b(DefaultHasher|RandomState|BuildHasherDefault|SipHasher\w*|FxHasher|AHasher)\s*::\s*(\w+)\s*\(|\b(RandomState|BuildHasher)\b", fi.code):
            f = fi.enclosing_fn(m.start())
            if m.group(1):
                hasher_sites.append((fi.rel, f[0] if f else '', m.group(1), m.group(2), fi.line(m.start())))
            else:
                hasher_sites.append((fi.rel, f[0] if f else '', m.group(3), 'mention', fi.line(m.start())))
    # ---------------------------------------------------------------- every mention of a hash type is accounted for
    mentions = []   # (file, kind, text, line)
    ctor_lines = set((a, ln) for a, _, _, _, ln in ctor_sites)
    name_re = re.compile(r"\b(%s)\b" % '|'.join(map(re.escape, hash_names)))
    for fi in infos:
        lines = fi.code.split('\n')
        rawlines = raw[fi.rel].split('\n')
        for ln0, text in enumerate(lines):
            if not name_re.search(text):
                continue
            ln = ln0 + 1
            t = text.strip()
            if re.match(r"(pub\s+)?use\b", t):
                kind = 'use'
            elif re.match(r"(pub(\([^)]*\))?\s+)?type\s+\w+", t):
                kind = 'alias'
            elif re.search(r"->[^{;]*\b(%s)\b" % '|'.join(map(re.escape, hash_names)), t):
                kind = 'fn_result'
            elif re.search(r"\blet\s+(mut\s+)?\w+\s*:\s*[^=]*\b(%s)\b" % '|'.join(map(re.escape, hash_names)), t):
                kind = 'let_annot'
            elif re.match(r"(pub(\([^)]*\))?\s+)?(mut\s+)?\w+\s*:\s*&?\s*('\w+\s+)?(mut\s+)?(std::collections::)?(%s)\b[^=]*,?$"
                          % '|'.join(map(re.escape, hash_names)), t):
                f = fi.enclosing_fn(fi.line_starts[ln0])
                kind = 'param' if (f and fi.line_starts[ln0] < f[2]) else 'field'
            elif (fi.rel, ln) in ctor_lines:
                kind = 'ctor'
            else:
                kind = 'other'
            mentions.append((fi.rel, kind, rawlines[ln0].strip(), ln))


    if mode == 'bin':
        Lb = [api.HEADER,
              "From Coq Require Import String ZArith List Bool.\nFrom RV Require Import Gen.C06Sites.\nImport ListNotations.\nLocal Open Scope string_scope.\n"]

        def emit_b(name, ty, items):
            Lb.append("Definition %s : list %s := [%s]." % (name, ty, ("\n  " + ";\n  ".join(items) + "\n") if items else ""))
            Lb.append("")
        emit_b('c06_bin_scanned_files', 'string', [coq_str(fi.rel) for fi in infos])
        emit_b('c06_bin_hash_sites', 'hsite',
               ["{| hs_file := %s; hs_fn := %s; hs_owner := %s; hs_name := %s; hs_method := %s; hs_line := %d |}"
                % (coq_str(a_), coq_str(b_), coq_str(c_), coq_str(d_), coq_str(e_), ln) for a_, b_, c_, d_, e_, ln in hash_sites])
        emit_b('c06_bin_hash_ctor_sites', 'hsite',
               ["{| hs_file := %s; hs_fn := %s; hs_owner := %s; hs_name := %s; hs_method := %s; hs_line := %d |}"
                % (coq_str(a_), coq_str(b_), coq_str('ctor'), coq_str(c_), coq_str(d_), ln) for a_, b_, c_, d_, ln in ctor_sites])
        emit_b('c06_bin_shared_sites', 'ssite',
               ["{| ss_file := %s; ss_fn := %s; ss_kind := %s; ss_text := %s; ss_line := %d |}"
                % (coq_str(a_), coq_str(b_), coq_str(c_), coq_str(d_[:160]), ln) for a_, b_, c_, d_, ln in shared_sites])
        emit_b('c06_bin_hasher_sites', 'hasher_site',
               ["{| hh_file := %s; hh_fn := %s; hh_type := %s; hh_method := %s; hh_line := %d |}"
                % (coq_str(a_), coq_str(b_), coq_str(c_), coq_str(d_), ln) for a_, b_, c_, d_, ln in hasher_sites])
        emit_b('c06_bin_hash_mentions', 'ssite',
               ["{| ss_file := %s; ss_fn := %s; ss_kind := %s; ss_text := %s; ss_line := %d |}"
                % (coq_str(a_), coq_str(''), coq_str(k_), coq_str(t_[:160]), ln) for a_, k_, t_, ln in mentions])
        emit_b('c06_bin_order_sites', 'ssite',
               ["{| ss_file := %s; ss_fn := %s; ss_kind := %s; ss_text := %s; ss_line := %d |}"
                % (coq_str(a_), coq_str(b_), coq_str(c_), coq_str(d_[:160]), ln) for a_, b_, c_, d_, ln in order_sites])
        api.write_gen('C06BinSites.v', "\n".join(Lb))
        api.ok('tables', 'c06_bin_sites', hash_sites=len(hash_sites), shared_sites=len(shared_sites), files=len(infos))
        return

    # which hasher feeds the generated-id check: `fn string_hash` must exist and build a DefaultHasher
    conv = 'crates/usvg/src/parser/converter.rs'
    cfi = [fi for fi in infos if fi.rel == conv]
    if not cfi:
        raise api.Unsupported("converter.rs not found")
    cfi = cfi[0]
    sh = [f for f in cfi.fns if f[0] == 'string_hash']
    if not sh:
        raise api.Unsupported("fn string_hash not found in converter.rs")

    # ---------------------------------------------------------------- forbid(unsafe_code), Cache::new sites
    forbid = []
    for lib in ('crates/usvg/src/lib.rs', 'crates/resvg/src/lib.rs'):
        code = strip_code(raw[lib])
        forbid.append((lib, bool(re.search(r"#!\[forbid\(\s*unsafe_code\s*\)\]", code))))
    cache_new = []
    for fi in infos:
        for m in re.finditer(r"\bCache\s*::\s*new\s*\(", fi.code):
            f = fi.enclosing_fn(m.start())
            if f and f[0] == 'new' and fi.enclosing_impl(m.start()) == 'Cache':
                continue
            cache_new.append((fi.rel, f[0] if f else '', fi.line(m.start())))
        for m in re.finditer(r"\bSelf\s*::\s*new\s*\(|\bSelf\s*\{", fi.code):
            if fi.enclosing_impl(m.start()) == 'Cache':
                f = fi.enclosing_fn(m.start())
                if f and f[0] != 'new':
                    cache_new.append((fi.rel, f[0], fi.line(m.start())))
    # is a Cache stored anywhere that outlives a call (struct field / static / return value)?
    cache_escapes = []
    for s, fs in structs.items():
        for fld, t in fs.items():
            if t == ('type', 'Cache'):
                cache_escapes.append(('field', s + '.' + fld))
    for name, rts in fn_ret.items():
        for t in rts:
            if t == ('type', 'Cache') and name != 'new':
                cache_escapes.append(('fn_result', name))

    # ---------------------------------------------------------------- gen_*_id functions and counter initialisers
    gen_fns = []
    body_re = re.compile(
        r"^\{\s*loop\s*\{\s*self\s*\.\s*(\w+)\s*\+=\s*1\s*;\s*"
        r"let\s+new_id\s*=\s*format!\s*\(\s*\"[^\"]*\"\s*,\s*self\s*\.\s*(\w+)\s*\)\s*;\s*"
        r"let\s+new_hash\s*=\s*string_hash\s*\(\s*&\s*new_id\s*\)\s*;\s*"
        r"if\s*!\s*self\s*\.\s*all_ids\s*\.\s*contains\s*\(\s*&\s*new_hash\s*\)\s*\{\s*"
        r"return\s+NonEmptyString::new\s*\(\s*new_id\s*\)\s*\.\s*unwrap\s*\(\s*\)\s*;\s*\}\s*\}\s*\}$", re.S)
    for f in cfi.fns:
        if re.match(r"gen_\w+_id$", f[0]) and cfi.enclosing_impl(f[1]) == 'Cache':
            body = cfi.code[f[2]:f[3] + 1]
            bm = body_re.match(body.strip())
            # the literal prefix is taken from the unstripped source
            rawbody = raw[conv][f[2]:f[3] + 1]
            pm = re.search(r'format!\s*\(\s*"([^"{}]*)\{\}"', rawbody)
            shape_ok = bool(bm) and bm.group(1) == bm.group(2) and pm is not None
            gen_fns.append((f[0], bm.group(1) if bm else '?', pm.group(1) if pm else '?', shape_ok))
    if len(gen_fns) < 1:
        raise api.Unsupported("no Cache::gen_*_id function found")
    inits = []
    newf = [f for f in cfi.fns if f[0] == 'new' and cfi.enclosing_impl(f[1]) == 'Cache']
    if not newf:
        raise api.Unsupported("Cache::new not found")
    nb = cfi.code[newf[0][2]:newf[0][3] + 1]
    for m in re.finditer(r"\b(\w+_index)\s*:\s*([^,}]+)", nb):
        v = m.group(2).strip()
        inits.append((m.group(1), int(v) if re.match(r"^\d+$", v) else -1))
    idx_fields = [f for f in structs.get('Cache', {}) if f.endswith('_index')]

    # ---------------------------------------------------------------- emit
    L = [api.HEADER,
         "From Coq Require Import String ZArith List Bool.\nImport ListNotations.\nLocal Open Scope string_scope.\n",
         "Record hsite := { hs_file : string; hs_fn : string; hs_owner : string; hs_name : string; hs_method : string; hs_line : Z }.",
         "Record ssite := { ss_file : string; ss_fn : string; ss_kind : string; ss_text : string; ss_line : Z }.",
         "Record hasher_site := { hh_file : string; hh_fn : string; hh_type : string; hh_method : string; hh_line : Z }.",
         "Record genfn := { gf_name : string; gf_counter : string; gf_prefix : string; gf_shape_ok : bool }.", ""]

    def emit_list(name, ty, items):
        if not items:
            L.append("Definition %s : list %s := []." % (name, ty))
        else:
            L.append("Definition %s : list %s := [\n  %s\n]." % (name, ty, ";\n  ".join(items)))
        L.append("")

    emit_list('c06_scanned_files', 'string', [coq_str(fi.rel) for fi in infos])
    emit_list('c06_skipped_cfg_files', 'string', [coq_str(s) for s in sorted(skipped)])
    emit_list('c06_hash_type_names', 'string', [coq_str(s) for s in hash_names])
    emit_list('c06_hash_fields', '(string * string)',
              ["(%s, %s)" % (coq_str(s), coq_str(f)) for f, ss in sorted(hash_fields.items()) for s in sorted(ss)])
    emit_list('c06_hash_sites', 'hsite',
              ["{| hs_file := %s; hs_fn := %s; hs_owner := %s; hs_name := %s; hs_method := %s; hs_line := %d |}"
               % (coq_str(a), coq_str(b), coq_str(c), coq_str(d), coq_str(e), ln) for a, b, c, d, e, ln in hash_sites])
    emit_list('c06_hash_ctor_sites', 'hsite',
              ["{| hs_file := %s; hs_fn := %s; hs_owner := %s; hs_name := %s; hs_method := %s; hs_line := %d |}"
               % (coq_str(a), coq_str(b), coq_str('ctor'), coq_str(c), coq_str(d), ln) for a, b, c, d, ln in ctor_sites])
    emit_list('c06_shared_sites', 'ssite',
              ["{| ss_file := %s; ss_fn := %s; ss_kind := %s; ss_text := %s; ss_line := %d |}"
               % (coq_str(a), coq_str(b), coq_str(c), coq_str(d[:160]), ln) for a, b, c, d, ln in shared_sites])
    emit_list('c06_order_sites', 'ssite',
              ["{| ss_file := %s; ss_fn := %s; ss_kind := %s; ss_text := %s; ss_line := %d |}"
               % (coq_str(a), coq_str(b), coq_str(c), coq_str(d[:160]), ln) for a, b, c, d, ln in order_sites])
    dep_sites, dep_fields, dep_versions = scan_deps(api)
    emit_list('c06_dep_versions', '(string * string)', ["(%s, %s)" % (coq_str(a), coq_str(b)) for a, b in dep_versions])
    emit_list('c06_dep_sites', 'ssite',
              ["{| ss_file := %s; ss_fn := %s; ss_kind := %s; ss_text := %s; ss_line := %d |}"
               % (coq_str(a), coq_str(b), coq_str(c), coq_str(d[:160]), ln) for a, b, c, d, ln in dep_sites])
    emit_list('c06_dep_fields', '(string * (string * string))',
              ["(%s, (%s, %s))" % (coq_str(a), coq_str(b), coq_str(c)) for a, b, c in dep_fields])
    emit_list('c06_hasher_sites', 'hasher_site',
              ["{| hh_file := %s; hh_fn := %s; hh_type := %s; hh_method := %s; hh_line := %d |}"
               % (coq_str(a), coq_str(b), coq_str(c), coq_str(d), ln) for a, b, c, d, ln in hasher_sites])
    emit_list('c06_hash_mentions', 'ssite',
              ["{| ss_file := %s; ss_fn := %s; ss_kind := %s; ss_text := %s; ss_line := %d |}"
               % (coq_str(a), coq_str(''), coq_str(k), coq_str(t[:160]), ln) for a, k, t, ln in mentions])
    emit_list('c06_forbid_unsafe', '(string * bool)',
              ["(%s, %s)" % (coq_str(a), 'true' if b else 'false') for a, b in forbid])
    emit_list('c06_cache_new_sites', '(string * string)', ["(%s, %s)" % (coq_str(a), coq_str(b)) for a, b, _ in cache_new])
    emit_list('c06_cache_escapes', '(string * string)', ["(%s, %s)" % (coq_str(a), coq_str(b)) for a, b in cache_escapes])
    emit_list('c06_gen_id_fns', 'genfn',
              ["{| gf_name := %s; gf_counter := %s; gf_prefix := %s; gf_shape_ok := %s |}"
               % (coq_str(a), coq_str(b), coq_str(c), 'true' if d else 'false') for a, b, c, d in gen_fns])
    emit_list('c06_counter_inits', '(string * Z)', ["(%s, (%d)%%Z)" % (coq_str(a), v) for a, v in inits])
    emit_list('c06_counter_fields', 'string', [coq_str(f) for f in sorted(idx_fields)])
    st_ok, st_got = scanner_selftest()
    L.append("(* scanner self-test on a synthetic source with statics in nested inline, feature-gated modules and fn bodies: %s *)" % sorted(st_got.items()))
    L.append("Definition c06_scanner_selftest : bool := %s.\n" % ('true' if st_ok else 'false'))
    api.write_gen('C06Sites.v', "\n".join(L))
    api.ok('tables', 'c06_sites', hash_sites=len(hash_sites), shared_sites=len(shared_sites),
           hasher_sites=len(hasher_sites), files=len(infos), unresolved=n_unresolved,
           hash_fields={f: ss for f, ss in hash_fields.items()})


ORDER_METHODS = {'iter', 'iter_mut', 'keys', 'values', 'values_mut', 'into_iter', 'into_keys', 'into_values',
                 'drain', 'retain', 'extract_if', 'drain_filter'}
