"""T1 plug-in: Gen/SvgTables.v from usvg's svgtree sources (names.rs, mod.rs, parse.rs) and units.rs.

Everything the C09 theorems quantify over is transcribed here from the working tree:
  * the `EId` / `AId` inductives (names.rs) with an injection to N (boolean equality by index),
  * the attribute classes `is_presentation`, `allows_inherit_value`, `is_non_inheritable` (the `matches!`
    lists of svgtree/mod.rs) and the shape of `is_inheritable`,
  * the skip lists of `parse_svg_element` / `append_attribute` (style-only properties, the CSS-only
    `image-rendering` values, `style`/`class`, `tspan`+`href`), the `inherit` keyword test, the `marker`
    shorthand targets and the `has_precedence` expression of `insert_attribute`,
  * the `resolve_inherit` default table (parse.rs),
  * the unit arms of `resolve_font_size` (units.rs; those of `convert_length` are in Gen/Units.v, gen_units.py).
An anchor that is not found exactly once is a broken tie (api.broken), never a silent default.
"""
import re
from fractions import Fraction

PROPS = ['C09']

NAMES = 'crates/usvg/src/parser/svgtree/names.rs'
MODRS = 'crates/usvg/src/parser/svgtree/mod.rs'
PARSE = 'crates/usvg/src/parser/svgtree/parse.rs'
UNITS = 'crates/usvg/src/parser/units.rs'


class Missing(Exception):
    pass


def strip_comments(src):
    src = re.sub(r"/\*.*?\*/", "", src, flags=re.S)
    return re.sub(r"//[^\n]*", "", src)


def one(pattern, src, what, flags=re.S):
    ms = list(re.finditer(pattern, src, flags))
    if len(ms) != 1:
        raise Missing("%s: expected exactly one match, found %d" % (what, len(ms)))
    return ms[0]


def enum_ctors(src, name):
    m = one(r"pub enum %s \{(.*?)\}" % name, src, "enum " + name)
    cs = [c.strip() for c in m.group(1).split(',') if c.strip()]
    for c in cs:
        if not re.fullmatch(r"[A-Z][A-Za-z0-9]*", c):
            raise Missing("enum %s: unexpected constructor text %r" % (name, c))
    if len(set(cs)) != len(cs):
        raise Missing("enum %s: duplicate constructors" % name)
    return cs


def entries(src, static, ty):
    m = one(r"static %s: Map<%s> = Map \{.*?entries: &\[(.*?)\],\s*\};" % (static, ty), src, "static " + static)
    out = re.findall(r'\("([^"]+)",\s*%s::(\w+)\)' % ty, m.group(1))
    return out


def aid_list(text, what, ty='AId'):
    items = [x.strip() for x in text.split('|') if x.strip()]
    out = []
    for it in items:
        m = re.fullmatch(r"%s::(\w+)" % ty, it)
        if not m:
            raise Missing("%s: unexpected pattern %r" % (what, it))
        out.append(m.group(1))
    if len(set(out)) != len(out):
        raise Missing("%s: duplicate entries" % what)
    return out


def matches_fn(src, fn):
    m = one(r"fn %s\([^)]*\)\s*->\s*bool\s*\{\s*matches!\(\s*(?:self|id)\s*,(.*?)\)\s*\}" % fn, src, "fn " + fn)
    return aid_list(m.group(1), fn)


def fn_body(src, fn, generic=None):
    """Body of `fn <fn>`; `generic=True` selects the definition with a `<...>` parameter list."""
    pat = r"fn %s\s*(?:<[^>]*>)?\s*\(" % fn
    if generic:
        pat = r"fn %s\s*<[^>]*>\s*\(" % fn
    m = one(pat, src, "fn " + fn)
    i = src.index('{', m.end())
    depth = 0
    j = i
    while True:
        if src[j] == '{':
            depth += 1
        elif src[j] == '}':
            depth -= 1
            if depth == 0:
                return src[i + 1:j]
        j += 1


def qlit(fr):
    return "(%d # %d)" % (fr.numerator, fr.denominator)


def unit_expr(expr, what, var2):
    """`n * dpi / 2.54` -> Gallina over Q (variables n and dpi / font_size; float literals become exact)."""
    toks = re.findall(r"\s*([A-Za-z_]\w*|\d+\.\d+|\d+|[*/])", expr)
    if ''.join(toks) != re.sub(r"\s+", "", expr) or not toks:
        raise Missing("%s: expression %r outside the subset" % (what, expr))
    def atom(t):
        if t in ('n',) + tuple(var2):
            return t
        if re.fullmatch(r"\d+\.\d+|\d+", t):
            return qlit(Fraction(t))
        raise Missing("%s: unknown operand %r in %r" % (what, t, expr))
    if len(toks) % 2 == 0:
        raise Missing("%s: malformed expression %r" % (what, expr))
    acc = atom(toks[0])
    for k in range(1, len(toks), 2):
        op, b = toks[k], atom(toks[k + 1])
        if op not in '*/':
            raise Missing("%s: malformed expression %r" % (what, expr))
        acc = "(%s %s %s)" % (acc, op, b)
    return acc


UNIT_ORDER = ['In', 'Cm', 'Mm', 'Pt', 'Pc']


def parse_tables(rd, strict=True):
    """-> dict with everything extracted.  `rd(rel)` reads a repo file.  A lost anchor raises Missing when
    `strict`; otherwise the messages are collected in t['errors'] and the pieces that were found are returned
    (the check uses this to keep generating inputs when the tie is broken)."""
    t = {'errors': []}

    def step(f):
        try:
            f()
        except (Missing, ValueError, IndexError) as e:
            if strict:
                raise
            t['errors'].append(str(e))

    names = rd(NAMES)
    t['eids'] = enum_ctors(names, 'EId')
    t['aids'] = enum_ctors(names, 'AId')
    t['enames'] = entries(names, 'ELEMENTS', 'EId')
    t['anames'] = entries(names, 'ATTRIBUTES', 'AId')
    for ty, cs, ns in (('EId', t['eids'], t['enames']), ('AId', t['aids'], t['anames'])):
        if sorted(c for _, c in ns) != sorted(cs):
            raise Missing("%s: the name table and the enum do not list the same constructors" % ty)
        if len(set(n for n, _ in ns)) != len(ns):
            raise Missing("%s: duplicate names in the name table" % ty)
    aset = set(t['aids'])

    modrs = strip_comments(rd(MODRS))

    def classes(fn):
        def go():
            t[fn] = matches_fn(modrs, fn)
            for a in t[fn]:
                if a not in aset:
                    raise Missing("%s lists unknown AId::%s" % (fn, a))
        return go
    for fn in ('is_presentation', 'allows_inherit_value', 'is_non_inheritable'):
        step(classes(fn))

    def inheritable():
        body = re.sub(r"\s+", " ", fn_body(modrs, 'is_inheritable')).strip()
        if body != "if self.is_presentation() { !is_non_inheritable(*self) } else { false }":
            raise Missing("is_inheritable: body changed: %r" % body)
    step(inheritable)

    def find_attr():
        # find_attribute_impl: the two branches (ancestor walk / self-or-parent) are modelled by hand; their
        # presence is anchored here, their behaviour is tied by the correspondences.
        fa = re.sub(r"\s+", " ", fn_body(modrs, 'find_attribute_impl'))
        for frag in ("if aid.is_inheritable() {", "for n in self.ancestors() {", "if n.has_attribute(aid) {",
                     "if self.has_attribute(aid) {", "let n = self.parent_element()?;"):
            if frag not in fa:
                raise Missing("find_attribute_impl: fragment %r not found" % frag)
    step(find_attr)

    parse = strip_comments(rd(PARSE))
    pse = fn_body(parse, 'parse_svg_element')
    sw = re.sub(r"\s+", " ", pse)

    def style_only():
        m = one(r"if matches!\(aid,\s*([^)]*)\)\s*\{\s*continue;\s*\}", pse, "style-only skip list")
        t['style_only'] = aid_list(m.group(1), "style-only skip list")
    step(style_only)

    def css_only():
        m = one(r"else if aid == AId::(\w+)\s*&&\s*matches!\(\s*attr\.value\(\)\s*,\s*((?:\"[^\"]*\"\s*\|?\s*)+)\)\s*\{\s*continue;",
                pse, "image-rendering skip")
        t['css_only_value_attr'] = m.group(1)
        t['css_only_values'] = re.findall(r'"([^"]*)"', m.group(2))
    step(css_only)

    def ignore_ids():
        m = one(r"if ignore_ids && aid == AId::(\w+) \{\s*continue;", pse, "ignore_ids skip")
        t['ignored_id_attr'] = m.group(1)
    step(ignore_ids)

    def precedence():
        # the whole body of the `insert_attribute` closure: head anchored, the fix-up block translated statement
        # by statement into list operations (Gen/SvgInsert.v: insert_fixup)
        m = one(r"let mut insert_attribute = \|aid, value: &str, important: bool\| \{(.*?)\};\s*let mut write_declaration", pse,
                "insert_attribute closure")
        body = re.sub(r"\s+", " ", m.group(1)).strip()
        head = ("let idx = doc.attrs[attrs_start_idx..] .iter_mut() .position(|a| a.name == aid); "
                "let added = append_attribute( parent_id, tag_name, aid, roxmltree::StringStorage::new_owned(value), important, doc, ); "
                "if added { if let Some(idx) = idx { ")
        if not body.startswith(head) or not body.endswith("} }"):
            raise Missing("insert_attribute: the head of the closure (position / append_attribute / if added / if let Some(idx)) changed")
        block = body[len(head):-3].strip()
        lets = []
        hp_expr = [None]

        def bexpr(e):
            """boolean expression over the existing attribute's flag -> (Gallina over `l`, Gallina over `existing_important`)"""
            e = e.strip()
            toks = re.findall(r"doc\.attrs\[existing_idx\]\.important|true|false|[!()]|\S+", e)
            pos = [0]

            def atom():
                if pos[0] >= len(toks):
                    raise Missing("insert_attribute: cannot parse has_precedence %r" % e)
                tk = toks[pos[0]]
                pos[0] += 1
                if tk == '!':
                    a, b = atom()
                    return "(negb %s)" % a, "(negb %s)" % b
                if tk == '(':
                    a, b = atom()
                    if pos[0] >= len(toks) or toks[pos[0]] != ')':
                        raise Missing("insert_attribute: cannot parse has_precedence %r" % e)
                    pos[0] += 1
                    return a, b
                if tk == 'doc.attrs[existing_idx].important':
                    return "(attr_important l existing_idx)", "existing_important"
                if tk in ('true', 'false'):
                    return tk, tk
                raise Missing("insert_attribute: has_precedence expression changed: %r" % e)
            r = atom()
            if pos[0] != len(toks):
                raise Missing("insert_attribute: has_precedence expression changed: %r" % e)
            return r
        rest = block
        while rest:
            mm = re.match(r"let last_idx = doc\.attrs\.len\(\) - 1; ?", rest)
            if mm:
                lets.append("let last_idx := (length l - 1)%nat in")
                rest = rest[mm.end():]
                continue
            mm = re.match(r"let existing_idx = attrs_start_idx \+ idx; ?", rest)
            if mm:
                lets.append("let existing_idx := idx in")          # `l` is the element's own slice of doc.attrs
                rest = rest[mm.end():]
                continue
            mm = re.match(r"let has_precedence = ([^;]*); ?", rest)
            if mm:
                a, b = bexpr(mm.group(1))
                hp_expr[0] = b
                lets.append("let has_precedence := %s in" % a)
                rest = rest[mm.end():]
                continue
            mm = re.match(r"if has_precedence \{ doc\.attrs\.swap\((existing_idx|last_idx), (existing_idx|last_idx)\); \} ?", rest)
            if mm:
                lets.append("let l := if has_precedence then swap_nth %s %s l else l in" % (mm.group(1), mm.group(2)))
                rest = rest[mm.end():]
                continue
            mm = re.match(r"doc\.attrs\.swap\((existing_idx|last_idx), (existing_idx|last_idx)\); ?", rest)
            if mm:
                lets.append("let l := swap_nth %s %s l in" % (mm.group(1), mm.group(2)))
                rest = rest[mm.end():]
                continue
            mm = re.match(r"doc\.attrs\.pop\(\); ?", rest)
            if mm:
                lets.append("let l := removelast l in")
                rest = rest[mm.end():]
                continue
            raise Missing("insert_attribute: statement outside the translated subset (swap/pop sequence changed): %r" % rest[:70])
        if hp_expr[0] is None:
            raise Missing("insert_attribute: has_precedence is no longer computed")
        t['has_precedence'] = hp_expr[0]
        t['insert_fixup'] = lets
    step(precedence)

    def marker():
        m = one(r'if declaration\.name == "marker" \{((?:\s*insert_attribute\(AId::\w+, val, imp\);)+)\s*\}', pse,
                "marker shorthand")
        t['marker_shorthand'] = re.findall(r"AId::(\w+)", m.group(1))
    step(marker)

    def pres_filter():
        if "if aid.is_presentation() { insert_attribute(aid, val, imp); }" not in sw:
            raise Missing("write_declaration: presentation filter changed")
    step(pres_filter)

    def order():
        # attributes, then CSS, then the style attribute
        i1 = sw.find("for attr in xml_node.attributes() {")
        i2 = sw.find("for rule in &style_sheet.rules {")
        i3 = sw.find('if let Some(value) = xml_node.attribute("style") {')
        if not (0 <= i1 < i2 < i3):
            raise Missing("parse_svg_element: the order attributes / CSS / style attribute changed")
    step(order)

    apa = fn_body(parse, 'append_attribute', generic=True)

    def dropped():
        m = one(r"match aid \{\s*((?:AId::\w+\s*\|?\s*)+)=>\s*return false,\s*_ => \{\}\s*\}", apa, "dropped attributes")
        t['dropped'] = aid_list(m.group(1), "dropped attributes")
    step(dropped)

    def dropped_on():
        m = one(r"if tag_name == EId::(\w+) && aid == AId::(\w+) \{\s*return false;", apa, "tspan/href rule")
        t['dropped_on'] = (m.group(1), m.group(2))
    step(dropped_on)

    def keyword():
        m = one(r'if aid\.allows_inherit_value\(\) && &\*value == "([^"]*)" \{\s*return resolve_inherit\(parent_id, aid, important, doc\);',
                apa, "inherit keyword test")
        t['inherit_keyword'] = m.group(1)
    step(keyword)

    ri = fn_body(parse, 'resolve_inherit')

    def defaults():
        m = one(r"let value = match aid \{(.*?)_ => return false,\s*\};", ri, "resolve_inherit default table")
        arms = re.findall(r"((?:AId::\w+\s*\|?\s*)+)=>\s*\"([^\"]*)\"\s*,", m.group(1))
        rest = re.sub(r"((?:AId::\w+\s*\|?\s*)+)=>\s*\"([^\"]*)\"\s*,", "", m.group(1)).strip()
        if rest or not arms:
            raise Missing("resolve_inherit default table: unparsed text %r" % rest[:60])
        dt = []
        for pats, val in arms:
            for a in aid_list(pats, "resolve_inherit default table"):
                if a not in aset:
                    raise Missing("default table lists unknown AId::%s" % a)
                dt.append((a, val))
        if len(set(a for a, _ in dt)) != len(dt):
            raise Missing("resolve_inherit default table: attribute listed twice")
        t['inherit_default'] = dt
    step(defaults)

    def inherit_flow():
        rin = re.sub(r"\s+", " ", ri)
        for frag in ("if aid.is_inheritable() {", ".get(parent_id) .ancestors() .find(|n| n.has_attribute(aid))",
                     "} else { if let Some(attr) = doc .get(parent_id) .attributes() .iter() .find(|a| a.name == aid)",
                     "name: aid, value: attr.value, important, });",
                     "doc.append_attribute(aid, roxmltree::StringStorage::Borrowed(value), important);"):
            if frag not in rin:
                raise Missing("resolve_inherit: fragment %r not found" % frag)
        # the pushed attribute takes the flag of the declaration that says `inherit` (two copy sites + the fallback)
        if rin.count("name: aid, value: attr.value, important, });") != 2 or "attr.important" in rin:
            raise Missing("resolve_inherit: the important flag of the pushed attribute is no longer the declaration's")
    step(inherit_flow)

    def xmlnode():
        # impl simplecss::Element for XmlNode: what selector matching (simplecss) sees of an XML element.  The four
        # navigation / name / attribute methods are anchored textually (modelled in Model/CascadeSel.v); the arms of
        # pseudo_class_matches are transcribed.
        m = one(r"impl simplecss::Element for XmlNode<'_, '_> \{(.*?)\n\}", parse, "impl simplecss::Element for XmlNode")
        blk = m.group(1)
        ref = {'parent_element': "self.0.parent_element().map(XmlNode)",
               'prev_sibling_element': "self.0.prev_sibling_element().map(XmlNode)",
               'has_local_name': "self.0.tag_name().name() == local_name",
               'attribute_matches': "match self.0.attribute(local_name) { Some(value) => operator.matches(value), None => false, }"}
        for fn, body in ref.items():
            got = re.sub(r"\s+", " ", fn_body(blk, fn)).strip()
            if got != body:
                raise Missing("XmlNode::%s: body changed: %r" % (fn, got))
        pc = re.sub(r"\s+", " ", fn_body(blk, 'pseudo_class_matches')).strip()
        mm = re.fullmatch(r"match class \{ (.*) _ => (true|false), \}", pc)
        if not mm:
            raise Missing("XmlNode::pseudo_class_matches: shape changed: %r" % pc)
        arms = re.findall(r"simplecss::PseudoClass::(\w+)(?:\([^)]*\))? => ([^,]+),", mm.group(1))
        rest = re.sub(r"simplecss::PseudoClass::(\w+)(?:\([^)]*\))? => ([^,]+),", "", mm.group(1)).strip()
        if rest:
            raise Missing("XmlNode::pseudo_class_matches: unparsed arms %r" % rest)
        t['pseudo_default'] = mm.group(2)
        t['pseudo_first_child'] = 'false'
        for name, expr in arms:
            if name == 'FirstChild' and expr.strip() == "self.prev_sibling_element().is_none()":
                t['pseudo_first_child'] = 'true'
            else:
                raise Missing("XmlNode::pseudo_class_matches: arm %s => %s is outside the modelled subset" % (name, expr.strip()))
        # the rule loop: every rule whose selector matches, in sheet order, every declaration in order
        if "for rule in &style_sheet.rules { if rule.selector.matches(&XmlNode(xml_node)) { for declaration in &rule.declarations { write_declaration(declaration); } } }" not in sw:
            raise Missing("parse_svg_element: the CSS rule loop changed")
        rc = re.sub(r"\s+", " ", fn_body(parse, 'resolve_css'))
        i1 = rc.find("if let Some(style_sheet) = style_sheet { sheet.parse_more(style_sheet); }")
        i2 = rc.find("sheet.parse_more(text);")
        if not (0 <= i1 < i2):
            raise Missing("resolve_css: the injected sheet is no longer parsed before the document's style elements")
    step(xmlnode)

    units = strip_comments(rd(UNITS))
    fsz = fn_body(units, 'resolve_font_size')
    t['fs'] = {}

    def font_size():
        m = one(r"Unit::None \| Unit::Px => (\w+),", fsz, "resolve_font_size px arm")
        if m.group(1) != 'n' or not re.search(r"let dpi = state\.opt\.dpi;\s*let n = length\.number as f32;", fsz):
            raise Missing("resolve_font_size: px arm / bindings of dpi and n changed")
        for u in UNIT_ORDER:
            m = one(r"Unit::%s => ([^,]+)," % u, fsz, "resolve_font_size arm " + u)
            t['fs'][u] = unit_expr(m.group(1).strip(), "resolve_font_size " + u, ('dpi',))
        for u in ('Em', 'Ex'):
            m = one(r"Unit::%s => ([^,]+)," % u, fsz, "resolve_font_size arm " + u)
            t['fs'][u] = unit_expr(m.group(1).strip(), "resolve_font_size " + u, ('font_size',))
        m = one(r"Unit::Percent => \{\s*(length\.number as f32 \* font_size \* [\d.]+)\s*\}", fsz, "resolve_font_size arm Percent")
        t['fs']['Percent'] = unit_expr(m.group(1).replace('length.number as f32', 'n'), "resolve_font_size Percent", ('font_size',))
    step(font_size)
    return t


def render(t, header):
    o = [header, "From Coq Require Import String.\nFrom RV Require Import Model.Base.\nLocal Open Scope string_scope.\n"]
    for ty, pre, cs in (('EId', 'E_', t['eids']), ('AId', 'A_', t['aids'])):
        o.append("Inductive %s :=\n  %s.\n" % (ty, "\n  ".join("| %s%s" % (pre, c) for c in cs)))
        o.append("Definition %s_idx (x : %s) : N :=\n  match x with\n%s\n  end%%N.\n" % (
            ty, ty, "\n".join("  | %s%s => %d" % (pre, c, i) for i, c in enumerate(cs))))
        o.append("Definition %s_of_idx (n : N) : option %s :=\n  match n with\n%s\n  | _ => None\n  end%%N.\n" % (
            ty, ty, "\n".join("  | %d => Some %s%s" % (i, pre, c) for i, c in enumerate(cs))))
        o.append("Definition %s_eqb (a b : %s) : bool := N.eqb (%s_idx a) (%s_idx b).\n" % (ty, ty, ty, ty))
        o.append("Definition all_%s : list %s :=\n  [%s].\n" % (ty, ty, "; ".join(pre + c for c in cs)))
    o.append("(* names.rs name tables (used by the correspondence check to print/parse names) *)")
    o.append("Definition AId_name (x : AId) : string :=\n  match x with\n%s\n  end.\n" % "\n".join(
        '  | A_%s => "%s"' % (c, n) for n, c in sorted(t['anames'], key=lambda p: t['aids'].index(p[1]))))

    def cls(name, lst, ty='AId', pre='A_'):
        if lst:
            o.append("Definition %s (x : %s) : bool :=\n  match x with\n  | %s => true\n  | _ => false\n  end.\n" % (
                name, ty, " | ".join(pre + c for c in lst)))
        else:
            o.append("Definition %s (x : %s) : bool := false.\n" % (name, ty))
    o.append("(* svgtree/mod.rs attribute classes *)")
    cls('is_presentation', t['is_presentation'])
    cls('allows_inherit_value', t['allows_inherit_value'])
    cls('is_non_inheritable', t['is_non_inheritable'])
    o.append("Definition is_inheritable (x : AId) : bool :=\n  if is_presentation x then negb (is_non_inheritable x) else false.\n")
    o.append("(* svgtree/parse.rs: parse_svg_element / append_attribute *)")
    cls('is_style_only', t['style_only'])
    o.append("Definition css_only_value_attr : AId := A_%s.\nDefinition css_only_values : list string := [%s].\n" % (
        t['css_only_value_attr'], "; ".join('"%s"' % v for v in t['css_only_values'])))
    o.append("Definition ignored_id_attr : AId := A_%s.\n" % t['ignored_id_attr'])
    cls('is_dropped_attr', t['dropped'])
    o.append("Definition is_dropped_on (t : EId) (a : AId) : bool := EId_eqb t E_%s && AId_eqb a A_%s.\n" % t['dropped_on'])
    o.append('Definition inherit_keyword : string := "%s".\n' % t['inherit_keyword'])
    o.append("Definition marker_shorthand : list AId := [%s].\n" % "; ".join("A_" + a for a in t['marker_shorthand']))
    o.append("(* insert_attribute: the `has_precedence` expression as a function of the existing attribute's flag *)")
    o.append("Definition new_has_precedence (existing_important : bool) : bool := %s.\n" % t['has_precedence'])
    o.append("(* svgtree/parse.rs: impl simplecss::Element for XmlNode, pseudo_class_matches: is there the arm `FirstChild => no previous sibling element`, and the value of the `_` arm *)")
    o.append("Definition xmlnode_pseudo_first_child : bool := %s.\nDefinition xmlnode_pseudo_default : bool := %s.\n" % (
        t.get('pseudo_first_child', 'true'), t.get('pseudo_default', 'false')))
    o.append("(* svgtree/parse.rs: resolve_inherit fallback table *)")
    o.append("Definition inherit_default (x : AId) : option string :=\n  match x with\n%s\n  | _ => None\n  end.\n" % "\n".join(
        '  | A_%s => Some "%s"' % (a, v) for a, v in t['inherit_default']))
    o.append("Local Open Scope Q_scope.\n(* units.rs: resolve_font_size absolute-unit arms (the arms of convert_length are in Gen/Units.v) *)")
    o.append("Definition fs_Px (n dpi : Q) : Q := n.")
    for u in UNIT_ORDER:
        o.append("Definition fs_%s (n dpi : Q) : Q := %s." % (u, t['fs'][u]))
    o.append("(* font-relative arms (font_size = the font size resolved so far, i.e. the parent's) *)")
    for u in ('Em', 'Ex', 'Percent'):
        o.append("Definition fs_%s (n font_size : Q) : Q := %s." % (u, t['fs'][u]))
    return "\n".join(o) + "\n"


REFERENCE_FIXUP = ["let last_idx := (length l - 1)%nat in", "let existing_idx := idx in",
                   "let has_precedence := (negb (attr_important l existing_idx)) in",
                   "let l := if has_precedence then swap_nth existing_idx last_idx l else l in", "let l := removelast l in"]


def render_insert(t, header):
    o = [header, "From RV Require Import Model.Base Gen.SvgTables Model.CascadeBase.\n",
         "(* svgtree/parse.rs parse_svg_element, closure `insert_attribute`, the block under `if added { if let Some(idx) = idx {`:",
         "   `l` is the element's slice of doc.attrs after the new attribute was appended, `idx` the position of the existing",
         "   attribute of the same name inside that slice. *)",
         "(* NOT TRANSLATED FROM THE CURRENT SOURCE (block outside the subset, tie reported broken): reference behaviour *)" if t.get('fixup_is_reference') else "",
         "Definition insert_fixup (l : list attr) (idx : nat) : list attr :=\n  %s\n  l.\n" % "\n  ".join(t['insert_fixup'])]
    return "\n".join(o)


NEEDED = ('is_presentation', 'allows_inherit_value', 'is_non_inheritable', 'style_only', 'css_only_value_attr',
          'css_only_values', 'ignored_id_attr', 'dropped', 'dropped_on', 'inherit_keyword', 'marker_shorthand',
          'inherit_default')


def generate(api):
    try:
        t = parse_tables(api.rd, strict=False)
    except (Missing, OSError, ValueError, IndexError) as e:
        api.broken('table', 'SvgTables', PROPS, e)
        return
    if t['errors']:
        api.broken('table', 'SvgTables', PROPS, '; '.join(t['errors']))
    # a lost control-flow anchor is a broken tie, but the tables that could still be read are written, so that the
    # model the correspondences run against is never an arbitrary older state
    fs_ok = all(u in t.get('fs', {}) for u in UNIT_ORDER + ['Em', 'Ex', 'Percent'])
    if 'insert_fixup' not in t or 'has_precedence' not in t:
        # the closure body left the translated subset: the tie is broken (reported above).  So that the correspondences
        # can still search for a failing document, the model keeps the reference behaviour the theorems were proved for.
        t['insert_fixup'] = list(REFERENCE_FIXUP)
        t['has_precedence'] = "(negb existing_important)"
        t['fixup_is_reference'] = True
    if all(k in t for k in NEEDED) and fs_ok:
        api.write_gen('SvgTables.v', render(t, api.HEADER))
        api.write_gen('SvgInsert.v', render_insert(t, api.HEADER))
        if not t['errors']:
            api.ok('tables', 'SvgTables', props=PROPS, aids=len(t['aids']), eids=len(t['eids']),
                   presentation=len(t['is_presentation']), defaults=len(t['inherit_default']))
