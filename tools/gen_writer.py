"""Gen/WriterNum.v: the constants of usvg::writer::write_num (source-derived):
POW_VEC, how the precision indexes it, the bound under which an integral value is written as i32."""
import re

PROPS = ['C07', 'C08']
REL = 'crates/usvg/src/writer.rs'


def generate(api):
    try:
        src = api.rd(REL)
        m = re.search(r"static POW_VEC: &\[f32\] = &\[(.*?)\];", src, re.S)
        if not m:
            raise api.Unsupported("POW_VEC not found")
        vals = []
        for tok in m.group(1).split(','):
            tok = tok.strip().replace('_', '')
            if not tok:
                continue
            if not re.fullmatch(r"\d+\.0", tok):
                raise api.Unsupported("POW_VEC entry %r is not an integral literal" % tok)
            vals.append(int(tok[:-2]))
        params, ret, body = api.rs2coq.find_fn(src, 'write_num')
        # index expression
        mi = re.search(r"let\s+pow\s*=\s*POW_VEC\[(.*?)\];", body, re.S)
        if not mi:
            raise api.Unsupported("write_num: `let pow = POW_VEC[..]` not found")
        idx = re.sub(r"\s+", "", mi.group(1))
        if idx == "(precisionasusize).min(POW_VEC.len()-1)":
            clamp = 'true'
        elif idx in ("precisionasusize", "usize::from(precision)"):
            clamp = 'false'
        else:
            raise api.Unsupported("write_num: unexpected POW_VEC index expression %r" % mi.group(1))
        if not re.search(r"let\s+v\s*=\s*\(num\s*\*\s*pow\)\.round\(\)\s*/\s*pow\s*;", body):
            raise api.Unsupported("write_num: `(num * pow).round() / pow` not found")
        mf = re.search(r"if\s+num\.fract\(\)\.approx_zero_ulps\((\d+)\)\s*\{(.*?)\n    \}", body, re.S)
        if not mf:
            raise api.Unsupported("write_num: integer shortcut not found")
        blk = mf.group(2)
        if 'num as i32' not in blk:
            raise api.Unsupported("write_num: `num as i32` not found in the integer shortcut")
        mg = re.search(r"if\s+num\.abs\(\)\s*<\s*i32::MAX\s+as\s+f32\s*\{\s*write!\(buf,\s*\"\{\}\",\s*num as i32\)\.unwrap\(\);\s*\}\s*else\s*\{"
                       r"[^{}]*write!\(buf,\s*\"\{\}\",\s*num\)\.unwrap\(\);\s*\}", blk, re.S)
        if mg:
            guard = 'Some 2147483648'        # i32::MAX as f32 rounds to 2^31
        elif re.search(r"\bif\b", blk):
            raise api.Unsupported("write_num: unexpected condition in the integer shortcut")
        else:
            guard = 'None'
        out = [api.HEADER, "From Coq Require Import ZArith List.\nImport ListNotations.\nLocal Open Scope Z_scope.\n",
               "(* %s :: POW_VEC *)" % REL,
               "Definition pow_vec : list Z := [%s]." % "; ".join(str(v) for v in vals),
               "(* %s :: write_num: is the precision clamped to the table (`.min(POW_VEC.len() - 1)`)? *)" % REL,
               "Definition pow_index_clamped : bool := %s." % clamp,
               "(* %s :: write_num: integral values below this bound are written through `num as i32`; None = always *)" % REL,
               "Definition int_shortcut_bound : option Z := %s.\n" % guard]
        api.write_gen('WriterNum.v', "\n".join(out))
        api.ok('tables', 'write_num', entries=len(vals), clamp=clamp, guard=guard)
    except (api.Unsupported, OSError, ValueError, IndexError) as e:
        api.broken('table', 'writer.write_num', PROPS, e)
