"""Gen/WriterNum.v: the constants of usvg::writer::write_num (source-derived):
POW_VEC, how the precision indexes it, the bound under which an integral value is written as i32.

Gen/XmlEscape.v: what is escaped when strings are written (source-derived):
  * from the `xmlwriter` crate (the version named in /repo/Cargo.lock, read from the cargo registry): the byte that
    `escape_attribute_value` looks for per quote option, the bytes it splices in and the `start = i + <n>` step;
    the same for `escape_text`;
  * from usvg's writer.rs: every `.replace(<char>, "<str>")` applied before xmlwriter sees a string (today one:
    the text of a span, `&` -> `&amp;`)."""
import glob
import os
import re

PROPS = ['C07', 'C08']
REL = 'crates/usvg/src/writer.rs'


def generate(api):
    try:
        src = api.rd(REL)
        m = re.search(r"static POW_VEC: &\[f32\] = &\[(.*?)\];", src, re.S)
        if not m:
            raise api.Unsupported("POW_VEC not found")
        vals = []
        for tok in m.group(1).split(','):
            tok = tok.strip().replace('_', '')
            if not tok:
                continue
            if not re.fullmatch(r"\d+\.0", tok):
                raise api.Unsupported("POW_VEC entry %r is not an integral literal" % tok)
            vals.append(int(tok[:-2]))
        params, ret, body = api.rs2coq.find_fn(src, 'write_num')
        # index expression
        mi = re.search(r"let\s+pow\s*=\s*POW_VEC\[(.*?)\];", body, re.S)
        if not mi:
            raise api.Unsupported("write_num: `let pow = POW_VEC[..]` not found")
        idx = re.sub(r"\s+", "", mi.group(1))
        if idx == "(precisionasusize).min(POW_VEC.len()-1)":
            clamp = 'true'
        elif idx in ("precisionasusize", "usize::from(precision)"):
            clamp = 'false'
        else:
            raise api.Unsupported("write_num: unexpected POW_VEC index expression %r" % mi.group(1))
        if not re.search(r"let\s+v\s*=\s*\(num\s*\*\s*pow\)\.round\(\)\s*/\s*pow\s*;", body):
            raise api.Unsupported("write_num: `(num * pow).round() / pow` not found")
        mf = re.search(r"if\s+num\.fract\(\)\.approx_zero_ulps\((\d+)\)\s*\{(.*?)\n    \}", body, re.S)
        if not mf:
            raise api.Unsupported("write_num: integer shortcut not found")
        blk = mf.group(2)
        if 'num as i32' not in blk:
            raise api.Unsupported("write_num: `num as i32` not found in the integer shortcut")
        mg = re.search(r"if\s+num\.abs\(\)\s*<\s*i32::MAX\s+as\s+f32\s*\{\s*write!\(buf,\s*\"\{\}\",\s*num as i32\)\.unwrap\(\);\s*\}\s*else\s*\{"
                       r"[^{}]*write!\(buf,\s*\"\{\}\",\s*num\)\.unwrap\(\);\s*\}", blk, re.S)
        if mg:
            guard = 'Some 2147483648'        # i32::MAX as f32 rounds to 2^31
        elif re.search(r"\bif\b", blk):
            raise api.Unsupported("write_num: unexpected condition in the integer shortcut")
        else:
            guard = 'None'
        out = [api.HEADER, "From Coq Require Import ZArith List.\nImport ListNotations.\nLocal Open Scope Z_scope.\n",
               "(* %s :: POW_VEC *)" % REL,
               "Definition pow_vec : list Z := [%s]." % "; ".join(str(v) for v in vals),
               "(* %s :: write_num: is the precision clamped to the table (`.min(POW_VEC.len() - 1)`)? *)" % REL,
               "Definition pow_index_clamped : bool := %s." % clamp,
               "(* %s :: write_num: integral values below this bound are written through `num as i32`; None = always *)" % REL,
               "Definition int_shortcut_bound : option Z := %s.\n" % guard]
        api.write_gen('WriterNum.v', "\n".join(out))
        api.ok('tables', 'write_num', entries=len(vals), clamp=clamp, guard=guard)
    except (api.Unsupported, OSError, ValueError, IndexError) as e:
        api.broken('table', 'writer.write_num', PROPS, e)
    generate_escape(api)
    generate_num_parse(api)


def _bytes_lit(t):
    """Rust byte / char / string literal body -> list of byte values"""
    out = []
    i = 0
    while i < len(t):
        if t[i] == '\\':
            c = t[i + 1]
            out.append({'n': 10, 't': 9, 'r': 13, '\\': 92, "'": 39, '"': 34, '0': 0}[c])
            i += 2
        else:
            out += list(t[i].encode('utf-8'))
            i += 1
    return out


def _fn(src, name):
    m = re.search(r"fn\s+%s\b[^{]*\{" % name, src)
    if not m:
        return None
    i = m.end() - 1
    depth, j = 0, i
    while j < len(src):
        if src[j] == '{':
            depth += 1
        elif src[j] == '}':
            depth -= 1
            if depth == 0:
                return src[i + 1:j]
        j += 1
    return None


def xmlwriter_source(api):
    lock = api.rd('Cargo.lock')
    m = re.search(r'name = "xmlwriter"\nversion = "([^"]+)"', lock)
    if not m:
        raise api.Unsupported("xmlwriter is not in Cargo.lock")
    home = os.environ.get('CARGO_HOME', os.path.expanduser('~/.cargo'))
    cands = sorted(glob.glob(os.path.join(home, 'registry', 'src', '*', 'xmlwriter-' + m.group(1), 'src', 'lib.rs')))
    if not cands:
        raise api.Unsupported("source of xmlwriter %s not found in the cargo registry" % m.group(1))
    return m.group(1), open(cands[0], encoding='utf-8').read()


def generate_escape(api):
    try:
        ver, xs = xmlwriter_source(api)
        lst = lambda bs: "[%s]" % "; ".join(str(b) for b in bs)
        # --- escape_attribute_value
        b = _fn(xs, 'escape_attribute_value')
        if b is None:
            raise api.Unsupported("xmlwriter::escape_attribute_value not found")
        mq = re.search(r"let\s+quote\s*=\s*if\s+self\.opt\.use_single_quote\s*\{\s*b'((?:\\.|[^'])+)'\s*\}\s*else\s*\{\s*b'((?:\\.|[^'])+)'\s*\}", b)
        ms = re.search(r'let\s+s\s*=\s*if\s+self\.opt\.use_single_quote\s*\{\s*b"([^"]*)"\s*\}\s*else\s*\{\s*b"([^"]*)"\s*\}', b)
        mk = re.search(r"start\s*=\s*i\s*\+\s*(\d+)\s*;", b)
        if not (mq and ms and mk):
            raise api.Unsupported("xmlwriter::escape_attribute_value has an unexpected shape")
        if not re.search(r"while\s+let\s+Some\(idx\)\s*=\s*self\.buf\[start\.\.\]\.iter\(\)\.position\(\|c\|\s*\*c\s*==\s*quote\)", b) \
                or not re.search(r"self\.buf\.splice\(i\.\.i\s*\+\s*1,\s*s\.iter\(\)\.cloned\(\)\)", b):
            raise api.Unsupported("xmlwriter::escape_attribute_value: search / splice loop not recognised")
        qs, qd = _bytes_lit(mq.group(1)), _bytes_lit(mq.group(2))
        if len(qs) != 1 or len(qd) != 1:
            raise api.Unsupported("quote literal is not one byte")
        # --- escape_text
        t = _fn(xs, 'escape_text')
        if t is None:
            raise api.Unsupported("xmlwriter::escape_text not found")
        mt = re.search(r"position\(\|c\|\s*\*c\s*==\s*b'((?:\\.|[^'])+)'\)", t)
        mr = re.search(r'self\.buf\.splice\(i\.\.i\s*\+\s*1,\s*b"([^"]*)"\.iter\(\)\.cloned\(\)\)', t)
        mk2 = re.search(r"start\s*=\s*i\s*\+\s*(\d+)\s*;", t)
        if not (mt and mr and mk2):
            raise api.Unsupported("xmlwriter::escape_text has an unexpected shape")
        # write_attribute_fmt / write_text_fmt do call them on what was just appended
        wa = _fn(xs, 'write_attribute_fmt') or ''
        wt = _fn(xs, 'write_text_fmt') or ''
        if not re.search(r"let\s+start\s*=\s*self\.buf\.len\(\);\s*self\.buf\.write_fmt\(fmt\)\.unwrap\(\);\s*self\.escape_attribute_value\(start\);", wa):
            raise api.Unsupported("xmlwriter::write_attribute_fmt does not escape what it appends")
        if not re.search(r"let\s+start\s*=\s*self\.buf\.len\(\);\s*self\.buf\.write_fmt\(fmt\)\.unwrap\(\);\s*self\.escape_text\(start\);", wt):
            raise api.Unsupported("xmlwriter::write_text_fmt does not escape what it appends")
        # --- usvg writer.rs: replacements applied before xmlwriter
        ws = re.sub(r"//[^\n]*", "", api.rd(REL))
        sites = []
        ncalls = 0
        call_re = r"\.replace\(\s*'((?:\\.|[^'])+)'\s*,\s*\"([^\"]*)\"\s*\)"
        # a receiver followed by one or more chained `.replace(char, str)` calls: applied left to right
        call_nc = r"\.replace\(\s*'(?:\\.|[^'])+'\s*,\s*\"[^\"]*\"\s*\)"      # the same, without groups
        for m in re.finditer(r"(\w+)((?:%s)+)" % call_nc, ws):
            line = ws[ws.rfind('\n', 0, m.start()) + 1:ws.find('\n', m.end())]
            ctx = 'text' if re.search(r"write_text\(", line) else ('attribute' if 'write_attribute' in line or 'write_svg_attribute' in line else 'other')
            for c in re.finditer(call_re, m.group(2)):
                cb = _bytes_lit(c.group(1))
                if len(cb) != 1:
                    raise api.Unsupported("writer.rs: replace of a non-ASCII char")
                sites.append((ctx, m.group(1), cb[0], _bytes_lit(c.group(2))))
                ncalls += 1
        if ws.count('.replace(') != ncalls:
            raise api.Unsupported("writer.rs: a `.replace(` call the translator does not understand")
        out = [api.HEADER, "From Coq Require Import NArith List String.\nImport ListNotations.\nLocal Open Scope N_scope.\n",
               "(* xmlwriter %s :: escape_attribute_value: (byte searched for, bytes spliced in, `start = i + n`) per use_single_quote *)" % ver,
               "Definition xw_attr_escape (single_quote : bool) : N * list N * nat :=\n  if single_quote then (%d, %s, %s%%nat) else (%d, %s, %s%%nat)."
               % (qs[0], lst(_bytes_lit(ms.group(1))), mk.group(1), qd[0], lst(_bytes_lit(ms.group(2))), mk.group(1)),
               "(* xmlwriter %s :: escape_text *)" % ver,
               "Definition xw_text_escape : N * list N * nat := (%d, %s, %s%%nat)." % (_bytes_lit(mt.group(1))[0], lst(_bytes_lit(mr.group(1))), mk2.group(1)),
               "(* %s :: every `x.replace(char, str)`: (what the result is passed to, receiver, byte, replacement) *)" % REL,
               "Definition writer_replace_sites : list (string * string * N * list N) :=\n  [%s].\n"
               % "; ".join('("%s"%%string, "%s"%%string, %d, %s)' % (c, r, b0, lst(rep)) for c, r, b0, rep in sites)]
        api.write_gen('XmlEscape.v', "\n".join(out))
        api.ok('tables', 'xml_escape', xmlwriter=ver, replace_sites=len(sites))
    except (api.Unsupported, OSError, ValueError, IndexError, KeyError) as e:
        api.broken('table', 'writer.xml_escape', ['C07'], e)


# ------------------------------------------------------------------------------------------------
# Gen/NumParse.v: the steps of `impl FromValue for f32` (svgtree/mod.rs) after `svgtypes::Number::from_str(value).ok()`:
# the cast to f32 and the finiteness filter, IN SOURCE ORDER (filtering before the cast lets 1e40 through as +inf).
# ------------------------------------------------------------------------------------------------
def generate_num_parse(api):
    rel = 'crates/usvg/src/parser/svgtree/mod.rs'
    try:
        src = api.rd(rel)
        m = re.search(r"impl<[^>]*>\s*FromValue<[^>]*>\s*for\s+f32\s*\{", src)
        if not m:
            raise api.Unsupported("impl FromValue for f32 not found")
        body = _fn(src[m.start():], 'parse')
        if body is None:
            raise api.Unsupported("FromValue for f32: fn parse not found")
        body = re.sub(r"//[^\n]*", "", body)
        chain = re.sub(r"\s+", "", body)
        head = "svgtypes::Number::from_str(value).ok()"
        if not chain.startswith(head):
            raise api.Unsupported("FromValue for f32: does not start with `svgtypes::Number::from_str(value).ok()`")
        rest = chain[len(head):]
        steps = []
        while rest:
            mm = re.match(r"\.map\(\|(\w+)\|\1\.0asf32\)", rest)
            if mm:
                steps.append('PCast')
                rest = rest[mm.end():]
                continue
            mm = re.match(r"\.filter\(\|(\w+)\|\1(?:\.0)?\.is_finite\(\)\)", rest)
            if mm:
                steps.append('PFilterFinite')
                rest = rest[mm.end():]
                continue
            raise api.Unsupported("FromValue for f32: step not understood: %s" % rest[:60])
        out = [api.HEADER, "From Coq Require Import List.\nImport ListNotations.\n",
               "(* %s :: impl FromValue for f32, after `svgtypes::Number::from_str(value).ok()` *)" % rel,
               "Inductive pstep := PCast | PFilterFinite.",
               "Definition f32_parse_steps : list pstep := [%s].\n" % "; ".join(steps)]
        api.write_gen('NumParse.v', "\n".join(out))
        api.ok('tables', 'f32_parse', steps=steps)
    except (api.Unsupported, OSError, ValueError, IndexError) as e:
        api.broken('table', 'svgtree.f32_parse', ['C07'], e)
