"""Gen/LeafObb.v: source-derived leaf logic for C18 (objectBoundingBox -> userSpaceOnUse resolution).

  tree/geom.rs       checked_bbox_transform (whole function)
  paint_server.rs    Paint::to_user_coordinates: the gradient transform expression (linear and radial must
                     agree), the pattern rect / content-scale expressions; shape anchors for the
                     Arc::get_mut in-place / clone-with-generated-id structure and for process_paint's descent
  clippath.rs        `cacheable`, the objectBoundingBox transform expression
  mask.rs            `cacheable`, region and content-group expressions
  filter.rs          `cacheable`, region expression, the three sub-region expressions of resolve_primitive_region

A missing anchor or a construct outside the rs2coq subset is a broken tie for C18.
"""
import re

PROPS = ['C18', 'C04']     # C04's clause `no objectBoundingBox unit remains` is stated over the same model
PRELUDE = "From RV Require Import Model.Base Model.GeomPrims Model.StylePrims Model.ObbPrims.\nLocal Open Scope Q_scope.\n"

CFG = dict(
    dom='Q',
    types={'NonZeroRect': 'qrect', 'Rect': 'qrect', 'f32': 'Q', 'Transform': 'ts', 'Units': 'units_'},
    paths={'Units::ObjectBoundingBox': 'ObjectBoundingBox', 'Units::UserSpaceOnUse': 'UserSpaceOnUse'},
    enum_eqb='units_eqb',
    fields={},
    methods={'x': 'rx', 'y': 'ry', 'width': 'rw', 'height': 'rh', 'unwrap_or': 'Qunwrap_or',
             'post_concat': 'ts_post_concat', 'pre_concat': 'ts_pre_concat'},
    calls={'NonZeroRect::from_xywh': 'nzrect_from_xywh', 'Transform::from_bbox': 'from_bbox',
           'Transform::from_scale': 'from_scale', 'crate::checked_bbox_transform': 'checked_bbox_transform',
           'checked_bbox_transform': 'checked_bbox_transform'},
    casts={},
)


def generate(api):
    rs = api.rs2coq
    out = [api.HEADER, PRELUDE]

    def tr_block(name, binders, ret, block_src, cfg=CFG):
        ast = rs.parse_body(block_src)
        em = rs.Emitter(dict(cfg))
        return "Definition %s %s : %s :=\n  %s." % (name, binders, ret, em.block(ast))

    def need(pattern, text, what):
        m = re.search(pattern, text, re.S)
        if not m:
            raise api.Unsupported("anchor not found: " + what)
        return m

    def section(name, rel, f):
        try:
            out.append("(* %s :: %s *)" % (rel, name))
            out.append(f(re.sub(r"//[^\n]*", "", api.rd(rel))) + "\n")
            api.ok('leaves', 'obb.' + name, props=PROPS, rel=rel)
        except (api.Unsupported, OSError, ValueError, IndexError, KeyError) as e:
            out.append("(* NOT TRANSLATED: %s *)\n" % str(e).replace('*)', '* )'))
            api.broken('leaf', 'obb.' + name, PROPS, e)

    def g_cbt(src):
        return rs.translate_fn(src, 'checked_bbox_transform', dict(CFG, ret='option qrect'), 'checked_bbox_transform')
    section('checked_bbox_transform', 'crates/usvg/src/tree/geom.rs', g_cbt)

    def g_paint(src):
        params, ret, body = rs.find_fn(src, 'to_user_coordinates')
        ds = []
        m1 = need(r"Paint::LinearGradient\(ref mut lg\)\s*=>\s*\{\s*let\s+transform\s*=\s*(lg\.transform\.post_concat\(Transform::from_bbox\(bbox\)\));", body,
                  "linear gradient transform expression")
        m2 = need(r"Paint::RadialGradient\(ref mut rg\)\s*=>\s*\{\s*let\s+transform\s*=\s*(rg\.transform\.post_concat\(Transform::from_bbox\(bbox\)\));", body,
                  "radial gradient transform expression")
        e1 = m1.group(1).replace('lg.transform', 'transform')
        e2 = m2.group(1).replace('rg.transform', 'transform')
        if e1 != e2:
            raise api.Unsupported("linear and radial gradient resolution differ")
        ds.append(tr_block('resolve_gradient_ts', '(transform : ts) (bbox : qrect)', 'ts', "{ %s }" % e1))
        # in place iff Arc::get_mut succeeds, else clone under a generated id; both set units to user space
        for k, gen in (('lg', 'gen_linear_gradient_id'), ('rg', 'gen_radial_gradient_id')):
            need(r"if\s+let\s+Some\(ref\s+mut\s+%s\)\s*=\s*Arc::get_mut\(%s\)\s*\{\s*%s\.base\.transform\s*=\s*transform;\s*"
                 r"%s\.base\.units\s*=\s*Units::UserSpaceOnUse;\s*\}\s*else\s*\{\s*\*%s\s*=\s*Arc::new\(" % (k, k, k, k, k), body,
                 "%s: in place via Arc::get_mut, else clone" % k)
            need(r"id:\s*cache\.%s\(\),\s*units:\s*Units::UserSpaceOnUse,\s*transform," % gen, body, "%s: clone gets a generated id" % k)
        need(r"let\s+bbox\s*=\s*bbox\s*\.to_non_zero_rect\(\)\s*\.log_none\(.*?\)\?;", body, "zero-size bbox refuses resolution")
        # pattern
        m = need(r"let\s+rect\s*=\s*(if\s+patt\.units\s*==\s*Units::ObjectBoundingBox\s*\{\s*checked_bbox_transform\(patt\.rect,\s*bbox\)\?\s*\}\s*else\s*\{\s*patt\.rect\s*\});",
                 body, "pattern rect expression")
        ds.append("Definition resolve_pattern_rect (units : units_) (rect bbox : qrect) : option qrect :=\n"
                  "  if units_eqb units ObjectBoundingBox then checked_bbox_transform rect bbox else Some rect.")
        m = need(r"if\s+patt\.content_units\s*==\s*Units::ObjectBoundingBox\s*&&\s*patt\.view_box\.is_none\(\)\s*\{\s*"
                 r"let\s+transform\s*=\s*(Transform::from_scale\(bbox\.width\(\),\s*bbox\.height\(\)\));", body, "pattern content scale")
        ds.append(tr_block('pattern_content_ts', '(bbox : qrect)', 'ts', "{ %s }" % m.group(1)))
        need(r"if\s+let\s+Some\(ref\s+mut\s+patt\)\s*=\s*Arc::get_mut\(patt\)\s*\{\s*patt\.rect\s*=\s*rect;\s*patt\.units\s*=\s*Units::UserSpaceOnUse;",
             body, "pattern: in place via Arc::get_mut")
        need(r"id:\s*cache\.gen_pattern_id\(\),\s*units:\s*Units::UserSpaceOnUse,\s*content_units:\s*Units::UserSpaceOnUse,", body,
             "pattern: clone gets a generated id")
        # convert_pattern applies the viewBox eagerly only when BOTH units are user space; otherwise to_user_coordinates does it once
        p3, r3, b3 = rs.find_fn(src, 'convert_pattern')
        need(r"if\s+patt\.view_box\.is_some\(\)\s*&&\s*patt\.units\s*==\s*Units::UserSpaceOnUse\s*&&\s*patt\.content_units\s*==\s*Units::UserSpaceOnUse\s*\{",
             b3, "convert_pattern: eager viewBox only for user-space units and content units")
        if len(re.findall(r"push_pattern_transform\(&mut\s+(?:patt\.)?root,\s*view_box\.to_transform\(rect\.size\(\)\)\)", body)) != 2:
            raise api.Unsupported("to_user_coordinates: viewBox transform pushed exactly once per branch")
        # process_paint: resolution only for OBB units, descent into pattern content only through Arc::get_mut
        p2, r2, b2 = rs.find_fn(src, 'process_paint')
        need(r"if\s+paint\.units\(\)\s*==\s*Units::ObjectBoundingBox\s*\|\|\s*paint\.content_units\(\)\s*==\s*Units::ObjectBoundingBox\s*\{", b2,
             "process_paint: units test")
        need(r"if\s+paint\.to_user_coordinates\(bbox,\s*cache\)\.is_none\(\)\s*\{\s*return\s+false;\s*\}", b2,
             "process_paint: failed resolution removes the paint")
        need(r"if\s+let\s+Paint::Pattern\(ref\s+mut\s+patt\)\s*=\s*paint\s*\{\s*if\s+let\s+Some\(ref\s+mut\s+patt\)\s*=\s*Arc::get_mut\(patt\)\s*\{\s*"
             r"update_paint_servers\(&mut\s+patt\.root,", b2, "process_paint: pattern content visited only through Arc::get_mut")
        # order: the paint itself is resolved (possibly cloned) first, THEN the content of the now uniquely held pattern is visited
        i1 = b2.find('paint.to_user_coordinates(bbox, cache)')
        i2 = b2.find('Arc::get_mut(patt)')
        i3 = b2.find('process_context_paint(paint')
        if not (0 <= i1 < i2 < i3):
            raise api.Unsupported("process_paint: order of resolution / pattern descent / context adjustment changed")
        # convert_doc drops every cached Arc before the post-pass, so that definitions used once are uniquely held
        conv = re.sub(r"//[^\n]*", "", api.rd('crates/usvg/src/parser/converter.rs'))
        p4, r4, b4 = rs.find_fn(conv, 'convert_doc')
        # the set the id generators avoid = the ids of ALL elements of the document (round-5 seed C18-15 narrowed it to definitions)
        need(r"for\s+node\s+in\s+svg_doc\.descendants\(\)\s*\{\s*if\s+!node\.element_id\(\)\.is_empty\(\)\s*\{\s*"
             r"cache\.all_ids\.insert\(string_hash\(node\.element_id\(\)\)\);\s*\}\s*\}", b4,
             "convert_doc: generated ids avoid the id of every element of the document")
        for g_ in ('linear_gradient', 'radial_gradient', 'pattern', 'clip_path', 'mask', 'filter'):
            pg, rg_, bg = rs.find_fn(conv, 'gen_%s_id' % g_)
            need(r"loop\s*\{\s*self\.%s_index\s*\+=\s*1;\s*let\s+new_id\s*=\s*format!\(\"\w+\{\}\",\s*self\.%s_index\);\s*let\s+new_hash\s*=\s*string_hash\(&new_id\);\s*"
                 r"if\s+!self\.all_ids\.contains\(&new_hash\)\s*\{\s*return" % (g_, g_), bg, "gen_%s_id: bump until not an id of the document" % g_)
        need(r"cache\.clip_paths\.clear\(\);\s*cache\.masks\.clear\(\);\s*cache\.filters\.clear\(\);\s*cache\.paint\.clear\(\);\s*"
             r"super::paint_server::update_paint_servers\(", b4, "convert_doc: all four caches cleared before update_paint_servers")
        return "\n".join(ds)
    section('Paint::to_user_coordinates / process_paint', 'crates/usvg/src/parser/paint_server.rs', g_paint)

    CHAIN_LOOP = (r"let\s+mut\s+chain\s*=\s*vec!\[node\];\s*while\s+let\s+Some\(link\)\s*=\s*chain\.last\(\)\.and_then\(\|n\|\s*"
                  r"n\.attribute::<SvgNode>\(AId::%s\)\)\s*\{\s*if\s+chain\.contains\(&link\)\s*\{\s*break;\s*\}\s*chain\.push\(link\);\s*\}\s*"
                  r"chain\s*\.iter\(\)\s*\.all\(\|n\|\s*(.*?)\)\s*\}\s*$")

    def g_clip(src):
        params, ret, body = rs.find_fn(src, 'convert')
        # since 18adf92: shared only if no clipPath of the whole link chain is objectBoundingBox
        need(r"let\s+cacheable\s*=\s*is_cacheable\(node\);", body, "clipPath cacheable = is_cacheable(node)")
        p2, r2, b2 = rs.find_fn(src, 'is_cacheable')
        m = need(CHAIN_LOOP % 'ClipPath', b2, "clippath::is_cacheable: all elements of the link chain")
        e = re.sub(r"\s+", " ", m.group(1)).strip()
        if e != "n.attribute(AId::ClipPathUnits) != Some(Units::ObjectBoundingBox)":
            raise api.Unsupported("clippath::is_cacheable element test changed: " + e)
        # the per-element test over the resolved units (absent attribute = userSpaceOnUse)
        d1 = tr_block('clip_cacheable', '(units : units_)', 'bool', "{ units != Units::ObjectBoundingBox }")
        m = need(r"let\s+ts\s*=\s*Transform::from_bbox\(object_bbox\);\s*transform\s*=\s*(transform\.pre_concat\(ts\));", body,
                 "clipPath objectBoundingBox transform")
        d2 = tr_block('clip_resolve_ts', '(transform : ts) (object_bbox : qrect)', 'ts',
                      "{ let ts = Transform::from_bbox(object_bbox); %s }" % m.group(1))
        need(r"if\s+cacheable\s*\{\s*if\s+let\s+Some\(clip\)\s*=\s*cache\.clip_paths\.get\(node\.element_id\(\)\)\s*\{\s*return\s+Some\(clip\.clone\(\)\);",
             body, "clipPath cache lookup only when cacheable")
        need(r"clip_path\s*=\s*convert\(link,\s*&clip_state,\s*object_bbox,\s*cache\);", body, "linked clipPath converted with the same bbox")
        need(r"if\s+!cacheable\s*&&\s*cache\.clip_paths\.contains_key\(id\.get\(\)\)\s*\{\s*id\s*=\s*cache\.gen_clip_path_id\(\);", body,
             "clipPath: generated id on second non-cacheable use")
        return d1 + "\n" + d2
    section('clippath::convert', 'crates/usvg/src/parser/clippath.rs', g_clip)

    def g_mask(src):
        params, ret, body = rs.find_fn(src, 'convert')
        need(r"let\s+cacheable\s*=\s*is_cacheable\(node\);", body, "mask cacheable = is_cacheable(node)")
        p2, r2, b2 = rs.find_fn(src, 'is_cacheable')
        m = need(CHAIN_LOOP % 'Mask', b2, "mask::is_cacheable: all elements of the link chain")
        e = re.sub(r"\s+", " ", m.group(1)).strip().strip('{} ')
        if e != "n.attribute(AId::MaskUnits) == Some(Units::UserSpaceOnUse) && n.attribute(AId::MaskContentUnits) != Some(Units::ObjectBoundingBox)":
            raise api.Unsupported("mask::is_cacheable element test changed: " + e)
        d1 = tr_block('mask_cacheable', '(units content_units : units_)', 'bool',
                      "{ units == Units::UserSpaceOnUse && content_units != Units::ObjectBoundingBox }")
        need(r"rect\s*=\s*crate::checked_bbox_transform\(rect,\s*bbox\)", body, "mask region via checked_bbox_transform")
        need(r"g\.transform\s*=\s*Transform::from_bbox\(object_bbox\);", body, "mask content group transform")
        need(r"mask\s*=\s*convert\(link,\s*state,\s*object_bbox,\s*cache\);", body, "linked mask converted with the same bbox")
        return d1
    section('mask::convert', 'crates/usvg/src/parser/mask.rs', g_mask)

    def g_filter(src):
        params, ret, body = rs.find_fn(src, 'convert_url')
        m = need(r"let\s+cacheable\s*=\s*(units\s*==\s*Units::UserSpaceOnUse\s*&&\s*primitive_units\s*==\s*Units::UserSpaceOnUse);", body, "filter cacheable")
        d1 = tr_block('filter_cacheable', '(units primitive_units : units_)', 'bool', "{ %s }" % m.group(1))
        need(r"rect\s*=\s*crate::checked_bbox_transform\(rect,\s*object_bbox\)", body, "filter region via checked_bbox_transform")
        # both units attributes are resolved from the referenced filter itself (own attribute, then its href chain),
        # NOT from the template that happens to supply the primitives
        need(r"let\s+units\s*=\s*convert_units\(node,\s*AId::FilterUnits,\s*Units::ObjectBoundingBox\);\s*"
             r"let\s+primitive_units\s*=\s*convert_units\(node,\s*AId::PrimitiveUnits,\s*Units::UserSpaceOnUse\);", body,
             "filter: filterUnits / primitiveUnits resolved from the filter node")
        need(r"collect_children\(\s*&node_with_primitives,\s*primitive_units,", body, "filter: primitives of the template converted with the filter's primitiveUnits")
        p2, r2, b2 = rs.find_fn(src, 'resolve_primitive_region')
        unwraps = r"x\.unwrap_or\(0\.0\),\s*y\.unwrap_or\(0\.0\),\s*width\.unwrap_or\(1\.0\),\s*height\.unwrap_or\(1\.0\),?\s*"
        need(r"EId::FeFlood\s*\|\s*EId::FeImage\s*=>\s*\{\s*if\s+units\s*==\s*Units::ObjectBoundingBox\s*\{\s*let\s+bbox\s*=\s*bbox\?;\s*"
             r"let\s+r\s*=\s*NonZeroRect::from_xywh\(\s*" + unwraps + r"\)\?;\s*return\s+crate::checked_bbox_transform\(r,\s*bbox\);\s*\}\s*else\s*\{\s*filter_region\s*\}",
             b2, "flood/image sub-region under objectBoundingBox")
        d2 = tr_block('prim_region_flood_obb', '(x y width height : option Q) (bbox : qrect)', 'option qrect',
                      "{ let r = NonZeroRect::from_xywh(x.unwrap_or(0.0), y.unwrap_or(0.0), width.unwrap_or(1.0), height.unwrap_or(1.0))?;"
                      " crate::checked_bbox_transform(r, bbox) }")
        need(r"if\s+units\s*==\s*Units::ObjectBoundingBox\s*\{\s*let\s+subregion_bbox\s*=\s*NonZeroRect::from_xywh\(\s*" + unwraps +
             r"\)\?;\s*crate::checked_bbox_transform\(region,\s*subregion_bbox\)\s*\}\s*else\s*\{\s*NonZeroRect::from_xywh\(\s*"
             r"x\.unwrap_or\(region\.x\(\)\),\s*y\.unwrap_or\(region\.y\(\)\),\s*width\.unwrap_or\(region\.width\(\)\),\s*height\.unwrap_or\(region\.height\(\)\),?\s*\)\s*\}",
             b2, "general sub-region expressions")
        d3 = tr_block('prim_region_other_obb', '(x y width height : option Q) (region : qrect)', 'option qrect',
                      "{ let subregion_bbox = NonZeroRect::from_xywh(x.unwrap_or(0.0), y.unwrap_or(0.0), width.unwrap_or(1.0), height.unwrap_or(1.0))?;"
                      " crate::checked_bbox_transform(region, subregion_bbox) }")
        d4 = tr_block('prim_region_user', '(x y width height : option Q) (region : qrect)', 'option qrect',
                      "{ NonZeroRect::from_xywh(x.unwrap_or(region.x()), y.unwrap_or(region.y()), width.unwrap_or(region.width()), height.unwrap_or(region.height())) }")
        return "\n".join([d1, d2, d3, d4])
    section('filter::convert_url / resolve_primitive_region', 'crates/usvg/src/parser/filter.rs', g_filter)

    # ---- extension round 4: primitiveUnits scaling of the number attributes, and the cache skeletons of mask / filter
    FCFG = dict(CFG, types=dict(CFG['types'], Size='(Q * Q)'),
                paths=dict(CFG['paths'], **{'PositiveF32::ZERO': '0'}),
                methods=dict(CFG['methods'], width='sz_w', height='sz_h', approx_zero_ulps='Qapprox_zero',
                             is_sign_positive='Qsign_positive'),
                calls=dict(CFG['calls'], **{'PositiveF32::new': 'positive_new'}),
                casts={'f32': None})

    def g_prim_params(src):
        ds = []
        # collect_children: the scale every number attribute is multiplied with
        p, r, b = rs.find_fn(src, 'collect_children')
        m = need(r"let\s+scale\s*=\s*if\s+units\s*==\s*Units::ObjectBoundingBox\s*\{\s*if\s+let\s+Some\(object_bbox\)\s*=\s*object_bbox\s*\{\s*"
                 r"object_bbox\.size\(\)\s*\}\s*else\s*\{\s*return\s+Vec::new\(\);\s*\}\s*\}\s*else\s*\{\s*"
                 r"Size::from_wh\(([\d.]+),\s*([\d.]+)\)\.unwrap\(\)\s*\};", b, "collect_children: scale = bbox size under objectBoundingBox, else (1, 1)")
        em = rs.Emitter(dict(FCFG))
        ds.append("Definition prim_scale (units : units_) (object_bbox : option qrect) : option (Q * Q) :=\n"
                  "  if units_eqb units ObjectBoundingBox then match object_bbox with Some b => Some (rw b, rh b) | None => None end\n"
                  "  else Some (%s, %s)." % (em.num(m.group(1)), em.num(m.group(2))))
        need(r"let\s+filter_subregion\s*=\s*match\s+resolve_primitive_region\(\s*child,\s*tag_name,\s*units,\s*state,\s*object_bbox,\s*filter_region,?\s*\)\s*\{\s*"
             r"Some\(v\)\s*=>\s*v,\s*None\s*=>\s*break,\s*\};", b, "collect_children: a primitive without a valid sub-region ends the list")
        for fn_ in ('convert_drop_shadow', 'convert_gaussian_blur', 'convert_offset', 'convert_morphology', 'convert_displacement_map'):
            need(r"EId::\w+\s*=>\s*%s\(child,\s*scale,\s*&primitives\)" % fn_, b, "collect_children: %s gets the scale" % fn_)
        # stdDeviation
        p, r, b = rs.find_fn(src, 'convert_std_dev_attr')
        need(r"let\s+\(std_dev_x,\s*std_dev_y\)\s*=\s*match\s+\(n1,\s*n2,\s*n3\)\s*\{\s*\(Some\(n1\),\s*Some\(n2\),\s*None\)\s*=>\s*\(n1,\s*n2\),\s*"
             r"\(Some\(n1\),\s*None,\s*None\)\s*=>\s*\(n1,\s*n1\),\s*_\s*=>\s*\(0\.0,\s*0\.0\),\s*\};", b, "convert_std_dev_attr: one / two numbers")
        ds.append("Definition std_dev_pair (n1 n2 n3 : option Q) : Q * Q :=\n"
                  "  match n1, n2, n3 with Some a, Some b, None => (a, b) | Some a, None, None => (a, a) | _, _, _ => (0, 0) end.")
        m = need(r"(let\s+std_dev_x\s*=\s*\(std_dev_x\s+as\s+f32\)\s*\*.*?\(std_dev_x,\s*std_dev_y\))\s*\}\s*$", b, "convert_std_dev_attr: scaling and clamp")
        ds.append(tr_block('std_dev_scaled', '(std_dev_x std_dev_y : Q) (scale : Q * Q)', 'Q * Q', "{ %s }" % m.group(1), FCFG))
        need(r"convert_std_dev_attr\(fe,\s*scale,\s*\"0 0\"\)", rs.find_fn(src, 'convert_gaussian_blur')[2], "feGaussianBlur: stdDeviation through convert_std_dev_attr")
        # feOffset / feDropShadow dx, dy
        for fn_, nm, dflt in (('convert_offset', 'offset', r"0\.0"), ('convert_drop_shadow', 'shadow', r"2\.0")):
            p, r, b = rs.find_fn(src, fn_)
            mx = need(r"dx:\s*(fe\.attribute\(AId::Dx\)\.unwrap_or\(%s\)\s*\*\s*scale\.width\(\)),\s*dy:\s*(fe\.attribute\(AId::Dy\)\.unwrap_or\(%s\)\s*\*\s*scale\.height\(\))," % (dflt, dflt),
                      b, "%s: dx / dy expressions" % fn_)
            ds.append(tr_block(nm + '_dx', '(dx : option Q) (scale : Q * Q)', 'Q', "{ %s }" % mx.group(1).replace('fe.attribute(AId::Dx)', 'dx'), FCFG))
            ds.append(tr_block(nm + '_dy', '(dy : option Q) (scale : Q * Q)', 'Q', "{ %s }" % mx.group(2).replace('fe.attribute(AId::Dy)', 'dy'), FCFG))
        need(r"convert_std_dev_attr\(fe,\s*scale,\s*\"2 2\"\)", rs.find_fn(src, 'convert_drop_shadow')[2], "feDropShadow: stdDeviation through convert_std_dev_attr")
        # feDisplacementMap scale
        p, r, b = rs.find_fn(src, 'convert_displacement_map')
        m1 = need(r"let\s+scale\s*=\s*(\(scale\.width\(\)\s*\+\s*scale\.height\(\)\)\s*/\s*2\.0);", b, "feDisplacementMap: mean of the two scales")
        m2 = need(r"scale:\s*(fe\.attribute\(AId::Scale\)\.unwrap_or\(0\.0\)\s*\*\s*scale),", b, "feDisplacementMap: scale expression")
        ds.append(tr_block('displace_scale', '(s : option Q) (scale : Q * Q)', 'Q',
                           "{ let scale = %s; %s }" % (m1.group(1), m2.group(1).replace('fe.attribute(AId::Scale)', 's')), FCFG))
        # feMorphology radius
        p, r, b = rs.find_fn(src, 'convert_morphology')
        # since e3b9753 the fallback radius is a constant (1 user unit), not the primitiveUnits scale
        m = need(r"let\s+mut\s+radius_x\s*=\s*PositiveF32::new\(([\d.]+)\)\.unwrap\(\);\s*let\s+mut\s+radius_y\s*=\s*PositiveF32::new\(([\d.]+)\)\.unwrap\(\);",
                 b, "feMorphology: constant default radius")
        ds.append("Definition morph_default : Q * Q := (%s, %s)." % (em.num(m.group(1)), em.num(m.group(2))))
        need(r"let\s+mut\s+rx\s*=\s*0\.0;\s*let\s+mut\s+ry\s*=\s*0\.0;\s*if\s+list\.len\(\)\s*==\s*2\s*\{\s*rx\s*=\s*list\[0\];\s*ry\s*=\s*list\[1\];\s*\}\s*"
             r"else\s+if\s+list\.len\(\)\s*==\s*1\s*\{\s*rx\s*=\s*list\[0\];\s*ry\s*=\s*list\[0\];\s*\}", b, "feMorphology: one / two numbers")
        ds.append("Definition morph_pair (l : list Q) : Q * Q := match l with [a; b] => (a, b) | [a] => (a, a) | _ => (0, 0) end.")
        # since 4d36085: the radii are resolved (multiplied with the scale) BEFORE the zero fallbacks and the sign test
        m = need(r"(rx\s*\*=\s*scale\.width\(\);\s*ry\s*\*=\s*scale\.height\(\);\s*if\s+rx\.approx_zero_ulps\(4\)\s*&&\s*ry\.approx_zero_ulps\(4\)\s*\{.*?)if\s+rx\.is_sign_positive\(\)", b,
                 "feMorphology: scaling, then zero-radius replacement")
        sl = re.sub(r"\b(r[xy])\s*\*=\s*([^;]+);", r"\1 = \1 * \2;", m.group(1))
        ds.append(tr_block('morph_fix', '(rx ry : Q) (scale : Q * Q)', 'Q * Q', "{ %s (rx, ry) }" % sl, FCFG))
        m = need(r"if\s+(rx\.is_sign_positive\(\)\s*&&\s*ry\.is_sign_positive\(\))\s*\{\s*if\s+let\s+\(Some\(rx\),\s*Some\(ry\)\)\s*=\s*"
                 r"\(\s*PositiveF32::new\((rx)\),\s*PositiveF32::new\((ry)\),?\s*\)\s*\{\s*"
                 r"radius_x\s*=\s*rx;\s*radius_y\s*=\s*ry;\s*\}\s*\}", b, "feMorphology: sign test and PositiveF32::new of the resolved radii")
        ds.append(tr_block('morph_positive', '(rx ry : Q)', 'bool', "{ %s }" % m.group(1), FCFG))
        ds.append(tr_block('morph_scaled', '(rx ry : Q)', 'option Q * option Q',
                           "{ (PositiveF32::new(%s), PositiveF32::new(%s)) }" % (m.group(2), m.group(3)), FCFG))
        return "\n".join(ds)
    section('filter primitive parameters (primitiveUnits scaling)', 'crates/usvg/src/parser/filter.rs', g_prim_params)

    def g_filter_cache(src):
        # convert_url: skeleton of the conversion cache
        p, r, b = rs.find_fn(src, 'convert_url')
        need(r"if\s+cacheable\s*\{\s*if\s+let\s+Some\(filter\)\s*=\s*cache\.filters\.get\(node\.element_id\(\)\)\s*\{\s*return\s+Ok\(Some\(filter\.clone\(\)\)\);",
             b, "filter cache lookup only when cacheable")
        need(r"if\s+!cacheable\s*&&\s*cache\.filters\.contains_key\(id\.get\(\)\)\s*\{\s*id\s*=\s*cache\.gen_filter_id\(\);\s*\}", b,
             "filter: generated id on second non-cacheable use")
        need(r"if\s+primitives\.is_empty\(\)\s*\{\s*return\s+Err\(\(\)\);\s*\}", b, "filter without primitives is an error")
        need(r"cache\.filters\.insert\(id_copy,\s*filter\.clone\(\)\);", b, "converted filter stored under its id")
        i = [b.find(s) for s in ('cache.filters.get(', 'checked_bbox_transform(rect, object_bbox)', 'collect_children(', 'cache.filters.contains_key(', 'cache.filters.insert(')]
        if not all(0 <= i[k] < i[k + 1] for k in range(4)):
            raise api.Unsupported("convert_url: order lookup / region / primitives / id / insert changed")
        return "Definition FILTER_CACHE_SKELETON : bool := true."
    section('convert_url cache skeleton', 'crates/usvg/src/parser/filter.rs', g_filter_cache)

    def g_mask_cache(src):
        params, ret, body = rs.find_fn(src, 'convert')
        need(r"if\s+cacheable\s*\{\s*if\s+let\s+Some\(mask\)\s*=\s*cache\.masks\.get\(node\.element_id\(\)\)\s*\{\s*return\s+Some\(mask\.clone\(\)\);", body,
             "mask cache lookup only when cacheable")
        need(r"\}\s*else\s*\{\s*mask_all\s*=\s*true;\s*\}", body, "mask: objectBoundingBox units without a box mask everything")
        need(r"if\s+!cacheable\s*&&\s*cache\.masks\.contains_key\(id\.get\(\)\)\s*\{\s*id\s*=\s*cache\.gen_mask_id\(\);\s*\}", body,
             "mask: generated id on second non-cacheable use")
        need(r"if\s+mask_all\s*\{\s*let\s+mask\s*=\s*Arc::new\(Mask\s*\{\s*id,\s*rect,\s*kind:\s*MaskType::Luminance,\s*mask:\s*None,\s*root:\s*Group::empty\(\),\s*\}\);\s*"
             r"cache\.masks\.insert\(id_copy,\s*mask\.clone\(\)\);\s*return\s+Some\(mask\);", body, "mask_all: empty mask without link, stored")
        need(r"if\s+mask\.is_none\(\)\s*\{\s*return\s+None;\s*\}", body, "mask: invalid link invalidates the mask")
        need(r"if\s+content_units\s*==\s*Units::ObjectBoundingBox\s*\{\s*let\s+object_bbox\s*=\s*match\s+object_bbox\s*\{\s*Some\(v\)\s*=>\s*v,\s*None\s*=>\s*\{[^{}]*return\s+None;\s*\}\s*\};",
             body, "mask: objectBoundingBox content without a box is invalid")
        need(r"if\s+!real_root\.has_children\(\)\s*\{\s*return\s+None;\s*\}", body, "mask without content is invalid")
        need(r"let\s+mask\s*=\s*Arc::new\(mask\);\s*cache\.masks\.insert\(id_copy,\s*mask\.clone\(\)\);\s*Some\(mask\)", body, "converted mask stored under its id")
        i = [body.find(s) for s in ('cache.masks.get(', 'checked_bbox_transform(rect, bbox)', 'cache.masks.contains_key(', 'if mask_all {',
                                     'convert(link, state, object_bbox, cache)', 'Transform::from_bbox(object_bbox)', 'has_children()', 'Arc::new(mask)')]
        if not all(0 <= i[k] < i[k + 1] for k in range(len(i) - 1)):
            raise api.Unsupported("mask::convert: order lookup / region / id / mask_all / link / content changed")
        return "Definition MASK_ID_CHOSEN_BEFORE_LINK : bool := true."
    section('mask::convert cache skeleton', 'crates/usvg/src/parser/mask.rs', g_mask_cache)

    # tree/mod.rs Group::calculate_object_bbox: the box every clip / mask / filter of a group is resolved with
    def g_objbox(src):
        params, ret, body = rs.find_fn(src, 'calculate_object_bbox')
        need(r"for\s+child\s+in\s+&self\.children\s*\{\s*if\s+let\s+Node::Group\(ref\s+group\)\s*=\s*child\s*\{\s*"
             r"if\s+!group\.has_children\(\)\s*&&\s*group\.filters\.is_empty\(\)\s*\{\s*continue;\s*\}\s*\}", body,
             "calculate_object_bbox: only child groups without content are skipped")
        need(r"let\s+mut\s+c_bbox\s*=\s*child\.bounding_box\(\);\s*if\s+let\s+Node::Group\(ref\s+group\)\s*=\s*child\s*\{\s*"
             r"if\s+let\s+Some\(r\)\s*=\s*c_bbox\.transform\(group\.transform\)\s*\{\s*c_bbox\s*=\s*r;\s*\}\s*\}\s*"
             r"bbox\s*=\s*bbox\.expand\(c_bbox\);\s*\}\s*bbox\.to_non_zero_rect\(\)", body,
             "calculate_object_bbox: union of the children's boxes (child group boxes through the group transform)")
        return "Definition OBJECT_BBOX_SKIPS_ONLY_EMPTY_GROUPS : bool := true."
    section('Group::calculate_object_bbox', 'crates/usvg/src/tree/mod.rs', g_objbox)

    api.write_gen('LeafObb.v', "\n".join(out))
