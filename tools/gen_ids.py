"""Gen/IdTables.v: id generation facts of usvg::parser::converter (source-derived).

  * one constructor of `idkind` per `Cache::gen_<kind>_id`, with the literal prefix of its `format!`,
    the counter it increments and whether the loop tests `all_ids`;
  * `all_ids_filter`: which elements populate `Cache::all_ids` in convert_doc
    (None = every element with a non-empty id; Some tags = only these element kinds).

Gen/CollectTables.v: shape of the collection loops of usvg::tree (source-derived):

  * `paint_loop_arms`: the arms of the `match node` in `loop_over_paint_servers`, in order: node kind, the arm's
    guard (`if ..` text, "" = none) and what the arm does (recursion / which Path fields are pushed / nothing);
    `paint_loop_subroots`: the unconditional `node.subroots(|subroot| loop_over_paint_servers(subroot, f))`;
  * `collector_guards`: every `if` condition inside Group::collect_clip_paths / collect_masks / collect_filters,
    Tree::collect_paint_servers and loop_over_paint_servers (whitespace-normalised).
  Model/Tree.v's `node_paints` / `walk_*` are the hand model of these loops; Proofs/Collect.v proves by
  `reflexivity` that the tables are the ones the model was written for, so a new guard (e.g. skipping hidden
  paths) or a dropped arm changes a proof obligation.
"""
import re

PROPS = ['C05', 'C07']
REL = 'crates/usvg/src/parser/converter.rs'


def camel(s):
    return ''.join(w.capitalize() for w in s.split('_'))


def generate(api):
    try:
        src = api.rd(REL)
        fns = re.findall(r"pub\(crate\)\s+fn\s+gen_(\w+)_id\s*\(&mut self\)\s*->\s*NonEmptyString\s*\{(.*?)\n    \}", src, re.S)
        if len(fns) < 1:
            raise api.Unsupported("no Cache::gen_*_id functions found")
        kinds = []
        for name, body in fns:
            m = re.search(r'format!\("([A-Za-z_]+)\{\}",\s*self\.(\w+)\)', body)
            if not m:
                raise api.Unsupported("gen_%s_id: `format!(\"<prefix>{}\", self.<counter>)` not found" % name)
            prefix, counter = m.group(1), m.group(2)
            inc = re.search(r"self\.%s\s*\+=\s*1\s*;" % re.escape(counter), body)
            if not inc or inc.start() > m.start():
                raise api.Unsupported("gen_%s_id: counter is not incremented before the name is formatted" % name)
            if not re.search(r"\bloop\s*\{", body):
                raise api.Unsupported("gen_%s_id: no retry loop" % name)
            checks = bool(re.search(r"if\s+!self\.all_ids\.contains\(&\w+\)\s*\{\s*return", body))
            kinds.append((camel(name), prefix, counter, checks))
        counters = [k[2] for k in kinds]
        if len(set(counters)) != len(counters):
            raise api.Unsupported("two id generators share a counter: %r" % counters)
        # population of all_ids
        m = re.search(r"for\s+node\s+in\s+svg_doc\.descendants\(\)\s*\{(.*?)\n    \}", src, re.S)
        if not m or 'all_ids.insert' not in m.group(1):
            raise api.Unsupported("the loop that populates Cache::all_ids was not found in convert_doc")
        blk = m.group(1)
        if not re.search(r"if\s+!node\.element_id\(\)\.is_empty\(\)\s*\{\s*cache\.all_ids\.insert\(string_hash\(node\.element_id\(\)\)\)", blk):
            raise api.Unsupported("all_ids population has an unexpected shape")
        mm = re.search(r"matches!\(\s*tag\s*,(.*?)\)", blk, re.S)
        if mm:
            tags = re.findall(r"EId::(\w+)", mm.group(1))
            flt = "Some [%s]" % "; ".join('"%s"' % t for t in tags)
        elif re.search(r"\bif\b", blk.replace("if !node.element_id().is_empty()", "")):
            raise api.Unsupported("all_ids population is guarded by a condition the translator does not understand")
        else:
            flt = "None"
        # generated ids are never inserted into all_ids (uniqueness among them comes from the counters)
        out = [api.HEADER, "From Coq Require Import String List.\nImport ListNotations.\nLocal Open Scope string_scope.\n",
               "(* %s :: Cache::gen_*_id *)" % REL,
               "Inductive idkind := " + " | ".join("K" + k[0] for k in kinds) + ".",
               "Definition all_idkinds : list idkind := [%s]." % "; ".join("K" + k[0] for k in kinds),
               "Definition id_prefix (k : idkind) : string :=\n  match k with\n" +
               "\n".join('  | K%s => "%s"' % (k[0], k[1]) for k in kinds) + "\n  end.",
               "Definition idkind_eqb (a b : idkind) : bool :=\n  match a, b with\n" +
               "\n".join('  | K%s, K%s => true' % (k[0], k[0]) for k in kinds) + "\n  | _, _ => false\n  end.",
               "(* does the retry loop of the generator test `all_ids`? *)",
               "Definition gen_checks_all_ids (k : idkind) : bool :=\n  match k with\n" +
               "\n".join('  | K%s => %s' % (k[0], 'true' if k[3] else 'false') for k in kinds) + "\n  end.",
               "(* %s :: convert_doc, population of Cache::all_ids (None = every element with an id) *)" % REL,
               "Definition all_ids_filter : option (list string) := %s.\n" % flt]
        api.write_gen('IdTables.v', "\n".join(out))
        api.ok('tables', 'ids', kinds=len(kinds), filter=flt)
    except (api.Unsupported, OSError, ValueError, IndexError) as e:
        api.broken('table', 'converter.gen_ids', PROPS, e)
    generate_collect(api)
    generate_id_sites(api)


TREE_REL = 'crates/usvg/src/tree/mod.rs'


def _fn_body(src, header_re):
    """text between the braces of the first fn whose header matches"""
    m = re.search(header_re, src)
    if not m:
        return None
    i = src.index('{', m.end() - 1)
    depth, j = 0, i
    while j < len(src):
        if src[j] == '{':
            depth += 1
        elif src[j] == '}':
            depth -= 1
            if depth == 0:
                return src[i + 1:j]
        j += 1
    return None


def _norm(t):
    return re.sub(r"\s+\.", ".", re.sub(r"\s+", " ", t)).strip()


def _strip_comments(t):
    return re.sub(r"//[^\n]*", "", t)


def _guards(body):
    return [_norm(g) for g in re.findall(r"\bif\s+(.*?)\s*\{", _strip_comments(body), re.S)]


def _coq_str(t):
    return '"%s"' % t.replace('"', '""')


def generate_collect(api):
    try:
        src = api.rd(TREE_REL)
        loop = _fn_body(src, r"fn\s+loop_over_paint_servers\b[^{]*\{")
        if loop is None:
            raise api.Unsupported("fn loop_over_paint_servers not found")
        loop = _strip_comments(loop)
        m = re.search(r"for\s+node\s+in\s+&parent\.children\s*\{", loop)
        if not m:
            raise api.Unsupported("loop_over_paint_servers: `for node in &parent.children` not found")
        forb = _fn_body(loop[m.start():], r"for\s+node\s+in\s+&parent\.children\s*\{")
        mm = re.search(r"match\s+node\s*\{", forb)
        if not mm:
            raise api.Unsupported("loop_over_paint_servers: `match node` not found")
        mbody = _fn_body(forb[mm.start():], r"match\s+node\s*\{")
        rest = forb[forb.index("{", mm.start()) + len(mbody) + 2:]
        arms = []
        pos = 0
        arm_re = re.compile(r"Node::(\w+)\(([^)]*)\)\s*(?:if\s+(.*?))?\s*=>\s*", re.S)
        while True:
            a = arm_re.search(mbody, pos)
            if not a:
                break
            kind, guard = a.group(1), _norm(a.group(3) or "")
            k = a.end()
            if mbody[k] == '{':
                depth, j = 0, k
                while True:
                    if mbody[j] == '{':
                        depth += 1
                    elif mbody[j] == '}':
                        depth -= 1
                        if depth == 0:
                            break
                    j += 1
                act = mbody[k + 1:j]
                pos = j + 1
            else:
                depth, j = 0, k
                while j < len(mbody) and not (mbody[j] == ',' and depth == 0):
                    depth += {'(': 1, ')': -1}.get(mbody[j], 0)
                    j += 1
                act = mbody[k:j]
                pos = j + 1
            act_n = _norm(act)
            if act_n == "":
                what = "ArmSkip"
            elif re.fullmatch(r"loop_over_paint_servers\(\w+, f\)", act_n):
                what = "ArmRec"
            else:
                pushes = re.findall(r"push\(\s*(\w+)\.(\w+)\.as_ref\(\)\.map\(\|\w+\| &\w+\.paint\), f\);", act_n)
                left = re.sub(r"push\(\s*\w+\.\w+\.as_ref\(\)\.map\(\|\w+\| &\w+\.paint\), f\);", "", act_n).strip()
                if not pushes or left:
                    raise api.Unsupported("loop_over_paint_servers: arm Node::%s does something the translator does not understand: %s" % (kind, act_n[:80]))
                what = "ArmPush [%s]" % "; ".join(_coq_str(f) for _, f in pushes)
            arms.append('(%s, %s, %s)' % (_coq_str(kind), _coq_str(guard), what))
        if not arms:
            raise api.Unsupported("loop_over_paint_servers: no match arms found")
        sub = _norm(rest)
        subroots = bool(re.fullmatch(r"node\.subroots\(\|subroot\| loop_over_paint_servers\(subroot, f\)\);", sub))
        if not subroots and sub:
            raise api.Unsupported("loop_over_paint_servers: unexpected code after the match: %s" % sub[:80])
        fns = [('collect_clip_paths', r"fn\s+collect_clip_paths\b[^{]*\{"),
               ('collect_masks', r"fn\s+collect_masks\b[^{]*\{"),
               ('collect_filters', r"fn\s+collect_filters\b[^{]*\{"),
               ('collect_paint_servers', r"fn\s+collect_paint_servers\b[^{]*\{"),
               ('loop_over_paint_servers', r"fn\s+loop_over_paint_servers\b[^{]*\{")]
        rows = []
        for name, hre in fns:
            b = _fn_body(src, hre)
            if b is None:
                raise api.Unsupported("fn %s not found in %s" % (name, TREE_REL))
            rows.append('(%s, [%s])' % (_coq_str(name), "; ".join(_coq_str(g) for g in _guards(b))))
        out = [api.HEADER, "From Coq Require Import String List.\nImport ListNotations.\nLocal Open Scope string_scope.\n",
               "(* %s :: loop_over_paint_servers *)" % TREE_REL,
               "Inductive parm := ArmRec | ArmPush (fields : list string) | ArmSkip.",
               "(* (Node kind, guard of the arm (\"\" = none), action) *)",
               "Definition paint_loop_arms : list (string * string * parm) :=\n  [%s]." % ";\n   ".join(arms),
               "(* `node.subroots(|subroot| loop_over_paint_servers(subroot, f))` follows the match, unconditionally *)",
               "Definition paint_loop_subroots : bool := %s." % ('true' if subroots else 'false'),
               "(* every `if` condition of the collection loops *)",
               "Definition collector_guards : list (string * list string) :=\n  [%s].\n" % ";\n   ".join(rows)]
        # the `seen` address sets that make the collectors linear (fix 37642ef): every mention of a seen-set in a collector
        # (declaration / parameter, the guarded insert, handing it on to the recursive calls), the calls of the collectors in
        # convert_doc, and the initialisers of the lists in the Tree literal there
        seen_rows = []
        for name, hre in fns:
            mh = re.search(hre, src)
            b = _fn_body(src, hre)
            head = _norm(_strip_comments(src[mh.start():mh.end() - 1]))
            frags = [head] if re.search(r"\bseen\w*\b", head) else []
            for stmt in re.split(r"[;{}]", _strip_comments(b)):
                if re.search(r"\bseen\w*\b", stmt):
                    frags.append(_norm(stmt))
            seen_rows.append('(%s, [%s])' % (_coq_str(name), "; ".join(_coq_str(x) for x in frags)))
        csrc = _strip_comments(api.rd('crates/usvg/src/parser/converter.rs'))
        calls = [_norm(c) for c in re.findall(r"\btree\s*(?:\.\s*root\s*)?\.\s*collect_\w+\s*\([^;]*\)\s*;", csrc)]
        lit = re.search(r"let\s+mut\s+tree\s*=\s*Tree\s*\{(.*?)\n\s*\};", csrc, re.S)
        if not lit:
            raise api.Unsupported("convert_doc: `let mut tree = Tree { .. };` not found")
        inits = sorted(_norm(x) for x in re.findall(r"\b(?:linear_gradients|radial_gradients|patterns|clip_paths|masks|filters)\s*:[^,]*", lit.group(1)))
        out += ["(* every mention of a `seen` address set in the collectors: signature, statements *)",
                "Definition collector_seen : list (string * list string) :=\n  [%s]." % ";\n   ".join(seen_rows),
                "(* crates/usvg/src/parser/converter.rs :: convert_doc: the calls of the collectors, the initialisers of the lists *)",
                "Definition collector_calls : list string :=\n  [%s]." % ";\n   ".join(_coq_str(c) for c in calls),
                "Definition tree_list_inits : list string :=\n  [%s].\n" % ";\n   ".join(_coq_str(c) for c in inits)]
        api.write_gen('CollectTables.v', "\n".join(out))
        api.ok('tables', 'collect', arms=len(arms))
    except (api.Unsupported, OSError, ValueError, IndexError) as e:
        api.broken('table', 'tree.collect_loops', PROPS, e)


# ------------------------------------------------------------------------------------------------
# Gen/IdPrograms.v: every control path of the converter that emits more than one node for ONE source element, as a
# straight-line "id program" (which node variable gets the element id, which is cleared / swapped / cloned, which
# nodes are pushed into the tree).  Sites: image::convert_inner (slice / no slice), converter::convert_path (one
# program per arm of `match raw_paint_order.order`, `append_single_paint_path` inlined for Fill and Stroke),
# use_node::convert (the clip-rect branch: clip group + `use` group).
# ------------------------------------------------------------------------------------------------
ID_TOKENS = [
    ('new', r"let\s+(?:mut\s+)?(\w+)\s*=\s*(?:Group::empty\(\)|Path::new_simple\()"),
    ('src', r"let\s+(?:mut\s+)?(\w+)\s*=\s*clip_element\(\s*node,"),
    ('src', r"Some\(mut\s+(\w+)\)\s*=\s*converter::convert_group\(\s*node,"),
    ('src', r"let\s+(?:mut\s+)?(\w+)\s*=\s*Path::new\(\s*id,"),
    ('src', r"(\w+)\.id\s*=\s*id;"),
    ('clear', r"(\w+)\.id\s*=\s*String::new\(\);"),
    ('cloneid', r"(\w+)\.id\s*=\s*(\w+)\.id(?:\(\))?\.(?:clone|to_string|to_owned)\(\);"),
    ('swap', r"std::mem::swap\(\s*&mut\s+(\w+)\.id,\s*&mut\s+(\w+)\.id\s*\);"),
    ('clonenode', r"let\s+(?:mut\s+)?(\w+)\s*=\s*(\w+)\.clone\(\);"),
    ('emitnew', r"push\(Node::\w+\(Box::new\(\w+\s*\{\s*id:\s*String::new\(\),"),
    ('emitclone', r"push\(Node::\w+\(Box::new\((\w+)\.clone\(\)\)\)\)"),
    ('emit', r"push\(Node::\w+\(Box::new\((\w+)\)\)\)"),
    ('call', r"append_single_paint_path\(\s*(\w+),\s*&path,\s*parent\)"),
]
ID_RE = re.compile("|".join("(?P<t%d>%s)" % (i, rx) for i, (_, rx) in enumerate(ID_TOKENS)), re.S)


def _id_ops(api, text, where):
    """ordered id operations of a code slice; any `.id =` / `mem::swap(..id` that is not recognised is an error"""
    text = _strip_comments(text)
    ops = []
    for m in ID_RE.finditer(text):
        i = next(k for k in range(len(ID_TOKENS)) if m.group('t%d' % k) is not None)
        kind = ID_TOKENS[i][0]
        # groups of alternative i: they follow the named group in order
        gi = ID_RE.groupindex['t%d' % i]
        ngr = re.compile(ID_TOKENS[i][1]).groups
        ops.append((kind,) + tuple(m.group(gi + 1 + k) for k in range(ngr)))
    assigns = len(re.findall(r"\.id\s*=[^=]", text)) + len(re.findall(r"mem::swap\([^;]*\.id", text))
    seen = sum(1 for o in ops if o[0] in ('clear', 'cloneid', 'swap') or (o[0] == 'src' and False))
    seen += len(re.findall(r"\w+\.id\s*=\s*id;", text))
    if assigns != seen:
        raise api.Unsupported("%s: an assignment to `.id` the translator does not understand (%d found, %d read)" % (where, assigns, seen))
    return ops


def _coq_ops(ops):
    out = []
    for o in ops:
        k = o[0]
        q = lambda s: '"%s"' % s
        out.append({'new': lambda: 'OpNew %s' % q(o[1]), 'src': lambda: 'OpAssignSrc %s' % q(o[1]), 'clear': lambda: 'OpClear %s' % q(o[1]),
                    'cloneid': lambda: 'OpCloneId %s %s' % (q(o[1]), q(o[2])), 'swap': lambda: 'OpSwap %s %s' % (q(o[1]), q(o[2])),
                    'clonenode': lambda: 'OpCloneNode %s %s' % (q(o[1]), q(o[2])), 'emitnew': lambda: 'OpEmitNew',
                    'emitclone': lambda: 'OpEmitClone %s' % q(o[1]), 'emit': lambda: 'OpEmit %s' % q(o[1]),
                    'setalt': lambda: 'OpSetAlt %s %s' % (q(o[1]), q(o[2]))}[k]())
    return "[%s]" % "; ".join(out)


def _block_after(text, start_re):
    m = re.search(start_re, text, re.S)
    if not m:
        return None, None, None
    body = _fn_body(text[m.start():], start_re)
    end = text.index('{', m.end() - 1) + len(body) + 2
    return m.start(), body, end


def generate_id_sites(api):
    try:
        progs = []
        # ---- image::convert_inner
        src = api.rd('crates/usvg/src/parser/image.rs')
        body = _fn_body(src, r"fn\s+convert_inner\b[^{]*\{")
        if body is None:
            raise api.Unsupported("image::convert_inner not found")
        a, blk, e = _block_after(body, r"if\s+aspect\.slice\s*\{")
        if blk is None:
            raise api.Unsupported("image::convert_inner: `if aspect.slice` not found")
        rest = body[e:]
        me = re.match(r"\s*else\s*\{", rest)
        if not me:
            raise api.Unsupported("image::convert_inner: no else branch after `if aspect.slice`")
        eb = _fn_body(rest, r"else\s*\{")
        tail = rest[rest.index('{') + len(eb) + 2:]
        pre = _id_ops(api, body[:a], 'image::convert_inner')
        progs.append(('image::convert_inner/slice', pre + _id_ops(api, blk, 'image slice') + _id_ops(api, tail, 'image tail')))
        progs.append(('image::convert_inner/no-slice', pre + _id_ops(api, eb, 'image no-slice') + _id_ops(api, tail, 'image tail')))
        # ---- converter::convert_path + append_single_paint_path
        src = api.rd(REL)
        body = _fn_body(src, r"fn\s+convert_path\b[^{]*\{")
        single = _fn_body(src, r"fn\s+append_single_paint_path\b[^{]*\{")
        if body is None or single is None:
            raise api.Unsupported("convert_path / append_single_paint_path not found")
        if not re.search(r"let\s+id\s*=\s*if\s+state\.parent_markers\.is_empty\(\)\s*\{\s*node\.element_id\(\)\.to_string\(\)\s*\}\s*else\s*\{\s*String::new\(\)\s*\}", body):
            raise api.Unsupported("convert_path: `let id = if state.parent_markers.is_empty() { element id } else { empty }` not found")
        mg = re.search(r"let\s+mut\s+marker_group\s*=\s*Group\s*\{(.*?)\.\.Group::empty\(\)\s*\}", body, re.S)
        if not mg or re.search(r"\bid\b", mg.group(1)):
            raise api.Unsupported("convert_path: the marker group literal was not found or sets an id")
        singles = {}
        sm = _fn_body(single, r"match\s+paint_order_kind\s*\{")
        for kind in ('Fill', 'Stroke'):
            mk = re.search(r"PaintOrderKind::%s\s*=>\s*\{" % kind, sm)
            if not mk:
                raise api.Unsupported("append_single_paint_path: arm %s not found" % kind)
            singles[kind] = _id_ops(api, _fn_body(sm[mk.start():], r"PaintOrderKind::%s\s*=>\s*\{" % kind), 'append_single_paint_path/' + kind)
        a = body.index('let path = Path::new(')
        mm = re.search(r"match\s+raw_paint_order\.order\s*\{", body)
        if not mm:
            raise api.Unsupported("convert_path: `match raw_paint_order.order` not found")
        pre = _id_ops(api, body[a:mm.start()], 'convert_path') + [('new', 'markers_node')]
        mbody = _strip_comments(_fn_body(body[mm.start():], r"match\s+raw_paint_order\.order\s*\{"))
        pos, narms = 0, 0
        arm_re = re.compile(r"(\[[^\]]*\]|_)\s*=>\s*", re.S)
        while True:
            am = arm_re.search(mbody, pos)
            if not am:
                break
            k = am.end()
            if mbody[k] == '{':
                act = _fn_body(mbody[k - 1:], r"\{") if False else None
                depth, j = 0, k
                while True:
                    depth += {'{': 1, '}': -1}.get(mbody[j], 0)
                    if depth == 0:
                        break
                    j += 1
                act, pos = mbody[k + 1:j], j + 1
            else:
                depth, j = 0, k
                while j < len(mbody) and not (mbody[j] == ',' and depth == 0):
                    depth += {'(': 1, ')': -1}.get(mbody[j], 0)
                    j += 1
                act, pos = mbody[k:j] + ';', j + 1
            act = re.sub(r"push\((Node::\w+\(Box::new\(\w+(?:\.clone\(\))?\)\))\)\s*;?", r"push(\1);", act)
            ops = _id_ops(api, act, 'convert_path arm ' + am.group(1))
            pat = _norm(am.group(1))
            names = [o[1] for o in ops if o[0] == 'call']
            combos = [dict()] if not names else [dict(zip(names, c)) for c in (('Fill', 'Stroke'), ('Stroke', 'Fill'))]
            for cb in combos:
                full = list(pre)
                for o in ops:
                    if o[0] == 'call':
                        full += [(x[0],) + tuple('path' if (y == 'path' and i > 0 and x[0] == 'clonenode' and i == 2) else y for i, y in enumerate(x[1:], 1))
                                 for x in singles[cb[o[1]]]]
                    else:
                        full.append(o)
                label = 'convert_path/%s%s' % (pat, ''.join('/%s=%s' % kv for kv in sorted(cb.items())))
                progs.append((label, full))
            narms += 1
        if narms < 2:
            raise api.Unsupported("convert_path: paint-order arms not found")
        # ---- use_node::convert, clip-rect branch
        src = api.rd('crates/usvg/src/parser/use_node.rs')
        a, blk, e = _block_after(src, r"if\s+let\s+Some\(clip_rect\)\s*=\s*get_clip_rect\(node,\s*child,\s*state\)\s*\{")
        if blk is None:
            raise api.Unsupported("use_node::convert: clip-rect branch not found")
        ce = _fn_body(src, r"fn\s+clip_element\b[^{]*\{")
        if ce is None or not re.search(r"Group\s*\{\s*id,", ce) or not re.search(r"let\s+id\s*=\s*if\s+state\.parent_markers\.is_empty\(\)\s*\{\s*node\.element_id\(\)", ce):
            raise api.Unsupported("use_node::clip_element does not give its group the element id as expected")
        progs.append(('use_node::convert/clip-rect', _id_ops(api, blk, 'use_node clip-rect branch')))
        # ---- text: parser/text.rs (the Text node), text/mod.rs + text/flatten.rs (its flattened group = second representation of the same node)
        tsrc = _strip_comments(api.rd('crates/usvg/src/parser/text.rs'))
        fsrc = _strip_comments(api.rd('crates/usvg/src/text/flatten.rs'))
        lsrc = _strip_comments(api.rd('crates/usvg/src/text/layout.rs'))
        msrc = _strip_comments(api.rd('crates/usvg/src/text/mod.rs'))
        if not re.search(r"let\s+id\s*=\s*if\s+state\.parent_markers\.is_empty\(\)\s*\{\s*text_node\.element_id\(\)\.to_string\(\)\s*\}\s*else\s*\{\s*String::new\(\)\s*\}", tsrc) \
                or not re.search(r"let\s+mut\s+text\s*=\s*Text\s*\{\s*id,", tsrc) or not re.search(r"flattened:\s*Box::new\(Group::empty\(\)\)", tsrc):
            raise api.Unsupported("parser/text.rs: `Text { id, .., flattened: Box::new(Group::empty()) }` with the marker-aware id not found")
        if len(re.findall(r"push\(Node::Text\(Box::new\(text\)\)\)", tsrc)) != 1:
            raise api.Unsupported("parser/text.rs: the Text node is not pushed exactly once")
        tprog = [('src', 'text'), ('new', 'flattened')]
        fl = _fn_body(fsrc, r"fn\s+flatten\b[^{]*\{")
        if fl is None:
            raise api.Unsupported("text/flatten.rs: fn flatten not found")
        idf = re.findall(r"\bid:\s*([^,}]+)", fl)
        mg = re.search(r"let\s+mut\s+group\s*=\s*Group\s*\{\s*id:\s*text\.id\.clone\(\),\s*\.\.Group::empty\(\)", fl)
        if not mg or [x.strip() for x in idf] != ['text.id.clone()']:
            raise api.Unsupported("text/flatten.rs: flatten's group literal `Group { id: text.id.clone(), ..Group::empty() }` not found or other id fields: %r" % idf)
        # every other node built for the flattened text has an empty id
        for name, src2 in (('flatten.rs', fsrc), ('layout.rs', lsrc)):
            for mm in re.finditer(r"\bPath::new\(\s*([^,]+),", src2):
                if mm.group(1).strip() != 'String::new()':
                    raise api.Unsupported("text/%s: a Path::new whose id is not String::new(): %s" % (name, mm.group(1).strip()))
        others = [x.strip() for x in re.findall(r"\bid:\s*([^,}\)]+)[,}]", fsrc.replace(mg.group(0), ''))]
        if any(x not in ('String::new()',) for x in others if not re.fullmatch(r"ID", x)):
            raise api.Unsupported("text/flatten.rs: an id field that is neither empty nor the flattened group's: %r" % others)
        tprog += [('cloneid', 'group', 'text')] + [('emitnew',)] * len(re.findall(r"\bPath::new\(\s*String::new\(\)", fsrc))
        if not re.search(r"text\.flattened\s*=\s*Box::new\(group\);", msrc):
            raise api.Unsupported("text/mod.rs: `text.flattened = Box::new(group)` not found")
        tprog += [('setalt', 'text', 'group'), ('emit', 'text')]
        progs.append(('text::convert', tprog))
        out = [api.HEADER, "From Coq Require Import String List.\nImport ListNotations.\nLocal Open Scope string_scope.\n",
               "(* node variables; OpAssignSrc x: x gets the id of the source element; OpEmit x: x is moved into the tree; OpEmitClone x: a copy is *)",
               "Inductive idop := OpNew (x : string) | OpAssignSrc (x : string) | OpClear (x : string) | OpCloneId (x y : string)",
               "  | OpSwap (x y : string) | OpCloneNode (x y : string) | OpEmit (x : string) | OpEmitClone (x : string) | OpEmitNew",
               "  | OpSetAlt (x y : string).   (* y becomes the second representation stored inside x (Text::flattened): never written together with x *)",
               "Definition id_programs : list (string * list idop) :=\n  [%s].\n" % ";\n   ".join('("%s", %s)' % (n, _coq_ops(p)) for n, p in progs)]
        api.write_gen('IdPrograms.v', "\n".join(out))
        api.ok('tables', 'id_programs', programs=len(progs))
    except (api.Unsupported, OSError, ValueError, IndexError, StopIteration) as e:
        api.broken('table', 'converter.id_programs', ['C05'], e)
