"""Gen/IdTables.v: id generation facts of usvg::parser::converter (source-derived).

  * one constructor of `idkind` per `Cache::gen_<kind>_id`, with the literal prefix of its `format!`,
    the counter it increments and whether the loop tests `all_ids`;
  * `all_ids_filter`: which elements populate `Cache::all_ids` in convert_doc
    (None = every element with a non-empty id; Some tags = only these element kinds).

Gen/CollectTables.v: shape of the collection loops of usvg::tree (source-derived):

  * `paint_loop_arms`: the arms of the `match node` in `loop_over_paint_servers`, in order: node kind, the arm's
    guard (`if ..` text, "" = none) and what the arm does (recursion / which Path fields are pushed / nothing);
    `paint_loop_subroots`: the unconditional `node.subroots(|subroot| loop_over_paint_servers(subroot, f))`;
  * `collector_guards`: every `if` condition inside Group::collect_clip_paths / collect_masks / collect_filters,
    Tree::collect_paint_servers and loop_over_paint_servers (whitespace-normalised).
  Model/Tree.v's `node_paints` / `walk_*` are the hand model of these loops; Proofs/Collect.v proves by
  `reflexivity` that the tables are the ones the model was written for, so a new guard (e.g. skipping hidden
  paths) or a dropped arm changes a proof obligation.
"""
import re

PROPS = ['C05', 'C07']
REL = 'crates/usvg/src/parser/converter.rs'


def camel(s):
    return ''.join(w.capitalize() for w in s.split('_'))


def generate(api):
    try:
        src = api.rd(REL)
        fns = re.findall(r"pub\(crate\)\s+fn\s+gen_(\w+)_id\s*\(&mut self\)\s*->\s*NonEmptyString\s*\{(.*?)\n    \}", src, re.S)
        if len(fns) < 1:
            raise api.Unsupported("no Cache::gen_*_id functions found")
        kinds = []
        for name, body in fns:
            m = re.search(r'format!\("([A-Za-z_]+)\{\}",\s*self\.(\w+)\)', body)
            if not m:
                raise api.Unsupported("gen_%s_id: `format!(\"<prefix>{}\", self.<counter>)` not found" % name)
            prefix, counter = m.group(1), m.group(2)
            inc = re.search(r"self\.%s\s*\+=\s*1\s*;" % re.escape(counter), body)
            if not inc or inc.start() > m.start():
                raise api.Unsupported("gen_%s_id: counter is not incremented before the name is formatted" % name)
            if not re.search(r"\bloop\s*\{", body):
                raise api.Unsupported("gen_%s_id: no retry loop" % name)
            checks = bool(re.search(r"if\s+!self\.all_ids\.contains\(&\w+\)\s*\{\s*return", body))
            kinds.append((camel(name), prefix, counter, checks))
        counters = [k[2] for k in kinds]
        if len(set(counters)) != len(counters):
            raise api.Unsupported("two id generators share a counter: %r" % counters)
        # population of all_ids
        m = re.search(r"for\s+node\s+in\s+svg_doc\.descendants\(\)\s*\{(.*?)\n    \}", src, re.S)
        if not m or 'all_ids.insert' not in m.group(1):
            raise api.Unsupported("the loop that populates Cache::all_ids was not found in convert_doc")
        blk = m.group(1)
        if not re.search(r"if\s+!node\.element_id\(\)\.is_empty\(\)\s*\{\s*cache\.all_ids\.insert\(string_hash\(node\.element_id\(\)\)\)", blk):
            raise api.Unsupported("all_ids population has an unexpected shape")
        mm = re.search(r"matches!\(\s*tag\s*,(.*?)\)", blk, re.S)
        if mm:
            tags = re.findall(r"EId::(\w+)", mm.group(1))
            flt = "Some [%s]" % "; ".join('"%s"' % t for t in tags)
        elif re.search(r"\bif\b", blk.replace("if !node.element_id().is_empty()", "")):
            raise api.Unsupported("all_ids population is guarded by a condition the translator does not understand")
        else:
            flt = "None"
        # generated ids are never inserted into all_ids (uniqueness among them comes from the counters)
        out = [api.HEADER, "From Coq Require Import String List.\nImport ListNotations.\nLocal Open Scope string_scope.\n",
               "(* %s :: Cache::gen_*_id *)" % REL,
               "Inductive idkind := " + " | ".join("K" + k[0] for k in kinds) + ".",
               "Definition all_idkinds : list idkind := [%s]." % "; ".join("K" + k[0] for k in kinds),
               "Definition id_prefix (k : idkind) : string :=\n  match k with\n" +
               "\n".join('  | K%s => "%s"' % (k[0], k[1]) for k in kinds) + "\n  end.",
               "Definition idkind_eqb (a b : idkind) : bool :=\n  match a, b with\n" +
               "\n".join('  | K%s, K%s => true' % (k[0], k[0]) for k in kinds) + "\n  | _, _ => false\n  end.",
               "(* does the retry loop of the generator test `all_ids`? *)",
               "Definition gen_checks_all_ids (k : idkind) : bool :=\n  match k with\n" +
               "\n".join('  | K%s => %s' % (k[0], 'true' if k[3] else 'false') for k in kinds) + "\n  end.",
               "(* %s :: convert_doc, population of Cache::all_ids (None = every element with an id) *)" % REL,
               "Definition all_ids_filter : option (list string) := %s.\n" % flt]
        api.write_gen('IdTables.v', "\n".join(out))
        api.ok('tables', 'ids', kinds=len(kinds), filter=flt)
    except (api.Unsupported, OSError, ValueError, IndexError) as e:
        api.broken('table', 'converter.gen_ids', PROPS, e)
    generate_collect(api)


TREE_REL = 'crates/usvg/src/tree/mod.rs'


def _fn_body(src, header_re):
    """text between the braces of the first fn whose header matches"""
    m = re.search(header_re, src)
    if not m:
        return None
    i = src.index('{', m.end() - 1)
    depth, j = 0, i
    while j < len(src):
        if src[j] == '{':
            depth += 1
        elif src[j] == '}':
            depth -= 1
            if depth == 0:
                return src[i + 1:j]
        j += 1
    return None


def _norm(t):
    return re.sub(r"\s+\.", ".", re.sub(r"\s+", " ", t)).strip()


def _strip_comments(t):
    return re.sub(r"//[^\n]*", "", t)


def _guards(body):
    return [_norm(g) for g in re.findall(r"\bif\s+(.*?)\s*\{", _strip_comments(body), re.S)]


def _coq_str(t):
    return '"%s"' % t.replace('"', '""')


def generate_collect(api):
    try:
        src = api.rd(TREE_REL)
        loop = _fn_body(src, r"fn\s+loop_over_paint_servers\b[^{]*\{")
        if loop is None:
            raise api.Unsupported("fn loop_over_paint_servers not found")
        loop = _strip_comments(loop)
        m = re.search(r"for\s+node\s+in\s+&parent\.children\s*\{", loop)
        if not m:
            raise api.Unsupported("loop_over_paint_servers: `for node in &parent.children` not found")
        forb = _fn_body(loop[m.start():], r"for\s+node\s+in\s+&parent\.children\s*\{")
        mm = re.search(r"match\s+node\s*\{", forb)
        if not mm:
            raise api.Unsupported("loop_over_paint_servers: `match node` not found")
        mbody = _fn_body(forb[mm.start():], r"match\s+node\s*\{")
        rest = forb[forb.index("{", mm.start()) + len(mbody) + 2:]
        arms = []
        pos = 0
        arm_re = re.compile(r"Node::(\w+)\(([^)]*)\)\s*(?:if\s+(.*?))?\s*=>\s*", re.S)
        while True:
            a = arm_re.search(mbody, pos)
            if not a:
                break
            kind, guard = a.group(1), _norm(a.group(3) or "")
            k = a.end()
            if mbody[k] == '{':
                depth, j = 0, k
                while True:
                    if mbody[j] == '{':
                        depth += 1
                    elif mbody[j] == '}':
                        depth -= 1
                        if depth == 0:
                            break
                    j += 1
                act = mbody[k + 1:j]
                pos = j + 1
            else:
                depth, j = 0, k
                while j < len(mbody) and not (mbody[j] == ',' and depth == 0):
                    depth += {'(': 1, ')': -1}.get(mbody[j], 0)
                    j += 1
                act = mbody[k:j]
                pos = j + 1
            act_n = _norm(act)
            if act_n == "":
                what = "ArmSkip"
            elif re.fullmatch(r"loop_over_paint_servers\(\w+, f\)", act_n):
                what = "ArmRec"
            else:
                pushes = re.findall(r"push\(\s*(\w+)\.(\w+)\.as_ref\(\)\.map\(\|\w+\| &\w+\.paint\), f\);", act_n)
                left = re.sub(r"push\(\s*\w+\.\w+\.as_ref\(\)\.map\(\|\w+\| &\w+\.paint\), f\);", "", act_n).strip()
                if not pushes or left:
                    raise api.Unsupported("loop_over_paint_servers: arm Node::%s does something the translator does not understand: %s" % (kind, act_n[:80]))
                what = "ArmPush [%s]" % "; ".join(_coq_str(f) for _, f in pushes)
            arms.append('(%s, %s, %s)' % (_coq_str(kind), _coq_str(guard), what))
        if not arms:
            raise api.Unsupported("loop_over_paint_servers: no match arms found")
        sub = _norm(rest)
        subroots = bool(re.fullmatch(r"node\.subroots\(\|subroot\| loop_over_paint_servers\(subroot, f\)\);", sub))
        if not subroots and sub:
            raise api.Unsupported("loop_over_paint_servers: unexpected code after the match: %s" % sub[:80])
        fns = [('collect_clip_paths', r"fn\s+collect_clip_paths\b[^{]*\{"),
               ('collect_masks', r"fn\s+collect_masks\b[^{]*\{"),
               ('collect_filters', r"fn\s+collect_filters\b[^{]*\{"),
               ('collect_paint_servers', r"fn\s+collect_paint_servers\b[^{]*\{"),
               ('loop_over_paint_servers', r"fn\s+loop_over_paint_servers\b[^{]*\{")]
        rows = []
        for name, hre in fns:
            b = _fn_body(src, hre)
            if b is None:
                raise api.Unsupported("fn %s not found in %s" % (name, TREE_REL))
            rows.append('(%s, [%s])' % (_coq_str(name), "; ".join(_coq_str(g) for g in _guards(b))))
        out = [api.HEADER, "From Coq Require Import String List.\nImport ListNotations.\nLocal Open Scope string_scope.\n",
               "(* %s :: loop_over_paint_servers *)" % TREE_REL,
               "Inductive parm := ArmRec | ArmPush (fields : list string) | ArmSkip.",
               "(* (Node kind, guard of the arm (\"\" = none), action) *)",
               "Definition paint_loop_arms : list (string * string * parm) :=\n  [%s]." % ";\n   ".join(arms),
               "(* `node.subroots(|subroot| loop_over_paint_servers(subroot, f))` follows the match, unconditionally *)",
               "Definition paint_loop_subroots : bool := %s." % ('true' if subroots else 'false'),
               "(* every `if` condition of the collection loops *)",
               "Definition collector_guards : list (string * list string) :=\n  [%s].\n" % ";\n   ".join(rows)]
        api.write_gen('CollectTables.v', "\n".join(out))
        api.ok('tables', 'collect', arms=len(arms))
    except (api.Unsupported, OSError, ValueError, IndexError) as e:
        api.broken('table', 'tree.collect_loops', PROPS, e)
