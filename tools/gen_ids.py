"""Gen/IdTables.v: id generation facts of usvg::parser::converter (source-derived).

  * one constructor of `idkind` per `Cache::gen_<kind>_id`, with the literal prefix of its `format!`,
    the counter it increments and whether the loop tests `all_ids`;
  * `all_ids_filter`: which elements populate `Cache::all_ids` in convert_doc
    (None = every element with a non-empty id; Some tags = only these element kinds).
"""
import re

PROPS = ['C05', 'C07']
REL = 'crates/usvg/src/parser/converter.rs'


def camel(s):
    return ''.join(w.capitalize() for w in s.split('_'))


def generate(api):
    try:
        src = api.rd(REL)
        fns = re.findall(r"pub\(crate\)\s+fn\s+gen_(\w+)_id\s*\(&mut self\)\s*->\s*NonEmptyString\s*\{(.*?)\n    \}", src, re.S)
        if len(fns) < 1:
            raise api.Unsupported("no Cache::gen_*_id functions found")
        kinds = []
        for name, body in fns:
            m = re.search(r'format!\("([A-Za-z_]+)\{\}",\s*self\.(\w+)\)', body)
            if not m:
                raise api.Unsupported("gen_%s_id: `format!(\"<prefix>{}\", self.<counter>)` not found" % name)
            prefix, counter = m.group(1), m.group(2)
            inc = re.search(r"self\.%s\s*\+=\s*1\s*;" % re.escape(counter), body)
            if not inc or inc.start() > m.start():
                raise api.Unsupported("gen_%s_id: counter is not incremented before the name is formatted" % name)
            if not re.search(r"\bloop\s*\{", body):
                raise api.Unsupported("gen_%s_id: no retry loop" % name)
            checks = bool(re.search(r"if\s+!self\.all_ids\.contains\(&\w+\)\s*\{\s*return", body))
            kinds.append((camel(name), prefix, counter, checks))
        counters = [k[2] for k in kinds]
        if len(set(counters)) != len(counters):
            raise api.Unsupported("two id generators share a counter: %r" % counters)
        # population of all_ids
        m = re.search(r"for\s+node\s+in\s+svg_doc\.descendants\(\)\s*\{(.*?)\n    \}", src, re.S)
        if not m or 'all_ids.insert' not in m.group(1):
            raise api.Unsupported("the loop that populates Cache::all_ids was not found in convert_doc")
        blk = m.group(1)
        if not re.search(r"if\s+!node\.element_id\(\)\.is_empty\(\)\s*\{\s*cache\.all_ids\.insert\(string_hash\(node\.element_id\(\)\)\)", blk):
            raise api.Unsupported("all_ids population has an unexpected shape")
        mm = re.search(r"matches!\(\s*tag\s*,(.*?)\)", blk, re.S)
        if mm:
            tags = re.findall(r"EId::(\w+)", mm.group(1))
            flt = "Some [%s]" % "; ".join('"%s"' % t for t in tags)
        elif re.search(r"\bif\b", blk.replace("if !node.element_id().is_empty()", "")):
            raise api.Unsupported("all_ids population is guarded by a condition the translator does not understand")
        else:
            flt = "None"
        # generated ids are never inserted into all_ids (uniqueness among them comes from the counters)
        out = [api.HEADER, "From Coq Require Import String List.\nImport ListNotations.\nLocal Open Scope string_scope.\n",
               "(* %s :: Cache::gen_*_id *)" % REL,
               "Inductive idkind := " + " | ".join("K" + k[0] for k in kinds) + ".",
               "Definition all_idkinds : list idkind := [%s]." % "; ".join("K" + k[0] for k in kinds),
               "Definition id_prefix (k : idkind) : string :=\n  match k with\n" +
               "\n".join('  | K%s => "%s"' % (k[0], k[1]) for k in kinds) + "\n  end.",
               "Definition idkind_eqb (a b : idkind) : bool :=\n  match a, b with\n" +
               "\n".join('  | K%s, K%s => true' % (k[0], k[0]) for k in kinds) + "\n  | _, _ => false\n  end.",
               "(* does the retry loop of the generator test `all_ids`? *)",
               "Definition gen_checks_all_ids (k : idkind) : bool :=\n  match k with\n" +
               "\n".join('  | K%s => %s' % (k[0], 'true' if k[3] else 'false') for k in kinds) + "\n  end.",
               "(* %s :: convert_doc, population of Cache::all_ids (None = every element with an id) *)" % REL,
               "Definition all_ids_filter : option (list string) := %s.\n" % flt]
        api.write_gen('IdTables.v', "\n".join(out))
        api.ok('tables', 'ids', kinds=len(kinds), filter=flt)
    except (api.Unsupported, OSError, ValueError, IndexError) as e:
        api.broken('table', 'converter.gen_ids', PROPS, e)
