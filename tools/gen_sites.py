"""T1 plug-in: Gen/Sites.v - every place in the C01 anchor files of usvg that can panic.

Listed: `.unwrap()`, `.expect(`, `assert!` / `assert_eq!` / `assert_ne!`, `debug_assert!` / `debug_assert_eq!` /
`debug_assert_ne!`, `unreachable!`, `panic!`, `unimplemented!` / `todo!`, calls of `.bbox_transform(` (unwraps inside tiny-skia-path), and index / slice expressions
`x[..]` in  crates/usvg/src/parser/**, tree/mod.rs, tree/filter.rs.

Key of a site: (file, enclosing fn, kind, normalised text of the statement up to the site, ordinal among
equal keys in that fn).  coq/Proofs/Ledger.v classifies every key; Props/C01.v proves
`forallb site_discharged parser_sites = true`, so a new or changed site (for instance a `?` turned into
`.unwrap()`) has no ledger entry and breaks the obligation.
"""
import os
import re

PROPS = ['C01']
ROOT = 'crates/usvg/src'
FILES_FIXED = ['tree/mod.rs', 'tree/filter.rs']

KINDS = [
    ('unwrap', r"\.\s*unwrap\s*\(\s*\)"),
    ('expect', r"\.\s*expect\s*\("),
    ('debug_assert', r"\bdebug_assert(?:_eq|_ne)?\s*!"),
    ('assert', r"(?<![A-Za-z0-9_])assert(?:_eq|_ne)?\s*!"),
    ('unreachable', r"\bunreachable\s*!"),
    ('panic', r"\b(?:panic|unimplemented|todo)\s*!"),
    # methods of tiny-skia-path that unwrap internally (Rect / NonZeroRect::bbox_transform: `from_xywh(..).unwrap()` on products
    # that overflow for finite operands; usvg goes through parser::checked_bbox_transform since fix 5c0a250): a call is a panic site
    ('panic', r"\.\s*bbox_transform\s*\("),
]


def blank_comments_and_strings(src):
    """Same length as src; comments and the inside of string / char literals replaced by spaces."""
    out = list(src)
    i, n = 0, len(src)
    while i < n:
        c = src[i]
        if src.startswith('//', i):
            j = src.find('\n', i)
            j = n if j < 0 else j
            for k in range(i, j):
                out[k] = ' '
            i = j
        elif src.startswith('/*', i):
            j = src.find('*/', i + 2)
            j = n if j < 0 else j + 2
            for k in range(i, j):
                if out[k] != '\n':
                    out[k] = ' '
            i = j
        elif c == '"':
            j = i + 1
            while j < n and src[j] != '"':
                j += 2 if src[j] == '\\' else 1
            for k in range(i + 1, min(j, n)):
                if out[k] != '\n':
                    out[k] = ' '
            i = j + 1
        elif c == 'r' and re.match(r'r#*"', src[i:]):
            m = re.match(r'r(#*)"', src[i:])
            close = '"' + m.group(1)
            j = src.find(close, i + len(m.group(0)))
            j = n if j < 0 else j
            for k in range(i + len(m.group(0)), j):
                if out[k] != '\n':
                    out[k] = ' '
            i = j + len(close)
        elif c == "'":
            m = re.match(r"'(\\.[^']*|[^'\\])'", src[i:])
            if m:
                for k in range(i + 1, i + len(m.group(0)) - 1):
                    out[k] = ' '
                i += len(m.group(0))
            else:
                i += 1          # lifetime
        else:
            i += 1
    return ''.join(out)


def blank_comments(src):
    """Same length as src; only comments replaced by spaces (string literals are kept and skipped over)."""
    out = list(src)
    i, n = 0, len(src)
    while i < n:
        c = src[i]
        if src.startswith('//', i):
            j = src.find('\n', i)
            j = n if j < 0 else j
            for k in range(i, j):
                out[k] = ' '
            i = j
        elif src.startswith('/*', i):
            j = src.find('*/', i + 2)
            j = n if j < 0 else j + 2
            for k in range(i, j):
                if out[k] != '\n':
                    out[k] = ' '
            i = j
        elif c == '"':
            j = i + 1
            while j < n and src[j] != '"':
                j += 2 if src[j] == '\\' else 1
            i = j + 1
        else:
            i += 1
    return ''.join(out)


def fn_spans(code):
    """[(name, body_start, body_end)] for every `fn name ... { ... }` (code has comments/strings blanked)."""
    spans = []
    for m in re.finditer(r"\bfn\s+([A-Za-z_][A-Za-z0-9_]*)", code):
        i = m.end()
        depth = 0
        # find the body's opening brace: first `{` at paren/bracket/angle depth 0 that is not inside the signature
        j = i
        par = 0
        while j < len(code):
            ch = code[j]
            if ch in '([':
                par += 1
            elif ch in ')]':
                par -= 1
            elif ch == ';' and par == 0:
                j = None        # declaration without body
                break
            elif ch == '{' and par == 0:
                break
            j += 1
        if j is None or j >= len(code):
            continue
        k = j
        while k < len(code):
            if code[k] == '{':
                depth += 1
            elif code[k] == '}':
                depth -= 1
                if depth == 0:
                    break
            k += 1
        spans.append((m.group(1), j, k))
    return spans


def enclosing(spans, pos):
    best = None
    for name, a, b in spans:
        if a <= pos <= b and (best is None or a >= best[1]):
            best = (name, a, b)
    return best[0] if best else '<top>'


def statement_text(code, src, start, end):
    """text from the beginning of the enclosing statement to `end`, whitespace squeezed"""
    j = start
    depth = 0
    while j > 0:
        ch = code[j - 1]
        if ch in ')]':
            depth += 1
        elif ch in '([':
            if depth == 0:
                break
            depth -= 1
        elif ch in ';{}' and depth == 0:
            break
        elif ch == ',' and depth == 0:
            break
        j -= 1
    t = re.sub(r"\s+", " ", src[j:end]).strip()
    if len(t) > 150:
        t = '...' + t[-147:]
    return t


def index_sites(code):
    """index / slice expressions: identifier, `)` or `]` directly followed by `[`, not an attribute or a type"""
    for m in re.finditer(r"(?<=[A-Za-z0-9_\)\]])\[", code):
        i = m.start()
        # skip attributes `#[..]`, macro brackets `vec![`, array types after `:` or `->` are preceded by space, so not matched
        k = i - 1
        while k >= 0 and (code[k].isalnum() or code[k] == '_'):
            k -= 1
        word = code[k + 1:i]
        if k >= 0 and code[k] == '!' or word in ('mut', 'in', 'return', 'const', 'static', 'let', 'match', 'if', 'else'):
            continue
        if k >= 0 and code[k] == '#':
            continue
        if k >= 0 and code[k] == '&' and word == '':
            continue
        depth = 0
        j = i
        while j < len(code):
            if code[j] == '[':
                depth += 1
            elif code[j] == ']':
                depth -= 1
                if depth == 0:
                    break
            j += 1
        yield i, j + 1


def sites_of(rel, src):
    code = blank_comments_and_strings(src)
    src = blank_comments(src)
    # test modules are not part of the library
    tm = re.search(r"#\[cfg\(test\)\]", code)
    limit = tm.start() if tm else len(code)
    spans = fn_spans(code)
    found = []
    for kind, pat in KINDS:
        for m in re.finditer(pat, code):
            if m.start() >= limit:
                continue
            end = m.end()
            if kind in ('debug_assert', 'assert', 'unreachable', 'panic', 'expect'):
                # include the argument list
                p = code.find('(', m.end() - 1)
                if p >= 0:
                    depth = 0
                    q = p
                    while q < len(code):
                        if code[q] == '(':
                            depth += 1
                        elif code[q] == ')':
                            depth -= 1
                            if depth == 0:
                                break
                        q += 1
                    end = q + 1
            found.append((m.start(), kind, statement_text(code, src, m.start(), end)))
    for a, b in index_sites(code):
        if a >= limit:
            continue
        # the indexed expression: walk back over the postfix chain
        j = a
        while j > 0:
            ch = code[j - 1]
            if ch.isalnum() or ch in '_.':
                j -= 1
            elif ch in ')]':
                depth = 0
                k = j - 1
                while k >= 0:
                    if code[k] in ')]':
                        depth += 1
                    elif code[k] in '([':
                        depth -= 1
                        if depth == 0:
                            break
                    k -= 1
                j = max(k, 0)
            else:
                break
        found.append((a, 'index', re.sub(r"\s+", " ", src[j:b]).strip()))
    found.sort()
    out = []
    seen = {}
    for pos, kind, text in found:
        fn = enclosing(spans, pos)
        key = (fn, kind, text)
        seen[key] = seen.get(key, 0) + 1
        out.append((rel, fn, kind, text, seen[key] - 1, src.count('\n', 0, pos) + 1, auto_fact(code, spans, pos, kind, text)))
    return out


# ------------------------------------------------------------------------------------------------
# facts that let Coq decide a site by computation
# ------------------------------------------------------------------------------------------------
MUTATORS = r"\.\s*(?:push|pop|remove|clear|truncate|retain|drain|insert|swap_remove|dedup|split_off|resize|extend|append)\s*\("


def squash(t):
    return re.sub(r"\s+", "", t)


def header_before(code, i, lo):
    """text of the statement header that ends at the `{` at index i"""
    j = i
    depth = 0
    while j > lo:
        ch = code[j - 1]
        if ch in ')]':
            depth += 1
        elif ch in '([':
            depth -= 1
        elif ch in ';{}' and depth <= 0:
            break
        j -= 1
    return code[j:i], j


def open_of(code, close):
    """index of the `{` matching the `}` at index close"""
    depth = 0
    j = close
    while j >= 0:
        if code[j] == '}':
            depth += 1
        elif code[j] == '{':
            depth -= 1
            if depth == 0:
                return j
        j -= 1
    return None


def enclosing_facts(code, pos, lo):
    """-> list of ('pos', cond, guard_pos) / ('neg', cond, guard_pos) / ('arm', scrutinee, pattern, siblings, guard_pos)
    for the blocks that enclose `pos` inside the function starting at lo"""
    facts = []
    i = pos
    depth = 0
    pending_arm = None
    while i > lo:
        i -= 1
        ch = code[i]
        if ch == '}':
            depth += 1
        elif ch == '{':
            if depth > 0:
                depth -= 1
                continue
            head, hstart = header_before(code, i, lo)
            h = head.strip()
            m = re.match(r"^(?:else\s+)?if\s+(?!let\b)(.*)$", h, re.S)
            if m:
                facts.append(('pos', m.group(1), i))
            elif re.match(r"^else$", h):
                # the block before `else`
                k = hstart - 1
                while k > lo and code[k] != '}':
                    k -= 1
                o = open_of(code, k) if code[k] == '}' else None
                if o is not None:
                    h2, _ = header_before(code, o, lo)
                    m2 = re.match(r"^if\s+(?!let\b)(.*)$", h2.strip(), re.S)
                    if m2:
                        facts.append(('neg', m2.group(1), i))
            elif re.search(r"=>\s*$", h):
                pending_arm = (re.sub(r"=>\s*$", "", h).strip(), i)
            else:
                m3 = re.match(r"^(?:let\s+[^=]*=\s*|return\s+)?match\s+(.*)$", h, re.S)
                if m3 and pending_arm is not None:
                    c = close_of(code, i)
                    body = code[i + 1:c] if c else ''
                    sib = []
                    d = 0
                    for mm in re.finditer(r"[{}]|(?:^|[\n,}])\s*(\d+)\s*=>", body):
                        if mm.group(0) == '{':
                            d += 1
                        elif mm.group(0) == '}':
                            d -= 1
                        elif d == 0 and mm.group(1) is not None:
                            sib.append(int(mm.group(1)))
                    facts.append(('arm', m3.group(1), pending_arm[0], sib, pending_arm[1]))
                pending_arm = None
    return facts


def close_of(code, i):
    depth = 0
    j = i
    while j < len(code):
        if code[j] == '{':
            depth += 1
        elif code[j] == '}':
            depth -= 1
            if depth == 0:
                return j
        j += 1
    return None


def len_lower_bound(code, pos, lo, var):
    """largest n such that an enclosing condition of the site says `var` has at least n elements, and nothing
    between that condition and the site mutates `var`"""
    v = re.escape(squash(var))
    v = re.sub(r"\\\.as_bytes\\\(\\\)$", "", v)
    best = 0
    for f in enclosing_facts(code, pos, lo):
        n = 0
        if f[0] == 'pos':
            for c in squash(f[1]).split('&&'):
                for pat, fn in ((r"^!%s\.is_empty\(\)$" % v, lambda m: 1), (r"^%s\.len\(\)==(\d+)$" % v, lambda m: int(m.group(1))),
                                (r"^%s\.len\(\)>=(\d+)$" % v, lambda m: int(m.group(1))), (r"^%s\.len\(\)>(\d+)$" % v, lambda m: int(m.group(1)) + 1),
                                (r"^(\d+)<=%s\.len\(\)$" % v, lambda m: int(m.group(1))), (r"^(\d+)<%s\.len\(\)$" % v, lambda m: int(m.group(1)) + 1),
                                (r"^%s\.len\(\)!=0$" % v, lambda m: 1)):
                    m = re.match(pat, c)
                    if m:
                        n = max(n, fn(m))
        elif f[0] == 'neg':
            c = squash(f[1])
            for pat, fn in ((r"^%s\.is_empty\(\)$" % v, lambda m: 1), (r"^%s\.len\(\)==0$" % v, lambda m: 1),
                            (r"^%s\.len\(\)<(\d+)$" % v, lambda m: int(m.group(1))), (r"^%s\.len\(\)<=(\d+)$" % v, lambda m: int(m.group(1)) + 1)):
                m = re.match(pat, c)
                if m:
                    n = max(n, fn(m))
        elif f[0] == 'arm':
            if re.match(r"^%s\.len\(\)$" % v, squash(f[1])):
                if re.match(r"^\d+$", f[2]):
                    n = int(f[2])
                elif f[2] == '_' and f[3] and sorted(f[3]) == list(range(len(f[3]))):
                    n = len(f[3])
        if n > 0:
            between = code[f[-1]:pos]
            name = squash(var).split('.')[0].split('[')[0]
            if re.search(r"\b%s\s*%s" % (re.escape(name), MUTATORS), between) or re.search(r"\b%s\s*=[^=]" % re.escape(name), between):
                n = 0
        best = max(best, n)
    return best


LIT = r"-?\d+(?:\.\d+)?"
CTORS = [('CNzRectXywh', r"NonZeroRect::from_xywh\((%s),(%s),(%s),(%s)\)\.unwrap\(\)$" % (LIT, LIT, LIT, LIT)),
         ('CRectXywh', r"(?<!NonZero)Rect::from_xywh\((%s),(%s),(%s),(%s)\)\.unwrap\(\)$" % (LIT, LIT, LIT, LIT)),
         ('CSize', r"Size::from_wh\((%s),(%s)\)\.unwrap\(\)$" % (LIT, LIT)),
         ('CPositive', r"PositiveF32::new\((%s)\)\.unwrap\(\)$" % LIT)]


def qlit(t):
    from fractions import Fraction
    f = Fraction(t)
    return "(Qmake (%d) %d)" % (f.numerator, f.denominator)


def auto_fact(code, spans, pos, kind, text):
    """Gallina term of type `auto` or None"""
    if kind == 'unwrap':
        sq = squash(text)
        for name, pat in CTORS:
            m = re.search(pat, sq)
            if m:
                return "ACtor %s [%s]" % (name, "; ".join(qlit(g) for g in m.groups()))
        return None
    if kind == 'index':
        m = re.match(r"^(.*)\[(\d+)\]$", text.strip(), re.S)
        if not m:
            return None
        lo = 0
        for name, a, b in spans:
            if a <= pos <= b and a >= lo:
                lo = a
        n = len_lower_bound(code, pos, lo, m.group(1))
        if n > int(m.group(2)):
            return "AIndex %d %d" % (int(m.group(2)), n)
    return None


def coq_str(s):
    return '"' + s.replace('"', '""') + '"'


def anchor_files(api):
    import translate
    base = os.path.join(translate.REPO, ROOT)
    rels = []
    for d, _, fs in os.walk(os.path.join(base, 'parser')):
        for f in fs:
            if f.endswith('.rs'):
                rels.append(os.path.relpath(os.path.join(d, f), base))
    rels += FILES_FIXED
    return sorted(rels)


def generate(api):
    try:
        rels = anchor_files(api)
        allsites = []
        for rel in rels:
            src = api.rd(os.path.join(ROOT, rel))
            allsites += sites_of(rel, src)
        if len(allsites) < 20:
            raise api.Unsupported("only %d panic sites found in the C01 anchor files: the scanner no longer matches the source" % len(allsites))
        out = [api.HEADER,
               "(* Every unwrap / expect / assert / debug_assert / unreachable / panic / index expression of",
               "   crates/usvg/src/parser/**, tree/mod.rs, tree/filter.rs (tools/gen_sites.py). *)",
               "From Coq Require Import String List QArith.\nImport ListNotations.\nLocal Open Scope string_scope.\n",
               "Inductive skind := KUnwrap | KExpect | KAssert | KDebugAssert | KUnreachable | KPanic | KIndex.",
               "(* file, enclosing fn, kind, statement text, ordinal among equal keys of that fn *)",
               "Record site := mk_site { s_file : string; s_fn : string; s_kind : skind; s_text : string; s_ord : nat }.\n",
               "Definition parser_sites : list site := ["]
        KN = {'unwrap': 'KUnwrap', 'expect': 'KExpect', 'assert': 'KAssert', 'debug_assert': 'KDebugAssert',
              'unreachable': 'KUnreachable', 'panic': 'KPanic', 'index': 'KIndex'}
        lines = []
        autos = []
        for rel, fn, kind, text, ordn, line, auto in allsites:
            key = "mk_site %s %s %s %s %d" % (coq_str(rel), coq_str(fn), KN[kind], coq_str(text), ordn)
            lines.append("  " + key)
            if auto:
                autos.append("  (%s, %s)" % (key, auto))
        out.append(";\n".join(lines))
        out.append("].\n")
        out.append("(* facts read off the source next to a site, from which Coq decides the site by computation:")
        out.append("   AIndex k n   the site is `v[k]` with a literal k, and an enclosing `if` / `else` / match arm on `v.len()` /")
        out.append("                `v.is_empty()` says that v has at least n elements (nothing in between mutates v)")
        out.append("   ACtor c args the unwrapped value is constructor c applied to the literals args *)")
        out.append("Inductive ctor := CNzRectXywh | CRectXywh | CSize | CPositive.")
        out.append("Inductive auto := AIndex (k n : nat) | ACtor (c : ctor) (args : list Q).")
        out.append("Definition site_auto : list (site * auto) := [")
        out.append(";\n".join(autos))
        out.append("].\n")
        api.write_gen('Sites.v', "\n".join(out))
        # a side file with line numbers for the people maintaining the ledger (not read by Coq)
        import translate
        with open(os.path.join(translate.GEN, 'Sites.lines.txt'), 'w') as f:
            for rel, fn, kind, text, ordn, line, auto in allsites:
                f.write("%s:%d\t%s\t%s\t%d\t%s\t%s\n" % (rel, line, fn, kind, ordn, text, auto or '-'))
        api.ok('tables', 'sites', sites=len(allsites), files=len(rels), auto=len(autos))
    except (api.Unsupported, OSError, ValueError, IndexError) as e:
        api.broken('table', 'panic sites', PROPS, e)
