"""Plug-in: source-derived Coq for the layer geometry of `render_group` (crates/resvg/src/render.rs).

Generates coq/Gen/LeafRender.v with

  layer_ibbox     bbox no_filters max_bbox : option irect   the `let mut ibbox = if ... ; if ... { ibbox = fit ... }` statements
  layer_shift_ts  bbox ibbox               : ts             the `let shift_ts = { ... };` block
  layer_draw_pos  ibbox                    : Z * Z          first two arguments of `pixmap.draw_pixmap(`
  layer_draw_ts                            : ts             its transform argument
  layer_size      ibbox                    : Z * Z          arguments of `tiny_skia::Pixmap::new(` for the sub-pixmap
  layer_ts        shift_ts transform       : ts             `let transform = shift_ts.pre_concat(transform);`
  max_bbox_src    w h                      : option irect   the `IntRect::from_xywh(..)` of lib.rs (both sites must agree)

Every piece is cut out of the current source text by anchors and translated by rs2coq (statement
subset: let / if / assignment / `?`), so an edit of the padding, of floor/ceil, of the casts, of the
clamping order, of the shift or of the draw position changes the definitions the C02/C13/C14 theorems
are about.  A missing anchor or a construct outside the subset is a broken tie.
"""
import os
import re

PROPS = ['C02', 'C13', 'C14']
REL = 'crates/resvg/src/render.rs'
LIB = 'crates/resvg/src/lib.rs'


def balanced(src, i, open_c, close_c):
    """index just after the bracket that closes the one at src[i]"""
    assert src[i] == open_c
    depth = 0
    j = i
    while j < len(src):
        c = src[j]
        if c == open_c:
            depth += 1
        elif c == close_c:
            depth -= 1
            if depth == 0:
                return j + 1
        j += 1
    raise ValueError("unbalanced")


def strip_comments(s):
    return re.sub(r"//[^\n]*", "", s)


def lift_try(block, U):
    """Move `?` out of positions rs2coq cannot translate:
       let p = if c { ..; X? } else { ..; Y? };      =>  let p = (if c { ..; X } else { ..; Y })?;
       if c { v = X?; }                               =>  let v = (if c { X } else { Some(v) })?;"""
    stmts = []
    for s in block[1]:
        if s[0] == 'let' and s[2][0] == 'if':
            _, c, th, el = s[2]
            if el is not None and th[2] is not None and el[2] is not None and (th[2][0] == 'try' or el[2][0] == 'try'):
                def opt(b):
                    b = lift_try(b, U)
                    tail = b[2][1] if b[2][0] == 'try' else ('call', ['Some'], [b[2]])
                    return ('block', b[1], tail)
                stmts.append(('let', s[1], ('try', ('if', c, opt(th), opt(el)))))
                continue
        if s[0] == 'expr' and s[1][0] == 'if' and s[1][3] is None:
            _, c, th, _ = s[1]
            if len(th[1]) == 1 and th[2] is None and th[1][0][0] == 'assign' and th[1][0][2][0] == 'try':
                v = th[1][0][1]
                stmts.append(('let', ('pvar', v), ('try', ('if', c, ('block', [], th[1][0][2][1]),
                                                          ('block', [], ('call', ['Some'], [('var', v)]))))))
                continue
        stmts.append(s)
    return ('block', stmts, block[2])


def generate(api):
    rs = api.rs2coq
    U = api.Unsupported

    class Em(rs.Emitter):
        """method tables chosen by the receiver variable where the name alone is ambiguous"""
        def expr(self, e):
            if e[0] == 'mcall' and e[1][0] == 'var':
                tab = self.cfg.get('recv_methods', {}).get(e[1][1])
                if tab is not None and e[2] in tab and not e[3]:
                    return "(%s %s)" % (tab[e[2]], e[1][1])
            if e[0] == 'cast' and e[2] in ('i32', 'u32') and e[1][0] == 'mcall' and e[1][2] in ('x', 'y', 'width', 'height') \
                    and self.cfg.get('methods', {}).get(e[1][2]) in ('rx', 'ry', 'rw', 'rh'):
                # `f32 as i32` without floor/ceil: Rust truncates toward zero (then saturates)
                return "(%s (f32_trunc %s))" % (self.cfg['casts'][e[2]], rs.Emitter.expr(self, e[1]))
            if e[0] == 'try':
                raise U("`?` in a position the render_group plug-in does not handle")
            return rs.Emitter.expr(self, e)

    out = [api.HEADER,
           "From RV Require Import Model.Base Model.RenderPrims Gen.LeafFit.\n"]
    # ---- geom::to_int_rect (the checked replacement of tiny_skia_path::Rect::to_int_rect), if present -----------
    have_geom_tir = False
    try:
        gsrc = api.rd('crates/resvg/src/geom.rs')
        if re.search(r"\bfn\s+to_int_rect\s*\(", gsrc):
            cfg_t = dict(dom='Z', types={'Rect': 'qrect'}, ret='option irect',
                         methods={'x': 'rx', 'y': 'ry', 'width': 'rw', 'height': 'rh', 'floor': 'f32_floor', 'ceil': 'f32_ceil',
                                  'round': 'f32_round', 'trunc': 'f32_trunc'},
                         casts={'i32': 'as_i32', 'u32': 'as_u32'},
                         calls={'IntRect::from_xywh': 'irect_from_xywh', 'max': 'Z.max', 'min': 'Z.min'})
            d = rs.translate_fn(gsrc, 'to_int_rect', cfg_t, 'geom_to_int_rect')
            out.append("(* crates/resvg/src/geom.rs :: to_int_rect *)\n%s\n" % d)
            have_geom_tir = True
            api.ok('leaves', 'geom_to_int_rect', props=PROPS, rel='crates/resvg/src/geom.rs')
    except (U, OSError, ValueError, IndexError) as ex:
        api.broken('leaf', 'geom_to_int_rect', PROPS, ex)
    if not have_geom_tir:
        out.append("(* geom::to_int_rect not present in this tree: tiny_skia_path::Rect::to_int_rect (hand model) *)\n"
                   "Definition geom_to_int_rect (r : qrect) : option irect := rect_to_int_rect_opt r.\n")
    try:
        src = api.rd(REL)
        m = re.search(r"\bfn\s+render_group\s*\(", src)
        if not m:
            raise U("fn render_group not found")
        b0 = src.index('{', src.index(')', m.end()))
        body = src[b0:balanced(src, b0, '{', '}')]

        # ---- the layer box ----------------------------------------------------------------------
        a0 = body.find('let mut ibbox =')
        a1 = body.find('let shift_ts =')
        if a0 < 0 or a1 < 0 or a1 < a0:
            raise U("anchors `let mut ibbox =` / `let shift_ts =` not found in render_group")
        head = strip_comments(body[:a0])
        if not re.search(r"let\s+bbox\s*=\s*group\s*\.\s*layer_bounding_box\(\)\s*\.\s*transform\(transform\)\?\s*;", head):
            raise U("`let bbox = group.layer_bounding_box().transform(transform)?;` not found before the layer box")
        if not re.search(r"let\s+transform\s*=\s*transform\s*\.\s*pre_concat\(group\.transform\(\)\)\s*;", head):
            raise U("`let transform = transform.pre_concat(group.transform());` not found")
        # the statements before the layer box are exactly: concat the group transform; the non-isolated early return; the
        # device layer box.  Anything else (a new early-out that skips the layer, ...) is not modelled: broken tie.
        norm = " ".join(head.split())
        expected_head = ("{ let transform = transform.pre_concat(group.transform()); "
                         "if !group.should_isolate() { render_nodes(group, ctx, transform, pixmap); return Some(()); } "
                         "let bbox = group.layer_bounding_box().transform(transform)?;")
        if norm != expected_head:
            raise U("render_group: unexpected statements before the layer box (an early return / skip that the model does not have?): %s"
                    % norm[len(os.path.commonprefix([norm, expected_head])):][:160])
        nret = len(re.findall(r"\breturn\b", strip_comments(body)))
        if nret != 1:
            raise U("render_group has %d `return` statements, the model knows 1 (the non-isolated path)" % nret)
        piece = strip_comments(body[a0:a1])
        if 'no_filters' in piece or 'max_bbox_arg' in piece:
            raise U("name clash in render_group")
        piece = re.sub(r"group\s*\.\s*filters\(\)\s*\.\s*is_empty\(\)", "no_filters", piece)
        piece = re.sub(r"ctx\s*\.\s*max_bbox", "max_bbox", piece)
        if re.search(r"\b(group|ctx|transform|pixmap)\b", piece):
            raise U("layer box statements use something other than bbox / filters().is_empty() / ctx.max_bbox")
        ast = rs.parse_body("{ %s Some(ibbox) }" % piece)
        ast = lift_try(ast, U)
        cfg = dict(dom='Z',
                   methods={'x': 'rx', 'y': 'ry', 'width': 'rw', 'height': 'rh',
                            'floor': 'f32_floor', 'ceil': 'f32_ceil', 'round': 'f32_round', 'trunc': 'f32_trunc',
                            'saturating_sub': 'i32_saturating_sub', 'saturating_add': 'u32_saturating_add',
                            'wrapping_sub': 'i32_wrapping_sub', 'wrapping_add': 'u32_wrapping_add',
                            'to_int_rect': 'rect_to_int_rect', 'to_rect': None},
                   casts={'i32': 'as_i32', 'u32': 'as_u32'},
                   calls={'IntRect::from_xywh': 'irect_from_xywh', 'IntRect::from_ltrb': 'irect_from_ltrb',
                          'fit_to_rect': 'fit_to_rect', 'Some': 'Some', 'to_int_rect': 'geom_to_int_rect'})
        d = Em(cfg).block(ast)
        # does the filtered branch still go through the panicking Rect::to_int_rect().unwrap()?
        unwraps = re.search(r"\.\s*to_int_rect\(\)", piece) is not None
        out.append("Definition layer_to_int_rect_unwraps : bool := %s.\n" % ('true' if unwraps else 'false'))
        if unwraps:
            api.broken('leaf', 'render_group.to_int_rect', PROPS,
                       "the filtered branch of render_group goes through the panicking tiny_skia Rect::to_int_rect() again "
                       "(fixed in 36e1223 by the checked crate::geom::to_int_rect)")
        out.append("(* %s :: render_group, statements `let mut ibbox = ...` up to `let shift_ts` *)\n"
                   "Definition layer_ibbox (bbox : qrect) (no_filters : bool) (max_bbox : irect) : option irect :=\n  %s.\n" % (REL, d))

        # ---- shift_ts -----------------------------------------------------------------------------
        s0 = body.index('{', a1)
        s1 = balanced(body, s0, '{', '}')
        if not re.match(r"\s*;", body[s1:]):
            raise U("`let shift_ts = { .. };` is not a block statement")
        sh = strip_comments(body[s0:s1])
        if re.search(r"\b(group|ctx|transform|pixmap)\b", sh):
            raise U("shift_ts uses something other than bbox / ibbox")
        ast = rs.parse_body(sh)
        cfgq = dict(dom='Q',
                    methods={'x': 'rx', 'y': 'ry', 'width': 'rw', 'height': 'rh',
                             'floor': 'Qfloor_q', 'ceil': 'Qceil_q'},
                    recv_methods={'ibbox': {'x': 'ix', 'y': 'iy', 'width': 'iw', 'height': 'ih',
                                            'left': 'ix', 'top': 'iy', 'right': 'i_right', 'bottom': 'i_bottom'}},
                    casts={'f32': 'inject_Z'},
                    calls={'Transform::from_translate': 'from_translate'})
        d = Em(cfgq).block(ast)
        out.append("(* %s :: render_group, `let shift_ts = { .. };` *)\n"
                   "Definition layer_shift_ts (bbox : qrect) (ibbox : irect) : ts :=\n  %s.\n" % (REL, d))

        # ---- what happens with them ---------------------------------------------------------------
        rest = strip_comments(body[s1:])
        m = re.search(r"let\s+transform\s*=\s*([^;]+);", rest)
        if not m:
            raise U("`let transform = ...;` after shift_ts not found")
        cfgt = dict(dom='Q', methods={'pre_concat': 'ts_concat', 'post_concat': 'ts_post_concat'}, calls={})
        d = Em(cfgt).block(rs.parse_body("{ %s }" % m.group(1)))
        out.append("(* `let transform = %s;` *)\nDefinition layer_ts (shift_ts : ts) (transform : ts) : ts :=\n  %s.\n"
                   % (m.group(1).strip(), d))

        m = re.search(r"tiny_skia::Pixmap::new\(", rest)
        if not m:
            raise U("sub-pixmap allocation not found")
        e = balanced(rest, m.end() - 1, '(', ')')
        args = rest[m.end():e - 1]
        cfgz = dict(dom='Z', methods={}, calls={},
                    recv_methods={'ibbox': {'x': 'ix', 'y': 'iy', 'width': 'iw', 'height': 'ih'}})
        d = Em(cfgz).block(rs.parse_body("{ (%s) }" % args))
        out.append("(* `tiny_skia::Pixmap::new(%s)` *)\nDefinition layer_size (ibbox : irect) : Z * Z :=\n  %s.\n"
                   % (" ".join(args.split()), d))

        # ---- the clamp box handed to the children (nested layers) ----------------------------------
        rn = re.search(r"\brender_nodes\(\s*group\s*,\s*ctx\s*,\s*transform\s*,", rest)
        if not rn:
            raise U("`render_nodes(group, ctx, transform, ..)` not found after the layer allocation")
        before = rest[:rn.start()]
        cm = re.search(r"Context\s*\{\s*max_bbox\s*:", before)
        if not cm:
            raise U("the layer does not give its children a Context with max_bbox moved into the layer's frame "
                    "(`let ctx = &Context { max_bbox: ctx.max_bbox.translate(-ibbox.x(), -ibbox.y()).. }` before render_nodes; fixed in ffdf909)")
        e0 = cm.end()
        e1 = balanced(before, before.index('{', cm.start()), '{', '}') - 1
        cexpr = before[e0:e1].strip().rstrip(',').strip()
        if not re.search(r"let\s+ctx\s*=\s*&", before):
            raise U("the translated Context is not bound to `ctx` before render_nodes")
        skip_on_none = cexpr.endswith('?')
        if skip_on_none:
            cexpr = cexpr[:-1].strip()
        cexpr = re.sub(r"ctx\s*\.\s*max_bbox", "max_bbox", cexpr)
        if re.search(r"\b(ctx|group|transform|pixmap|bbox)\b", re.sub(r"\b(max_bbox|ibbox)\b", "", cexpr)):
            raise U("children's max_bbox uses something other than ctx.max_bbox / ibbox: %s" % cexpr)
        cfgc = dict(dom='Z', methods={'translate': 'irect_translate', 'unwrap_or': 'opt_unwrap_or', 'unwrap_or_default': None},
                    recv_methods={'ibbox': {'x': 'ix', 'y': 'iy', 'width': 'iw', 'height': 'ih'}}, calls={}, casts={'i32': None})
        d = Em(cfgc).block(rs.parse_body("{ %s }" % cexpr))
        if skip_on_none:
            d = "(opt_unwrap_or %s max_bbox)" % d
        out.append("(* children of the layer: Context { max_bbox: %s } *)\nDefinition layer_child_max (max_bbox : irect) (ibbox : irect) : irect :=\n  %s.\n"
                   % (" ".join(cexpr.split()), d))

        m = re.search(r"\bpixmap\s*\.\s*draw_pixmap\(", rest)
        if not m:
            raise U("pixmap.draw_pixmap( not found")
        e = balanced(rest, m.end() - 1, '(', ')')
        parts = [p.strip() for p in rest[m.end():e - 1].split(',')]
        parts = [p for p in parts if p]
        if len(parts) != 6:
            raise U("draw_pixmap: expected 6 arguments, got %r" % (parts,))
        if not re.match(r"sub_pixmap\s*\.\s*as_ref\(\)$", parts[2]):
            raise U("draw_pixmap does not draw sub_pixmap")
        d = Em(cfgz).block(rs.parse_body("{ (%s, %s) }" % (parts[0], parts[1])))
        out.append("(* `pixmap.draw_pixmap(%s, %s, ..` *)\nDefinition layer_draw_pos (ibbox : irect) : Z * Z :=\n  %s.\n"
                   % (parts[0], parts[1], d))
        cfgd = dict(dom='Q', methods={}, calls={'Transform::identity': 'ts_identity', 'Transform::from_translate': 'from_translate',
                                                'Transform::from_scale': 'from_scale'})
        d = Em(cfgd).block(rs.parse_body("{ %s }" % parts[4]))
        out.append("Definition layer_draw_ts : ts :=\n  %s.\n" % d)
        api.ok('leaves', 'render_group', props=PROPS, rel=REL)
    except (U, OSError, ValueError, IndexError) as ex:
        api.broken('leaf', 'render_group', PROPS, ex)

    # ---- filter/mod.rs: region = filter.rect().transform(ts) -> to_int_rect --------------------------
    try:
        fsrc = api.rd('crates/resvg/src/filter/mod.rs')
        m = re.search(r"let\s+region\s*=\s*filter\s*\.rect\(\)\s*\.transform\(ts\)\s*\.(map|and_then)\(\|r\|\s*([^)]*\)+)\s*\.ok_or\(Error::InvalidRegion\)\?;", fsrc)
        if not m:
            raise U("filter region computation `filter.rect().transform(ts).<map|and_then>(..).ok_or(InvalidRegion)?` not found in apply_inner")
        inner = m.group(2)
        if re.match(r"r\.to_int_rect\(\)\)$", inner) and m.group(1) == 'map':
            out.append("(* filter::apply_inner: region = rect.transform(ts).map(|r| r.to_int_rect()) *)\n"
                       "Definition filter_to_int_rect (r : qrect) : option irect := rect_to_int_rect_opt r.\n"
                       "Definition filter_to_int_rect_unwraps : bool := true.\n")
            api.broken('leaf', 'filter_region.to_int_rect', ['C02'],
                       "filter::apply_inner converts the region with the panicking Rect::to_int_rect() again (fixed in 36e1223)")
        elif re.match(r"crate::geom::to_int_rect\(r\.to_rect\(\)\)\)$", inner) and m.group(1) == 'and_then':
            out.append("(* filter::apply_inner: region = rect.transform(ts).and_then(|r| crate::geom::to_int_rect(r.to_rect())) *)\n"
                       "Definition filter_to_int_rect (r : qrect) : option irect := geom_to_int_rect r.\n"
                       "Definition filter_to_int_rect_unwraps : bool := false.\n")
        else:
            raise U("unrecognised filter region conversion: %s" % inner)
        if len(re.findall(r"\.map\(\|r\|\s*r\.to_int_rect\(\)\)", fsrc)) > 0:
            api.broken('leaf', 'filter_subregion.to_int_rect', ['C02'],
                       "filter/mod.rs converts a (sub)region with the panicking Rect::to_int_rect() (fixed in 36e1223)")
        api.ok('leaves', 'filter_region', props=PROPS, rel='crates/resvg/src/filter/mod.rs')
    except (U, OSError, ValueError, IndexError) as ex:
        api.broken('leaf', 'filter_region', ['C02', 'C13'], ex)

    # ---- max_bbox (lib.rs) ------------------------------------------------------------------------
    try:
        lib = api.rd(LIB)
        sites = []
        for m in re.finditer(r"let\s+max_bbox\s*=\s*tiny_skia::IntRect::from_xywh\(", lib):
            e = balanced(lib, m.end() - 1, '(', ')')
            tail = lib[e:e + 40]
            if not re.match(r"\s*\.unwrap\(\)\s*;", tail):
                raise U("max_bbox construction is not `IntRect::from_xywh(..).unwrap();`")
            sites.append(" ".join(strip_comments(lib[m.end():e - 1]).split()))
        if len(sites) != 2 or sites[0] != sites[1]:
            raise U("max_bbox: expected two identical sites in lib.rs (render, render_node), got %r" % (sites,))
        if len(re.findall(r"let\s+target_size\s*=\s*tiny_skia::IntSize::from_wh\(pixmap\.width\(\), pixmap\.height\(\)\)\.unwrap\(\);", lib)) != 2:
            raise U("target_size is not the pixmap size at both sites")
        cfgm = dict(dom='Z', methods={}, casts={'i32': 'u32_as_i32', 'u32': 'as_u32'},
                    recv_methods={'target_size': {'width': 'fst', 'height': 'snd'}},
                    calls={})
        args = sites[0].rstrip(',')

        class Em2(Em):
            def binop(self, op, a, b):
                if op == '*':
                    return "(Z.mul %s %s)" % (a, b)
                return rs.Emitter.binop(self, op, a, b)
        d = Em2(cfgm).block(rs.parse_body("{ (%s) }" % args))
        out.append("(* %s :: render / render_node: IntRect::from_xywh(%s).unwrap() *)\n"
                   "Definition max_bbox_args (target_size : Z * Z) : Z * Z * Z * Z :=\n  %s.\n" % (LIB, args, d))
        api.ok('leaves', 'max_bbox', props=PROPS, rel=LIB)
    except (U, OSError, ValueError, IndexError) as ex:
        api.broken('leaf', 'max_bbox', PROPS + ['C19'], ex)

    api.write_gen('LeafRender.v', "\n".join(out))
    gen_morph(api, rs, U, Em)
    gen_turb(api, rs, U)
    check_contexts(api, U)


def gen_morph(api, rs, U, Em):
    """Gen/LeafMorph.v: the window of filter::morphology::apply (columns, rows, target) from morphology.rs."""
    MREL = 'crates/resvg/src/filter/morphology.rs'
    out = [api.HEADER, "From RV Require Import Model.Base Model.RenderPrims.\n"]
    try:
        src = strip_comments(api.rd(MREL))
        m = re.search(r"\bpub\s+fn\s+apply\s*\(\s*operator:\s*MorphologyOperator,\s*rx:\s*f32,\s*ry:\s*f32,\s*src:\s*ImageRefMut\s*\)", src)
        if not m:
            raise U("morphology::apply(operator, rx, ry, src) not found")
        body = src[m.end():]
        cfg = dict(dom='Z', methods={'ceil': 'f32_ceil', 'floor': 'f32_floor', 'round': 'f32_round',
                                     'saturating_mul': 'u32_saturating_mul', 'wrapping_mul': 'u32_wrapping_mul'},
                   casts={'u32': 'as_u32', 'i32': 'as_i32'}, calls={'min': 'Z.min', 'max': 'Z.max'})
        for name, var, dim in (('columns', 'rx', 'width'), ('rows', 'ry', 'height')):
            mm = re.search(r"let\s+%s\s*=\s*([^;]+);" % name, body)
            if not mm:
                raise U("`let %s = ..;` not found in morphology::apply" % name)
            e = re.sub(r"src\s*\.\s*%s" % dim, "src_dim", mm.group(1))
            if re.search(r"\bsrc\b", e):
                raise U("%s depends on something other than %s and src.%s: %s" % (name, var, dim, mm.group(1).strip()))
            e = re.sub(r"\b%s\b" % var, "r", e)
            d = Em(cfg).block(rs.parse_body("{ %s }" % e))
            out.append("(* %s :: apply: let %s = %s; *)\nDefinition morph_%s (r : Q) (src_dim : Z) : Z :=\n  %s.\n"
                       % (MREL, name, " ".join(mm.group(1).split()), name, d))
        for name, of in (('target_x', 'columns'), ('target_y', 'rows')):
            if not re.search(r"let\s+%s\s*=\s*\(\s*%s\s+as\s+f32\s*/\s*2\.0\s*\)\s*\.floor\(\)\s+as\s+u32\s*;" % (name, of), body):
                raise U("`let %s = (%s as f32 / 2.0).floor() as u32;` not found" % (name, of))
        out.append("(* let target_x = (columns as f32 / 2.0).floor() as u32;  (same for y) *)\nDefinition morph_target (n : Z) : Z := Z.div n 2.\n")
        for pat, what in ((r"for\s+oy\s+in\s+0\s*\.\.\s*rows\s*\{\s*for\s+ox\s+in\s+0\s*\.\.\s*columns\s*\{", "the window loops `for oy in 0..rows { for ox in 0..columns {`"),
                          (r"let\s+tx\s*=\s*x\s+as\s+i32\s*-\s*target_x\s+as\s+i32\s*\+\s*ox\s+as\s+i32\s*;", "`let tx = x as i32 - target_x as i32 + ox as i32;`"),
                          (r"let\s+ty\s*=\s*y\s+as\s+i32\s*-\s*target_y\s+as\s+i32\s*\+\s*oy\s+as\s+i32\s*;", "`let ty = y as i32 - target_y as i32 + oy as i32;`"),
                          (r"if\s+tx\s*<\s*0\s*\|\|\s*tx\s*>\s*width_max\s*\|\|\s*ty\s*<\s*0\s*\|\|\s*ty\s*>\s*height_max\s*\{\s*continue;", "the out-of-image `continue`")):
            if not re.search(pat, body):
                raise U("morphology::apply: %s not found" % what)
        api.ok('leaves', 'morphology_window', props=['C02'], rel=MREL)
    except (U, OSError, ValueError, IndexError) as ex:
        api.broken('leaf', 'morphology_window', ['C02'], ex)
    api.write_gen('LeafMorph.v', "\n".join(out))


def steps_of(e, env, U):
    """integer expression AST -> (Coq term over Z, [Coq terms of every arithmetic intermediate result]).  Plain `- + * %`
    are unbounded Z operations (they agree with i32 arithmetic as long as every listed step is within i32: what the
    theorem states); wrapping_* methods wrap and are therefore always in range."""
    k = e[0]
    if k == 'num':
        v = re.sub(r"_?(i32|u32|i64|usize)$", "", e[1]).replace('_', '')
        return "(%s)%%Z" % v, []
    if k == 'var':
        if e[1] not in env:
            raise U("unknown variable %s in turbulence arithmetic" % e[1])
        return env[e[1]], []
    if k == 'neg':
        t, st = steps_of(e[1], env, U)
        r = "(Z.opp %s)" % t
        return r, st + [r]
    if k == 'bin' and e[1] in ('+', '-', '*', '%', '/'):
        a, sa = steps_of(e[2], env, U)
        b, sb = steps_of(e[3], env, U)
        r = "(%s %s %s)" % ({'+': 'Z.add', '-': 'Z.sub', '*': 'Z.mul', '%': 'Z.rem', '/': 'Z.quot'}[e[1]], a, b)
        return r, sa + sb + [r]
    if k == 'mcall' and e[2] in ('wrapping_mul', 'wrapping_sub', 'wrapping_add', 'wrapping_neg') :
        a, sa = steps_of(e[1], env, U)
        if e[2] == 'wrapping_neg':
            r = "(wrap_i32 (Z.opp %s))" % a
            return r, sa + [r]
        b, sb = steps_of(e[3][0], env, U)
        r = "(wrap_i32 (%s %s %s))" % ({'wrapping_mul': 'Z.mul', 'wrapping_sub': 'Z.sub', 'wrapping_add': 'Z.add'}[e[2]], a, b)
        return r, sa + sb + [r]
    raise U("turbulence arithmetic: construct outside the subset: %r" % (e,))


def gen_turb(api, rs, U):
    """Gen/LeafTurb.v: the i32 arithmetic of filter::turbulence that documents can drive to the edge of the range:
    the seed normalisation of `init`, the per-octave stitch update of `turbulence`, the stitch subtraction of `noise2`."""
    TREL = 'crates/resvg/src/filter/turbulence.rs'
    out = [api.HEADER, "From RV Require Import Model.Base Model.RenderPrims.\nLocal Open Scope Z_scope.\n"]
    try:
        src = strip_comments(api.rd(TREL))
        consts = {}
        for name in ('RAND_M', 'PERLIN_N'):
            m = re.search(r"const\s+%s\s*:\s*i32\s*=\s*(0x[0-9a-fA-F]+|\d+)\s*;" % name, src)
            if not m:
                raise U("const %s not found" % name)
            consts[name] = "(%d)%%Z" % int(m.group(1), 0)

        def expr_steps(text, env):
            ast = rs.Parser(rs.tokenize("{ %s }" % text)).block()
            if ast[1] or ast[2] is None:
                raise U("not a single expression: %s" % text)
            return steps_of(ast[2], dict(consts, **env), U)
        # ---- init: seed normalisation
        m = re.search(r"if\s+seed\s*<=\s*0\s*\{\s*seed\s*=\s*([^;]+);\s*\}", src)
        if not m:
            raise U("`if seed <= 0 { seed = ..; }` not found in turbulence::init")
        t, st = expr_steps(m.group(1), {'seed': 'seed'})
        out.append("(* %s :: init: if seed <= 0 { seed = %s; } *)\nDefinition turb_seed_norm (seed : Z) : Z := %s.\n"
                   "Definition turb_seed_steps (seed : Z) : list Z := [%s].\n" % (TREL, " ".join(m.group(1).split()), t, "; ".join(st)))
        # ---- turbulence: stitch update per octave
        m = re.search(r"if\s+let\s+Some\(ref\s+mut\s+stitch\)\s*=\s*stitch\s*\{(.*?)\}", src, re.S)
        if not m:
            raise U("`if let Some(ref mut stitch) = stitch { .. }` not found in turbulence")
        stmts = [x.strip() for x in m.group(1).split(';') if x.strip()]
        names = {}
        allsteps = []
        env = {'width': 'width', 'wrap_x': 'wrap_x', 'height': 'height', 'wrap_y': 'wrap_y'}
        for stt in stmts:
            mm = re.match(r"stitch\.(\w+)\s*(\*=|=)\s*(.+)$", stt, re.S)
            if not mm or mm.group(1) not in env:
                raise U("unexpected statement in the stitch update: %s" % stt)
            rhs = re.sub(r"stitch\.(\w+)", r"\1", mm.group(3))
            if mm.group(2) == '*=':
                rhs = "%s * (%s)" % (mm.group(1), rhs)
            t, st = expr_steps(rhs, env)
            names[mm.group(1)] = t
            allsteps += st
        if set(names) != set(env):
            raise U("the stitch update does not assign width, wrap_x, height, wrap_y exactly: %s" % sorted(names))
        out.append("(* %s :: turbulence: %s *)\nDefinition turb_stitch_steps (width wrap_x height wrap_y : Z) : list Z := [%s].\n"
                   "Definition turb_stitch_next (width wrap_x height wrap_y : Z) : Z * Z * Z * Z := (%s, %s, %s, %s).\n"
                   % (TREL, "; ".join(" ".join(x.split()) for x in stmts), "; ".join(allsteps), names['width'], names['wrap_x'], names['height'], names['wrap_y']))
        # ---- noise2: lattice wrap-around
        forms = []
        for v, f in (('bx0', 'width'), ('bx1', 'width'), ('by0', 'height'), ('by1', 'height')):
            mm = re.search(r"if\s+%s\s*>=\s*info\.wrap_\w\s*\{\s*%s\s*(-=|=)\s*([^;]+);" % (v, v), src)
            if not mm:
                raise U("`if %s >= info.wrap_.. { %s -= info.%s; }` not found in noise2" % (v, v, f))
            rhs = re.sub(r"info\.(width|height)", "w", mm.group(2))
            rhs = re.sub(r"\b%s\b" % v, "b", rhs)
            if mm.group(1) == '-=':
                rhs = "b - (%s)" % rhs
            forms.append(" ".join(rhs.split()))
        if len(set(forms)) != 1:
            raise U("the four stitch subtractions of noise2 differ: %s" % forms)
        t, st = expr_steps(forms[0], {'b': 'b', 'w': 'w'})
        out.append("(* %s :: noise2: %s *)\nDefinition turb_wrap_steps (b w : Z) : list Z := [%s].\n" % (TREL, forms[0], "; ".join(st)))
        api.ok('leaves', 'turbulence_arith', props=['C02'], rel=TREL)
    except (U, OSError, ValueError, IndexError) as ex:
        api.broken('leaf', 'turbulence_arith', ['C02'], ex)
    api.write_gen('LeafTurb.v', "\n".join(out))


# every construction of render::Context in resvg: the layer limit must come from the canvas (lib.rs), from the inherited
# limit moved into the layer's frame (render.rs), or be one of the two fixed special cases below.  A new / changed
# literal (e.g. a limit taken from a mask, clip or pattern region) is not covered by the C02 bound: broken tie.
CONTEXT_LITERALS = {
    ('lib.rs', 'Context { max_bbox }'): 2,
    ('render.rs', 'Context { max_bbox: ctx .max_bbox .translate(-ibbox.x(), -ibbox.y()) .unwrap_or(ctx.max_bbox), }'): 1,
    # clip paths are rendered without nested layers: a 1x1 limit
    ('clip.rs', 'Context { max_bbox: tiny_skia::IntRect::from_xywh(0, 0, 1, 1).unwrap(), }'): 1,
    # feImage renders its sub-tree into the region-sized result (known class filter-image-unbounded)
    ('filter/mod.rs', 'Context { max_bbox: tiny_skia::IntRect::from_xywh(0, 0, region.width(), region.height()).unwrap(), }'): 1,
}


def check_contexts(api, U):
    root = os.path.join(os.environ.get('VERIF_REPO', '/repo'), 'crates/resvg/src')
    found = {}
    try:
        for d, _, fs in os.walk(root):
            for f in sorted(fs):
                if not f.endswith('.rs') or f == 'verif_hooks.rs':
                    continue
                rel = os.path.relpath(os.path.join(d, f), root)
                src = strip_comments(open(os.path.join(d, f), encoding='utf-8').read())
                for m in re.finditer(r"(?<![A-Za-z_])Context\s*\{", src):
                    pre = src[max(0, m.start() - 12):m.start()]
                    if re.search(r"struct\s+$", pre):
                        continue
                    b = src.index('{', m.start())
                    lit = " ".join(src[m.start():balanced(src, b, '{', '}')].split())
                    found[(rel, lit)] = found.get((rel, lit), 0) + 1
        bad = [k for k in found if k not in CONTEXT_LITERALS or found[k] != CONTEXT_LITERALS[k]]
        missing = [k for k in CONTEXT_LITERALS if k not in found]
        if bad or missing:
            raise U("render::Context is constructed in a way the C02 layer bound does not cover: unexpected %s; missing %s"
                    % ([(k[0], k[1][:140], found[k]) for k in bad], [(k[0], k[1][:60]) for k in missing]))
        # mask / clip / pattern / image code works in layer- or tile-local coordinates: it must not consult the
        # canvas-derived limit (or anything computed from it) beyond handing `ctx` on to nested rendering
        for rel, allowed in (('mask.rs', 0), ('path.rs', 0), ('image.rs', 0), ('clip.rs', 1)):
            src = strip_comments(open(os.path.join(root, rel), encoding='utf-8').read())
            n = len(re.findall(r"\bmax_bbox\b|\btarget_rect\b", src))
            if n != allowed:
                api.broken('leaf', 'context_use.' + rel, ['C13', 'C02'],
                           "%s mentions max_bbox / a rectangle derived from it %d times (expected %d): canvas-absolute geometry used in "
                           "layer- or tile-local code" % (rel, n, allowed))
        rsrc = strip_comments(open(os.path.join(root, 'render.rs'), encoding='utf-8').read())
        if re.search(r"\bimpl\s+Context\b", rsrc):
            api.broken('leaf', 'context_use.render.rs', ['C13', 'C02'], "render::Context gained methods (geometry derived from max_bbox) that the model does not have")
        api.ok('leaves', 'context_literals', props=['C02'], rel='crates/resvg/src/**')
    except (U, OSError, ValueError) as ex:
        api.broken('leaf', 'context_literals', ['C02'], ex)
