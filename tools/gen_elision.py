"""Gen/ElisionTables.v: the numeric attributes crates/usvg/src/writer.rs writes only under a condition
(`if COND { xml.write_svg_attribute(AId::X, &SUBJECT[.get()]) }`), with the condition as written and the value the
PARSER assumes when the attribute is absent (crates/usvg/src/parser/*.rs), both source-derived (C08).

Condition forms that are understood (SUBJECT is the expression that is written):
    SUBJECT != <literal> / SUBJECT != Opacity::ONE      -> CNe c
    !SUBJECT.approx_zero_ulps(n)                        -> CApprox 0 n
    !SUBJECT.is_default()                               -> CApprox d 4   (d from `impl Default` of the field's type; its PartialEq
                                                                          is approx_eq_ulps(4))
anything else - in particular an extra conjunct such as `stroke.linejoin == LineJoin::Miter && ..` - is emitted as
COther "<text>", for which Model/Elision.v has no `written` case: the theorem fails and names the attribute.
Parser defaults: resolve_length / resolve_valid_length(AId::X, state, D), [find_]attribute[::<T>](AId::X).unwrap_or(D),
`.unwrap_or_default()` of a Length, `let mut weight = D` of resolve_font_weight.
Not covered here: write_filter_primitive_attrs (x / y / width / height against the filter region: C07 `ASub`)."""
import os
import re

PROPS = ['C08']
REL = 'crates/usvg/src/writer.rs'
PARSER = ['parser/style.rs', 'parser/converter.rs', 'parser/paint_server.rs', 'parser/text.rs', 'parser/marker.rs']
TREE = ['tree/mod.rs', 'tree/text.rs', 'tree/filter.rs']
SKIP_FNS = ('write_filter_primitive_attrs',)
NUM = r"-?\d+(?:\.\d+)?"


def q(tok):
    tok = tok.replace('_', '')
    if re.fullmatch(r"-?\d+", tok):
        return "%s" % tok
    m = re.fullmatch(r"(-?)(\d+)\.(\d+)", tok)
    if not m:
        raise ValueError("not a decimal literal: %r" % tok)
    den = 10 ** len(m.group(3))
    return "(%s%d # %d)" % (m.group(1), int(m.group(2) + m.group(3)), den)


def fn_of(src, pos):
    best = None
    for m in re.finditer(r"\bfn\s+([A-Za-z_0-9]+)", src[:pos]):
        best = m.group(1)
    return best


def type_default(api, subject, tree_src):
    """numeric default of the newtype of field `subject` (last path component)"""
    field = subject.split('.')[-1]
    types = set(re.findall(r"\b(?:pub(?:\(crate\))?\s+)?%s:\s*([A-Z][A-Za-z0-9]*)\s*," % re.escape(field), tree_src))
    vals = set()
    for t in types:
        m = re.search(r"impl Default for %s\s*\{.*?fn default\(\)\s*->\s*Self\s*\{\s*(?:%s|Self)(?:::new)?\(\s*(%s)\s*\)\s*\}" % (t, t, NUM),
                      tree_src, re.S)
        if m:
            vals.add(m.group(1))
    if len(vals) != 1:
        raise api.Unsupported("is_default(): numeric `impl Default` of the type of field `%s` not found (types %s)" % (field, sorted(types)))
    return vals.pop()


def parser_default(api, aid, psrc):
    vals = set()
    for m in re.finditer(r"resolve(?:_valid)?_length\(\s*AId::%s\s*,\s*state\s*,\s*(%s)\s*\)" % (aid, NUM), psrc):
        vals.add(q(m.group(1)))
    for m in re.finditer(r"attribute(?:::<[A-Za-z0-9_]+>)?\(\s*AId::%s\s*\)\s*\.unwrap_or\(\s*(Opacity::ONE|%s)\s*\)" % (aid, NUM), psrc):
        vals.add('1' if m.group(1) == 'Opacity::ONE' else q(m.group(1)))
    if aid == 'FontWeight':
        m = re.search(r"fn resolve_font_weight.*?let mut weight = (\d+);", psrc, re.S)
        if m and re.search(r"attribute\(AId::FontWeight\)\.unwrap_or\(\"\"\)", psrc) and re.search(r"_\s*=>\s*weight,", psrc):
            vals.add(q(m.group(1)))
    if len(vals) != 1:
        return None, sorted(vals)
    return vals.pop(), []


def generate(api):
    try:
        src = api.rd(REL)
        psrc = "\n".join(api.rd('crates/usvg/src/' + p) for p in PARSER)
        tsrc = "\n".join(api.rd('crates/usvg/src/' + p) for p in TREE)
        sites = []
        pat = re.compile(r"\bif\s+((?:(?!\blet\b)[^{};])+?)\s*\{\s*xml\.write_svg_attribute\(\s*AId::([A-Za-z]+)\s*,\s*&\s*([a-z_][a-z_0-9.]*?)(\.get\(\))?\s*\)\s*;?\s*\}", re.S)
        for m in pat.finditer(src):
            cond, aid, subject = re.sub(r"\s+", " ", m.group(1)).strip(), m.group(2), m.group(3)
            fn = fn_of(src, m.start())
            if fn in SKIP_FNS:
                continue
            subj = re.escape(subject) + r"(?:\.get\(\))?"
            mm = re.fullmatch(subj + r"\s*!=\s*(Opacity::ONE|%s)" % NUM, cond)
            if mm:
                c = 'CNe %s' % ('1' if mm.group(1) == 'Opacity::ONE' else q(mm.group(1)))
            else:
                mm = re.fullmatch(r"!\s*" + subj + r"\.approx_zero_ulps\((\d+)\)", cond)
                if mm:
                    c = 'CApprox 0 %s' % mm.group(1)
                elif re.fullmatch(r"!\s*" + subj + r"\.is_default\(\)", cond):
                    c = 'CApprox %s 4' % q(type_default(api, subject, tsrc))
                else:
                    c = 'COther "%s"' % cond.replace('"', "'")
            d, amb = parser_default(api, aid, psrc)
            sites.append(("%s@%s" % (aid, fn), c, d, amb, cond))
        names = [s[0].split('@')[0] for s in sites]
        for need in ('StrokeMiterlimit', 'StrokeWidth', 'StrokeOpacity', 'FillOpacity', 'StrokeDashoffset', 'Opacity', 'StopOpacity'):
            if need not in names:
                raise api.Unsupported("conditional write of AId::%s not found in writer.rs" % need)
        out = [api.HEADER, "From Coq Require Import String List ZArith QArith.\nImport ListNotations.\nLocal Open Scope string_scope.\n",
               "Inductive econd := CNe (c : Q) | CApprox (c : Q) (ulps : Z) | COther (s : string).\n",
               "(* (attribute@function, condition under which writer.rs writes it, value the parser assumes when it is absent) *)",
               "Definition elision_sites : list (string * econd * option Q) := ["]
        out.append(";\n".join('  ("%s", %s, %s)  (* if %s *)' % (n, c, ('Some (%s)' % d) if d is not None else 'None', cond.replace('*)', '* )'))
                              for n, c, d, amb, cond in sites))
        out.append("]%Q.\n")
        api.write_gen('ElisionTables.v', "\n".join(out))
        api.ok('tables', 'writer.elision', sites=len(sites), names=names)
    except (api.Unsupported, OSError, ValueError, IndexError) as e:
        api.broken('table', 'writer.elision', PROPS, e)
