#!/usr/bin/env python3
"""Table of seeded changes and what the checks did with them (from seeded/*/meta.json)."""
import json, os, sys
d = os.path.join(os.path.dirname(os.path.dirname(os.path.abspath(__file__))), 'seeded')
rows = []
for n in sorted(os.listdir(d)):
    mp = os.path.join(d, n, 'meta.json')
    if not os.path.exists(mp):
        continue
    m = json.load(open(mp))
    c = m.get('confirmed', {})
    chk = c.get('checks', {})
    caught = {k: v.get('caught') for k, v in chk.items()}
    rows.append((n, c.get('suite_passes'), c.get('demo_with_change'), c.get('demo_without_change'), caught, c.get('repo_head')))
for r in rows:
    print("%-7s suite_ok=%-5s demo(with/without)=%s/%s caught=%s head=%s" % r)
