#!/usr/bin/env python3
"""Measured map of the source-derived tie: which Rust functions feed a Coq proof obligation.

For every `fn` (and top-level const/static) of crates/usvg/src and crates/resvg/src the body is replaced by
`{ unimplemented!() }` in an overlay copy of the repository (symlink farm; /repo is never touched) and the
translator (tools/translate.py + all gen_*.py plug-ins) is run on the overlay.  If any generated Coq file changes
or a tie is reported broken, the function's text is an input of the obligations of the properties whose Props/Cxx.v
closure contains that generated file (or that the broken tie names).  Functions for which nothing changes are
reached only through hand-written models + correspondence ops or through the system oracles.

usage: tools/tie_map.py [--jobs N] [--only <substring of rel path>]
writes design-notes/tie_map.json and design-notes/tie_map.md
"""
import concurrent.futures as cf
import hashlib
import json
import os
import re
import shutil
import subprocess
import sys
import tempfile

VERIF = os.path.dirname(os.path.dirname(os.path.abspath(__file__)))
REPO = os.environ.get('VERIF_REPO', '/repo')
ROOTS = ['crates/usvg/src', 'crates/resvg/src']
SKIP_FILES = ('verif_hooks.rs',)
# generated files that enumerate sites (panic / arithmetic / nondeterminism ledgers): a body change alters the list of
# sites to discharge, which is a tie, but a coarser one than a generated definition or table
LEDGER_GEN = ('Sites.v', 'C02Sites.v', 'C06Sites.v', 'C06BinSites.v')


def scan_items(src):
    """Return [(kind, name, body_start, body_end)] for fn bodies ({..} span, inclusive of braces) and top-level
    const/static initialisers (span of the expression after '=' up to ';')."""
    n = len(src)
    # mask: positions inside comments / strings / char literals
    mask = bytearray(n)
    i = 0
    while i < n:
        c = src[i]
        if src.startswith('//', i):
            j = src.find('\n', i)
            j = n if j < 0 else j
            for k in range(i, j):
                mask[k] = 1
            i = j
        elif src.startswith('/*', i):
            depth, j = 1, i + 2
            while j < n and depth:
                if src.startswith('/*', j):
                    depth += 1; j += 2
                elif src.startswith('*/', j):
                    depth -= 1; j += 2
                else:
                    j += 1
            for k in range(i, j):
                mask[k] = 1
            i = j
        elif c == '"' or (c == 'r' and re.match(r'r#*"', src[i:i + 8]) and (i == 0 or not (src[i - 1].isalnum() or src[i - 1] == '_'))):
            if c == 'r':
                m = re.match(r'r(#*)"', src[i:i + 8])
                close = '"' + m.group(1)
                j = src.find(close, i + len(m.group(0)))
                j = n if j < 0 else j + len(close)
            else:
                j = i + 1
                while j < n and src[j] != '"':
                    j += 2 if src[j] == '\\' else 1
                j += 1
            for k in range(i, min(j, n)):
                mask[k] = 1
            i = j
        elif c == "'":
            m = re.match(r"'(\\.[^']*|[^'\\])'", src[i:i + 12])
            if m:
                for k in range(i, i + len(m.group(0))):
                    mask[k] = 1
                i += len(m.group(0))
            else:
                i += 1
        else:
            i += 1

    def match_brace(p):
        depth = 0
        for k in range(p, n):
            if mask[k]:
                continue
            if src[k] == '{':
                depth += 1
            elif src[k] == '}':
                depth -= 1
                if depth == 0:
                    return k
        return -1

    items = []
    # verification hooks are instrumentation: cut everything from a `#[cfg(resvg_verif)]` item on (they are add-only
    # blocks at the end of files / separate modules)
    for m in re.finditer(r"\bfn\s+([A-Za-z_]\w*)", src):
        if mask[m.start()]:
            continue
        # find the body's '{' or a ';' (declaration only) at bracket depth 0
        depth = 0
        k = m.end()
        body = -1
        while k < n:
            if not mask[k]:
                ch = src[k]
                if ch in '([<':
                    if ch != '<' or True:
                        depth += 1
                elif ch in ')]>':
                    if ch == '>' and src[k - 1] == '-':
                        pass
                    else:
                        depth -= 1
                elif ch == ';' and depth <= 0:
                    break
                elif ch == '{' and depth <= 0:
                    body = k
                    break
            k += 1
        if body < 0:
            continue
        end = match_brace(body)
        if end < 0:
            continue
        items.append(('fn', m.group(1), body, end + 1))
    for m in re.finditer(r"^(?:pub(?:\([^)]*\))?\s+)?(const|static)\s+([A-Z_][A-Z0-9_]*)\s*:[^=;]*=", src, re.M):
        if mask[m.start()]:
            continue
        k = m.end()
        depth = 0
        while k < n:
            if not mask[k]:
                ch = src[k]
                if ch in '([{':
                    depth += 1
                elif ch in ')]}':
                    depth -= 1
                elif ch == ';' and depth == 0:
                    break
            k += 1
        items.append((m.group(1), m.group(2), m.end(), k))
    return items


def cfg_verif_spans(src):
    """Spans of items guarded by #[cfg(resvg_verif)] (skipped: instrumentation)."""
    spans = []
    for m in re.finditer(r"#\[cfg\(resvg_verif\)\]", src):
        k = src.find('{', m.end())
        semi = src.find(';', m.end())
        if k < 0 or (0 <= semi < k):
            spans.append((m.start(), semi + 1 if semi >= 0 else m.end()))
            continue
        depth = 0
        e = k
        for e in range(k, len(src)):
            if src[e] == '{':
                depth += 1
            elif src[e] == '}':
                depth -= 1
                if depth == 0:
                    break
        spans.append((m.start(), e + 1))
    return spans


def make_overlay(dst):
    """Symlink farm of REPO with real directories down to the source roots."""
    os.makedirs(dst)

    def farm(rel):
        src_dir = os.path.join(REPO, rel)
        for e in os.listdir(src_dir):
            if e in ('target', '.git'):
                continue
            r = os.path.join(rel, e) if rel else e
            full = os.path.join(src_dir, e)
            need_real = os.path.isdir(full) and any(root == r or root.startswith(r + '/') or r.startswith(root + '/') for root in ROOTS)
            if need_real:
                os.makedirs(os.path.join(dst, r))
                farm(r)
            else:
                os.symlink(full, os.path.join(dst, r))
    farm('')


def gen_state(gen_dir):
    st = {}
    for f in sorted(os.listdir(gen_dir)):
        if f.endswith('.v') or f.endswith('.json') and f != 'STATUS.json':
            st[f] = hashlib.sha1(open(os.path.join(gen_dir, f), 'rb').read()).hexdigest()
    broken = []
    try:
        broken = json.load(open(os.path.join(gen_dir, 'STATUS.json')))['broken']
    except Exception as e:
        broken = [dict(kind='translator', name='translate.py', props=[], err=str(e))]
    return st, broken


TOOLS_VERIF = VERIF    # replaced by a frozen copy in main() so that concurrent edits of plug-ins do not pollute the map


def freeze_tools(scratch):
    """Copy tools/ (and link the rest of /verif) so that every translator run of this map uses the same plug-ins."""
    global TOOLS_VERIF
    root = os.path.join(scratch, 'verif')
    os.makedirs(root)
    for e in os.listdir(VERIF):
        if e == 'tools':
            shutil.copytree(os.path.join(VERIF, e), os.path.join(root, e), ignore=shutil.ignore_patterns('__pycache__'))
        elif e not in ('work', '.git'):
            os.symlink(os.path.join(VERIF, e), os.path.join(root, e))
    TOOLS_VERIF = root


def run_translate(overlay, gen_dir):
    env = dict(os.environ, VERIF_REPO=overlay, VERIF_GEN=gen_dir)
    p = subprocess.run([sys.executable, os.path.join(TOOLS_VERIF, 'tools', 'translate.py')], env=env, stdout=subprocess.PIPE,
                       stderr=subprocess.STDOUT, text=True, timeout=300)
    return p.returncode, p.stdout


def worker(wid, tasks, base_state, base_broken_keys, scratch):
    overlay = os.path.join(scratch, 'ov%d' % wid)
    gen = os.path.join(scratch, 'gen%d' % wid)
    make_overlay(overlay)
    shutil.copytree(os.path.join(scratch, 'gen-base'), gen)
    out = []
    for (rel, kind, name, a, b, line) in tasks:
        path = os.path.join(overlay, rel)
        orig = open(os.path.join(REPO, rel), encoding='utf-8').read()
        repl = '{ unimplemented!() }' if kind == 'fn' else ' Default::default()'
        mutated = orig[:a] + repl + orig[b:]
        os.remove(path)
        with open(path, 'w', encoding='utf-8') as f:
            f.write(mutated)
        try:
            rc, log = run_translate(overlay, gen)
            st, broken = gen_state(gen)
            changed = sorted(f for f in set(st) | set(base_state) if st.get(f) != base_state.get(f))
            newbroken = [b_ for b_ in broken if (b_['kind'], b_['name']) not in base_broken_keys]
            if rc != 0:
                newbroken.append(dict(kind='translator', name='translate.py', props=[], err=log[-200:]))
        except Exception as e:
            changed, newbroken = [], [dict(kind='translator', name='timeout', props=[], err=str(e))]
        os.remove(path)
        os.symlink(os.path.join(REPO, rel), path)
        out.append(dict(file=rel, kind=kind, name=name, line=line, lines=orig.count('\n', a, b) + 1,
                        gen_changed=changed, broken=[dict(kind=x['kind'], name=x['name'], props=x['props']) for x in newbroken]))
    return out


def gen_to_props():
    sys.path.insert(0, os.path.join(VERIF, 'tools'))
    import vlib
    ctx = vlib.Ctx.__new__(vlib.Ctx)
    m = {}
    for i in range(1, 21):
        pid = 'C%02d' % i
        for f in vlib.Ctx.coq_closure(ctx, 'Props/%s.v' % pid):
            if f.startswith('Gen/'):
                m.setdefault(os.path.basename(f), []).append(pid)
    return m


def main():
    jobs = 8
    only = None
    a = sys.argv[1:]
    if '--jobs' in a:
        jobs = int(a[a.index('--jobs') + 1])
    if '--only' in a:
        only = a[a.index('--only') + 1]
    tasks = []
    totals = {}
    for root in ROOTS:
        for d, _, fs in os.walk(os.path.join(REPO, root)):
            for f in sorted(fs):
                if not f.endswith('.rs') or f in SKIP_FILES:
                    continue
                rel = os.path.relpath(os.path.join(d, f), REPO)
                if only and only not in rel:
                    continue
                src = open(os.path.join(REPO, rel), encoding='utf-8').read()
                skip = cfg_verif_spans(src)
                # test modules
                mt = re.search(r"#\[cfg\(test\)\]", src)
                test_from = mt.start() if mt else len(src)
                n_items = 0
                for kind, name, s, e in scan_items(src):
                    if s >= test_from or any(x <= s < y for x, y in skip):
                        continue
                    tasks.append((rel, kind, name, s, e, src.count('\n', 0, s) + 1))
                    n_items += 1
                totals[rel] = dict(items=n_items, lines=src.count('\n') + 1)
    print("%d items in %d files" % (len(tasks), len(totals)), flush=True)
    scratch = tempfile.mkdtemp(prefix='tiemap-', dir='/tmp')
    try:
        freeze_tools(scratch)
        base_gen = os.path.join(scratch, 'gen-base')
        os.makedirs(base_gen)
        rc, log = run_translate(REPO, base_gen)
        if rc != 0:
            print(log)
            return 2
        base_state, base_broken = gen_state(base_gen)
        bkeys = set((b['kind'], b['name']) for b in base_broken)
        chunks = [tasks[i::jobs] for i in range(jobs)]
        res = []
        with cf.ThreadPoolExecutor(max_workers=jobs) as ex:
            futs = [ex.submit(worker, i, chunks[i], base_state, bkeys, scratch) for i in range(jobs)]
            for fu in futs:
                res += fu.result()
    finally:
        shutil.rmtree(scratch, ignore_errors=True)
    g2p = gen_to_props()
    for r in res:
        props = set()
        dprops = set()
        for g in r['gen_changed']:
            props.update(g2p.get(g, []))
            if g not in LEDGER_GEN:
                dprops.update(g2p.get(g, []))
        r['def_props'] = sorted(dprops)
        for b in r['broken']:
            props.update(b['props'])
        r['props'] = sorted(props)
        r['tied'] = bool(r['gen_changed'] or r['broken'])
    res.sort(key=lambda r: (r['file'], r['line']))
    head = subprocess.run(['git', '-C', REPO, 'rev-parse', '--short', 'HEAD'], capture_output=True, text=True).stdout.strip()
    out = dict(repo_head=head, items=res, files=totals, gen_to_props=g2p)
    os.makedirs(os.path.join(VERIF, 'design-notes'), exist_ok=True)
    if not only:
        json.dump(out, open(os.path.join(VERIF, 'design-notes', 'tie_map.json'), 'w'), indent=0, sort_keys=True)
    # markdown
    lines = ["# Measured tie map (generated by tools/tie_map.py at /repo %s)" % head, "",
             "An item is *tied* when replacing its body by `unimplemented!()` changes a generated Coq file or breaks a "
             "translator anchor, i.e. its source text is an input of a proof obligation. Untied items are covered only by "
             "hand-written models + correspondence ops or by the system oracles.", ""]
    tied = [r for r in res if r['tied']]
    lines.append("Total: %d of %d fn/const items tied (%d of %d body lines)." % (
        len(tied), len(res), sum(r['lines'] for r in tied), sum(r['lines'] for r in res)))
    lines += ["", "Two kinds of tie are distinguished: *definitional* (the item's text is translated into a Gallina definition, "
              "table or constant that theorems are stated about) and *ledger* (the item is scanned for sites - unwrap/index/"
              "arithmetic/hash-order - that a ledger lemma must discharge; files %s)." % ', '.join(LEDGER_GEN),
              "", "## Per property", "",
              "| property | definitional: items | definitional: body lines | any tie: items | generated files in its closure |", "|---|---|---|---|---|"]
    for i in range(1, 21):
        pid = 'C%02d' % i
        mine = [r for r in tied if pid in r['props']]
        dmine = [r for r in tied if pid in r['def_props']]
        gens = sorted(g for g, ps in g2p.items() if pid in ps)
        lines.append("| %s | %d | %d | %d | %s |" % (pid, len(dmine), sum(r['lines'] for r in dmine), len(mine), ', '.join(g[:-2] for g in gens)))
    dt = [r for r in res if r['def_props'] or r['broken']]
    lines += ["", "Definitional ties overall: %d of %d items (%d of %d body lines)." % (
        len(dt), len(res), sum(r['lines'] for r in dt), sum(r['lines'] for r in res))]
    lines += ["", "## Per source file", "", "| file | items | definitionally tied | tied items (properties) |", "|---|---|---|---|"]
    for rel in sorted(totals):
        its = [r for r in res if r['file'] == rel]
        t = [r for r in its if r['tied']]
        if not its:
            continue
        t = [r for r in its if r['def_props'] or r['broken']]
        desc = '; '.join("%s (%s)" % (r['name'], ','.join(p[1:] for p in (r['def_props'] or r['props'])) or '-') for r in t)
        lines.append("| %s | %d | %d | %s |" % (rel.replace('crates/', ''), len(its), len(t), desc))
    text = "\n".join(lines) + "\n"
    if only:
        print(text)
    else:
        open(os.path.join(VERIF, 'design-notes', 'tie_map.md'), 'w').write(text)
        print("tied %d / %d items; wrote design-notes/tie_map.{json,md}" % (len(tied), len(res)))
    return 0


if __name__ == '__main__':
    sys.exit(main())
