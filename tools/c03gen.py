"""Reference-graph documents for C03 (and the use-expansion part of C01).

An abstract document is a tree of `El` (concrete SVG tag, id, flag, link attributes, children); it is
rendered both as SVG text (for the real parser) and as a Gallina `xnode` term (for the model in
coq/Model/SvgBuild.v + Links.v), so both sides see the same graph.

11 link kinds of the property text:
  use, href (gradient/pattern/filter template), fill, stroke, clip, mask, filter, feimage,
  mstart, mmid, mend
"""
import itertools

KINDS = ['use', 'href', 'fill', 'stroke', 'clip', 'mask', 'filter', 'feimage', 'mstart', 'mmid', 'mend']
PLACES = ['self', 'child']

NS = 'xmlns="http://www.w3.org/2000/svg" xmlns:xlink="http://www.w3.org/1999/xlink"'
WITNESS = '<rect id="vf_witness" x="70" y="70" width="20" height="20" fill="#010203"/>'

# model classes
TAGK = {'svg': 'TSvg', 'g': 'TG', 'path': 'TShape', 'rect': 'TShape', 'use': 'TUse', 'symbol': 'TSymbol',
        'clipPath': 'TClipPath', 'mask': 'TMask', 'filter': 'TFilter', 'feImage': 'TFeImage', 'feFlood': 'TFeOther',
        'feOffset': 'TFeOther', 'pattern': 'TPattern', 'linearGradient': 'TGradient', 'radialGradient': 'TGradient',
        'a': 'TG', 'switch': 'TSvg', 'stop': 'TStop', 'marker': 'TMarker', 'defs': 'TOther', 'text': 'TText', 'tspan': 'TTspan', 'style': 'TStyle'}
AKEY = {'href': 'AHref', 'fill': 'AFill', 'stroke': 'AStroke', 'clip-path': 'AClip', 'mask': 'AMask', 'filter': 'AFilter',
        'marker-start': 'AMStart', 'marker-mid': 'AMMid', 'marker-end': 'AMEnd'}
KIND_ATTR = {'fill': 'fill', 'stroke': 'stroke', 'clip': 'clip-path', 'mask': 'mask', 'filter': 'filter',
             'mstart': 'marker-start', 'mmid': 'marker-mid', 'mend': 'marker-end'}


class El:
    def __init__(self, tag, id=None, flag=False, links=None, kids=None, extra=''):
        self.tag = tag
        self.id = id
        self.flag = flag
        # list of (attribute name, target id or None, literal text used when the target is None)
        self.links = links or []
        self.kids = kids or []
        self.extra = extra
        self.uid = None

    def add(self, attr, target, literal='none'):
        for i, l in enumerate(self.links):
            if l[0] == attr:            # an attribute can be given once
                self.links[i] = (attr, target, literal)
                return self
        self.links.append((attr, target, literal))
        return self

    def walk(self):
        yield self
        for k in self.kids:
            for x in k.walk():
                yield x


def number(root):
    for i, n in enumerate(root.walk()):
        n.uid = i
    return root


def geometry(n):
    """attributes that make the element valid; `flag` selects userSpaceOnUse units (what makes it cacheable)"""
    t = n.tag
    if t == 'svg':
        return ' width="100" height="100"'
    if t == 'path':
        return ' d="M 10 10 L 40 10 L 40 40 Z"'
    if t == 'rect':
        return '' if 'width=' in n.extra else ' width="30" height="30"'
    if t == 'clipPath':
        return '' if n.flag else ' clipPathUnits="objectBoundingBox"'
    if t == 'mask':
        return ' maskUnits="userSpaceOnUse" x="0" y="0" width="100" height="100"' if n.flag else ''
    if t == 'filter':
        return ' filterUnits="userSpaceOnUse" x="0" y="0" width="100" height="100"' if n.flag else ''
    if t == 'pattern':
        return ' patternUnits="userSpaceOnUse" width="10" height="10"'
    if t == 'marker':
        return ' markerWidth="4" markerHeight="4"'
    if t == 'stop':
        return ''
    if t == 'feFlood':
        return ' flood-color="green"'
    return ''


def to_svg(n, top=True):
    a = ''
    if n.tag == 'svg' and top:
        a += ' ' + NS
    if n.id is not None:
        a += ' id="%s"' % n.id
    a += geometry(n)
    a += n.extra
    for attr, target, literal in n.links:
        name = 'xlink:href' if attr == 'href' else attr
        if target is None:
            val = literal
        elif isinstance(target, list):          # filter list: ids and None (= a filter function)
            val = ' '.join('blur(0.5)' if t is None else 'url(#%s)' % t for t in target)
        elif attr == 'href':
            val = '#' + target
        else:
            val = 'url(#%s)' % target
        a += ' %s="%s"' % (name, val)
    if not n.kids and not (n.tag == 'svg' and top):
        return '<%s%s/>' % (n.tag, a)
    inner = ''.join(to_svg(k, False) for k in n.kids)
    if n.tag == 'svg' and top:
        inner += WITNESS
    return '<%s%s>%s</%s>' % (n.tag, a, inner, n.tag)


class Names:
    def __init__(self):
        self.m = {}

    def get(self, s):
        if s not in self.m:
            self.m[s] = len(self.m) + 1
        return self.m[s]


WITNESS_N = 1000000


def to_coq(n, names, top=True):
    """Gallina xnode term; uids are the pre-order numbers given by number()"""
    nm = 'None' if n.id is None else '(Some %d%%N)' % names.get(n.id)
    attrs = []
    for attr, target, literal in n.links:
        if isinstance(target, list):
            for t in target:
                attrs.append('(%s, %s)' % (AKEY[attr], 'None' if t is None else '(Some %d%%N)' % names.get(t)))
            continue
        v = 'None' if target is None else '(Some %d%%N)' % names.get(target)
        attrs.append('(%s, %s)' % (AKEY[attr], v))
    kids = [to_coq(k, names, False) for k in n.kids]
    if n.tag == 'svg' and top:
        kids.append('(XN %d%%nat TShape (Some %d%%N) false [(AFill, None)] [])' % (sum(1 for _ in n.walk()), WITNESS_N))
    return '(XN %d%%nat %s %s %s [%s] [%s])' % (n.uid, TAGK[n.tag], nm, 'true' if n.flag else 'false',
                                           '; '.join(attrs), '; '.join(kids))


# ------------------------------------------------------------------------------------------------
# element construction for one reference: (type of the element, out link kind, placement, target id)
# ------------------------------------------------------------------------------------------------
TYPE_OF_IN = {'use': 'g', 'fill': 'pattern', 'stroke': 'pattern', 'clip': 'clipPath', 'mask': 'mask', 'filter': 'filter',
              'feimage': 'g', 'mstart': 'marker', 'mmid': 'marker', 'mend': 'marker'}
TEMPLATES = ('pattern', 'linearGradient', 'filter')


def base_content(typ, eid):
    if typ in ('g', 'clipPath', 'pattern'):
        return [El('path')]
    if typ == 'mask':
        return [El('path').add('fill', None, 'white')]
    if typ == 'filter':
        return [El('feFlood')]
    if typ == 'marker':
        return [El('path', extra=' transform="scale(0.1)"')]
    if typ == 'linearGradient':
        return [El('stop', extra=' offset="0" stop-color="red"'), El('stop', extra=' offset="1" stop-color="blue"')]
    return []


def first_shape(e):
    for k in e.kids:
        if k.tag in ('path', 'rect'):
            return k
    return None


WRAPPERS = ['', 'g', 'svg', 'a', 'use', 'symbol', 'switch']


def wrap_child(e, sh, wrapper, eid):
    """the child that carries the reference sits in a container that creates or clones converter state"""
    if not wrapper or sh not in e.kids:
        return
    i = e.kids.index(sh)
    if wrapper in ('g', 'svg', 'a', 'switch'):
        e.kids[i] = El(wrapper, kids=[sh])
    elif wrapper == 'use':
        sh.id = eid + '_s'
        e.kids[i] = El('use').add('href', sh.id)
        e.kids.insert(0, El('defs', kids=[sh]))
    elif wrapper == 'symbol':
        e.kids[i] = El('use').add('href', eid + '_y')
        e.kids.insert(0, El('symbol', eid + '_y', kids=[sh]))


def make_element(typ, eid, kind, place, target, flag, wrapper='', extra_child=False):
    """An element `eid` of concrete type `typ` carrying one reference of `kind` to `target`."""
    e = _make_element(typ, eid, kind, place, target, flag)
    if kind in KIND_ATTR and place == 'child' and e.tag != 'use':
        sh = next((k for k in e.kids if k.tag in ('path', 'rect') and any(a == KIND_ATTR[kind] and t == target for a, t, _ in k.links)), None)
        if sh is not None:
            wrap_child(e, sh, wrapper, eid)
            if extra_child and typ != 'filter':
                e.kids.append(El('path') if typ != 'mask' else El('path').add('fill', None, 'white'))
    return e


def _make_element(typ, eid, kind, place, target, flag):
    e = El(typ, eid, flag=flag, kids=base_content(typ, eid))
    if kind is None:
        return e
    if kind == 'use':
        if place == 'self' and typ == 'g':
            return El('use', eid).add('href', target)
        e.kids.append(El('use').add('href', target))
        return e
    if kind == 'href':
        if place == 'self' and typ in TEMPLATES:
            e.kids = []                     # no own content: the template chain is followed
            e.add('href', target)
            return e
        gid = eid + '_t'
        e.kids.append(El('linearGradient', gid).add('href', target))
        e.kids.append(El('path').add('fill', gid))
        return e
    if kind == 'feimage':
        if place == 'self' and typ == 'filter':
            e.kids.append(El('feImage').add('href', target))
            return e
        fid = eid + '_f'
        e.kids.append(El('filter', fid, flag=flag, kids=[El('feImage').add('href', target)]))
        e.kids.append(El('path').add('filter', fid))
        return e
    attr = KIND_ATTR[kind]
    sh = first_shape(e)
    if place == 'self' or sh is None:
        e.add(attr, target)
    else:
        sh.add(attr, target)
    return e


def entry_for(kind, typ, target, as_use=False):
    """plain content of the root that references `target` (an element reached through a link of `kind`);
    as_use: the referencing element is a `use` with x / y (its group carries a transform) of a plain shape"""
    if typ in ('g', 'use'):
        return []                           # rendered anyway: it is a child of the root
    if as_use and (kind in ('clip', 'mask', 'filter') or (kind == 'href' and typ == 'filter')):
        attr = 'filter' if kind == 'href' else KIND_ATTR[kind]
        return [El('defs', kids=[El('path', 'vf_plain')]),
                El('use', 'vf_entry', extra=' x="7" y="3"').add('href', 'vf_plain').add(attr, target)]
    if kind == 'href':
        if typ == 'filter':
            return [El('path', 'vf_entry').add('filter', target)]
        return [El('path', 'vf_entry').add('fill', target)]
    if kind == 'feimage' or kind == 'use':
        return []
    return [El('path', 'vf_entry').add(KIND_ATTR[kind], target)]


def resolve_types(kinds, places, rot):
    """type of element i = what the link arriving from element i-1 (cyclically) requires"""
    n = len(kinds)
    types = [None] * n
    for i in range(n):
        k_in = kinds[(i - 1) % n]
        if k_in != 'href':
            types[i] = TYPE_OF_IN[k_in]
    for _ in range(n + 1):
        for i in range(n):
            if types[i] is None:
                j = (i - 1) % n
                if types[j] is not None:
                    types[i] = types[j] if (types[j] in TEMPLATES and places[j] == 'self') else 'linearGradient'
    if any(t is None for t in types):        # pure href cycle
        types = [TEMPLATES[rot % 3]] * n
    return types


EXTRA_WITNESSES = {'vf_w0': ([2.0, 2.0, 6.0, 6.0], [4, 5, 6]), 'vf_w2': ([2.0, 90.0, 6.0, 6.0], [7, 8, 9])}


def extra_witnesses(body):
    """independent shapes before the referencing content and, in a group of their own, after it
    (the main witness `vf_witness` is the last child of the root)"""
    w0 = El('rect', 'vf_w0', extra=' x="2" y="2" width="6" height="6"').add('fill', None, '#040506')
    w2 = El('rect', 'vf_w2', extra=' x="2" y="90" width="6" height="6"').add('fill', None, '#070809')
    return [w0] + body + [El('g', kids=[w2])]


def cycle_doc(kinds, places, rot=0, via=False, flags=None, use_entry=False, wrappers=None, extra_child=False, entries=1):
    """simple cycle e0 -> e1 -> ... -> e0; element i carries link kinds[i] to element i+1."""
    n = len(kinds)
    types = resolve_types(kinds, places, rot)
    flags = flags or [True] * n
    ids = ['e%d' % i for i in range(n)]
    body = []
    for i in range(n):
        body.append(make_element(types[i], ids[i], kinds[i], places[i], ids[(i + 1) % n], flags[i],
                                 (wrappers or [''] * n)[i], extra_child))
    k_in0 = kinds[-1]
    if via:
        # entered through an element that is not on the cycle
        pre = make_element(types[0] if types[0] != 'use' else 'g', 'pre', k_in0, places[-1], ids[0], True)
        body.append(pre)
        ents = entry_for(k_in0, pre.tag, 'pre', use_entry)
    else:
        ents = entry_for(k_in0, body[0].tag, ids[0], use_entry)
    body += ents
    # the same definition entered again by further plain shapes (after the first conversion filled the caches)
    for j in range(1, entries):
        for x in entry_for(k_in0, (pre.tag if via else body[0].tag), ('pre' if via else ids[0]), False):
            x.id = 'vf_entry%d' % (j + 1)
            body.append(x)
    return number(El('svg', kids=extra_witnesses(body)))


def all_cycles(maxlen):
    for n in range(1, maxlen + 1):
        for kinds in itertools.product(KINDS, repeat=n):
            for places in itertools.product(PLACES, repeat=n):
                yield kinds, places


# ------------------------------------------------------------------------------------------------
# random graphs with mixed kinds
# ------------------------------------------------------------------------------------------------
COMPAT = {'use': ('g', 'use', 'path'), 'href': None, 'fill': ('pattern', 'linearGradient'), 'stroke': ('pattern', 'linearGradient'),
          'clip': ('clipPath',), 'mask': ('mask',), 'filter': ('filter',), 'feimage': ('g', 'use', 'path'),
          'mstart': ('marker',), 'mmid': ('marker',), 'mend': ('marker',)}
RTYPES = ['g', 'g', 'pattern', 'pattern', 'clipPath', 'mask', 'filter', 'marker', 'linearGradient']


def random_doc(rng, n):
    types = [rng.choice(RTYPES) for _ in range(n)]
    ids = ['r%d' % i for i in range(n)]
    els = []
    for i in range(n):
        e = None
        nlinks = 1 + rng.below(2)
        for li in range(nlinks):
            kind = rng.choice(KINDS)
            place = rng.choice(PLACES)
            if kind == 'href':
                cands = [j for j in range(n) if types[j] == types[i]] if types[i] in TEMPLATES else \
                        [j for j in range(n) if types[j] == 'linearGradient']
            else:
                cands = [j for j in range(n) if types[j] in COMPAT[kind]]
            if not cands or rng.below(12) == 0:
                target = 'missing'
            else:
                target = ids[rng.choice(cands)]
            if e is None:
                e = make_element(types[i], ids[i], kind, place, target, bool(rng.below(2)))
            else:
                # a second reference on the same element: add it without replacing the first
                extra = make_element(types[i], ids[i] + 'x', kind, place, target, True)
                if extra.tag == 'use' and e.tag != 'use':
                    e.kids.append(El('use').add('href', target))
                elif extra.tag != 'use' and e.tag != 'use':
                    have = set(a for a, _, _ in e.links)
                    for l in extra.links:
                        if l[0] not in have:
                            e.links.append(l)
                    base = len(base_content(types[i], ids[i]))
                    for k in extra.kids[base:]:
                        if k.id is not None:
                            k.id = k.id.replace(ids[i] + 'x', ids[i] + 'y%d' % li)
                        for idx, l in enumerate(k.links):
                            if l[1] is not None and l[1].startswith(ids[i] + 'x'):
                                k.links[idx] = (l[0], l[1].replace(ids[i] + 'x', ids[i] + 'y%d' % li), l[2])
                        e.kids.append(k)
        els.append(e)
    # entries: every definition is referenced from a plain shape
    body = list(els)
    for i in range(n):
        t = els[i].tag
        if t in ('g', 'use'):
            continue
        if t in ('pattern', 'linearGradient'):
            body.append(El('path').add('fill' if rng.below(2) else 'stroke', ids[i]))
        elif t == 'clipPath':
            body.append(El('path').add('clip-path', ids[i]))
        elif t == 'mask':
            body.append(El('path').add('mask', ids[i]))
        elif t == 'filter':
            body.append(El('path').add('filter', ids[i]))
        elif t == 'marker':
            body.append(El('path').add(rng.choice(['marker-start', 'marker-mid', 'marker-end']), ids[i]))
    rng.shuffle(body)
    return number(El('svg', kids=extra_witnesses(body)))


# ---------------------------------------------------------------------------------------------------------
# extension round 4: documents nested through image / feImage references (Model/LinksNest.v)
# abstract: href = ('P', file index) | ('D', [href..]); a file system = list of (list of hrefs | None)
# ---------------------------------------------------------------------------------------------------------
import base64 as _b64

NEST_HEAD = '<svg xmlns="http://www.w3.org/2000/svg" xmlns:xlink="http://www.w3.org/1999/xlink" width="100" height="100">'


def nest_path(dirp, i):
    return "%s/f%d.svg" % (dirp, i)


def nest_svg(hrefs, dirp, top=False, fe_last=False):
    """SVG text of a document whose external references are `hrefs` (one line)."""
    out = [NEST_HEAD, '<rect x="1" y="1" width="5" height="5" fill="#0a0b0c"/>']
    for j, h in enumerate(hrefs):
        if h[0] == 'P':
            ref = nest_path(dirp, h[1])
        else:
            ref = "data:image/svg+xml;base64," + _b64.b64encode(nest_svg(h[1], dirp).encode()).decode()
        if fe_last and j == len(hrefs) - 1:
            out.append('<filter id="nf%d" x="0" y="0" width="1" height="1"><feImage xlink:href="%s"/></filter>'
                       '<rect x="40" y="40" width="10" height="10" filter="url(#nf%d)"/>' % (j, ref, j))
        else:
            out.append('<image x="%d" y="10" width="8" height="8" xlink:href="%s"/>' % (10 + 9 * j, ref))
    if top:
        out.append(WITNESS)
    out.append('</svg>')
    return "".join(out)


def nest_coq_href(h):
    if h[0] == 'P':
        return "HPath %d" % h[1]
    return "HData [%s]" % "; ".join(nest_coq_href(x) for x in h[1])


def nest_coq(files, top):
    fs = "; ".join("None" if f is None else "Some [%s]" % "; ".join(nest_coq_href(h) for h in f) for f in files)
    return "([%s]%%list, [%s]%%list)" % (fs, "; ".join(nest_coq_href(h) for h in top))


def nest_random_href(rng, nfiles, depth):
    if depth < 3 and rng.below(3) == 0:
        return ('D', [nest_random_href(rng, nfiles, depth + 1) for _ in range(rng.below(3))])
    return ('P', rng.below(nfiles + 1))          # index nfiles = a file that does not exist


def nest_family(rng, nrand):
    """[(label, files, top hrefs, feImage for the last reference?)]"""
    P, D = (lambda i: ('P', i)), (lambda l: ('D', l))
    fam = [
        ("file includes itself", [[P(0)]], [P(0)], False),
        ("file includes itself twice, entered twice", [[P(0), P(0)]], [P(0), P(0)], False),
        ("two files include each other", [[P(1)], [P(0)]], [P(0), P(1)], False),
        ("three files in a ring", [[P(1)], [P(2)], [P(0)]], [P(0)], False),
        ("data: document three levels deep", [], [D([D([D([])])])], False),
        ("data: document that includes a file that includes itself", [[P(0), D([P(0)])]], [D([P(0)]), P(0)], False),
        ("feImage of a file that includes itself", [[P(0)]], [P(0), P(0)], True),
        ("missing file", [[P(5)]], [P(0), P(7)], False),
        ("no reference", [], [], False),
    ]
    for i in range(nrand):
        nfiles = 1 + rng.below(4)
        files = [[nest_random_href(rng, nfiles, 0) for _ in range(rng.below(4))] for _ in range(nfiles)]
        top = [nest_random_href(rng, nfiles, 0) for _ in range(1 + rng.below(4))]
        fam.append(("random file system %d" % i, files, top, rng.below(3) == 0))
    return fam


def nest_parse(s):
    """'[[]][]' -> Coq `LT [LT [LT []]; LT []]` (None when malformed)"""
    pos = [0]

    def seq():
        items = []
        while pos[0] < len(s) and s[pos[0]] == '[':
            pos[0] += 1
            inner = seq()
            if pos[0] >= len(s) or s[pos[0]] != ']':
                raise ValueError(s)
            pos[0] += 1
            items.append("LT [%s]" % "; ".join(inner))
        return items
    try:
        items = seq()
        if pos[0] != len(s):
            return None
        return "LT [%s]" % "; ".join(items)
    except ValueError:
        return None


# ---------------------------------------------------------------------------------------------------------
# second pass: list-valued filter attributes.  A reference filter="url(#t)" is rewritten (seeded) as a list with a
# filter function, a repeated entry or a dangling entry before / after it; every url entry is an edge of the graph.
# ---------------------------------------------------------------------------------------------------------
FLIST_FORMS = (lambda t: [t, None], lambda t: [None, t], lambda t: [t, t], lambda t: [t, 'vf_missing'],
               lambda t: ['vf_missing', t], lambda t: [None, t, None, t])


def listify(d, h):
    """rewrite about half of the single filter references of document d as lists; -> number rewritten"""
    n = 0
    for j, x in enumerate(d.walk()):
        for i, (attr, target, literal) in enumerate(x.links):
            if attr == 'filter' and isinstance(target, str):
                hh = (h >> (j % 20)) ^ (h * (j + 3))
                if hh & 1:
                    x.links[i] = (attr, FLIST_FORMS[(hh >> 1) % len(FLIST_FORMS)](target), literal)
                    n += 1
    return n
