"""Plug-in: source-derived tables for the C11 converter skeleton (coq/Gen/ConvTables.v).

From crates/usvg/src/parser/{converter.rs, switch.rs, shapes.rs, svgtree/mod.rs, svgtree/parse.rs}:

  graphic_tags            EId::is_graphic (svgtree/mod.rs)
  structural_tags         the `!matches!(tag_name, EId::G | EId::Switch | EId::Svg)` list of convert_element
  elem_dispatch           order of the steps of convert_element
  clip_dispatch           order of the steps of the loop body of convert_clip_path_elements
  visible_tests           conjuncts of SvgNode::is_visible_element, in order
  condition_fail_tests    `return false` tests of switch::is_condition_passed, in order
  g_or_use_tags           the `is_g_or_use` list of convert_group
  empty_terms             conjuncts of `is_empty` in convert_group
  required_terms          disjuncts of `required` in convert_group
  group_steps             order of the exits of convert_group after the children were collected
  impl_shape_tags / clip_shape_tags   first arm of convert_element_impl / convert_clip_path_elements_impl
  shape_len_checks, poly_min_points   the `is_valid_length` tests and the point-count test of shapes.rs
  gen_prefixes            the format strings of Cache::gen_*_id
  attr_ns_kept            namespaces whose attributes parse_svg_element copies
  valid_ts_tests          the conjuncts of the final test of SvgNode::has_valid_transform (tiny-skia is_valid; determinant above
                          f32::EPSILON relative to |ad| + |bc|, as of 427fd1e)
  sys_lang_rules          switch.rs is_valid_sys_lang: an entry matches a user language exactly, or its part before the first `-` does;
                          (a plain starts_with would be LR_StartsWith)
  filter_facts            parser/filter.rs create_base_filter_func: without an object bbox the closure returns before anything is
                          generated; cache.gen_filter_id() is called once, after the region was computed
  mask_steps, clip_steps  parser/mask.rs / clippath.rs `convert`: the order of the steps that return, look the definition up in the cache,
                          generate an id or insert into cache.masks / cache.clip_paths (mask_all insert before the children)
  special_attr_lookups    how the `style`, `id` and `class` XML attributes are looked up (plain-string roxmltree lookup =
                          attribute without a namespace; a local-name comparison would accept foreign-namespace ones)
  style_element_lookup    how resolve_css finds `style` elements
  css_facts               simplecss::Element for XmlNode: parent_element / prev_sibling_element delegate to roxmltree's
                          element navigation (comments, PIs and text are skipped), :first-child = no previous sibling element

Every table is cut out of the current source by anchors; the model (Model/Converter.v) evaluates the
tables, and Proofs/Converter.v has lock lemmas for the step orders.  A missing anchor is a broken tie.
"""
import os
import re

PROPS = ['C11']
CONV = 'crates/usvg/src/parser/converter.rs'
SWITCH = 'crates/usvg/src/parser/switch.rs'
SHAPES = 'crates/usvg/src/parser/shapes.rs'
STMOD = 'crates/usvg/src/parser/svgtree/mod.rs'
STPARSE = 'crates/usvg/src/parser/svgtree/parse.rs'

TAGS = {'Rect': 'T_Rect', 'Circle': 'T_Circle', 'Ellipse': 'T_Ellipse', 'Line': 'T_Line', 'Polyline': 'T_Polyline',
        'Polygon': 'T_Polygon', 'Path': 'T_Path', 'Image': 'T_Image', 'Text': 'T_Text', 'Use': 'T_Use', 'G': 'T_G',
        'Switch': 'T_Switch', 'Svg': 'T_Svg', 'Defs': 'T_Defs', 'LinearGradient': 'T_LinearGradient',
        'RadialGradient': 'T_RadialGradient', 'Pattern': 'T_Pattern', 'ClipPath': 'T_ClipPath', 'Mask': 'T_Mask',
        'Filter': 'T_Filter', 'Marker': 'T_Marker', 'Symbol': 'T_Symbol'}


class Miss(Exception):
    pass


def norm(s):
    s = re.sub(r"//[^\n]*", "", s)
    s = re.sub(r"#\[[^\]]*\]", "", s)
    return re.sub(r"\s+", " ", s).strip()


def body_of(api, src, fn, after=None):
    try:
        _, _, body = api.rs2coq.find_fn(src, fn, after)
    except Exception as e:
        raise Miss("fn %s: %s" % (fn, e))
    return norm(body)


def need(pat, text, what):
    m = re.search(pat, text)
    if not m:
        raise Miss("anchor not found: %s" % what)
    return m


def tags_of(expr, what):
    out = []
    for t in re.findall(r"EId::(\w+)", expr):
        if t not in TAGS:
            raise Miss("%s mentions EId::%s, which the model does not distinguish" % (what, t))
        out.append(TAGS[t])
    if not out:
        raise Miss("%s: empty tag list" % what)
    return out


def ordered(found, what):
    """found: list of (name, match).  Returns names sorted by position; all must be present once."""
    return [n for n, m in sorted(found, key=lambda x: x[1].start())]


def coq_list(xs):
    return "[" + "; ".join(xs) + "]"


PDIR = 'crates/usvg/src/parser'


def fns_of(text):
    """normalised text -> list of (name, body_start, body_end) for every `fn` (innermost first when searching)"""
    out = []
    for m in re.finditer(r"\bfn (\w+)\s*(?:<[^>(]*>)?\(", text):
        # skip to the matching ')' then to the first '{' or ';'
        i = m.end(); d = 1
        while i < len(text) and d:
            d += {'(': 1, ')': -1}.get(text[i], 0); i += 1
        j = i
        while j < len(text) and text[j] not in '{;':
            j += 1
        if j >= len(text) or text[j] == ';':
            continue
        k = j + 1; d = 1
        while k < len(text) and d:
            d += {'{': 1, '}': -1}.get(text[k], 0); k += 1
        out.append((m.group(1), j, k))
    return out

# callee key -> regex of the call as written (file-dependent for the local names)
def callee_patterns(stem):
    q = lambda mod: r"(?<![\w:])(?:super::|crate::parser::)?%s::" % mod
    pats = {
        'converter::convert_element': (q('converter') if stem != 'converter' else r"(?<![\w:])") + r"convert_element\(",
        'converter::convert_children': (q('converter') if stem != 'converter' else r"(?<![\w:])") + r"convert_children\(",
        'converter::convert_clip_path_elements': (q('converter') if stem != 'converter' else r"(?<![\w:])") + r"convert_clip_path_elements\(",
        'converter::convert_group': (q('converter') if stem != 'converter' else r"(?<![\w:])") + r"convert_group\(",
        'converter::convert_element_impl': (q('converter') if stem != 'converter' else r"(?<![\w:])") + r"convert_element_impl\(",
        'converter::convert_clip_path_elements_impl': (q('converter') if stem != 'converter' else r"(?<![\w:])") + r"convert_clip_path_elements_impl\(",
        'converter::convert_path': (q('converter') if stem != 'converter' else r"(?<![\w:])") + r"convert_path\(",
        'use_node::convert': q('use_node') + r"convert\(",
        'use_node::convert_svg': (q('use_node') if stem != 'use_node' else r"(?<![\w:])") + r"convert_svg\(",
        'switch::convert': q('switch') + r"convert\(",
        'text::convert': q('text') + r"convert\(",
        'image::convert': q('image') + r"convert\(",
    }
    if stem == 'text':
        del pats['text::convert']       # inside parser/text.rs `text::` is crate::text (layout), not this module
    if stem == 'use_node':
        pats['use_node::convert_children'] = r"(?<![\w:])convert_children\("
        pats['use_node::convert_svg_children'] = r"(?<![\w:])convert_svg_children\("
    return pats

UNGUARDED = {'converter::convert_group', 'converter::convert_element_impl', 'converter::convert_clip_path_elements_impl', 'converter::convert_path',
             'use_node::convert', 'use_node::convert_svg', 'use_node::convert_children', 'use_node::convert_svg_children', 'switch::convert',
             'text::convert', 'image::convert'}
INTERNAL = {'converter::convert_element', 'converter::convert_children', 'converter::convert_clip_path_elements'}

def first_arg(text, i):
    d = 0; j = i
    while j < len(text):
        c = text[j]
        if c in '([{': d += 1
        elif c in ')]}':
            if d == 0: break
            d -= 1
        elif c == ',' and d == 0: break
        j += 1
    return text[i:j].strip()

def sites(api):
    res = []; vis = []
    files = sorted(f for f in os.listdir(os.path.join(os.environ.get('VERIF_REPO', '/repo'), PDIR)) if f.endswith('.rs'))
    for f in files:
        stem = f[:-3]
        text = norm(api.rd(PDIR + '/' + f))
        fl = fns_of(text)
        def encl(p):
            best = None
            for name, a, b in fl:
                if a < p < b and (best is None or a > best[1]):
                    best = (name, a, b)
            return best
        for m in re.finditer(r"\.is_visible_element\(", text):
            e = encl(m.start())
            vis.append('%s::%s' % (stem, e[0] if e else '?'))
        for key, pat in callee_patterns(stem).items():
            for m in re.finditer(pat, text):
                # a definition `fn convert_group(` is not a call
                if re.search(r"\bfn $", text[max(0, m.start() - 3):m.start()]):
                    continue
                e = encl(m.start())
                if e is None:
                    res.append((key, '%s::?' % stem, '?', 'SG_None')); continue
                name, a, b = e
                before = text[a:m.start()]
                subj = first_arg(text, m.end())
                if key.endswith('_impl'):       # (tag_name, node, ..)
                    subj = first_arg(text, m.end() + len(subj) + text[m.end() + len(subj):].index(',') + 1)
                guard = 'SG_None'
                if key in INTERNAL:
                    guard = 'SG_Internal'
                elif re.search(r"if !%s\.is_visible_element\((?:state\.)?opt\) \{ (?:return|continue)\b[^}]*; \}" % re.escape(subj), before):
                    guard = 'SG_VisibleBefore'
                elif subj == 'node' and ('%s::%s' % (stem, name)) in UNGUARDED and re.search(r"\bfn %s\s*(?:<[^>(]*>)?\( (?:tag_name: EId, )?node: SvgNode," % name, text[:a + 1][-600:] + ' ') \
                        and not re.search(r"\blet (?:mut )?node\b|\bfor node in\b|\|node\||\|node,|, node\|", before):
                    guard = 'SG_OwnNode'
                elif subj == 'child' and stem == 'use_node' and name == 'convert' and key == 'use_node::convert_children':
                    ok = re.search(r"let child = match node\.first_child\(\) \{ Some\(v\) => v, None => return, \};", before) and \
                         re.search(r"let linked_to_symbol = child\.tag_name\(\) == Some\(EId::Symbol\);", before)
                    k = before.rfind("if linked_to_symbol {")
                    if ok and k >= 0:
                        d = 0; mn = 1
                        for ch in before[k:]:
                            if ch == '{': d += 1
                            elif ch == '}': d -= 1
                            if d < mn and ch == '}': mn = d
                        if mn >= 1:
                            guard = 'SG_SymbolOfUse'
                res.append((key, '%s::%s' % (stem, name), subj, guard))
    return res, vis


DEFAULTS = {
    'graphic_tags': 'list tag := [T_Circle; T_Ellipse; T_Image; T_Line; T_Path; T_Polygon; T_Polyline; T_Rect; T_Text; T_Use]',
    'structural_tags': 'list tag := [T_G; T_Switch; T_Svg]',
    'elem_dispatch': 'list dispatch_step := [D_TagName; D_GraphicOrStructural; D_Visible; D_Use; D_Switch; D_Group]',
    'clip_dispatch': 'list dispatch_step := [D_TagName; D_GraphicOrStructural; D_Visible; D_Use; D_Group]',
    'impl_shape_tags': 'list tag := [T_Rect; T_Circle; T_Ellipse; T_Line; T_Polyline; T_Polygon; T_Path]',
    'clip_shape_tags': 'list tag := [T_Rect; T_Circle; T_Ellipse; T_Polyline; T_Polygon; T_Path]',
    'visible_tests': 'list vis_test := [V_DisplayNotNone; V_ValidTransform; V_ConditionPassed]',
    'condition_fail_tests': 'list cond_test := [CT_NotElement; CT_HasRequiredExtensions; CT_UnknownFeature; CT_SysLangMismatch]',
    'g_or_use_tags': 'list tag := [T_G; T_Use]',
    'empty_terms': 'list empty_term := [EM_NoChildren; EM_NotGOrUse; EM_NotForce]',
    'required_terms': 'list req_term := [RQ_Opacity; RQ_Clip; RQ_Mask; RQ_Filters; RQ_Transform; RQ_Blend; RQ_Isolate; RQ_GOrUse; RQ_Force]',
    'group_steps': 'list group_step := [GS_EmptyNoFilterAttr; GS_ObjectBBox; GS_EmptyFiltersFirst; GS_Clip; GS_Mask; GS_Filters; GS_NotRequired; GS_EmptyNoFilters; GS_Boxes]',
    'shape_len_checks': 'list (tag * list geom_attr) := [(T_Rect, [GA_Width; GA_Height]); (T_Circle, [GA_R]); (T_Ellipse, [GA_Rx; GA_Ry])]',
    'poly_min_points': 'N := 2%N',
    'gen_prefixes': 'list string := ["linearGradient"; "radialGradient"; "pattern"; "clipPath"; "mask"; "filter"; "image"]',
    'attr_ns_kept': 'list attr_ns := [ANS_None; ANS_Svg; ANS_Xlink; ANS_Xml]',
    'valid_ts_tests': 'list ts_test := [TT_IsValid; TT_DetRelTol]',
    'sys_lang_rules': 'list lang_rule := [LR_Exact; LR_PrefixDash]',
    'filter_facts': 'list filter_fact := [FF_NoBBoxReturnsEarly; FF_GenIdAfterRegionCheck]',
    'call_sites': 'list (string * string * site_guard) := [("converter::convert_clip_path_elements", "clippath::convert", SG_Internal); ("converter::convert_element", "converter::convert_children", SG_Internal); ("converter::convert_children", "converter::convert_doc", SG_Internal); ("converter::convert_children", "converter::convert_doc", SG_Internal); ("converter::convert_children", "converter::convert_element_impl", SG_Internal); ("converter::convert_children", "converter::convert_element_impl", SG_Internal); ("converter::convert_group", "converter::convert_element", SG_VisibleBefore); ("converter::convert_group", "converter::convert_clip_path_elements", SG_VisibleBefore); ("converter::convert_element_impl", "converter::convert_element", SG_VisibleBefore); ("converter::convert_clip_path_elements_impl", "converter::convert_clip_path_elements", SG_VisibleBefore); ("converter::convert_path", "converter::convert_element_impl", SG_OwnNode); ("converter::convert_path", "converter::convert_clip_path_elements_impl", SG_OwnNode); ("use_node::convert", "converter::convert_element", SG_VisibleBefore); ("use_node::convert", "converter::convert_clip_path_elements", SG_VisibleBefore); ("use_node::convert_svg", "converter::convert_element_impl", SG_OwnNode); ("switch::convert", "converter::convert_element", SG_VisibleBefore); ("text::convert", "converter::convert_element_impl", SG_OwnNode); ("text::convert", "converter::convert_clip_path_elements_impl", SG_OwnNode); ("image::convert", "converter::convert_element_impl", SG_OwnNode); ("converter::convert_element", "filter::convert_image_inner", SG_Internal); ("converter::convert_children", "marker::resolve", SG_Internal); ("converter::convert_children", "mask::convert", SG_Internal); ("converter::convert_children", "paint_server::convert_pattern", SG_Internal); ("converter::convert_children", "paint_server::convert_pattern", SG_Internal); ("converter::convert_element", "switch::convert", SG_Internal); ("converter::convert_group", "switch::convert", SG_OwnNode); ("converter::convert_children", "use_node::convert_svg_children", SG_Internal); ("converter::convert_children", "use_node::convert_svg_children", SG_Internal); ("converter::convert_children", "use_node::convert_children", SG_Internal); ("converter::convert_clip_path_elements", "use_node::convert_children", SG_Internal); ("converter::convert_group", "use_node::convert", SG_OwnNode); ("converter::convert_group", "use_node::convert", SG_OwnNode); ("converter::convert_group", "use_node::convert_children", SG_OwnNode); ("use_node::convert_children", "use_node::convert", SG_SymbolOfUse); ("use_node::convert_children", "use_node::convert", SG_SymbolOfUse); ("use_node::convert_children", "use_node::convert", SG_OwnNode); ("use_node::convert_children", "use_node::convert", SG_OwnNode); ("use_node::convert_svg_children", "use_node::convert_svg", SG_OwnNode); ("use_node::convert_svg_children", "use_node::convert_svg", SG_OwnNode)]',
    'visible_test_sites': 'list string := ["converter::convert_doc"; "converter::convert_element"; "converter::convert_clip_path_elements"; "text::collect_text_chunks_impl"]',
    'mask_steps': 'list mask_step := [MS_TagCheck; MS_Recursive; MS_CacheLookup; MS_Rect; MS_UnitsBBox; MS_GenId; MS_MaskAllInsert; MS_Linked; MS_ContentUnitsBBox; MS_Children; MS_Insert]',
    'clip_steps': 'list clip_step := [CS_TagCheck; CS_Recursive; CS_Transform; CS_CacheLookup; CS_UnitsBBox; CS_Linked; CS_GenId; CS_Children; CS_InsertIfChildren]',
    'special_attr_lookups': 'list (special_attr * lookup_kind) := [(SA_Style, LK_NoNamespace); (SA_Id, LK_NoNamespace); (SA_Class, LK_NoNamespace)]',
    'style_element_lookup': 'lookup_kind := LK_SvgNamespace',
    'css_facts': 'list css_fact := [CF_ParentElement; CF_PrevSiblingElement; CF_FirstChildViaPrevSibling; CF_AttrMatchNoNamespace]',
}


def generate(api):
    """Each group of anchors is extracted on its own.  When a group fails, the tables it defines keep the
    values the model was written against (so that the model still evaluates and the check can search for a
    failing input) and the tie is reported broken."""
    defs = {}
    errors = []

    def put(name, typ, value):
        defs[name] = "%s := %s" % (typ, value)

    def group(fn):
        try:
            fn()
        except (Miss, OSError) as e:
            errors.append(str(e))

    src = {}
    try:
        for k, rel in (('conv', CONV), ('sw', SWITCH), ('shp', SHAPES), ('stm', STMOD), ('stp', STPARSE)):
            src[k] = api.rd(rel)
    except OSError as e:
        api.broken('table', 'ConvTables', PROPS, e)
        src = None
    if src is not None:
        extract(api, src, put, group)
    out = [api.HEADER, "From Coq Require Import String List.\nFrom RV Require Import Model.Base Model.ConvBase.\n"
           "Import ListNotations.\nLocal Open Scope string_scope.\n"]
    for name in DEFAULTS:
        if name in defs:
            out.append("Definition %s : %s." % (name, defs[name]))
        else:
            out.append("(* anchor missing: value the model was written against *)\nDefinition %s : %s." % (name, DEFAULTS[name]))
    api.write_gen('ConvTables.v', "\n".join(out) + "\n")
    if errors:
        for e in errors:
            api.broken('table', 'ConvTables', PROPS, e)
    elif src is not None:
        api.ok('tables', 'ConvTables', props=PROPS)


def extract(api, src, put, group):
    conv, sw, shp, stm, stp = src['conv'], src['sw'], src['shp'], src['stm'], src['stp']
    def sec_1():  # is_graphic
        b = body_of(api, stm, 'is_graphic')
        m = need(r"^\{ matches!\( self, ([^)]*)\) \}$", b, "is_graphic = matches!(self, ..)")
        put('graphic_tags', 'list tag', "%s" % coq_list(tags_of(m.group(1), 'is_graphic')))

    group(sec_1)

    def sec_2():  # convert_element
        b = body_of(api, conv, 'convert_element')
        steps = [
            ('D_TagName', need(r"let tag_name = match node\.tag_name\(\) \{ Some\(v\) => v, None => return, \};", b,
                               "convert_element: tag_name / return")),
            ('D_GraphicOrStructural', need(r"if !tag_name\.is_graphic\(\) && !matches!\(tag_name, ([^)]*)\) \{ return; \}", b,
                                           "convert_element: graphic-or-structural test")),
            ('D_Visible', need(r"if !node\.is_visible_element\(state\.opt\) \{ return; \}", b, "convert_element: visibility test")),
            ('D_Use', need(r"if tag_name == EId::Use \{ super::use_node::convert\(node, state, cache, parent\); return; \}", b,
                           "convert_element: use dispatch")),
            ('D_Switch', need(r"if tag_name == EId::Switch \{ super::switch::convert\(node, state, cache, parent\); return; \}", b,
                              "convert_element: switch dispatch")),
            ('D_Group', need(r"if let Some\(g\) = convert_group\(node, state, false, cache, parent, &\|cache, g\| \{ "
                             r"convert_element_impl\(tag_name, node, state, cache, g\); \}\) \{ "
                             r"parent\.children\.push\(Node::Group\(Box::new\(g\)\)\); \}", b, "convert_element: group conversion")),
        ]
        put('structural_tags', 'list tag', "%s" % coq_list(tags_of(steps[1][1].group(1), 'convert_element')))
        put('elem_dispatch', 'list dispatch_step', "%s" % coq_list(ordered(steps, 'convert_element')))
        if len(re.findall(r"\breturn\b", b)) != 5:
            raise Miss("convert_element: expected exactly 5 return statements")

    group(sec_2)

    def sec_3():  # convert_clip_path_elements
        b = body_of(api, conv, 'convert_clip_path_elements')
        need(r"^\{ for node in clip_node\.children\(\) \{", b, "convert_clip_path_elements: loop over children")
        steps = [
            ('D_TagName', need(r"let tag_name = match node\.tag_name\(\) \{ Some\(v\) => v, None => continue, \};", b,
                               "clip elements: tag_name / continue")),
            ('D_GraphicOrStructural', need(r"if !tag_name\.is_graphic\(\) \{ continue; \}", b, "clip elements: graphic test")),
            ('D_Visible', need(r"if !node\.is_visible_element\(state\.opt\) \{ continue; \}", b, "clip elements: visibility test")),
            ('D_Use', need(r"if tag_name == EId::Use \{ super::use_node::convert\(node, state, cache, parent\); continue; \}", b,
                           "clip elements: use dispatch")),
            ('D_Group', need(r"if let Some\(g\) = convert_group\(node, state, false, cache, parent, &\|cache, g\| \{ "
                             r"convert_clip_path_elements_impl\(tag_name, node, state, cache, g\); \}\) \{ "
                             r"parent\.children\.push\(Node::Group\(Box::new\(g\)\)\); \}", b, "clip elements: group conversion")),
        ]
        put('clip_dispatch', 'list dispatch_step', "%s" % coq_list(ordered(steps, 'clip elements')))
        if len(re.findall(r"\bcontinue\b", b)) != 4 or re.search(r"\breturn\b|\bbreak\b", b):
            raise Miss("convert_clip_path_elements: unexpected control flow")

    group(sec_3)

    def sec_4():  # convert_children
        b = body_of(api, conv, 'convert_children')
        need(r"^\{ for node in parent_node\.children\(\) \{ convert_element\(node, state, cache, parent\); \} \}$", b,
             "convert_children = for node in children { convert_element }")

    group(sec_4)

    def sec_5():  # convert_element_impl / convert_clip_path_elements_impl
        b = body_of(api, conv, 'convert_element_impl')
        m = need(r"^\{ match tag_name \{ ((?:EId::\w+ \| )*EId::\w+) => \{ if let Some\(path\) = super::shapes::convert\(node, state\) "
                 r"\{ convert_path\(node, path, state, cache, parent\); \} \} "
                 r"EId::Image => \{ super::image::convert\(node, state, cache, parent\); \} "
                 r"EId::Text => \{ \{ super::text::convert\(node, state, cache, parent\); \} \} "
                 r"EId::Svg => \{ if node\.parent_element\(\)\.is_some\(\) \{ super::use_node::convert_svg\(node, state, cache, parent\); \} "
                 r"else \{ convert_children\(node, state, cache, parent\); \} \} "
                 r"EId::G => \{ convert_children\(node, state, cache, parent\); \} _ => \{\} \} \}$", b,
                 "convert_element_impl arms")
        put('impl_shape_tags', 'list tag', "%s" % coq_list(tags_of(m.group(1), 'convert_element_impl')))
        b = body_of(api, conv, 'convert_clip_path_elements_impl')
        m = need(r"^\{ match tag_name \{ ((?:EId::\w+ \| )*EId::\w+) => \{ if let Some\(path\) = super::shapes::convert\(node, state\) "
                 r"\{ convert_path\(node, path, state, cache, parent\); \} \} "
                 r"EId::Text => \{ \{ super::text::convert\(node, state, cache, parent\); \} \} _ => \{ log::warn!\([^;]*\); \} \} \}$", b,
                 "convert_clip_path_elements_impl arms")
        put('clip_shape_tags', 'list tag', "%s" % coq_list(tags_of(m.group(1), 'convert_clip_path_elements_impl')))

    group(sec_5)

    def sec_6():  # is_visible_element
        b = body_of(api, conv, 'is_visible_element')
        m = need(r"^\{ (.*) \}$", b, "is_visible_element body")
        vis = []
        for c in m.group(1).split(' && '):
            c = c.strip()
            if c == 'self.attribute(AId::Display) != Some("none")':
                vis.append('V_DisplayNotNone')
            elif c == 'self.has_valid_transform(AId::Transform)':
                vis.append('V_ValidTransform')
            elif c == 'super::switch::is_condition_passed(*self, opt)':
                vis.append('V_ConditionPassed')
            else:
                raise Miss("is_visible_element: unknown conjunct %r" % c)
        put('visible_tests', 'list vis_test', "%s" % coq_list(vis))

    group(sec_6)

    def sec_7():  # is_condition_passed
        b = body_of(api, sw, 'is_condition_passed')
        tests = [
            ('CT_NotElement', need(r"if !node\.is_element\(\) \{ return false; \}", b, "is_condition_passed: element test")),
            ('CT_HasRequiredExtensions', need(r"if node\.has_attribute\(AId::RequiredExtensions\) \{ return false; \}", b,
                                              "is_condition_passed: requiredExtensions")),
            ('CT_UnknownFeature', need(r"if let Some\(features\) = node\.attribute::<&str>\(AId::RequiredFeatures\) \{ "
                                       r"for feature in features\.split\(' '\) \{ if !FEATURES\.contains\(&feature\) \{ return false; \} \} \}",
                                       b, "is_condition_passed: requiredFeatures")),
            ('CT_SysLangMismatch', need(r"if !is_valid_sys_lang\(node, opt\) \{ return false; \}", b, "is_condition_passed: systemLanguage")),
        ]
        need(r"\} true \}$", b, "is_condition_passed: final true")
        if len(re.findall(r"\breturn\b", b)) != 4:
            raise Miss("is_condition_passed: expected exactly 4 return statements")
        put('condition_fail_tests', 'list cond_test', "%s" % coq_list(ordered(tests, 'cond')))
        # switch::convert picks the first child that passes
        b = body_of(api, sw, 'convert')
        need(r"let child = node \.children\(\) \.find\(\|n\| is_condition_passed\(\*n, state\.opt\)\)\?;", b, "switch::convert: first passing child")
        need(r"converter::convert_group\(node, state, false, cache, parent, &\|cache, g\| \{ converter::convert_element\(child, state, cache, g\); \}\)",
             b, "switch::convert: group around the chosen child")

    group(sec_7)

    def sec_8():  # convert_group
        b = body_of(api, conv, 'convert_group')
        m = need(r"let is_g_or_use = matches!\(node\.tag_name\(\), ([^)]*\)(?: \| Some\(EId::\w+\))*)\);", b, "convert_group: is_g_or_use")
        put('g_or_use_tags', 'list tag', "%s" % coq_list(tags_of(m.group(1), 'is_g_or_use')))
        need(r"let opacity = if state\.parent_clip_path\.is_none\(\) \{ node\.attribute::<Opacity>\(AId::Opacity\) \.unwrap_or\(Opacity::ONE\) \} "
             r"else \{ Opacity::ONE \};", b, "convert_group: opacity (ONE inside clipPath)")
        need(r"let id = if is_g_or_use && state\.parent_markers\.is_empty\(\) \{ node\.element_id\(\)\.to_string\(\) \} else \{ String::new\(\) \};",
             b, "convert_group: id rule")
        m = need(r"let is_empty = ([^;]*);", b, "convert_group: is_empty")
        em = []
        for c in m.group(1).split(' && '):
            c = c.strip()
            k = {'g.children.is_empty()': 'EM_NoChildren', '!is_g_or_use': 'EM_NotGOrUse', '!force': 'EM_NotForce'}.get(c)
            if k is None:
                raise Miss("convert_group: unknown is_empty conjunct %r" % c)
            em.append(k)
        put('empty_terms', 'list empty_term', "%s" % coq_list(em))
        m = need(r"let required = ([^;]*);", b, "convert_group: required")
        rq = []
        RQ = {'opacity.get().approx_ne_ulps(&1.0, 4)': 'RQ_Opacity', 'clip_path.is_some()': 'RQ_Clip', 'mask.is_some()': 'RQ_Mask',
              '!filters.is_empty()': 'RQ_Filters', '!transform.is_identity()': 'RQ_Transform', 'blend_mode != BlendMode::Normal': 'RQ_Blend',
              'isolate': 'RQ_Isolate', 'is_g_or_use': 'RQ_GOrUse', 'force': 'RQ_Force'}
        for c in m.group(1).split(' || '):
            c = c.strip()
            if c not in RQ:
                raise Miss("convert_group: unknown `required` disjunct %r" % c)
            rq.append(RQ[c])
        put('required_terms', 'list req_term', "%s" % coq_list(rq))
        gsteps = [
            ('GS_Collect', need(r"collect_children\(cache, &mut g\);", b, "convert_group: collect_children")),
            ('GS_EmptyNoFilterAttr', need(r"if is_empty && !node\.has_attribute\(AId::Filter\) \{ return None; \}", b,
                                          "convert_group: empty element without filter attribute")),
            ('GS_ObjectBBox', need(r"let object_bbox = g\.calculate_object_bbox\(\);", b, "convert_group: object bbox")),
            ('GS_Clip', need(r"let mut clip_path = None; if let Some\(link\) = node\.attribute::<SvgNode>\(AId::ClipPath\) \{ "
                             r"clip_path = super::clippath::convert\(link, state, object_bbox, cache\); "
                             r"if clip_path\.is_none\(\) \{ return None; \} \}", b, "convert_group: clip-path")),
            ('GS_Mask', need(r"let mut mask = None; if state\.parent_clip_path\.is_none\(\) \{ "
                             r"if let Some\(link\) = node\.attribute::<SvgNode>\(AId::Mask\) \{ "
                             r"mask = super::mask::convert\(link, state, object_bbox, cache\); "
                             r"if mask\.is_none\(\) \{ return None; \} \} \}", b, "convert_group: mask")),
            ('GS_EmptyFiltersFirst', need(r"let mut empty_filters = None; if is_empty \{ let filters = convert_group_filters\(node, state, object_bbox, cache\)\?; "
                                          r"if filters\.is_empty\(\) \{ return None; \} empty_filters = Some\(filters\); \}", b,
                                          "convert_group: an empty element resolves its filters first (dd154cd)")),
            ('GS_Filters', need(r"let filters = match empty_filters \{ Some\(filters\) => filters, "
                                r"None => convert_group_filters\(node, state, object_bbox, cache\)\?, \};", b, "convert_group: filters")),
            ('GS_NotRequired', need(r"if !required \{ parent\.children\.append\(&mut g\.children\); return None; \}", b,
                                    "convert_group: not required -> children go to the parent")),
            ('GS_EmptyNoFilters', need(r"if is_empty && filters\.is_empty\(\) \{ return None; \}", b,
                                       "convert_group: empty element without filters")),
            ('GS_Boxes', need(r"g\.calculate_bounding_boxes\(\); Some\(g\) \}$", b, "convert_group: boxes, Some(g)")),
        ]
        order = ordered(gsteps, 'convert_group')
        if order[0] != 'GS_Collect':
            raise Miss("convert_group: something exits before the children are collected")
        put('group_steps', 'list group_step', "%s" % coq_list(order[1:]))
        if len(re.findall(r"\breturn\b", b)) != 6 or len(re.findall(r"\)\?", b)) != 2:
            raise Miss("convert_group: expected exactly 6 return statements and 2 `?` exits, found %d / %d"
                       % (len(re.findall(r"\breturn\b", b)), len(re.findall(r"\)\?", b))))
        fb = body_of(api, conv, 'convert_group_filters')
        need(r"^\{ let mut filters = Vec::new\(\); if state\.parent_clip_path\.is_none\(\) \{ "
             r"if node\.attribute\(AId::Filter\) == Some\(\"none\"\) \{ \} else if node\.has_attribute\(AId::Filter\) \{ "
             r"if let Ok\(f\) = super::filter::convert\(node, state, object_bbox, cache\) \{ filters = f; \} "
             r"else \{ return None; \} \} \} Some\(filters\) \}$", fb, "convert_group_filters (Model/Converter.v group_filters)")
        need(r"let abs_transform = parent\.abs_transform\.pre_concat\(transform\);", b, "convert_group: abs_transform")

    group(sec_8)

    def sec_9():  # shapes.rs
        b = body_of(api, shp, 'convert')
        need(r"EId::Rect => convert_rect\(node, state\), EId::Circle => convert_circle\(node, state\), "
             r"EId::Ellipse => convert_ellipse\(node, state\), EId::Line => convert_line\(node, state\), "
             r"EId::Polyline => convert_polyline\(node\), EId::Polygon => convert_polygon\(node\), "
             r"EId::Path => convert_path\(node\), _ => None,", b, "shapes::convert dispatch")
        checks = []
        GA = {'width': 'GA_Width', 'height': 'GA_Height', 'r': 'GA_R', 'rx': 'GA_Rx', 'ry': 'GA_Ry'}
        for tagname, fn in (('T_Rect', 'convert_rect'), ('T_Circle', 'convert_circle'), ('T_Ellipse', 'convert_ellipse')):
            fb = body_of(api, shp, fn)
            vs = re.findall(r"if !(\w+)\.is_valid_length\(\) \{ log::warn!\([^;]*\); return None; \}", fb)
            if len(vs) != len(re.findall(r"is_valid_length", fb)) or any(v not in GA for v in vs):
                raise Miss("%s: unexpected is_valid_length use" % fn)
            checks.append("(%s, %s)" % (tagname, coq_list([GA[v] for v in vs])))
        put('shape_len_checks', 'list (tag * list geom_attr)', "%s" % coq_list(checks))
        fb = body_of(api, shp, 'points_to_path')
        m = need(r"if builder\.len\(\) < (\d+) \{ log::warn!\([^;]*\); return None; \}", fb, "points_to_path: minimum number of points")
        put('poly_min_points', 'N', "%s%%N" % m.group(1))
        need(r"fn is_valid_length\(&self\) -> bool \{\s*\*self > 0\.0 && self\.is_finite\(\)\s*\}", api.rd('crates/usvg/src/tree/geom.rs'),
             "IsValidLength for f32")

    group(sec_9)

    def sec_10():  # Cache::gen_*_id and the id pre-scan
        cn = norm(conv)
        gens = re.findall(r"pub\(crate\) fn gen_(\w+)_id\(&mut self\) -> NonEmptyString \{ loop \{ self\.(\w+)_index \+= 1; "
                          r"let new_id = format!\(\"(\w+)\{\}\", self\.(\w+)_index\); let new_hash = string_hash\(&new_id\); "
                          r"if !self\.all_ids\.contains\(&new_hash\) \{ return NonEmptyString::new\(new_id\)\.unwrap\(\); \} \} \}", cn)
        if len(gens) != len(re.findall(r"fn gen_\w+_id", cn)) or len(gens) < 7 or any(g[0] != g[1] or g[1] != g[3] for g in gens):
            raise Miss("Cache::gen_*_id: %d generators match the loop shape out of %d" % (len(gens), len(re.findall(r'fn gen_\w+_id', cn))))
        put('gen_prefixes', 'list string', "%s" % coq_list(['"%s"' % g[2] for g in gens]))
        m1 = need(r"for node in svg_doc\.descendants\(\) \{ if !node\.element_id\(\)\.is_empty\(\) \{ "
                  r"cache\.all_ids\.insert\(string_hash\(node\.element_id\(\)\)\); \} \}", cn, "convert_doc: id pre-scan")
        m2 = need(r"convert_children\(svg_doc\.root\(\), &state, &mut cache,", cn, "convert_doc: convert_children(root)")
        if m1.start() > m2.start():
            raise Miss("convert_doc: the id pre-scan no longer precedes the conversion")
        if len(re.findall(r"all_ids\.insert", cn)) != 1:
            raise Miss("all_ids is modified in more than one place")

    group(sec_10)

    def sec_11():  # svgtree: what enters the tree
        b = body_of(api, stp, 'parse_tag_name')
        need(r"^\{ if !node\.is_element\(\) \{ return None; \} if node\.tag_name\(\)\.namespace\(\) != Some\(SVG_NS\) \{ return None; \} "
             r"EId::from_str\(node\.tag_name\(\)\.name\(\)\) \}$", b, "parse_tag_name")
        b = body_of(api, stp, 'parse_xml_node')
        a1 = need(r"let mut tag_name = match parse_tag_name\(node\) \{ Some\(id\) => id, None => return Ok\(\(\)\), \};", b,
                  "parse_xml_node: unknown elements are skipped")
        a2 = need(r"if tag_name == EId::Style \{ return Ok\(\(\)\); \}", b, "parse_xml_node: style elements are skipped")
        a3 = need(r"let node_id = parse_svg_element\(", b, "parse_xml_node: parse_svg_element")
        if not (a1.start() < a2.start() < a3.start()):
            raise Miss("parse_xml_node: order of the element filters changed")
        b = body_of(api, stp, 'parse_svg_element')
        m = need(r"for attr in xml_node\.attributes\(\) \{ match attr\.namespace\(\) \{ ([^=]*) => \{\} _ => continue, \} "
                 r"let aid = match AId::from_str\(attr\.name\(\)\) \{ Some\(v\) => v, None => continue, \};", b,
                 "parse_svg_element: attribute namespace / name filter")
        NSM = {'None': 'ANS_None', 'Some(SVG_NS)': 'ANS_Svg', 'Some(XLINK_NS)': 'ANS_Xlink', 'Some(XML_NAMESPACE_NS)': 'ANS_Xml'}
        ns = []
        for c in m.group(1).split(' | '):
            c = c.strip()
            if c not in NSM:
                raise Miss("parse_svg_element: unknown attribute namespace %r" % c)
            ns.append(NSM[c])
        put('attr_ns_kept', 'list attr_ns', "%s" % coq_list(ns))

    group(sec_11)

    def sec_special():  # special attribute / element lookups and the CSS element adapter
        lk = []
        b = body_of(api, stp, 'parse_svg_element')
        if re.search(r"if let Some\(value\) = xml_node\.attribute\(\"style\"\) \{", b):
            lk.append('(SA_Style, LK_NoNamespace)')
        elif re.search(r"xml_node\.attributes\(\)\.find\(\|a\| a\.name\(\) == \"style\"\)", b):
            lk.append('(SA_Style, LK_LocalNameOnly)')
        else:
            raise Miss("parse_svg_element: lookup of the `style` attribute")
        if len(re.findall(r"\"style\"", b)) != 1:
            raise Miss("parse_svg_element: `style` is mentioned more than once")
        b = body_of(api, stp, 'parse')
        if re.search(r"for node in xml\.descendants\(\) \{ if let Some\(id\) = node\.attribute\(\"id\"\) \{", b):
            lk.append('(SA_Id, LK_NoNamespace)')
        elif re.search(r"a\.name\(\) == \"id\"", b):
            lk.append('(SA_Id, LK_LocalNameOnly)')
        else:
            raise Miss("parse: lookup of the `id` attribute for the link map")
        sn = norm(stp)
        m = need(r"fn attribute_matches\(&self, local_name: &str, operator: simplecss::AttributeOperator\) -> bool \{ "
                 r"match (self\.0\.attribute\(local_name\)|[^{]*) \{ Some\(value\) => operator\.matches\(value\), None => false, \} \}", sn,
                 "XmlNode::attribute_matches")
        if m.group(1) == 'self.0.attribute(local_name)':
            lk.append('(SA_Class, LK_NoNamespace)')
        else:
            lk.append('(SA_Class, LK_LocalNameOnly)')
        put('special_attr_lookups', 'list (special_attr * lookup_kind)', coq_list(lk))
        b = body_of(api, stp, 'resolve_css')
        if re.search(r"xml\.descendants\(\)\.filter\(\|n\| n\.has_tag_name\(\"style\"\)\)", b):
            put('style_element_lookup', 'lookup_kind', 'LK_LocalNameOnly')
        elif re.search(r"n\.has_tag_name\(\(SVG_NS, \"style\"\)\)", b):
            put('style_element_lookup', 'lookup_kind', 'LK_SvgNamespace')
        else:
            raise Miss("resolve_css: lookup of `style` elements")
        facts = []
        if re.search(r"fn parent_element\(&self\) -> Option<Self> \{ self\.0\.parent_element\(\)\.map\(XmlNode\) \}", sn):
            facts.append('CF_ParentElement')
        if re.search(r"fn prev_sibling_element\(&self\) -> Option<Self> \{ self\.0\.prev_sibling_element\(\)\.map\(XmlNode\) \}", sn):
            facts.append('CF_PrevSiblingElement')
        if re.search(r"simplecss::PseudoClass::FirstChild => self\.prev_sibling_element\(\)\.is_none\(\), _ => false,", sn):
            facts.append('CF_FirstChildViaPrevSibling')
        if m.group(1) == 'self.0.attribute(local_name)':
            facts.append('CF_AttrMatchNoNamespace')
        put('css_facts', 'list css_fact', coq_list(facts))
        if len(facts) != 4:
            raise Miss("simplecss::Element for XmlNode: %d of 4 facts found (%s)" % (len(facts), ', '.join(facts)))
    group(sec_special)

    def sec_valid_ts():  # has_valid_transform
        b = body_of(api, conv, 'has_valid_transform')
        need(r"let attr = match self\.attribute\(aid\) \{ Some\(attr\) => attr, None => return true, \}; "
             r"let ts = match svgtypes::Transform::from_str\(attr\) \{ Ok\(v\) => v, Err\(_\) => return true, \};", b,
             "has_valid_transform: absent / unparsable attribute is valid")
        m = need(r"\); (?:let ad = ts\.sx as f64 \* ts\.sy as f64; let bc = ts\.kx as f64 \* ts\.ky as f64; )?([^;{}]*) \}$", b,
                 "has_valid_transform: final test")
        tests = []
        for c in m.group(1).split(' && '):
            c = c.strip()
            if c == 'ts.is_valid()':
                tests.append('TT_IsValid')
            elif c == '(ad - bc).abs() > f32::EPSILON as f64 * (ad.abs() + bc.abs())':
                if 'let ad = ts.sx as f64 * ts.sy as f64; let bc = ts.kx as f64 * ts.ky as f64;' not in b:
                    raise Miss("has_valid_transform: ad / bc are not the determinant terms")
                tests.append('TT_DetRelTol')
            else:
                raise Miss("has_valid_transform: unknown conjunct %r" % c)
        put('valid_ts_tests', 'list ts_test', coq_list(tests))
    group(sec_valid_ts)

    def sec_filter_func():  # filter functions on elements without a bounding box
        ft = norm(api.rd('crates/usvg/src/parser/filter.rs'))
        m = need(r"let create_base_filter_func = \|kind, filters: &mut Vec<Arc<Filter>>, cache: &mut converter::Cache\| \{(.*?)\n?\}; ", ft + ' ',
                 "filter.rs: create_base_filter_func closure") if False else None
        i = ft.find("let create_base_filter_func =")
        j = ft.find("for func in", i)
        if i < 0 or j < 0:
            raise Miss("filter.rs: create_base_filter_func closure")
        body = ft[i:j]
        facts = []
        a = re.search(r"let object_bbox = match object_bbox \{ Some\(v\) => v, None => \{ log::warn!\([^;]*\); return; \} \};", body)
        g = [x.start() for x in re.finditer(r"cache\.gen_filter_id\(\)", body)]
        r_ = re.search(r"rect = match crate::checked_bbox_transform\(rect, object_bbox\) \{ Some\(v\) => v, None => \{ log::warn!\([^;]*\); return; \} \};", body)
        if a:
            facts.append('FF_NoBBoxReturnsEarly')
        if a and r_ and len(g) == 1 and g[0] > a.end() and g[0] > r_.end():
            facts.append('FF_GenIdAfterRegionCheck')
        put('filter_facts', 'list filter_fact', coq_list(facts))
        if len(facts) != 2:
            raise Miss("filter.rs create_base_filter_func: the filter id is generated before the bounding box / region checks (%s)" % ', '.join(facts))
    group(sec_filter_func)

    def sec_mask_clip():  # mask.rs / clippath.rs `convert`: order of the steps that return, read or write the cache
        mk = api.rd('crates/usvg/src/parser/mask.rs')
        b = body_of(api, mk, 'convert')
        ms = [
            ('MS_TagCheck', need(r"if node\.tag_name\(\) != Some\(EId::Mask\) \{ return None; \}", b, "mask::convert: tag check")),
            ('MS_Recursive', need(r"if state\.parent_defs\.contains\(&node\) \{ log::warn!\([^;]*\); return None; \}", b, "mask::convert: recursion check")),
            ('MS_CacheLookup', need(r"let cacheable = is_cacheable\(node\); if cacheable \{ if let Some\(mask\) = cache\.masks\.get\(node\.element_id\(\)\) "
                                    r"\{ return Some\(mask\.clone\(\)\); \} \}", b, "mask::convert: cache lookup")),
            ('MS_Rect', need(r"let mut rect = rect\.log_none\([^;]*\)\?;", b, "mask::convert: rect")),
            ('MS_UnitsBBox', need(r"let mut mask_all = false; if units == Units::ObjectBoundingBox \{ if let Some\(bbox\) = object_bbox \{ "
                                  r"rect = crate::checked_bbox_transform\(rect, bbox\)\.log_none\([^;]*\)\?; \} else \{ mask_all = true; \} \}", b,
                                  "mask::convert: objectBoundingBox units / mask_all")),
            ('MS_GenId', need(r"let mut id = NonEmptyString::new\(node\.element_id\(\)\.to_string\(\)\)\?; "
                              r"if !cacheable && cache\.masks\.contains_key\(id\.get\(\)\) \{ id = cache\.gen_mask_id\(\); \}", b, "mask::convert: generated id")),
            ('MS_MaskAllInsert', need(r"if mask_all \{ let mask = Arc::new\(Mask \{[^}]*root: Group::empty\(\), \}\); "
                                      r"cache\.masks\.insert\(id_copy, mask\.clone\(\)\); return Some\(mask\); \}", b, "mask::convert: mask_all insert")),
            ('MS_Linked', need(r"if let Some\(link\) = node\.attribute::<SvgNode>\(AId::Mask\) \{ mask = convert\(link, state, object_bbox, cache\); "
                               r"if mask\.is_none\(\) \{ return None; \} \}", b, "mask::convert: linked mask")),
            ('MS_ContentUnitsBBox', need(r"if content_units == Units::ObjectBoundingBox \{ let object_bbox = match object_bbox \{ Some\(v\) => v, "
                                         r"None => \{ log::warn!\([^;]*\); return None; \} \};", b, "mask::convert: content units")),
            ('MS_Children', need(r"converter::convert_children\(node, state, cache, real_root\); if !real_root\.has_children\(\) \{ return None; \}", b,
                                 "mask::convert: children")),
            ('MS_Insert', need(r"let mask = Arc::new\(mask\); cache\.masks\.insert\(id_copy, mask\.clone\(\)\); Some\(mask\) \}$", b, "mask::convert: insert")),
        ]
        put('mask_steps', 'list mask_step', coq_list(ordered(ms, 'mask::convert')))
        if len(re.findall(r"cache\.masks\.insert", b)) != 2 or len(re.findall(r"gen_mask_id", b)) != 1:
            raise Miss("mask::convert: expected 2 cache.masks.insert sites and 1 gen_mask_id site")
        need(r"chain\.iter\(\)\.all\(\|n\| \{ n\.attribute\(AId::MaskUnits\) == Some\(Units::UserSpaceOnUse\) && "
             r"n\.attribute\(AId::MaskContentUnits\) != Some\(Units::ObjectBoundingBox\) \}\)", body_of(api, mk, 'is_cacheable'), "mask.rs is_cacheable")
        cp = api.rd('crates/usvg/src/parser/clippath.rs')
        b = body_of(api, cp, 'convert')
        cs = [
            ('CS_TagCheck', need(r"if node\.tag_name\(\) != Some\(EId::ClipPath\) \{ return None; \}", b, "clippath::convert: tag check")),
            ('CS_Recursive', need(r"if state\.parent_defs\.contains\(&node\) \{ log::warn!\([^;]*\); return None; \}", b, "clippath::convert: recursion check")),
            ('CS_Transform', need(r"let mut transform = resolve_clip_path_transform\(node, state\)\?;", b, "clippath::convert: transform")),
            ('CS_CacheLookup', need(r"let cacheable = is_cacheable\(node\); if cacheable \{ if let Some\(clip\) = cache\.clip_paths\.get\(node\.element_id\(\)\) "
                                    r"\{ return Some\(clip\.clone\(\)\); \} \}", b, "clippath::convert: cache lookup")),
            ('CS_UnitsBBox', need(r"if units == Units::ObjectBoundingBox \{ let object_bbox = match object_bbox \{ Some\(v\) => v, "
                                  r"None => \{ log::warn!\([^;]*\); return None; \} \};", b, "clippath::convert: objectBoundingBox units")),
            ('CS_Linked', need(r"if let Some\(link\) = node\.attribute::<SvgNode>\(AId::ClipPath\) \{ clip_path = convert\(link, &clip_state, object_bbox, cache\); "
                               r"if clip_path\.is_none\(\) \{ return None; \} \}", b, "clippath::convert: linked clip path")),
            ('CS_GenId', need(r"let mut id = NonEmptyString::new\(node\.element_id\(\)\.to_string\(\)\)\?; "
                              r"if !cacheable && cache\.clip_paths\.contains_key\(id\.get\(\)\) \{ id = cache\.gen_clip_path_id\(\); \}", b,
                              "clippath::convert: generated id")),
            ('CS_Children', need(r"converter::convert_clip_path_elements\(node, &clip_state, cache, &mut clip\.root\);", b, "clippath::convert: children")),
            ('CS_InsertIfChildren', need(r"if clip\.root\.has_children\(\) \{ clip\.root\.calculate_bounding_boxes\(\); let clip = Arc::new\(clip\); "
                                         r"cache\.clip_paths\.insert\(id_copy, clip\.clone\(\)\); Some\(clip\) \} else \{ None \} \}$", b,
                                         "clippath::convert: insert when it has children")),
        ]
        put('clip_steps', 'list clip_step', coq_list(ordered(cs, 'clippath::convert')))
        if len(re.findall(r"cache\.clip_paths\.insert", b)) != 1 or len(re.findall(r"gen_clip_path_id", b)) != 1:
            raise Miss("clippath::convert: expected 1 cache.clip_paths.insert site and 1 gen_clip_path_id site")
        need(r"chain \.iter\(\) \.all\(\|n\| n\.attribute\(AId::ClipPathUnits\) != Some\(Units::ObjectBoundingBox\)\)", body_of(api, cp, 'is_cacheable'),
             "clippath.rs is_cacheable")
    group(sec_mask_clip)

    def sec_sites():  # every call site of a function that converts an element, with its guard
        res, vis = sites(api)
        if not res:
            raise Miss("call sites: none found")
        put('call_sites', 'list (string * string * site_guard)',
            coq_list(['("%s", "%s", %s)' % (k, e, g) for k, e, _, g in res]))
        put('visible_test_sites', 'list string', coq_list(['"%s"' % v for v in vis]))
        bad = [(k, e, sj) for k, e, sj, g in res if g == 'SG_None']
        if bad:
            raise Miss("unguarded route to content conversion: %s" % "; ".join("%s called in %s on `%s`" % b for b in bad))
    group(sec_sites)

    def sec_sys_lang():  # is_valid_sys_lang
        b = body_of(api, sw, 'is_valid_sys_lang')
        need(r"if let Some\(langs\) = node\.attribute::<&str>\(AId::SystemLanguage\) \{ let mut has_match = false; "
             r"for lang in langs\.split\(','\) \{ let lang = lang\.trim\(\);", b, "is_valid_sys_lang: comma list, trimmed entries")
        need(r"has_match \} else \{ true \} \}$", b, "is_valid_sys_lang: result")
        found = [
            ('LR_Exact', re.search(r"if opt\.languages\.iter\(\)\.any\(\|v\| v == lang\) \{ has_match = true; break; \}", b)),
            ('LR_PrefixDash', re.search(r"if let Some\(idx\) = lang\.bytes\(\)\.position\(\|c\| c == b'-'\) \{ let lang_prefix = &lang\[\.\.idx\]; "
                                        r"if opt\.languages\.iter\(\)\.any\(\|v\| v == lang_prefix\) \{ has_match = true; break; \} \}", b)),
            ('LR_StartsWith', re.search(r"if opt\.languages\.iter\(\)\.any\(\|v\| lang\.starts_with\(v(?:\.as_str\(\))?\)\) \{ has_match = true; break; \}", b)),
        ]
        rules = [n for n, m in sorted([(n, m) for n, m in found if m], key=lambda x: x[1].start())]
        if len(re.findall(r"has_match = true", b)) != len(rules) or not rules:
            raise Miss("is_valid_sys_lang: %d `has_match = true` sites, %d recognised rules" % (len(re.findall(r'has_match = true', b)), len(rules)))
        put('sys_lang_rules', 'list lang_rule', coq_list(rules))
    group(sec_sys_lang)
