"""Plug-in (extension round 4, C13 / C14): source-derived Coq for the *positions* filter primitives compute from the
layer-local transform and the filter region (crates/resvg/src/filter/mod.rs, turbulence.rs), and a shape check of the
paint render_group composites a layer with.

Generates coq/Gen/LeafFilterPos.v with

  turb_offset        region t          : Q * Q   the first two arguments of `turbulence::apply(` in apply_turbulence
  turb_sample        x y ox oy sx sy   : Q * Q   `let (tx, ty) = ((x as f64 + offset_x) / sx, (y as f64 + offset_y) / sy);`
  point_light_xy     lx ly region t    : Q * Q   PointLight arm of transform_light_source (x, y)
  spot_light_xy      lx ly region t    : Q * Q   SpotLight arm, light.x / light.y
  spot_points_at_xy  px py region t    : Q * Q   SpotLight arm, points_at_x / points_at_y
  filter_canvas_draw_pos               : Z * Z   where apply_to_canvas draws the filter result on the layer

f32 / f64 arithmetic is idealised to Q (as everywhere in the render geometry model); `ts.map_point` is map_x / map_y of
Model/Base.v.  The z components and `sz` are not translated (sqrt): the plug-in only requires that they mention nothing
but the linear part of ts (a broken tie otherwise).  A statement outside the subset / a missing anchor = broken tie.
"""
import re

PROPS = ['C13']
FREL = 'crates/resvg/src/filter/mod.rs'
TREL = 'crates/resvg/src/filter/turbulence.rs'
RREL = 'crates/resvg/src/render.rs'


def strip_comments(s):
    return re.sub(r"//[^\n]*", "", s)


def balanced(src, i, open_c, close_c):
    depth = 0
    j = i
    while j < len(src):
        if src[j] == open_c:
            depth += 1
        elif src[j] == close_c:
            depth -= 1
            if depth == 0:
                return j + 1
        j += 1
    raise ValueError("unbalanced")


def split_args(s):
    out, depth, cur = [], 0, ''
    for c in s:
        if c in '([{':
            depth += 1
        elif c in ')]}':
            depth -= 1
        if c == ',' and depth == 0:
            out.append(cur.strip())
            cur = ''
        else:
            cur += c
    if cur.strip():
        out.append(cur.strip())
    return out


def generate(api):
    rs = api.rs2coq
    U = api.Unsupported

    def parse_expr(text):
        ast = rs.Parser(rs.tokenize("{ %s }" % text)).block()
        if ast[1] or ast[2] is None:
            raise U("not a single expression: %s" % text)
        return ast[2]

    TS_FIELDS = {'sx': 't_sx', 'ky': 't_ky', 'kx': 't_kx', 'sy': 't_sy', 'tx': 't_tx', 'ty': 't_ty'}
    REGION_M = {'x': 'ix', 'y': 'iy', 'width': 'iw', 'height': 'ih', 'left': 'ix', 'top': 'iy', 'right': 'i_right', 'bottom': 'i_bottom'}

    def q(e, env):
        """expression AST -> (Coq term, 'Q' | 'Z')"""
        k = e[0]
        if k == 'num':
            v = re.sub(r"_?(f32|f64|i32|u32)$", "", e[1]).replace('_', '')
            if re.match(r"^\d+$", v):
                return "(%s)%%Z" % v, 'Z'
            m = re.match(r"^(\d+)\.(\d*)$", v)
            if not m:
                raise U("numeric literal %s" % e[1])
            den = 10 ** len(m.group(2))
            return "(%d # %d)%%Q" % (int(m.group(1) + m.group(2)), den), 'Q'
        if k == 'var':
            if e[1] in env:
                return env[e[1]]
            raise U("unknown variable %s" % e[1])
        if k == 'field' and e[1][0] == 'var':
            name = "%s.%s" % (e[1][1], e[2])
            if name in env:
                return env[name]
            if e[1][1] == 'ts' and e[2] in TS_FIELDS:
                return "(%s t)" % TS_FIELDS[e[2]], 'Q'
            raise U("unknown field %s" % name)
        if k == 'mcall' and e[1] == ('var', 'region') and e[2] in REGION_M and not e[3]:
            return "(%s region)" % REGION_M[e[2]], 'Z'
        if k == 'cast' and e[2] in ('f32', 'f64'):
            t, ty = q(e[1], env)
            return ("(inject_Z %s)" % t, 'Q') if ty == 'Z' else (t, 'Q')
        if k == 'neg':
            t, ty = q(e[1], env)
            return ("(Qopp %s)" % t, 'Q') if ty == 'Q' else ("(Z.opp %s)" % t, 'Z')
        if k == 'bin' and e[1] in ('+', '-', '*', '/'):
            a, ta = q(e[2], env)
            b, tb = q(e[3], env)
            if ta != tb:
                raise U("mixed integer / float arithmetic without a cast")
            if ta == 'Z':
                if e[1] == '/':
                    raise U("integer division")
                return "(%s %s %s)" % ({'+': 'Z.add', '-': 'Z.sub', '*': 'Z.mul'}[e[1]], a, b), 'Z'
            return "(%s %s %s)" % ({'+': 'Qplus', '-': 'Qminus', '*': 'Qmult', '/': 'Qdiv'}[e[1]], a, b), 'Q'
        raise U("construct outside the subset: %r" % (e,))

    out = [api.HEADER, "From RV Require Import Model.Base Model.RenderPrims.\n"]
    ok = True
    try:
        src = strip_comments(api.rd(FREL))
        # ---------------------------------------------------------------- apply_turbulence
        m = re.search(r"\bfn\s+apply_turbulence\s*\(", src)
        if not m:
            raise U("fn apply_turbulence not found")
        b0 = src.index('{', src.index('->', m.end()))
        body = src[b0:balanced(src, b0, '{', '}')]
        if not re.search(r"let\s*\(\s*sx\s*,\s*sy\s*\)\s*=\s*ts\s*\.\s*get_scale\(\)\s*;", body):
            raise U("apply_turbulence: `let (sx, sy) = ts.get_scale();` not found (the scale must depend on the linear part of ts only)")
        c = re.search(r"turbulence::apply\(", body)
        if not c:
            raise U("turbulence::apply( call not found")
        args = split_args(body[c.end():balanced(body, c.end() - 1, '(', ')') - 1])
        if len(args) != 11:
            raise U("turbulence::apply: expected 11 arguments, got %d" % len(args))
        if [" ".join(a.split()) for a in args[2:4]] != ['sx as f64', 'sy as f64']:
            raise U("turbulence::apply: arguments 3, 4 are not `sx as f64, sy as f64`: %s" % args[2:4])
        ox, t1 = q(parse_expr(args[0]), {})
        oy, t2 = q(parse_expr(args[1]), {})
        if t1 != 'Q' or t2 != 'Q':
            raise U("turbulence offsets are not floats")
        out.append("(* %s :: apply_turbulence: turbulence::apply(%s, %s, ..) *)\n"
                   "Definition turb_offset (region : irect) (t : ts) : Q * Q :=\n  (%s, %s).\n"
                   % (FREL, " ".join(args[0].split()), " ".join(args[1].split()), ox, oy))
        tsrc = strip_comments(api.rd(TREL))
        if not re.search(r"pub\s+fn\s+apply\(\s*offset_x:\s*f64,\s*offset_y:\s*f64,\s*sx:\s*f64,\s*sy:\s*f64,", tsrc):
            raise U("turbulence::apply(offset_x, offset_y, sx, sy, ..): parameter order changed")
        m = re.search(r"let\s*\(\s*tx\s*,\s*ty\s*\)\s*=\s*\((.*?)\)\s*;", tsrc, re.S)
        if not m:
            raise U("`let (tx, ty) = (.., ..);` not found in turbulence::apply")
        parts = split_args(m.group(1))
        if len(parts) != 2:
            raise U("turbulence sample point is not a pair")
        env = {'x': ('x', 'Q'), 'y': ('y', 'Q'), 'offset_x': ('ox', 'Q'), 'offset_y': ('oy', 'Q'), 'sx': ('sx', 'Q'), 'sy': ('sy', 'Q')}
        sxq, _ = q(parse_expr(parts[0]), env)
        syq, _ = q(parse_expr(parts[1]), env)
        out.append("(* %s :: apply: let (tx, ty) = (%s); (x, y = pixel of the result image) *)\n"
                   "Definition turb_sample (x y ox oy sx sy : Q) : Q * Q :=\n  (%s, %s).\n"
                   % (TREL, " ".join(m.group(1).split()), sxq, syq))
        if not re.search(r"let\s+mut\s+x\s*=\s*0\s*;\s*let\s+mut\s+y\s*=\s*0\s*;", tsrc):
            raise U("turbulence::apply: pixel counters do not start at (0, 0)")

        # ---------------------------------------------------------------- apply_to_canvas
        m = re.search(r"\bfn\s+apply_to_canvas\s*\(", src)
        if not m:
            raise U("fn apply_to_canvas not found")
        b0 = src.index('{', src.index('->', m.end()))
        body = src[b0:balanced(src, b0, '{', '}')]
        c = re.search(r"pixmap\s*\.\s*draw_pixmap\(", body)
        if not c:
            raise U("apply_to_canvas: draw_pixmap not found")
        args = split_args(body[c.end():balanced(body, c.end() - 1, '(', ')') - 1])
        if len(args) != 6 or not re.match(r"tiny_skia::Transform::identity\(\)$", args[4]):
            raise U("apply_to_canvas: unexpected draw_pixmap arguments %s" % args)
        px, tx_ = q(parse_expr(args[0]), {})
        py, ty_ = q(parse_expr(args[1]), {})
        if tx_ != 'Z' or ty_ != 'Z':
            raise U("apply_to_canvas: draw position is not an integer constant")
        out.append("(* %s :: apply_to_canvas: pixmap.draw_pixmap(%s, %s, ..): where the result image lands on the layer *)\n"
                   "Definition filter_canvas_draw_pos : Z * Z :=\n  (%s, %s).\n" % (FREL, args[0], args[1], px, py))

        # ---------------------------------------------------------------- transform_light_source
        m = re.search(r"\bfn\s+transform_light_source\s*\(", src)
        if not m:
            raise U("fn transform_light_source not found")
        b0 = src.index('{', src.index('->', m.end()))
        body = src[b0:balanced(src, b0, '{', '}')]
        FORBID = re.compile(r"\b(tx|ty|region|point)\b")

        def arm(kind):
            a = re.search(r"LightSource::%s\(ref\s+mut\s+light\)\s*=>\s*\{" % kind, body)
            if not a:
                raise U("transform_light_source: arm %s(ref mut light) not found" % kind)
            e = balanced(body, a.end() - 1, '{', '}')
            stmts = [x.strip() for x in body[a.end():e - 1].split(';') if x.strip()]
            env = {'light.x': ('lx', 'Q'), 'light.y': ('ly', 'Q'), 'light.points_at_x': ('px', 'Q'), 'light.points_at_y': ('py', 'Q')}
            res = {}
            for st in stmts:
                mm = re.match(r"let\s+mut\s+point\s*=\s*tiny_skia::Point::from_xy\((.*)\)$", st, re.S)
                if mm:
                    ab = split_args(mm.group(1))
                    if len(ab) != 2:
                        raise U("Point::from_xy arity")
                    env['point.x'] = q(parse_expr(ab[0]), env)
                    env['point.y'] = q(parse_expr(ab[1]), env)
                    continue
                if re.match(r"ts\s*\.\s*map_point\(\s*&mut\s+point\s*\)$", st):
                    X, Y = env['point.x'][0], env['point.y'][0]
                    env['point.x'] = ("(map_x t %s %s)" % (X, Y), 'Q')
                    env['point.y'] = ("(map_y t %s %s)" % (X, Y), 'Q')
                    continue
                mm = re.match(r"let\s+sz\s*=\s*(.+)$", st, re.S)
                if mm:
                    if FORBID.search(mm.group(1)):
                        raise U("%s: sz depends on the translation / region: %s" % (kind, st))
                    continue
                mm = re.match(r"light\s*\.\s*(\w+)\s*(\*=|=)\s*(.+)$", st, re.S)
                if mm:
                    fld, op, rhs = mm.group(1), mm.group(2), mm.group(3)
                    if fld in ('z', 'points_at_z'):
                        if FORBID.search(rhs):
                            raise U("%s: light.%s depends on the translation / region: %s" % (kind, fld, st))
                        continue
                    if op != '=' or fld not in ('x', 'y', 'points_at_x', 'points_at_y'):
                        raise U("%s: unexpected assignment %s" % (kind, st))
                    t, ty = q(parse_expr(rhs), env)
                    if ty != 'Q':
                        raise U("%s: light.%s is not a float expression" % (kind, fld))
                    res[fld] = t
                    env['light.' + fld] = (t, 'Q')
                    continue
                raise U("transform_light_source, %s arm: statement outside the subset: %s" % (kind, st))
            return res
        p = arm('PointLight')
        if set(p) != {'x', 'y'}:
            raise U("PointLight arm assigns %s" % sorted(p))
        out.append("(* %s :: transform_light_source, PointLight arm *)\n"
                   "Definition point_light_xy (lx ly : Q) (region : irect) (t : ts) : Q * Q :=\n  (%s, %s).\n" % (FREL, p['x'], p['y']))
        s = arm('SpotLight')
        if set(s) != {'x', 'y', 'points_at_x', 'points_at_y'}:
            raise U("SpotLight arm assigns %s" % sorted(s))
        out.append("(* %s :: transform_light_source, SpotLight arm *)\n"
                   "Definition spot_light_xy (lx ly : Q) (region : irect) (t : ts) : Q * Q :=\n  (%s, %s).\n"
                   "Definition spot_points_at_xy (px py : Q) (region : irect) (t : ts) : Q * Q :=\n  (%s, %s).\n"
                   % (FREL, s['x'], s['y'], s['points_at_x'], s['points_at_y']))
        if not re.search(r"LightSource::DistantLight\(\.\.\)\s*=>\s*\{\s*\}", body):
            raise U("DistantLight arm is no longer empty")

        # ================================================================ second pass
        # ---------------------------------------------------------------- translate_checked (subregion relative to the region)
        m = re.search(r"\bfn\s+translate_checked\s*\(\s*r:\s*IntRect,\s*origin:\s*IntRect\s*\)\s*->\s*Option<IntRect>\s*\{", src)
        if not m:
            raise U("fn translate_checked(r: IntRect, origin: IntRect) -> Option<IntRect> not found")
        tb = src[m.end() - 1:balanced(src, m.end() - 1, '{', '}')]
        envz = {}

        def zq(text):
            """integer expression over r / origin accessors with `as i64` casts -> Coq Z term"""
            e = parse_expr(text)

            def go(e):
                if e[0] == 'cast' and e[2] in ('i64', 'i32'):
                    return go(e[1])
                if e[0] == 'mcall' and e[1][0] == 'var' and e[1][1] in ('r', 'origin', 'subregion', 'region') and e[2] in REGION_M and not e[3]:
                    return "(%s %s)" % (REGION_M[e[2]], e[1][1])
                if e[0] == 'bin' and e[1] in ('+', '-'):
                    return "(%s %s %s)" % ('Z.add' if e[1] == '+' else 'Z.sub', go(e[2]), go(e[3]))
                if e[0] == 'num' and re.match(r"^\d+$", e[1]):
                    return "(%s)%%Z" % e[1]
                raise U("translate_checked: construct outside the subset: %r" % (e,))
            return go(e)
        mx = re.search(r"let\s+x\s*=\s*i32::try_from\((.*?)\)\s*\.ok\(\)\?\s*;", tb, re.S)
        my = re.search(r"let\s+y\s*=\s*i32::try_from\((.*?)\)\s*\.ok\(\)\?\s*;", tb, re.S)
        if not mx or not my or not re.search(r"IntRect::from_xywh\(\s*x\s*,\s*y\s*,\s*r\.width\(\)\s*,\s*r\.height\(\)\s*\)\s*\}", tb):
            raise U("translate_checked: expected `let x = i32::try_from(..).ok()?; let y = ..; IntRect::from_xywh(x, y, r.width(), r.height())`")
        out.append("(* %s :: translate_checked *)\n"
                   "Definition translate_checked (r origin : irect) : option irect :=\n"
                   "  let x := %s in let y := %s in\n  if in_i32 x && in_i32 y then irect_from_xywh x y (iw r) (ih r) else None.\n"
                   % (FREL, zq(mx.group(1)), zq(my.group(1))))
        # its users: the clip of a primitive result (subregion2) and feTile's tile
        if not re.search(r"translate_checked\(\s*subregion\s*,\s*region\s*\)", src):
            raise U("apply_inner: subregion2 is no longer translate_checked(subregion, region)")
        m = re.search(r"\bfn\s+apply_tile\s*\(", src)
        if not m:
            raise U("fn apply_tile not found")
        b0 = src.index('{', src.index('->', m.end()))
        body = src[b0:balanced(src, b0, '{', '}')]
        if not re.search(r"let\s+subregion\s*=\s*translate_checked\(\s*input\.region\s*,\s*region\s*\)", body):
            raise U("apply_tile: the tile is no longer translate_checked(input.region, region)")
        mt = re.search(r"tiny_skia::Transform::from_translate\(\s*(subregion\.x\(\) as f32)\s*,\s*(subregion\.y\(\) as f32)\s*\)", body)
        if not mt:
            raise U("apply_tile: the tile shader is not placed by Transform::from_translate(subregion.x() as f32, subregion.y() as f32)")
        if not re.search(r"Rect::from_xywh\(\s*0\.0\s*,\s*0\.0\s*,\s*region\.width\(\) as f32\s*,\s*region\.height\(\) as f32\s*\)", body):
            raise U("apply_tile: the filled rectangle is not the whole region-sized result")
        out.append("(* %s :: apply_tile: tile = translate_checked(input.region, region); shader origin from_translate(subregion.x(), subregion.y()) *)\n"
                   "Definition tile_origin (input_region region : irect) : option (Z * Z) :=\n"
                   "  match translate_checked input_region region with Some subregion => Some (%s, %s) | None => None end.\n"
                   % (FREL, zq('subregion.x()'), zq('subregion.y()')))
        # primitive sub-regions use the same conversion as the filter region (Gen/LeafRender.v filter_to_int_rect)
        nsrc = " ".join(src.split())
        if ("let mut subregion = primitive .rect() .transform(ts) .and_then(|r| crate::geom::to_int_rect(r.to_rect())) .ok_or(Error::InvalidRegion)?;" not in nsrc
                or "let region = filter .rect() .transform(ts) .and_then(|r| crate::geom::to_int_rect(r.to_rect())) .ok_or(Error::InvalidRegion)?;" not in nsrc):
            raise U("apply_inner: region / primitive subregion are no longer rect().transform(ts).and_then(|r| crate::geom::to_int_rect(r.to_rect()))")
        # ---------------------------------------------------------------- feImage placement
        m = re.search(r"\bfn\s+apply_image\s*\(", src)
        if not m:
            raise U("fn apply_image not found")
        b0 = src.index('{', src.index('->', m.end()))
        body = src[b0:balanced(src, b0, '{', '}')]
        mi = re.search(r"let\s+transform\s*=\s*tiny_skia::Transform::from_row\((.*?)\)\s*;", body, re.S)
        if not mi:
            raise U("apply_image: `let transform = Transform::from_row(..)` not found")
        ia = [" ".join(a.split()) for a in split_args(mi.group(1))]
        if len(ia) != 6 or ia[:4] != ['sx', '0.0', '0.0', 'sy'] or not re.search(r"let\s*\(\s*sx\s*,\s*sy\s*\)\s*=\s*ts\s*\.\s*get_scale\(\)\s*;", body):
            raise U("apply_image: transform is not from_row(sx, 0, 0, sy, .., ..) with (sx, sy) = ts.get_scale(): %s" % ia)
        if not re.search(r"Pixmap::try_create\(\s*region\.width\(\)\s*,\s*region\.height\(\)\s*\)", body):
            raise U("apply_image: the result is not region-sized")
        out.append("(* %s :: apply_image: Transform::from_row(sx, 0, 0, sy, %s, %s): where the image lands in the result *)\n"
                   "Definition feimage_pos (subregion region : irect) : Z * Z :=\n  (%s, %s).\n"
                   % (FREL, ia[4], ia[5], zq(ia[4].replace(' as f32', '')), zq(ia[5].replace(' as f32', ''))))
        # ---------------------------------------------------------------- feOffset / feDropShadow: scale_coordinates
        m = re.search(r"\bfn\s+scale_coordinates\s*\(\s*x:\s*f32,\s*y:\s*f32,\s*ts:\s*usvg::Transform\s*\)[^{]*\{(.*?)\n\}", src, re.S)
        if not m:
            raise U("fn scale_coordinates(x, y, ts) not found")
        sb = " ".join(m.group(1).split())
        ms = re.match(r"let \(sx, sy\) = ts\.get_scale\(\); Some\(\((.*)\)\)$", sb)
        if not ms:
            raise U("scale_coordinates: expected `let (sx, sy) = ts.get_scale(); Some((.., ..))`, got %s" % sb)
        pr = split_args(ms.group(1))
        envs = {'x': ('x', 'Q'), 'y': ('y', 'Q'), 'sx': ('sx', 'Q'), 'sy': ('sy', 'Q')}
        out.append("(* %s :: scale_coordinates (feOffset dx / dy, feDropShadow): (sx, sy) = ts.get_scale() *)\n"
                   "Definition scale_coordinates_q (x y sx sy : Q) : Q * Q :=\n  (%s, %s).\n"
                   % (FREL, q(parse_expr(pr[0]), envs)[0], q(parse_expr(pr[1]), envs)[0]))
        m = re.search(r"\bfn\s+apply_offset\s*\(", src)
        b0 = src.index('{', src.index('->', m.end()))
        body = src[b0:balanced(src, b0, '{', '}')]
        if re.search(r"\bregion\b|ts\s*\.\s*t[xy]\b", body) or not re.search(r"scale_coordinates\(fe\.dx\(\),\s*fe\.dy\(\),\s*ts\)", body) \
                or not re.search(r"draw_pixmap\(\s*dx as i32\s*,\s*dy as i32\s*,", body):
            raise U("apply_offset: the offset is no longer scale_coordinates(fe.dx(), fe.dy(), ts) drawn at (dx as i32, dy as i32), or it reads the region / translation")
        # ---------------------------------------------------------------- pattern phase (path.rs render_pattern_pixmap)
        psrc = strip_comments(api.rd('crates/resvg/src/path.rs'))
        m = re.search(r"\bfn\s+render_pattern_pixmap\s*\(", psrc)
        if not m:
            raise U("fn render_pattern_pixmap not found")
        b0 = psrc.index('{', psrc.index('->', m.end()))
        body = psrc[b0:balanced(psrc, b0, '{', '}')]
        norm = " ".join(body.split())
        want = ("let mut ts = tiny_skia::Transform::default(); ts = ts.pre_concat(pattern.transform()); ts = ts.pre_translate(rect.x(), rect.y()); "
                "ts = ts.pre_scale(1.0 / sx, 1.0 / sy); Some((pixmap, ts))")
        if want not in norm:
            raise U("render_pattern_pixmap: the shader transform is no longer default . pattern.transform . translate(rect.x, rect.y) . scale(1/sx, 1/sy)")
        if not re.search(r"let \(sx, sy\) = \{ let ts2 = transform\.pre_concat\(pattern\.transform\(\)\); ts2\.get_scale\(\) \};", norm):
            raise U("render_pattern_pixmap: (sx, sy) is no longer the scale of transform . pattern.transform")
        if len(re.findall(r"\btransform\b", norm.split("let rect = pattern.rect();")[1].replace("let transform = tiny_skia::Transform::from_scale(sx, sy);", "")
                          .replace("ctx, transform, &mut", "").replace("pattern.transform()", ""))) != 0:
            raise U("render_pattern_pixmap uses the device transform beyond its scale")
        out.append("(* crates/resvg/src/path.rs :: render_pattern_pixmap: ts = default.pre_concat(pattern.transform()).pre_translate(rect.x(), rect.y()).pre_scale(1/sx, 1/sy) *)\n"
                   "Definition pattern_shader_ts (pattern_ts : ts) (rect_x rect_y sx sy : Q) : ts :=\n"
                   "  ts_concat (ts_concat (ts_concat ts_identity pattern_ts) (from_translate rect_x rect_y)) (from_scale (1 / sx)%Q (1 / sy)%Q).\n")
        api.ok('leaves', 'filter_positions', props=PROPS, rel=FREL)
    except (U, OSError, ValueError, IndexError, KeyError) as ex:
        ok = False
        api.broken('leaf', 'filter_positions', PROPS, ex)
    if ok:
        api.write_gen('LeafFilterPos.v', "\n".join(out))

    # -------------------------------------------------------------------- C14: the paint a layer is composited with
    try:
        rsrc = strip_comments(api.rd(RREL))
        norm = " ".join(rsrc.split())
        want = ("let paint = tiny_skia::PixmapPaint { opacity: group.opacity().get(), blend_mode: convert_blend_mode(group.blend_mode()), "
                "quality: tiny_skia::FilterQuality::Nearest, };")
        if want not in norm:
            raise U("render_group: the layer paint is not `PixmapPaint { opacity: group.opacity().get(), blend_mode: "
                    "convert_blend_mode(group.blend_mode()), quality: Nearest }` (Model/Compose8.v models exactly that)")
        if not re.search(r"usvg::BlendMode::Normal\s*=>\s*tiny_skia::BlendMode::SourceOver\s*,", rsrc):
            raise U("convert_blend_mode: Normal is no longer SourceOver")
        c = re.search(r"\bpixmap\s*\.\s*draw_pixmap\(", rsrc[rsrc.index('let paint = tiny_skia::PixmapPaint'):])
        if not c:
            raise U("draw_pixmap after the layer paint not found")
        tail = rsrc[rsrc.index('let paint = tiny_skia::PixmapPaint'):]
        args = split_args(tail[c.end():balanced(tail, c.end() - 1, '(', ')') - 1])
        if len(args) != 6 or args[3] != '&paint' or args[5] != 'None':
            raise U("render_group: draw_pixmap(.., &paint, .., None) expected, got %s" % args)
        api.ok('leaves', 'layer_paint', props=['C14'], rel=RREL)
    except (U, OSError, ValueError, IndexError) as ex:
        api.broken('leaf', 'layer_paint', ['C14'], ex)


# ------------------------------------------------------------------------------------------------------------------
# Round 5: every way a node can be skipped on its way from render_nodes to the rasteriser.  For each dispatch function the
# plug-in records every `if` condition, the number of `return` / `continue` / `?` exits and (render_node) the body of each
# match arm, into Gen/RenderExits.v; Model/RenderExits.v holds the registered table and C13_render_exits_registered states
# their equality: a NEW early return / cull / conditional call in any arm is a failed obligation.
EXIT_FUNCS = [('crates/resvg/src/render.rs', 'render_nodes'), ('crates/resvg/src/render.rs', 'render_node'),
              ('crates/resvg/src/path.rs', 'render'), ('crates/resvg/src/path.rs', 'fill_path'), ('crates/resvg/src/path.rs', 'stroke_path'),
              ('crates/resvg/src/image.rs', 'render'), ('crates/resvg/src/image.rs', 'render_inner'), ('crates/resvg/src/image.rs', 'render_vector'),
              ('crates/resvg/src/image.rs', 'render_raster')]


def fn_body(src, name):
    m = re.search(r"\bfn\s+%s\s*\(" % name, src)
    if not m:
        return None
    i = m.end() - 1
    i = balanced(src, i, '(', ')')
    b0 = src.index('{', i)
    return src[b0:balanced(src, b0, '{', '}')]


def coq_str(x):
    return '"%s"' % x.replace('"', '""')


def gen_exits(api):
    U = api.Unsupported
    rows = []
    try:
        for rel, name in EXIT_FUNCS:
            body = fn_body(strip_comments(api.rd(rel)), name)
            if body is None:
                raise U("fn %s not found in %s" % (name, rel))
            norm = " ".join(body.split())
            conds = [" ".join(c.split()) for c in re.findall(r"\bif\s+(.*?)\s*\{", norm)]
            conds += ["match " + " ".join(c.split()) for c in re.findall(r"\bmatch\s+(.*?)\s*\{", norm)]
            nexit = len(re.findall(r"\breturn\b|\bcontinue\b|\bbreak\b", norm)) + norm.count('?')
            if name == 'render_node':
                # the arms themselves: each must stay a plain call
                for a in re.finditer(r"usvg::Node::(\w+)\(ref \w+\)\s*=>\s*\{", norm):
                    e = balanced(norm, a.end() - 1, '{', '}')
                    conds.append("arm %s: %s" % (a.group(1), norm[a.end():e - 1].strip()))
            if name == 'render_nodes':
                conds.append("body: " + norm)
            rows.append((rel.split('/')[-1] + "::" + name, conds, nexit))
        out = [api.HEADER, "From Coq Require Import String List.\nImport ListNotations.\nLocal Open Scope string_scope.\n",
               "(* per dispatch function: every `if` / `match` head (and, for render_node, every arm), number of return / continue / break / ? exits *)",
               "Definition render_exits : list (string * list string * nat) := [\n%s\n]." % ";\n".join(
                   "  (%s, [%s], %d%%nat)" % (coq_str(n), "; ".join(coq_str(c) for c in cs), k) for n, cs, k in rows)]
        api.write_gen('RenderExits.v', "\n".join(out) + "\n")
        api.ok('leaves', 'render_exits', props=PROPS, rel='crates/resvg/src/{render,path,image}.rs')
    except (U, OSError, ValueError, IndexError) as ex:
        api.broken('leaf', 'render_exits', PROPS, ex)


_generate_round4 = generate


def generate(api):
    _generate_round4(api)
    gen_exits(api)
