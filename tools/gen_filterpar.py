"""Gen/LeafFilterPar.v: source-derived clamps / guards of the filter primitive parameters (parser/filter.rs, tree/mod.rs)
over the special-value domain xq, for C04 (second pass of extension round 4).

  convert_convolve_matrix   the kernel-sum rounding / zero replacement, the divisor guard, NonZeroF32::new (tree/mod.rs),
                            order and target guards (pinned by anchors, emitted over Z)
  convert_std_dev_attr      scaling and PositiveF32 clamp
  convert_specular_lighting the specularExponent range
  convert_turbulence        the sign clamp of numOctaves

A missing anchor or a construct outside the rs2coq subset is a broken tie for C04.
"""
import re
from gen_style import make_emitter, BASE_CFG

PROPS = ['C04']
PRELUDE = ("From Coq Require Import String.\nFrom RV Require Import Model.Base Model.StylePrims Model.FilterParPrims.\n"
           "Local Open Scope Q_scope.\n")


def generate(api):
    rs = api.rs2coq
    out = [api.HEADER, PRELUDE]
    cfg = dict(BASE_CFG)
    cfg['methods'] = dict(BASE_CFG['methods'], is_nan='xq_is_nan', round='xq_round', unwrap_or='xq_unwrap_or_x', width='xq_sz_w', height='xq_sz_h')
    cfg['calls'] = dict(BASE_CFG['calls'], **{'PositiveF32::new': 'xq_positive_new', 'Some': 'Some'})
    cfg['paths'] = dict(BASE_CFG['paths'], **{'PositiveF32::ZERO': 'XQ_POSITIVE_ZERO'})

    def emitter():
        em = make_emitter(rs, dict(cfg))
        base_expr = em.expr

        def expr(e):
            if e[0] == 'mcall' and e[2] == 'approx_zero_ulps':
                if len(e[3]) != 1 or e[3][0][0] != 'num':
                    raise rs.Unsupported("approx_zero_ulps: unexpected arguments")
                return "(xq_approx_zero %s (%s)%%Z)" % (expr(e[1]), int(e[3][0][1]))
            if e[0] == 'mcall' and e[2] == 'approx_eq_ulps':
                return base_expr(e)
            return base_expr(e)
        em.expr = expr
        return em

    def tr(name, binders, ret, block):
        return "Definition %s %s : %s :=\n  %s." % (name, binders, ret, emitter().block(rs.parse_body(block)))

    def need(pattern, text, what):
        m = re.search(pattern, text, re.S)
        if not m:
            raise api.Unsupported("anchor not found: " + what)
        return m

    def section(name, rel, f):
        try:
            out.append("(* %s :: %s *)" % (rel, name))
            out.append(f(re.sub(r"//[^\n]*", "", api.rd(rel))) + "\n")
            api.ok('leaves', 'filterpar.' + name, props=PROPS, rel=rel)
        except (api.Unsupported, OSError, ValueError, IndexError, KeyError) as e:
            out.append("(* NOT TRANSLATED: %s *)\n" % str(e).replace('*)', '* )'))
            api.broken('leaf', 'filterpar.' + name, PROPS, e)

    def g_nonzero(src):
        p, r, b = rs.find_fn(src, 'new', after=r"impl\s+NonZeroF32\s*\{")
        need(r"^\{\s*if\s+n\.approx_eq_ulps\(&0\.0,\s*\d+\)\s*\{\s*None\s*\}\s*else\s*\{\s*Some\(NonZeroF32\(n\)\)\s*\}\s*\}$", b.strip(), "NonZeroF32::new")
        return tr('nonzero_new', '(n : xq)', 'option xq', b.replace('NonZeroF32(n)', 'n'))
    section('NonZeroF32::new', 'crates/usvg/src/tree/mod.rs', g_nonzero)

    def g_convolve(src):
        p, r, b = rs.find_fn(src, 'convert_convolve_matrix')
        ds = []
        need(r"let\s+mut\s+kernel_sum\s*:\s*f32\s*=\s*matrix\.iter\(\)\.sum\(\);", b, "kernel sum = f32 sum of the matrix")
        m = need(r"(kernel_sum\s*=\s*\(kernel_sum\s*\*\s*[\d_.]+\)\.round\(\)\s*/\s*[\d_.]+;\s*if\s+kernel_sum\.approx_zero_ulps\(\d+\)\s*\{\s*kernel_sum\s*=\s*[\d.]+;\s*\})",
                 b, "kernel sum rounding and zero replacement")
        ds.append(tr('kernel_round', '(kernel_sum : xq)', 'xq', "{ %s kernel_sum }" % m.group(1)))
        # since 25cbad3 the guard also rejects a non-finite divisor; the whole condition is translated
        m = need(r"(let\s+divisor\s*=\s*fe\.attribute\(AId::Divisor\)\.unwrap_or\(kernel_sum\);\s*if\s+divisor\.approx_zero_ulps\(\d+\)[^{};]*\{\s*return\s+None;\s*\})",
                 b, "divisor guard")
        ds.append(tr('convolve_divisor', '(attr : option xq) (kernel_sum : xq)', 'option xq',
                     "{ %s Some(divisor) }" % m.group(1).replace('fe.attribute(AId::Divisor)', 'attr')))
        need(r"divisor:\s*NonZeroF32::new\(divisor\)\.unwrap\(\),", b, "divisor stored through NonZeroF32::new(..).unwrap()")
        i = [b.find(s) for s in ('matrix.iter().sum()', '.round()', 'AId::Divisor', 'NonZeroF32::new(divisor)')]
        if not all(0 <= i[k] < i[k + 1] for k in range(3)):
            raise api.Unsupported("convert_convolve_matrix: order sum / rounding / divisor / constructor changed")
        # order and target (integers): pinned, emitted over Z
        need(r"let\s+x\s*=\s*s\.next\(\)\.and_then\(\|a\|\s*a\.ok\(\)\)\.map\(\|n\|\s*n\s+as\s+i32\)\.unwrap_or\(3\);\s*"
             r"let\s+y\s*=\s*s\.next\(\)\.and_then\(\|a\|\s*a\.ok\(\)\)\.map\(\|n\|\s*n\s+as\s+i32\)\.unwrap_or\(x\);\s*"
             r"if\s+x\s*>\s*0\s*&&\s*y\s*>\s*0\s*\{\s*order_x\s*=\s*x\s+as\s+u32;\s*order_y\s*=\s*y\s+as\s+u32;\s*\}", b, "order: both positive, else 3 x 3")
        need(r"let\s+mut\s+order_x\s*=\s*3;\s*let\s+mut\s+order_y\s*=\s*3;", b, "default order 3")
        ds.append("Definition resolve_order (x y : Z) : Z * Z := if ((0 <? x) && (0 <? y))%Z then (x, y) else (3, 3)%Z.")
        need(r"let\s+default_target\s*=\s*\(order\s+as\s+f32\s*/\s*2\.0\)\.floor\(\)\s+as\s+u32;\s*let\s+target\s*=\s*target\.unwrap_or\(default_target\s+as\s+f32\)\s+as\s+i32;\s*"
             r"if\s+target\s*<\s*0\s*\|\|\s*target\s*>=\s*order\s+as\s+i32\s*\{\s*None\s*\}\s*else\s*\{\s*Some\(target\s+as\s+u32\)\s*\}", b, "parse_target")
        ds.append("Definition parse_target (target : option Z) (order : Z) : option Z :=\n"
                  "  let t := match target with Some v => v | None => (order / 2)%Z end in\n"
                  "  if ((t <? 0) || (order <=? t))%Z then None else Some t.")
        need(r"let\s+target_x\s*=\s*parse_target\(fe\.attribute\(AId::TargetX\),\s*order_x\)\?;\s*let\s+target_y\s*=\s*parse_target\(fe\.attribute\(AId::TargetY\),\s*order_y\)\?;",
             b, "targets through parse_target")
        need(r"if\s+Some\(list\.len\(\)\)\s*==\s*\(order_x\s+as\s+usize\)\.checked_mul\(order_y\s+as\s+usize\)\s*\{\s*matrix\s*=\s*list;\s*\}", b,
             "kernel accepted only with order_x * order_y entries")
        return "\n".join(ds)
    section('convert_convolve_matrix', 'crates/usvg/src/parser/filter.rs', g_convolve)

    def g_stddev(src):
        p, r, b = rs.find_fn(src, 'convert_std_dev_attr')
        m = need(r"(let\s+std_dev_x\s*=\s*\(std_dev_x\s+as\s+f32\)\s*\*.*?\(std_dev_x,\s*std_dev_y\))\s*\}\s*$", b, "convert_std_dev_attr: scaling and clamp")
        return tr('xstd_dev_scaled', '(std_dev_x std_dev_y : xq) (scale : xq * xq)', 'xq * xq', "{ %s }" % m.group(1))
    section('convert_std_dev_attr', 'crates/usvg/src/parser/filter.rs', g_stddev)

    def g_spec(src):
        p, r, b = rs.find_fn(src, 'convert_specular_lighting')
        m = need(r"if\s+!\(([\d.]+)\.\.=([\d.]+)\)\.contains\(&specular_exponent\)\s*\{\s*return\s+None;\s*\}", b, "specularExponent range guard")
        em = emitter()
        return ("Definition spec_exp_ok (e : xq) : bool := andb (xq_leb %s e) (xq_leb e %s)." % (em.num(m.group(1)), em.num(m.group(2))))
    section('convert_specular_lighting', 'crates/usvg/src/parser/filter.rs', g_spec)

    def g_turb(src):
        p, r, b = rs.find_fn(src, 'convert_turbulence')
        m = need(r"(let\s+mut\s+num_octaves\s*=\s*fe\.attribute\(AId::NumOctaves\)\.unwrap_or\(1\.0\);\s*if\s+num_octaves\.is_sign_negative\(\)\s*\{\s*num_octaves\s*=\s*0\.0;\s*\})",
                 b, "numOctaves sign clamp")
        need(r"num_octaves:\s*num_octaves\.round\(\)\s+as\s+u32,", b, "numOctaves rounded into u32")
        return tr('num_octaves_clamped', '(attr : option xq)', 'xq', "{ %s num_octaves }" % m.group(1).replace('fe.attribute(AId::NumOctaves)', 'attr'))
    section('convert_turbulence', 'crates/usvg/src/parser/filter.rs', g_turb)

    api.write_gen('LeafFilterPar.v', "\n".join(out))
