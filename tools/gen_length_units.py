"""Gen/Units.v: the absolute-unit arms of usvg::parser::units::convert_length (source-derived).
Restored under this name in extension round 4 (2nd pass): tools/gen_units.py was overwritten by the C08 plug-in that writes
Gen/UnitsTables.v, after which Gen/Units.v was a stale file that no run regenerated."""
import re

PROPS = ['C17', 'C09', 'C04']
REL = 'crates/usvg/src/parser/units.rs'
UNITS = ['None', 'Px', 'Em', 'Ex', 'In', 'Cm', 'Mm', 'Pt', 'Pc', 'Percent']


def generate(api):
    rs = api.rs2coq
    try:
        src = api.rd(REL)
        params, ret, body = rs.find_fn(src, 'convert_length')
        m = re.search(r"match\s+length\.unit\s*\{", body)
        if not m:
            raise api.Unsupported("`match length.unit` not found in convert_length")
        # parse the whole `match` syntactically and keep the arms of the absolute/font-relative units;
        # Percent is resolved against the view box elsewhere
        start = m.start()
        depth = 0
        i = body.index('{', start)
        j = i
        while True:
            if body[j] == '{':
                depth += 1
            elif body[j] == '}':
                depth -= 1
                if depth == 0:
                    break
            j += 1
        ast = rs.Parser(rs.tokenize(body[start:j + 1])).expr()
        if ast[0] != 'match':
            raise api.Unsupported("convert_length: expected a match expression")
        arms = {}
        for pats, arm_body in ast[2]:
            for pt in pats:
                if pt[0] == 'ppath' and pt[1][0] == 'Unit' and pt[1][-1] not in arms:
                    arms[pt[1][-1]] = arm_body
        need = [u for u in UNITS if u != 'Percent']
        missing = [u for u in need if u not in arms]
        if missing:
            raise api.Unsupported("convert_length arms missing for %s" % missing)
        em = rs.Emitter(dict(dom='Q', calls={'resolve_font_size': 'FONT_SIZE_PLACEHOLDER'}))
        out = [api.HEADER, "From RV Require Import Model.Base.\nLocal Open Scope Q_scope.\n",
               "Inductive lunit := " + " | ".join('U' + u for u in UNITS) + ".\n",
               "(* %s :: convert_length, arms of `match length.unit` (n = length.number, fs = resolved font size) *)" % REL,
               "Definition convert_abs (u : lunit) (n dpi fs : Q) : option Q :=\n  match u with"]
        for u in need:
            s = em.expr(arms[u])
            s = re.sub(r"\(FONT_SIZE_PLACEHOLDER [^()]*\)", "fs", s)
            if 'PLACEHOLDER' in s:
                raise api.Unsupported("unexpected font-size call shape in arm %s" % u)
            out.append("  | U%s => Some %s" % (u, s))
        out.append("  | UPercent => None\n  end.\n")
        api.write_gen('Units.v', "\n".join(out))
        api.ok('tables', 'units', arms=len(arms))
    except (api.Unsupported, OSError, ValueError, IndexError) as e:
        api.broken('table', 'units.convert_length', PROPS, e)
