"""T1 plug-in: Gen/Totality.v - source-derived facts for the C01 obligations added in round 4.

  (1) acceptance predicates of the validated constructors that live in /repo (tree/mod.rs `NonZeroF32::new`): the
      condition of the `if <cond> { None } else { Some(..) }` body as a list of atoms (disjunction), and for every
      `<Ctor>::new(<var>).unwrap()` site the conditions under which the function returned early on the same variable
      between its last assignment and the unwrap (the guard).  Proofs/Totality.v proves guard => acceptance per site;
      tightening the constructor or dropping the guard changes a generated list and the lemma stops checking.
  (2) every `loop` / `while` construct of parser/** and tree/mod.rs: (file, fn, header, digest of the body), whether it
      follows reference attributes, and the shape the scanner recognises (visited-set walk, finder loop of the pre-pass,
      counter loop, id generator, walk over an owned tree).  Proofs/Ledger-style obligation `loops_discharged`: every
      loop has a ledger entry for exactly this text, and a link-following loop must have a shape with a termination
      theorem.
  (3) the lookup / insert sites of the converter's four definition caches with the conditions that enclose the lookup.
An anchor that is not found is a broken tie (api.broken), never a silent default.
"""
import hashlib
import os
import re

import gen_sites as S

PROPS = ['C01']
ROOT = 'crates/usvg/src'


def sq(t):
    return re.sub(r"\s+", " ", t).strip()


def coq_str(s):
    return '"' + s.replace('"', '""') + '"'


# ------------------------------------------------------------------------------------------------ (1) constructors
ATOMS = [
    (r"^(\w+)\.approx_eq_ulps\(&0\.0,(\d+)\)$", lambda m: "AApproxZero %s" % m.group(2)),
    (r"^(\w+)\.approx_zero_ulps\((\d+)\)$", lambda m: "AApproxZero %s" % m.group(2)),
    (r"^!(\w+)\.is_finite\(\)$", lambda m: "ANotFinite"),
    (r"^(\w+)\.is_nan\(\)$", lambda m: "ANaN"),
    (r"^(\w+)\.is_infinite\(\)$", lambda m: "AInf"),
    (r"^(\w+)<0\.0$", lambda m: "ANeg"),
    (r"^(\w+)<=0\.0$", lambda m: "ANonPos"),
    (r"^(\w+)==0\.0$", lambda m: "AApproxZero 0"),
]


def atoms_of(cond, var):
    """disjunction `a || b || ..` over the variable -> list of Gallina atoms; anything else becomes AOther text"""
    out = []
    for part in S.squash(cond).split('||'):
        part = part.strip('()') if part.startswith('(') and part.endswith(')') else part
        for pat, fn in ATOMS:
            m = re.match(pat, part)
            if m and m.group(1) == var:
                out.append(fn(m))
                break
        else:
            out.append("AOther %s" % coq_str(part))
    return out


def ctor_rejects(src, ty):
    """`impl <ty> { .. pub fn new(n: f32) -> Option<Self> { if <cond> { None } else { Some(<ty>(n)) } }`"""
    code = S.blank_comments(src)
    m = re.search(r"impl\s+%s\s*\{" % ty, code)
    if not m:
        raise ValueError("impl %s not found" % ty)
    end = S.close_of(code, m.end() - 1)
    body = code[m.end():end]
    f = re.search(r"fn\s+new\s*\(\s*(\w+)\s*:\s*f32\s*\)\s*->\s*Option<Self>\s*\{", body)
    if not f:
        raise ValueError("%s::new(f32) -> Option<Self> not found" % ty)
    fend = S.close_of(body, f.end() - 1)
    fb = S.squash(body[f.end():fend])
    var = f.group(1)
    g = re.match(r"^if(.*?)\{None\}else\{Some\(%s\(%s\)\)\}$" % (ty, var), fb)
    if not g:
        raise ValueError("%s::new: body is not `if <cond> { None } else { Some(%s(%s)) }`: %s" % (ty, ty, var, fb[:120]))
    return atoms_of(g.group(1), var), sq(body[f.end():fend])


def unwrap_guards(rel, src, ty):
    """for every `<ty>::new(<var>).unwrap()` in the file: (fn, statement text, var, guard atoms): the conditions of
    `if <cond on var> { return ..; }` statements at the top level of the function after the last `let [mut] var =` /
    `var =` and before the site"""
    code = S.blank_comments_and_strings(src)
    spans = S.fn_spans(code)
    out = []
    for m in re.finditer(r"%s::new\(\s*(\w+)\s*\)\s*\.\s*unwrap\s*\(\s*\)" % ty, code):
        var = m.group(1)
        fn = S.enclosing(spans, m.start())
        lo = max([a for n, a, b in spans if a <= m.start() <= b] or [0])
        pre = code[lo:m.start()]
        last = None
        for a in re.finditer(r"(?:let\s+(?:mut\s+)?%s\b[^=;]*=|(?<![\w.])%s\s*=(?!=))" % (var, var), pre):
            last = a
        if last is None:
            start = 0
        else:
            start = last.end()
        seg = pre[start:]
        atoms = []
        for g in re.finditer(r"\bif\s+([^{};]*?)\s*\{\s*return\b[^{};]*;\s*\}", seg):
            # only guards that are not nested in a block opened after the assignment
            depth = seg[:g.start()].count('{') - seg[:g.start()].count('}')
            if depth != 0:
                continue
            for at in atoms_of(g.group(1), var):
                if not at.startswith('AOther'):
                    atoms.append(at)
        out.append((fn, S.statement_text(code, S.blank_comments(src), m.start(), m.end()), var, atoms))
    return out


# ------------------------------------------------------------------------------------------------ (2) loops
LINKY = re.compile(r"attribute::<SvgNode>|node_attribute\s*\(|href_iter\s*\(|\.attribute\(AId::(?:Href|Mask|ClipPath|Filter|Fill|Stroke|Marker\w*)\)|element_by_id\s*\(")


def loop_shape(header, body):
    h, b = S.squash(header), S.squash(body)
    m = re.match(r"^whileletSome\((\w+)\)=(\w+)\.last\(\)\.and_then\(\|n\|n\.attribute::<SvgNode>\(AId::(\w+)\)\)$", h)
    if m:
        l, x = m.group(1), m.group(2)
        if b == "if%s.contains(&%s){break;}%s.push(%s);" % (x, l, x, l):
            return "SVisitedWalk %s" % coq_str(m.group(3))
        return "SOther"
    if re.match(r"^whileletSome\(node_id\)=find_recursive_(?:pattern|link)\(", h):
        return "SFinder"
    m = re.match(r"^while(\w+)<", h)
    if m:
        return "SCounter"
    # id generators: the counter is advanced on every iteration (a statement at the top level of the body, before or after the
    # name is built) and the only exit is `if !<set>.contains(<name or hash>) { return .. }`
    if h == 'loop' and re.match(r"^(?:[^{}]*;)?[\w.]+\+=1;[^{}]*if![\w.]+\.contains\(&\w+\)\{return[^{}]*;\}$", b) and 'break' not in b and 'continue' not in b:
        return "SGenId"
    if re.match(r"^whileletSome\((\w+)\)=(\w+)(?:\.and_then\(Arc::get_mut\))?$", h):
        return "SOwnedTree"
    return "SOther"


def loops_of(rel, src):
    code = S.blank_comments_and_strings(src)
    plain = S.blank_comments(src)
    tm = re.search(r"#\[cfg\(test\)\]", code)
    limit = tm.start() if tm else len(code)
    spans = S.fn_spans(code)
    out = []
    for m in re.finditer(r"(?<![\w.])(loop\s*\{|while\b)", code):
        if m.start() >= limit:
            continue
        if m.group(1).startswith('loop'):
            o = m.end() - 1
        else:
            o, par = m.end(), 0
            while o < len(code):
                ch = code[o]
                if ch in '([':
                    par += 1
                elif ch in ')]':
                    par -= 1
                elif ch == '{' and par == 0:
                    break
                elif ch == ';' and par == 0:
                    o = None
                    break
                o += 1
            if o is None or o >= len(code):
                continue
        c = S.close_of(code, o)
        if c is None:
            continue
        header = sq(plain[m.start():o])
        body = sq(plain[o + 1:c])
        out.append(dict(file=rel, fn=S.enclosing(spans, m.start()), header=header,
                        digest=hashlib.sha256(S.squash(body).encode()).hexdigest()[:12],
                        linky=bool(LINKY.search(code[m.start():c])), shape=loop_shape(header, code[o + 1:c]),
                        line=src.count('\n', 0, m.start()) + 1, body=body))
    return out


# ------------------------------------------------------------------------------------------------ (3) caches
CACHES = [('paint', 'parser/paint_server.rs'), ('clip_paths', 'parser/clippath.rs'), ('masks', 'parser/mask.rs'), ('filters', 'parser/filter.rs')]


def cache_sites(name, rel, src):
    code = S.blank_comments_and_strings(src)
    spans = S.fn_spans(code)
    lookups, inserts = [], []
    for m in re.finditer(r"cache\s*\.\s*%s\s*\.\s*get\s*\(\s*node\.element_id\(\)\s*\)" % name, code):
        fn = S.enclosing(spans, m.start())
        lo = max([a for n, a, b in spans if a <= m.start() <= b] or [0])
        conds = []
        for f in S.enclosing_facts(code, m.start(), lo):
            if f[0] == 'pos':
                conds.append(sq(f[1]))
            elif f[0] == 'neg':
                conds.append('!(' + sq(f[1]) + ')')
            else:
                conds.append('match-arm ' + sq(str(f[2])))
        # `if let Some(x) = cache.X.get(..) { return .. }`: the lookup must be the scrutinee of an `if let` that returns
        stmt = code[m.start():S.close_of(code, code.find('{', m.end())) or m.end()]
        returns = bool(re.search(r"\{\s*return\b", stmt))
        # definition of the variable(s) the conditions mention
        defs = []
        for c in conds:
            for v in re.findall(r"\b([a-z_]\w*)\b", c):
                d = None
                for a in re.finditer(r"let\s+%s\s*=\s*([^;]*);" % v, code[lo:m.start()]):
                    d = a
                if d:
                    defs.append("%s = %s" % (v, sq(d.group(1))))
        lookups.append((fn, conds, returns, defs, src.count('\n', 0, m.start()) + 1))
    for m in re.finditer(r"cache\s*\.\s*%s\s*\.\s*(insert|entry)\s*\(" % name, code):
        inserts.append((S.enclosing(spans, m.start()), m.group(1)))
    return lookups, inserts


def generate(api):
    try:
        out = [api.HEADER,
               "(* Round-4 C01 facts read off the source (tools/gen_totality.py): constructor acceptance predicates and the",
               "   guards in front of their unwrap sites; every loop of the parser; the lookup sites of the definition caches. *)",
               "From Coq Require Import String List.\nImport ListNotations.\nLocal Open Scope string_scope.\n",
               "(* a condition on one f32 value; lists are disjunctions.  AOther = text the scanner does not understand *)",
               "Inductive fatom := AApproxZero (ulps : nat) | ANotFinite | ANaN | AInf | ANeg | ANonPos | AOther (text : string).\n"]
        modrs = api.rd(os.path.join(ROOT, 'tree/mod.rs'))
        rejects, body = ctor_rejects(modrs, 'NonZeroF32')
        out.append("(* tree/mod.rs NonZeroF32::new: %s *)" % body.replace('*)', '* )'))
        out.append("Definition G_NONZERO_F32_REJECTS : list fatom := [%s].\n" % "; ".join(rejects))
        # every NonZeroF32::new(v).unwrap() of the anchor files
        rels = S.anchor_files(api)
        guards = []
        for rel in rels:
            src = api.rd(os.path.join(ROOT, rel))
            for fn, text, var, atoms in unwrap_guards(rel, src, 'NonZeroF32'):
                guards.append((rel, fn, text, var, atoms))
        out.append("(* file, fn, statement text of the site (as in Gen/Sites.v), guarded variable, conditions under which the function")
        out.append("   returned before reaching the site *)")
        out.append("Definition G_NONZERO_F32_UNWRAPS : list (string * string * string * string * list fatom) := [")
        out.append(";\n".join("  (%s, %s, %s, %s, [%s])" % (coq_str(r), coq_str(f), coq_str(t), coq_str(v), "; ".join(a)) for r, f, t, v, a in guards))
        out.append("].\n")

        loops = []
        for rel in rels:
            loops += loops_of(rel, api.rd(os.path.join(ROOT, rel)))
        if len(loops) < 10:
            raise api.Unsupported("only %d loops found in the C01 anchor files: the scanner no longer matches the source" % len(loops))
        out.append("Inductive lshape := SVisitedWalk (aid : string) | SFinder | SCounter | SGenId | SOwnedTree | SOther.")
        out.append("(* file, fn, header, digest of the body (sha256 of the text without white space, 12 hex digits), follows references *)")
        out.append("Record loop_site := mk_loop { l_file : string; l_fn : string; l_header : string; l_digest : string; l_links : bool; l_shape : lshape }.\n")
        out.append("Definition parser_loops : list loop_site := [")
        out.append(";\n".join("  mk_loop %s %s %s %s %s (%s)" % (coq_str(l['file']), coq_str(l['fn']), coq_str(l['header']), coq_str(l['digest']),
                                                                 'true' if l['linky'] else 'false', l['shape']) for l in loops))
        out.append("].\n")

        out.append("(* cache, file, fn, conditions enclosing the lookup `cache.<name>.get(node.element_id())` (outermost last), the lookup")
        out.append("   returns the cached value, definitions of the variables in the conditions *)")
        out.append("Record cache_lookup := mk_lookup { c_cache : string; c_file : string; c_fn : string; c_conds : list string; c_returns : bool; c_defs : list string }.\n")
        rows, ins = [], []
        for name, rel in CACHES:
            lookups, inserts = cache_sites(name, rel, api.rd(os.path.join(ROOT, rel)))
            if not lookups:
                raise api.Unsupported("no lookup `cache.%s.get(node.element_id())` found in %s" % (name, rel))
            for fn, conds, returns, defs, line in lookups:
                rows.append("  mk_lookup %s %s %s [%s] %s [%s]" % (coq_str(name), coq_str(rel), coq_str(fn), "; ".join(coq_str(c) for c in conds),
                                                                 'true' if returns else 'false', "; ".join(coq_str(d) for d in defs)))
            for fn, how in inserts:
                ins.append("  (%s, %s, %s)" % (coq_str(name), coq_str(fn), coq_str(how)))
        out.append("Definition G_CACHE_LOOKUPS : list cache_lookup := [\n%s\n].\n" % ";\n".join(rows))
        out.append("Definition G_CACHE_INSERTS : list (string * string * string) := [\n%s\n].\n" % ";\n".join(ins))
        # (4) recursion: strongly connected components of the call graph of the anchor files
        files = {rel: api.rd(os.path.join(ROOT, rel)) for rel in rels}
        edges = call_graph(files)
        comps = sccs(edges)
        if len(comps) < 3:
            raise api.Unsupported("only %d recursive groups found in the call graph of the anchor files" % len(comps))
        out.append("(* every group of directly / mutually recursive functions (strongly connected component of the call graph; calls are")
        out.append("   matched by name, so a group may be a name clash): digest of the member list, members `file::fn`, some member follows")
        out.append("   reference attributes *)")
        out.append("Record rec_site := mk_rec { r_digest : string; r_members : list string; r_links : bool }.\n")
        rrows = []
        for comp in comps:
            members = ["%s::%s" % (r, n) for r, n in comp]
            linky = False
            for r, n in comp:
                code = S.blank_comments_and_strings(files[r])
                for nm, a, b in S.fn_spans(code):
                    if nm == n and LINKY.search(code[a:b]):
                        linky = True
            rrows.append("  mk_rec %s [%s] %s" % (coq_str(hashlib.sha256(";".join(members).encode()).hexdigest()[:12]),
                                                 "; ".join(coq_str(x) for x in members), 'true' if linky else 'false'))
        out.append("Definition parser_recursions : list rec_site := [\n%s\n].\n" % ";\n".join(rrows))
        # (5) `for` loops end when their iterator does: the iterator types implemented in the anchor files, and every use of a std
        # source that never ends (cycle / repeat / repeat_with / from_fn / successors / open ranges `a..` as a loop source)
        iters, unbounded, nfor = [], [], 0
        for rel in rels:
            code = S.blank_comments_and_strings(files[rel])
            tm = re.search(r"#\[cfg\(test\)\]", code)
            limit = tm.start() if tm else len(code)
            spans = S.fn_spans(code)
            nfor += len([m for m in re.finditer(r"(?<![\w.])for\s+[^;{}]*?\sin\s", code) if m.start() < limit])
            for m in re.finditer(r"impl\s*(?:<[^{}]*?>)?\s*Iterator\s+for\s+(\w+)", code):
                if m.start() >= limit:
                    continue
                o = code.find('{', m.end())
                c = S.close_of(code, o)
                iters.append((rel, m.group(1), hashlib.sha256(S.squash(S.blank_comments(files[rel])[o:c]).encode()).hexdigest()[:12]))
            for m in re.finditer(r"\.\s*cycle\s*\(\s*\)|\b(?:repeat|repeat_with|from_fn|successors)\s*\(|\bin\s+[^{};]*?\.\.\s*\{", code):
                if m.start() < limit:
                    unbounded.append((rel, S.enclosing(spans, m.start()), sq(code[m.start():m.end()])))
        out.append("(* iterator types implemented in the anchor files (file, type, digest of the impl block), uses of std iterator sources that")
        out.append("   never end, number of `for` loops *)")
        out.append("Definition parser_iterators : list (string * string * string) := [\n%s\n].\n"
                   % ";\n".join("  (%s, %s, %s)" % (coq_str(a), coq_str(b), coq_str(c)) for a, b, c in iters))
        out.append("Definition parser_unbounded_sources : list (string * string * string) := [%s].\n"
                   % "; ".join("(%s, %s, %s)" % (coq_str(a), coq_str(b), coq_str(c)) for a, b, c in unbounded))
        out.append("Definition parser_for_loops : nat := %d.\n" % nfor)
        api.write_gen('Totality.v', "\n".join(out))
        import translate
        with open(os.path.join(translate.GEN, 'Loops.lines.txt'), 'w') as f:
            for l in loops:
                f.write("%s:%d\t%s\t%s\t%s\t%s\t%s\n    %s\n" % (l['file'], l['line'], l['fn'], l['header'], l['digest'], l['linky'], l['shape'], l['body'][:400]))
        api.ok('tables', 'totality', recursive_groups=len(comps), loops=len(loops), nonzero_unwraps=len(guards), cache_lookups=len(rows))
    except (api.Unsupported, OSError, ValueError, IndexError) as e:
        api.broken('table', 'totality facts', PROPS, e)


# ------------------------------------------------------------------------------------------------ (4) recursion
def module_of(rel):
    parts = rel[:-3].split('/')
    return parts[-2] if parts[-1] == 'mod' else parts[-1]


def call_graph(files):
    """files: {rel: src}.  Nodes (rel, fn); an edge for every call `f(`, `m::f(`, `Self::f(`, `self.f(` / `x.f(` that resolves to a fn
    of the anchor files: qualified by a module name -> that module; unqualified or method call -> the same file if it defines f, else
    the only anchor file that defines f (ambiguous names are not resolved).  Over-approximates (method calls are matched by name)."""
    defs = {}
    bodies = {}
    for rel, src in files.items():
        code = S.blank_comments_and_strings(src)
        tm = re.search(r"#\[cfg\(test\)\]", code)
        limit = tm.start() if tm else len(code)
        for name, a, b in S.fn_spans(code):
            if a >= limit:
                continue
            defs.setdefault(name, set()).add(rel)
            bodies.setdefault((rel, name), []).append(code[a:b])
    mods = {}
    for rel in files:
        mods.setdefault(module_of(rel), []).append(rel)
    edges = {k: set() for k in bodies}
    for (rel, name), bs in bodies.items():
        for body in bs:
            for m in re.finditer(r"(?:\b(\w+)\s*::\s*)?\b([a-z_]\w*)\s*(?:::<[^()]*>)?\s*\(", body):
                qual, callee = m.group(1), m.group(2)
                if callee not in defs or callee in ('if', 'while', 'match', 'for', 'loop', 'return', 'fn'):
                    continue
                if re.search(r"\bfn\s+$", body[:m.start(2)]):
                    continue                # a nested fn definition, not a call
                if qual in mods:
                    tgt = [r for r in mods[qual] if r in defs[callee]]
                elif rel in defs[callee]:
                    tgt = [rel]
                elif len(defs[callee]) == 1 and qual in (None, 'super', 'crate', 'Self', 'self', 'parser', 'converter'):
                    tgt = list(defs[callee])
                else:
                    tgt = []
                for t in tgt:
                    edges[(rel, name)].add((t, callee))
    return edges


def sccs(edges):
    index, low, onst, st, out = {}, {}, set(), [], []
    import sys
    sys.setrecursionlimit(max(sys.getrecursionlimit(), 20000))

    def go(v):
        index[v] = low[v] = len(index)
        st.append(v)
        onst.add(v)
        for w in edges.get(v, ()):
            if w not in index:
                go(w)
                low[v] = min(low[v], low[w])
            elif w in onst:
                low[v] = min(low[v], index[w])
        if low[v] == index[v]:
            comp = []
            while True:
                w = st.pop()
                onst.discard(w)
                comp.append(w)
                if w == v:
                    break
            if len(comp) > 1 or v in edges.get(v, ()):
                out.append(sorted(comp))
    for v in sorted(edges):
        if v not in index:
            go(v)
    return sorted(out)
