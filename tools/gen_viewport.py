"""Gen/PctAxis.v + Gen/LeafViewport.v (C17, extension round 4): the nested <svg> / <symbol> viewport of
usvg::parser::use_node - `use_node_size`, `viewbox_transform`, `get_clip_rect` translated by rs2coq over a record
of node facts (Model/ViewportPrims.v), and the percent-axis table + `convert_percent` of units.rs.

Text rewrites applied before parsing (each is anchored: an unexpected count is a broken tie):
  X.tag_name() == Some(EId::Svg)                          -> is_svg_element(X)
  matches!(X.attribute(AId::Overflow), Some("a") | ...)   -> overflow_no_clip(X)   (+ the string list is emitted)
  X.attribute(AId::PreserveAspectRatio).unwrap_or_default() -> aspect_or_default(X)
  ViewBox { rect, aspect }                                -> mk_viewbox(rect, aspect)
Nested `if a { if b { if c { return e; } } }` is flattened to `if a && b && c { return e; }` by the emitter subclass.
"""
import re

PROPS = ['C17']
USE_REL = 'crates/usvg/src/parser/use_node.rs'
UNITS_REL = 'crates/usvg/src/parser/units.rs'
NEED_AIDS = ['X', 'Y', 'Width', 'Height']


def _match_block(text, start):
    """text[start] == '{' -> index of the matching '}'"""
    depth = 0
    j = start
    while True:
        if text[j] == '{':
            depth += 1
        elif text[j] == '}':
            depth -= 1
            if depth == 0:
                return j
        j += 1


def gen_pct_axis(api):
    rs = api.rs2coq
    src = api.rd(UNITS_REL)
    params, ret, body = rs.find_fn(src, 'convert_length')
    m = re.search(r"match\s+aid\s*\{", body)
    if not m:
        raise api.Unsupported("`match aid` not found in convert_length")
    i = body.index('{', m.start())
    j = _match_block(body, i)
    # the percent arm must be reached only for user-space units and read the view box from the state
    pre = re.sub(r"\s+", " ", body[:m.start()])
    if not re.search(r"Unit::Percent => \{ if object_units == Units::ObjectBoundingBox \{ n / 100\.0 \} else \{ "
                     r"let view_box = state\.view_box; $", pre):
        raise api.Unsupported("convert_length: unexpected shape in front of `match aid`")
    arms_txt = body[i + 1:j]
    arms = re.findall(r"((?:AId::\w+\s*\|?\s*)+)=>\s*convert_percent\(length,\s*view_box\.(width|height)\(\)\)", arms_txt)
    if len(arms) != 2:
        raise api.Unsupported("convert_length: expected two `convert_percent(length, view_box.<dim>())` arms, got %d" % len(arms))
    table = {}
    for names, dim in arms:
        for a in re.findall(r"AId::(\w+)", names):
            if a in table:
                raise api.Unsupported("AId::%s listed twice in the percent arms" % a)
            table[a] = dim
    rest = re.sub(r"((?:AId::\w+\s*\|?\s*)+)=>\s*convert_percent\(length,\s*view_box\.(width|height)\(\)\),?", "", arms_txt)
    if not re.match(r"\s*_\s*=>\s*\{", rest):
        raise api.Unsupported("convert_length: unexpected extra arm in `match aid`")
    missing = [a for a in NEED_AIDS if a not in table]
    if missing:
        raise api.Unsupported("convert_length: AId::%s has no horizontal/vertical percent arm (falls to the diagonal)" % missing)
    cfg = dict(dom='Q', types={'Length': 'length', 'f32': 'Q'}, fields={'number': 'l_num'}, casts={'f32': None, 'f64': None}, ret='Q')
    cp = rs.translate_fn(src, 'convert_percent', cfg)
    names = sorted(table)
    out = [api.HEADER, "From RV Require Import Model.Base Gen.Units Model.SvgSize.\nLocal Open Scope Q_scope.\n",
           "(* %s :: convert_length, Unit::Percent arm, `match aid`: which view box dimension a percentage refers to *)" % UNITS_REL,
           "Inductive aid := " + " | ".join('A_' + a for a in names) + " | A_Other.",
           "Inductive axis := AxW | AxH | AxDiag.",
           "Definition pct_axis (a : aid) : axis :=\n  match a with"]
    for a in names:
        out.append("  | A_%s => %s" % (a, 'AxW' if table[a] == 'width' else 'AxH'))
    out.append("  | A_Other => AxDiag\n  end.\n")
    out.append("(* %s :: convert_percent *)\n%s\n" % (UNITS_REL, cp))
    api.write_gen('PctAxis.v', "\n".join(out))
    api.ok('tables', 'pct_axis', arms=len(table))
    return names


def rewrite(body, fn):
    """Anchored text rewrites into the rs2coq subset.  Returns (text, overflow_values or None)."""
    body, n_svg = re.subn(r"(\w+)\s*\.tag_name\(\)\s*==\s*Some\(EId::Svg\)", r"is_svg_element(\1)", body)
    if 'tag_name' in body:
        raise ValueError("%s: unrecognised use of tag_name()" % fn)
    vals = None
    m = re.search(r"matches!\(\s*(\w+)\s*\.attribute\(AId::Overflow\),\s*((?:Some\(\"[\w-]+\"\)\s*\|?\s*)+)\)", body)
    if m:
        vals = re.findall(r"Some\(\"([\w-]+)\"\)", m.group(2))
        body = body[:m.start()] + "overflow_no_clip(%s)" % m.group(1) + body[m.end():]
    if 'matches!' in body or 'AId::Overflow' in body:
        raise ValueError("%s: unrecognised overflow test" % fn)
    body = re.sub(r"(\w+)\s*\.attribute\(AId::PreserveAspectRatio\)\s*\.unwrap_or_default\(\)", r"aspect_or_default(\1)", body)
    if 'PreserveAspectRatio' in body:
        raise ValueError("%s: unrecognised preserveAspectRatio access" % fn)
    body = re.sub(r"\bViewBox\s*\{\s*rect\s*,\s*aspect\s*\}", "mk_viewbox(rect, aspect)", body)
    if re.search(r"\bViewBox\s*\{", body):
        raise ValueError("%s: unrecognised ViewBox literal" % fn)
    return body, vals, n_svg


def make_emitter(rs):
    class Em(rs.Emitter):
        def stmts(self, stmts, tail, cont):
            if stmts:
                s = stmts[0]
                conds = []
                cur = s
                ret = None
                while cur[0] == 'expr' and cur[1][0] == 'if' and cur[1][3] is None:
                    th = cur[1][2]
                    if th[2] is None and len(th[1]) == 1:
                        inner = th[1][0]
                    elif th[2] is not None and not th[1] and th[2][0] == 'if':
                        inner = ('expr', th[2])      # a trailing `if` without `;` is parsed as the block's tail
                    else:
                        break
                    conds.append(cur[1][1])
                    if inner[0] == 'return':
                        ret = inner[1]
                        break
                    cur = inner
                if ret is not None and len(conds) > 1:
                    c = self.expr(conds[-1])
                    for x in reversed(conds[:-1]):
                        c = "(andb %s %s)" % (self.expr(x), c)
                    return "(if %s then %s else %s)" % (c, self.expr(ret), self.stmts(stmts[1:], tail, cont))
            return super().stmts(stmts, tail, cont)
    return Em


def translate(rs, Em, src, name, cfg, pre=None):
    params, ret, body = rs.find_fn(src, name)
    body, vals, n_svg = rewrite(body, name)
    ps = rs.split_params(params)
    tys = cfg['types']
    binders = []
    for n, t in ps:
        t0 = t.split('<')[0].split('::')[-1]
        if t0 not in tys:
            raise rs.Unsupported("parameter type %s" % t)
        binders.append("(%s : %s)" % (n, tys[t0]))
    ast = rs.parse_body(body)
    s = Em(cfg).block(ast)
    return "Definition %s %s : %s :=\n  %s." % (name, " ".join(binders), cfg['ret'], s), vals, n_svg


IMG_REL = 'crates/usvg/src/parser/image.rs'


def gen_image(api):
    """Gen/LeafImage.v: the placement arithmetic of image.rs convert_inner (image_ts, bounding box, slice clip)."""
    rs = api.rs2coq
    src = api.rd(IMG_REL)
    params, ret, body = rs.find_fn(src, 'convert_inner')
    nb = re.sub(r"//[^\n]*", "", body)
    nb = re.sub(r"\s+", " ", nb)
    m = re.match(r"\{ (let aligned_size = .*?let image_ts = Transform::from_row\(.*?\); )let abs_transform = parent\.abs_transform\.pre_concat\(image_ts\); "
                 r"let abs_bounding_box = (actual_size .*?\.transform\(abs_transform\))\?; ", nb)
    if not m:
        raise api.Unsupported("convert_inner: the placement prefix (aligned_size .. image_ts, abs_transform, abs_bounding_box) has an unexpected shape")
    prefix, bbox_e = m.group(1), m.group(2)
    mc = re.search(r"if aspect\.slice \{ let mut path = Path::new_simple\(Arc::new\(tiny_skia_path::PathBuilder::from_rect\( (.+?), \)\)\) \.unwrap\(\);", nb)
    if not mc:
        raise api.Unsupported("convert_inner: the `if aspect.slice { .. PathBuilder::from_rect(..) }` clip not found")
    if len(re.findall(r"PathBuilder::from_rect\(", nb)) != 1 or len(re.findall(r"aspect\.slice", nb)) != 1:
        raise api.Unsupported("convert_inner: more than one clip rectangle / slice test")
    if not re.search(r"g\.transform = image_ts; g\.abs_transform = abs_transform;", nb):
        raise api.Unsupported("convert_inner: the image group must carry `image_ts` / `abs_transform`")
    if not re.search(r"Node::Image\(Box::new\(Image \{ id: String::new\(\), visible, size: actual_size, rendering_mode, kind, abs_transform, abs_bounding_box, \}\)\)", nb):
        raise api.Unsupported("convert_inner: unexpected Image literal")
    cfg = dict(dom='Q', fields={'align': 'ar_align', 'slice': 'ar_slice'},
               methods={'width': 'g_width', 'height': 'g_height', 'x': 'rx', 'y': 'ry', 'to_non_zero_rect': 'size_to_rect',
                        'pre_concat': 'ts_concat', 'transform': 'rect_transform', 'to_rect': None},
               calls={'crate::aligned_pos': 'aligned_pos', 'aligned_pos': 'aligned_pos', 'Transform::from_row': 'from_row',
                      'fit_view_box': 'fit_view_box', 'Some': 'Some'}, paths={'None': 'None'})

    def tr(text):
        return rs.Emitter(dict(cfg)).block(rs.parse_body(text))
    d_ts = tr("{ " + prefix + " image_ts }")
    d_bb = tr("{ " + prefix + " let abs_transform = parent_ts.pre_concat(image_ts); " + bbox_e + " }")
    d_cl = tr("{ " + prefix + " if aspect.slice { Some(" + mc.group(1) + ") } else { no_clip() } }".replace("no_clip()", "no_clip"))
    out = [api.HEADER, "From RV Require Import Model.Base Model.GeomPrims Gen.Units Model.SvgSize Gen.PctAxis Model.ViewportPrims Gen.LeafViewBox.",
           "Local Open Scope Q_scope.\n",
           "(* %s :: convert_inner, `image_ts`: the transform of the group that holds the image *)" % IMG_REL,
           "Definition image_ts_gen (actual_size : qsize) (rect : qrect) (aspect : aspect) : ts :=\n  %s.\n" % d_ts,
           "(* %s :: convert_inner, `abs_bounding_box` of the image node (parent_ts = parent.abs_transform) *)" % IMG_REL,
           "Definition image_bbox_gen (actual_size : qsize) (rect : qrect) (aspect : aspect) (parent_ts : ts) : option qrect :=\n  %s.\n" % d_bb,
           "(* %s :: convert_inner, the rectangle of the clip path made for preserveAspectRatio=.. slice *)" % IMG_REL,
           "Definition image_clip_gen (actual_size : qsize) (rect : qrect) (aspect : aspect) : option qrect :=\n  %s.\n" % d_cl]
    api.write_gen('LeafImage.v', "\n".join(out))
    api.ok('leaves', 'image_placement', fns=3)


MARKER_REL = 'crates/usvg/src/parser/marker.rs'


def gen_marker(api, aids):
    """Gen/LeafMarker.v: marker.rs convert_rect, stroke_scale, the clip decision/rectangle and the instance transform of `resolve`."""
    rs = api.rs2coq
    U = api.Unsupported
    src = api.rd(MARKER_REL)
    for need in ('RefX', 'RefY', 'MarkerWidth', 'MarkerHeight'):
        if need not in aids:
            raise U("units.rs percent table has no arm for AId::%s" % need)
    paths = dict(('AId::' + a, 'A_' + a) for a in aids)
    cfg = dict(dom='Q', types={'SvgNode': 'mnode', 'State': 'vstate'}, paths=paths,
               methods={'convert_user_length': 'mk_user_length'},
               calls={'NonZeroRect::from_xywh': 'nzrect_from_xywh', 'Length::zero': 'len_zero', 'Length::new_number': 'len_num'},
               ret='option qrect')
    d_rect = rs.translate_fn(src, 'convert_rect', cfg, 'marker_rect')
    # stroke_scale: 1 for markerUnits=userSpaceOnUse, else the (valid) stroke width of the path
    p_, r_, b_ = rs.find_fn(src, 'stroke_scale')
    bn = re.sub(r"\s+", " ", b_)
    m = re.match(r"\{ match marker_node\.attribute\(AId::MarkerUnits\) \{ Some\(\"userSpaceOnUse\"\) => NonZeroPositiveF32::new\(([\d.]+)\), "
                 r"_ => path_node\.resolve_valid_length\(AId::StrokeWidth, state, ([\d.]+)\), \} \}$", bn.strip())
    if not m:
        raise U("stroke_scale: unexpected shape")
    em0 = rs.Emitter(dict(dom='Q'))
    one, defsw = em0.num(m.group(1)), em0.num(m.group(2))
    # resolve: overflow test, clip rectangle, instance transform
    p_, r_, body = rs.find_fn(src, 'resolve')
    nb = re.sub(r"\s+", " ", re.sub(r"//[^\n]*", "", body))
    if not re.search(r"let stroke_scale = stroke_scale\(shape_node, marker_node, state\)\?\.get\(\); let r = convert_rect\(marker_node, state\)\?; "
                     r"let view_box = marker_node\.parse_viewbox\(\)\.map\(\|vb\| ViewBox \{ rect: vb, aspect: marker_node "
                     r"\.attribute\(AId::PreserveAspectRatio\) \.unwrap_or_default\(\), \}\);", nb):
        raise U("resolve: the prologue (stroke_scale, r, view_box) has an unexpected shape")
    mo = re.search(r"let has_overflow = \{ let overflow = marker_node\.attribute\(AId::Overflow\); (overflow\.is_none\(\) \|\| )?"
                   r"((?:overflow == Some\(\"[\w-]+\"\)(?: \|\| )?)+) \};", nb)
    if not mo:
        raise U("resolve: `has_overflow` has an unexpected shape")
    ov_none = bool(mo.group(1))
    ov_vals = re.findall(r"Some\(\"([\w-]+)\"\)", mo.group(2))
    mc = re.search(r"let clip_path = if has_overflow \{ let clip_rect = if let Some\(vbox\) = view_box \{ (.+?) \} else \{ (.+?) \}; ", nb)
    if not mc or not re.search(r"PathBuilder::from_rect\( clip_rect\.to_rect\(\), \)", nb) or len(re.findall(r"PathBuilder::from_rect\(", nb)) != 1:
        raise U("resolve: the clip rectangle has an unexpected shape")
    ecfg = dict(dom='Q', fields={'rect': 'vb_rect', 'x': 'pt_x', 'y': 'pt_y'},
                methods={'size': 'r_size', 'to_non_zero_rect': 'size_to_rect', 'width': 'g_width', 'height': 'g_height', 'x': 'rx', 'y': 'ry',
                         'to_transform': 'to_transform', 'get_scale': 'ts_get_scale', 'pre_scale': 'ts_pre_scale',
                         'pre_translate': 'ts_pre_translate', 'pre_concat': 'ts_concat'},
                calls={'Transform::from_translate': 'from_translate', 'size_from_wh_pos': 'size_from_wh_pos'})

    def ex(text):
        return rs.Emitter(dict(ecfg)).expr(rs.Parser(rs.tokenize(text)).expr())
    clip_some, clip_none = ex(mc.group(1)), ex(mc.group(2))
    md = re.search(r"let draw_marker = \|p: tiny_skia_path::Point, idx: usize\| \{ (let mut ts = Transform::from_translate\(p\.x, p\.y\);) "
                   r"let angle = match convert_orientation\(marker_node\) \{.*?\}; "
                   r"(if !angle\.approx_zero_ulps\(4\) \{ ts = ts\.pre_rotate\(angle\); \}) "
                   r"if let Some\(vbox\) = view_box \{ (.*?) \} else \{ (.*?) \} "
                   r"(ts = ts\.pre_translate\(.*?\);) let mut g = Group \{ transform: ts, abs_transform: parent\.abs_transform\.pre_concat\(ts\), "
                   r"clip_path: clip_path\.clone\(\), \.\.Group::empty\(\) \};", nb)
    if not md:
        raise U("resolve: the draw_marker closure (instance transform) has an unexpected shape")
    pre = md.group(1) + " " + md.group(2).replace("!angle.approx_zero_ulps(4)", "!angle_is_zero").replace("ts.pre_rotate(angle)", "ts.pre_concat(rot)") + ";"
    then_t, n_sz = re.subn(r"match Size::from_wh\((.+?)\) \{ Some\(v\) => v, None => return, \}", r"size_from_wh_pos(\1)", md.group(3))
    if n_sz != 1 or 'return' in then_t or '?' in then_t:
        raise U("resolve: the viewBox branch of draw_marker has an unexpected shape")

    def blk(text):
        return rs.Emitter(dict(ecfg)).block(rs.parse_body("{ " + text + " }"), cont='ts')
    s_pre, s_then, s_else, s_post = blk(pre), blk(then_t), blk(md.group(4)), blk(md.group(5))
    out = [api.HEADER, "From Coq Require Import String.",
           "From RV Require Import Model.Base Model.GeomPrims Gen.Units Model.SvgSize Gen.PctAxis Model.ViewportPrims Gen.LeafViewBox.",
           "Import ListNotations.\nLocal Open Scope Q_scope.\n",
           "(* %s :: convert_rect: (refX, refY, markerWidth, markerHeight) *)\n%s\n" % (MARKER_REL, d_rect),
           "(* %s :: stroke_scale *)" % MARKER_REL,
           "Definition marker_stroke_scale (units_user_space : bool) (valid_stroke_width : option Q) : option Q :=\n"
           "  if units_user_space then Some %s else valid_stroke_width.   (* resolve_valid_length(StrokeWidth, default %s) *)\n" % (one, defsw),
           "(* %s :: resolve, `has_overflow`: when the marker content is clipped *)" % MARKER_REL,
           "Definition marker_clip_values : list string := [%s]." % "; ".join('"%s"%%string' % v for v in ov_vals),
           "Definition marker_has_overflow (o : option string) : bool :=\n  match o with None => %s | Some s => existsb (String.eqb s) marker_clip_values end.\n"
           % ('true' if ov_none else 'false'),
           "(* %s :: resolve, `clip_rect` (in the coordinate system of the marker content) *)" % MARKER_REL,
           "Definition marker_clip_rect (r : qrect) (view_box : option viewbox) : qrect :=\n  match view_box with Some vbox => %s | None => %s end.\n"
           % (clip_some, clip_none),
           "(* %s :: resolve, draw_marker: the transform of one marker instance at vertex p.  The orientation is a parameter:\n"
           "   angle_is_zero = angle.approx_zero_ulps(4), rot = the matrix of pre_rotate(angle) (trigonometry is outside Q) *)" % MARKER_REL,
           "Definition marker_ts (p : qpoint) (angle_is_zero : bool) (rot : ts) (r : qrect) (stroke_scale : Q) (view_box : option viewbox) : ts :=\n"
           "  let ts := %s in\n  let ts := match view_box with Some vbox => %s | None => %s end in\n  %s.\n" % (s_pre, s_then, s_else, s_post)]
    api.write_gen('LeafMarker.v', "\n".join(out))
    api.ok('leaves', 'marker_viewport', fns=5)


def generate(api):
    rs = api.rs2coq
    try:
        gen_image(api)
    except (api.Unsupported, OSError, ValueError, IndexError, KeyError) as e:
        api.broken('leaf', 'image.placement', PROPS, e)
    try:
        aids = gen_pct_axis(api)
    except (api.Unsupported, OSError, ValueError, IndexError) as e:
        api.broken('table', 'units.pct_axis', PROPS, e)
        return
    try:
        gen_marker(api, aids)
    except (api.Unsupported, OSError, ValueError, IndexError, KeyError) as e:
        api.broken('leaf', 'marker.viewport', PROPS, e)
    try:
        src = api.rd(USE_REL)
        Em = make_emitter(rs)
        paths = {'LengthUnit::Percent': 'UPercent'}
        for a in aids:
            paths['AId::' + a] = 'A_' + a
        base = dict(
            dom='Q', types={'SvgNode': 'vnode', 'State': 'vstate'}, paths=paths,
            fields={'use_size': 'st_use_size', '0': 'fst', '1': 'snd'},
            methods={'convert_user_length': 'vn_user_length', 'is_none': 'is_none', 'unwrap_or': 'opt_unwrap_or',
                     'has_attribute': 'vn_has_attr', 'is_valid_length': 'valid_length', 'parse_viewbox': 'vn_viewbox',
                     'to_transform': 'to_transform'},
            calls={'Length::new': 'mk_len', 'Length::zero': 'len_zero', 'Size::from_wh': 'size_from_wh',
                   'NonZeroRect::from_xywh': 'nzrect_from_xywh', 'use_node_size': 'use_node_size',
                   'is_svg_element': 'vn_is_svg', 'overflow_no_clip': 'overflow_no_clip',
                   'aspect_or_default': 'aspect_or_default', 'mk_viewbox': 'mk_viewbox', 'Some': 'Some'})
        d1, _, _ = translate(rs, Em, src, 'use_node_size', dict(base, ret='(Q * Q)%type'))
        d2, _, n2 = translate(rs, Em, src, 'viewbox_transform', dict(base, ret='option ts'))
        d3, vals, n3 = translate(rs, Em, src, 'get_clip_rect', dict(base, ret='option qrect'))
        if vals is None:
            raise api.Unsupported("get_clip_rect: the overflow test `matches!(.. AId::Overflow ..)` was not found")
        if n2 != 1 or n3 != 2:
            raise api.Unsupported("use override sites: expected 1 `tag_name() == Some(EId::Svg)` in viewbox_transform and 2 in "
                                  "get_clip_rect, got %d and %d" % (n2, n3))
        out = [api.HEADER, "From Coq Require Import String.",
               "From RV Require Import Model.Base Model.GeomPrims Gen.Units Model.SvgSize Gen.PctAxis Model.ViewportPrims Gen.LeafViewBox.",
               "Import ListNotations.\nLocal Open Scope Q_scope.\n",
               "(* %s :: get_clip_rect, the `overflow` values that switch the viewport clip off *)" % USE_REL,
               "Definition overflow_no_clip_values : list string := [%s]." % "; ".join('"%s"%%string' % v for v in vals),
               "Definition overflow_no_clip (n : vnode) : bool :=\n  match vn_overflow n with Some s => existsb (String.eqb s) overflow_no_clip_values | None => false end.\n",
               "(* %s :: use_node_size *)\n%s\n" % (USE_REL, d1),
               "(* %s :: viewbox_transform *)\n%s\n" % (USE_REL, d2),
               "(* %s :: get_clip_rect *)\n%s\n" % (USE_REL, d3)]
        api.write_gen('LeafViewport.v', "\n".join(out))
        api.ok('leaves', 'viewport', fns=3)
    except (api.Unsupported, OSError, ValueError, IndexError, KeyError) as e:
        api.broken('leaf', 'use_node.viewport', PROPS, e)
