"""Gen/LeafStyle.v: source-derived leaf logic for C04 (value resolution / validity).

Translated with rs2coq over the special-value number domain `xq` of Model/StylePrims.v (finite rational,
+inf, -inf, NaN), so that edits of the Rust expressions change the Coq definitions the C04 theorems are
proved about:

  units.rs          convert_percent, convert_length (whole functions)
  style.rs          the stroke-miterlimit clamp of resolve_stroke (statement slice),
                    conv_dasharray: the rejection closure, the `approx_eq_ulps` ulps constant, the parity test
  tree/mod.rs       StrokeMiterlimit::new
  parser/mod.rs     f32_bound
  tree/geom.rs      <f32 as IsValidLength>::is_valid_length
  paint_server.rs   convert_stops: the conditions and replacement values of the three normalisation passes
                    (loop skeletons are hand-modelled in Model/Style.v; their shape is pinned by anchors here)
  shapes.rs         the rx/ry clamp of convert_rect (statement slice)

A missing anchor or a construct outside the subset is reported as a broken tie for C04.
"""
import re

PROPS = ['C04']

PRELUDE = "From Coq Require Import String.\nFrom RV Require Import Model.Base Model.StylePrims.\nLocal Open Scope Q_scope.\nLocal Open Scope string_scope.\n"

UNIT_PATHS = {'Unit::None': 'U_None', 'Unit::Px': 'U_Px', 'Unit::Em': 'U_Em', 'Unit::Ex': 'U_Ex', 'Unit::In': 'U_In',
              'Unit::Cm': 'U_Cm', 'Unit::Mm': 'U_Mm', 'Unit::Pt': 'U_Pt', 'Unit::Pc': 'U_Pc', 'Unit::Percent': 'U_Percent'}
AIDS = ['Cx', 'Dx', 'Fx', 'MarkerWidth', 'RefX', 'Rx', 'Width', 'X', 'X1', 'X2',
        'Cy', 'Dy', 'Fy', 'Height', 'MarkerHeight', 'RefY', 'Ry', 'Y', 'Y1', 'Y2']
AID_PATHS = {'AId::' + a: 'A_' + a for a in AIDS}
PATHS = dict(UNIT_PATHS)
PATHS.update(AID_PATHS)
PATHS.update({'Units::ObjectBoundingBox': 'ObjectBoundingBox', 'Units::UserSpaceOnUse': 'UserSpaceOnUse',
              'f32::EPSILON': '(Fin F32_EPS)'})


def make_emitter(rs, cfg):
    class XEmitter(rs.Emitter):
        """rs2coq emitter over xq: literals are `Fin q`, arithmetic/comparisons are the xq operations."""

        def num(self, v):
            v = re.sub(r"_?(f32|f64|i32|u32|u8|i64|u64|usize|isize)$", "", v).replace('_', '')
            if 'e' in v.lower():
                raise rs.Unsupported("exponent literal " + v)
            if '.' in v:
                a, b = v.split('.')
                den = 10 ** len(b)
                n = int(a + b)
                from math import gcd
                g = gcd(n, den) or 1
                return "(Fin (%d # %d))" % (n // g, den // g)
            return "(Fin (%s # 1))" % v

        def binop(self, op, a, b):
            if op == '&&':
                return "(andb %s %s)" % (a, b)
            if op == '||':
                return "(orb %s %s)" % (a, b)
            m = {'+': 'xq_add', '-': 'xq_sub', '*': 'xq_mul', '/': 'xq_div',
                 '<': 'xq_ltb', '>': 'xq_gtb', '<=': 'xq_leb', '>=': 'xq_geb', '==': 'xq_eqb', '!=': 'xq_neb'}
            if op not in m:
                raise rs.Unsupported("operator " + op)
            return "(%s %s %s)" % (m[op], a, b)

        def expr(self, e):
            if e[0] == 'neg':
                return "(xq_neg %s)" % self.expr(e[1])
            if e[0] == 'mcall' and e[2] == 'approx_eq_ulps':
                if len(e[3]) != 2 or e[3][1][0] != 'num':
                    raise rs.Unsupported("approx_eq_ulps: unexpected arguments")
                return "(xq_approx_eq_ulps %s %s (%s)%%Z)" % (self.expr(e[1]), self.expr(e[3][0]), int(e[3][1][1]))
            if e[0] == 'mcall' and e[2] == 'powi':
                if len(e[3]) != 1 or e[3][0] != ('num', '2'):
                    raise rs.Unsupported("powi with an exponent other than 2")
                return "(xq_powi2 %s)" % self.expr(e[1])
            return super().expr(e)
    return XEmitter(cfg)


BASE_CFG = dict(
    dom='X',
    types={'f32': 'xq', 'Length': 'length_', 'SvgNode': 'node_', 'AId': 'aid_', 'Units': 'units_', 'State': 'state_',
           'Option': 'option xq', 'Self': 'xq'},
    paths=PATHS, enum_eqb='units_eqb',
    fields={'number': 'len_number', 'unit': 'len_unit', 'opt': 'st_opt', 'dpi': 'opt_dpi', 'view_box': 'st_view_box'},
    methods={'width': 'xr_w', 'height': 'xr_h', 'sqrt': 'sqrt_fn', 'is_finite': 'xq_finite',
             'is_sign_negative': 'xq_sign_negative', 'clamp': 'xq_clamp', 'max': 'xq_max', 'min': 'xq_min', 'unwrap_or': 'xq_unwrap_or'},
    calls={'convert_percent': 'convert_percent', 'resolve_font_size': 'resolve_font_size'},
    casts={'f32': None, 'f64': None},
)


def strip_debug_asserts(body):
    return re.sub(r"debug_assert(?:_ne|_eq)?!\s*\((?:[^()]|\([^()]*\))*\)\s*;", "", body)


def fn_text(rs, src, name, after=None):
    params, ret, body = rs.find_fn(src, name, after)
    return params, ret, body


def translate_block(rs, api, coq_name, binders, ret, block_src, cfg):
    """Translate `{ stmts; tail }` given as text into `Definition coq_name binders : ret := ...`."""
    ast = rs.parse_body(block_src)
    em = make_emitter(rs, dict(cfg))
    return "Definition %s %s : %s :=\n  %s." % (coq_name, binders, ret, em.block(ast))


def need(api, pattern, text, what, flags=re.S):
    m = re.search(pattern, text, flags)
    if not m:
        raise api.Unsupported("anchor not found: " + what)
    return m


def generate(api):
    rs = api.rs2coq
    out = [api.HEADER, PRELUDE]
    broken = []

    def section(name, rel, f):
        try:
            out.append("(* %s :: %s *)" % (rel, name))
            out.append(f(api.rd(rel)) + "\n")
            api.ok('leaves', 'style.' + name, props=PROPS, rel=rel)
        except (api.Unsupported, OSError, ValueError, IndexError, KeyError) as e:
            out.append("(* NOT TRANSLATED: %s *)\n" % str(e).replace('*)', '* )'))
            api.broken('leaf', 'style.' + name, PROPS, e)
            broken.append(name)

    # ---------------------------------------------------------------- units.rs
    def g_convert_percent(src):
        params, ret, body = rs.find_fn(src, 'convert_percent')
        if re.sub(r"\s+", "", params) != "length:Length,base:f32":
            raise api.Unsupported("convert_percent: signature changed: " + params)
        return translate_block(rs, api, 'convert_percent', '(length : length_) (base : xq)', 'xq', body, BASE_CFG)
    section('convert_percent', 'crates/usvg/src/parser/units.rs', g_convert_percent)

    def g_convert_length(src):
        params, ret, body = rs.find_fn(src, 'convert_length')
        sig = re.sub(r"\s+", "", params)
        if sig != "length:Length,node:SvgNode,aid:AId,object_units:Units,state:&converter::State,":
            raise api.Unsupported("convert_length: signature changed: " + sig)
        return translate_block(rs, api, 'convert_length',
                               '(sqrt_fn : xq -> xq) (length : length_) (node : node_) (aid : aid_) (object_units : units_) (state : state_)',
                               'xq', body, BASE_CFG)
    section('convert_length', 'crates/usvg/src/parser/units.rs', g_convert_length)

    # ---------------------------------------------------------------- style.rs: miter clamp
    def g_miter(src):
        params, ret, body = rs.find_fn(src, 'resolve_stroke')
        m = need(api, r"(let\s+miterlimit\s*:\s*f32\s*=\s*node\.find_attribute\(AId::StrokeMiterlimit\)(.*?))"
                      r"let\s+miterlimit\s*=\s*StrokeMiterlimit::new\(miterlimit\);", body, "miterlimit slice of resolve_stroke")
        sl = m.group(1).replace("node.find_attribute(AId::StrokeMiterlimit)", "raw")
        if 'node' in sl or 'state' in sl:
            raise api.Unsupported("miterlimit slice mentions node/state: " + sl)
        return translate_block(rs, api, 'miter_clamp', '(raw : option xq)', 'xq', "{ %s miterlimit }" % sl, BASE_CFG)
    section('miter_clamp', 'crates/usvg/src/parser/style.rs', g_miter)

    # stroke width: validated after unit conversion (resolve_length -> NonZeroPositiveF32::new), dash list from conv_dasharray
    def g_width(src):
        params, ret, body = rs.find_fn(src, 'resolve_stroke')
        need(api, r"let\s+width\s*=\s*node\.resolve_valid_length\(AId::StrokeWidth,\s*state,\s*1\.0\)\?;", body, "resolve_stroke: width via resolve_valid_length")
        need(api, r"dasharray:\s*conv_dasharray\(node,\s*state\),", body, "resolve_stroke: dash list from conv_dasharray")
        need(api, r"miterlimit,\s*opacity:", body, "resolve_stroke: clamped miter limit stored")
        conv = api.rd('crates/usvg/src/parser/converter.rs')
        p2, r2, b2 = rs.find_fn(conv, 'resolve_valid_length')
        need(api, r"^\{\s*let\s+n\s*=\s*self\.resolve_length\(aid,\s*state,\s*def\);\s*NonZeroPositiveF32::new\(n\)\s*\}$", re.sub(r"//[^\n]*", "", b2).strip(),
             "resolve_valid_length: NonZeroPositiveF32::new of the converted length")
        return "Definition STROKE_WIDTH_DEFAULT : xq := Fin 1."
    section('resolve_stroke skeleton', 'crates/usvg/src/parser/style.rs', g_width)

    def g_miter_new(src):
        params, ret, body = rs.find_fn(src, 'new', after=r"impl\s+StrokeMiterlimit\s*\{")
        body = strip_debug_asserts(body).replace("StrokeMiterlimit(n)", "n")
        return translate_block(rs, api, 'stroke_miterlimit_new', '(n : xq)', 'xq', body, BASE_CFG)
    section('StrokeMiterlimit::new', 'crates/usvg/src/tree/mod.rs', g_miter_new)

    # ---------------------------------------------------------------- style.rs: conv_dasharray
    def g_dash(src):
        params, ret, body = rs.find_fn(src, 'conv_dasharray')
        code = re.sub(r"//[^\n]*", "", body)
        # the values that are validated are the CONVERTED ones: `list` is the result of convert_list and the
        # rejection test follows it directly (the model applies dash_reject after convert_length)
        need(api, r"let\s+list\s*=\s*super::units::convert_list\(node,\s*AId::StrokeDasharray,\s*state\)\?;\s*if\s+list\.iter\(\)\.any\(", code,
             "conv_dasharray: rejection test applied to the converted list")
        m = need(api, r"if\s+list\.iter\(\)\.any\(\|n\|\s*(.*?)\)\s*\{\s*return\s+None;\s*\}", code, "conv_dasharray rejection closure")
        clos = m.group(1)
        d1 = translate_block(rs, api, 'dash_reject', '(n : xq)', 'bool', "{ %s }" % clos, BASE_CFG)
        need(api, r"let\s+mut\s+sum\s*:\s*f32\s*=\s*0\.0;\s*for\s+n\s+in\s+list\.iter\(\)\s*\{\s*sum\s*\+=\s*\*n;\s*\}", code,
             "conv_dasharray sum loop")
        m = need(api, r"if\s+(sum\.approx_eq_ulps\(&0\.0,\s*\d+\))\s*\{\s*return\s+None;\s*\}", code, "conv_dasharray zero-sum test")
        d2 = translate_block(rs, api, 'dash_sum_is_zero', '(sum : xq)', 'bool', "{ %s }" % m.group(1), BASE_CFG)
        m = need(api, r"if\s+list\.len\(\)\s*%\s*(\d+)\s*!=\s*(\d+)\s*\{\s*let\s+mut\s+tmp_list\s*=\s*list\.clone\(\);\s*"
                      r"tmp_list\.extend_from_slice\(&list\);\s*return\s+Some\(tmp_list\);\s*\}\s*Some\(list\)", code,
                 "conv_dasharray parity / doubling")
        d3 = ("Definition dash_needs_doubling (len : nat) : bool := negb (Nat.eqb (Nat.modulo len %s) %s)."
              % (m.group(1), m.group(2)))
        # order of the three tests is part of the model's skeleton
        o = [code.find('list.iter().any'), code.find('sum.approx_eq_ulps'), code.find('list.len() %')]
        if not (0 <= o[0] < o[1] < o[2]):
            raise api.Unsupported("conv_dasharray: order of the tests changed")
        return "\n".join([d1, d2, d3])
    section('conv_dasharray', 'crates/usvg/src/parser/style.rs', g_dash)

    # ---------------------------------------------------------------- parser/mod.rs: f32_bound
    def g_bound(src):
        params, ret, body = rs.find_fn(src, 'f32_bound')
        if re.sub(r"\s+", "", params) != "min:f32,val:f32,max:f32":
            raise api.Unsupported("f32_bound: signature changed")
        return translate_block(rs, api, 'f32_bound', '(min val max : xq)', 'xq', strip_debug_asserts(body), BASE_CFG)
    section('f32_bound', 'crates/usvg/src/parser/mod.rs', g_bound)

    # ---------------------------------------------------------------- tree/geom.rs: is_valid_length
    def g_valid_len(src):
        params, ret, body = rs.find_fn(src, 'is_valid_length', after=r"impl\s+IsValidLength\s+for\s+f32\s*\{")
        cfg = dict(BASE_CFG, vars={'self': 'x'})
        return translate_block(rs, api, 'is_valid_length', '(x : xq)', 'bool', body, cfg)
    section('is_valid_length', 'crates/usvg/src/tree/geom.rs', g_valid_len)

    # ---------------------------------------------------------------- paint_server.rs: convert_stops
    def g_stops(src):
        params, ret, body = rs.find_fn(src, 'convert_stops')
        code = re.sub(r"//[^\n]*", "", body)
        ds = []
        # initial clamp
        # (since 8613502 the offset is clamped as f64 before it is narrowed to f32)
        m = need(api, r"let\s+offset\s*=\s*(offset\.clamp\(0\.0,\s*1\.0\)\s+as\s+f32);", code, "stop offset clamp")
        cfg = dict(BASE_CFG, calls=dict(BASE_CFG['calls'], **{'crate::f32_bound': 'f32_bound', 'f32_bound': 'f32_bound'}))
        ds.append(translate_block(rs, api, 'stop_offset_bound', '(offset : xq)', 'xq', "{ %s }" % m.group(1), cfg))
        need(api, r"offset:\s*StopOffset::new_clamped\(offset\)", code, "StopOffset::new_clamped(offset) at push")
        # pass 1
        m = need(api, r"if\s+stops\.len\(\)\s*>=\s*3\s*\{\s*let\s+mut\s+i\s*=\s*0;\s*while\s+i\s*<\s*stops\.len\(\)\s*-\s*2\s*\{\s*"
                      r"let\s+offset1\s*=\s*stops\[i\s*\+\s*0\]\.offset\.get\(\);\s*"
                      r"let\s+offset2\s*=\s*stops\[i\s*\+\s*1\]\.offset\.get\(\);\s*"
                      r"let\s+offset3\s*=\s*stops\[i\s*\+\s*2\]\.offset\.get\(\);\s*"
                      r"if\s+(.*?)\s*\{\s*stops\.remove\(i\s*\+\s*1\);\s*\}\s*else\s*\{\s*i\s*\+=\s*1;\s*\}\s*\}\s*\}", code,
                 "pass 1 (remove the middle of three equal offsets)")
        ds.append(translate_block(rs, api, 'stops_dup3', '(offset1 offset2 offset3 : xq)', 'bool', "{ %s }" % m.group(1), cfg))
        p1 = m.start()
        # pass 2
        m = need(api, r"if\s+stops\.len\(\)\s*>=\s*2\s*\{\s*let\s+mut\s+i\s*=\s*0;\s*while\s+i\s*<\s*stops\.len\(\)\s*-\s*1\s*\{\s*"
                      r"let\s+offset1\s*=\s*stops\[i\s*\+\s*0\]\.offset\.get\(\);\s*"
                      r"let\s+offset2\s*=\s*stops\[i\s*\+\s*1\]\.offset\.get\(\);\s*"
                      r"if\s+(.*?)\s*\{\s*stops\[i\s*\+\s*1\]\.offset\s*=\s*StopOffset::new_clamped\((.*?)\);\s*\}\s*i\s*\+=\s*1;\s*\}\s*\}", code,
                 "pass 2 (separate leading zero offsets)")
        ds.append(translate_block(rs, api, 'stops_zero2', '(offset1 offset2 : xq)', 'bool', "{ %s }" % m.group(1), cfg))
        ds.append(translate_block(rs, api, 'stops_zero_new', '(offset1 : xq)', 'xq', "{ %s }" % m.group(2), cfg))
        p2 = m.start()
        # pass 3
        m = need(api, r"\{\s*let\s+mut\s+i\s*=\s*1;\s*while\s+i\s*<\s*stops\.len\(\)\s*\{\s*"
                      r"let\s+offset1\s*=\s*stops\[i\s*-\s*1\]\.offset\.get\(\);\s*"
                      r"let\s+offset2\s*=\s*stops\[i\s*-\s*0\]\.offset\.get\(\);\s*"
                      r"if\s+(.*?)\s*\{\s*"
                      r"let\s+min_offset\s*=\s*if\s+i\s*>=\s*2\s*\{\s*stops\[i\s*-\s*2\]\.offset\.get\(\)\s*\}\s*else\s*\{\s*(0\.0)\s*\};\s*"
                      r"let\s+new_offset\s*=\s*(.*?);\s*"
                      r"stops\[i\s*-\s*1\]\.offset\s*=\s*StopOffset::new_clamped\(new_offset\);\s*"
                      r"stops\[i\s*-\s*0\]\.offset\s*=\s*StopOffset::new_clamped\(offset1\);\s*\}\s*i\s*\+=\s*1;\s*\}\s*\}\s*stops\s*\}\s*$", code,
                 "pass 3 (shift equal / descending offsets)")
        ds.append(translate_block(rs, api, 'stops_shift_cond', '(offset1 offset2 : xq)', 'bool', "{ %s }" % m.group(1), cfg))
        ds.append(translate_block(rs, api, 'stops_shift_min0', '', 'xq', "{ %s }" % m.group(2), cfg))
        ds.append(translate_block(rs, api, 'stops_shift_new', '(offset1 min_offset : xq)', 'xq', "{ %s }" % m.group(3), cfg))
        if not (p1 < p2 < m.start()):
            raise api.Unsupported("convert_stops: order of the passes changed")
        return "\n".join(ds)
    section('convert_stops', 'crates/usvg/src/parser/paint_server.rs', g_stops)

    # gradients: the `stops.len() < 2` guard and the radial `r` guard
    def g_grad(src):
        for fn in ('convert_linear', 'convert_radial'):
            params, ret, body = rs.find_fn(src, fn)
            code = re.sub(r"//[^\n]*", "", body)
            need(api, r"let\s+stops\s*=\s*convert_stops\(find_gradient_with_stops\(node\)\?\);\s*if\s+stops\.len\(\)\s*<\s*2\s*\{\s*"
                      r"return\s+stops_to_color\(&stops\);\s*\}", code, fn + ": fewer-than-two-stops guard")
        need(api, r"if\s+!r\.is_valid_length\(\)\s*\{\s*let\s+stop\s*=\s*stops\.last\(\)\.unwrap\(\);\s*return\s+Some\(ServerOrColor::Color",
             code, "convert_radial: r guard")
        need(api, r"r:\s*PositiveF32::new\(r\)\.unwrap\(\)", code, "convert_radial: r stored unchanged")
        return "Definition GRADIENT_MIN_STOPS : nat := 2."
    section('gradient guards', 'crates/usvg/src/parser/paint_server.rs', g_grad)

    # ---------------------------------------------------------------- shapes.rs: rx/ry clamp
    def g_radii(src):
        params, ret, body = rs.find_fn(src, 'convert_rect')
        code = re.sub(r"//[^\n]*", "", body)
        m = need(api, r"let\s*\(mut\s+rx,\s*mut\s+ry\)\s*=\s*resolve_rx_ry\(node,\s*state\);\s*(if\s+rx.*?)\s*let\s+path\s*=\s*if\s+(rx\.approx_eq_ulps\(&0\.0,\s*\d+\))",
                 code, "rx/ry clamp slice of convert_rect")
        d1 = translate_block(rs, api, 'clamp_radii', '(rx ry width height : xq)', '(xq * xq)%type',
                             "{ %s (rx, ry) }" % m.group(1), BASE_CFG)
        d2 = translate_block(rs, api, 'rect_is_plain', '(rx : xq)', 'bool', "{ %s }" % m.group(2), BASE_CFG)
        need(api, r"if\s+!width\.is_valid_length\(\)\s*\{.*?return\s+None;\s*\}\s*if\s+!height\.is_valid_length\(\)\s*\{.*?return\s+None;\s*\}",
             code, "convert_rect width/height guards")
        return d1 + "\n" + d2
    section('convert_rect radii', 'crates/usvg/src/parser/shapes.rs', g_radii)

    # ---------------------------------------------------------------- svgtree: which attributes resolve the `inherit` keyword
    def g_inherit(src):
        m = re.search(r"fn\s+allows_inherit_value\(&self\)\s*->\s*bool\s*\{\s*matches!\(\s*self,(.*?)\)\s*\}", src, re.S)
        if not m:
            raise api.Unsupported("anchor not found: allows_inherit_value table")
        names = re.findall(r"AId::(\w+)", m.group(1))
        if not names:
            raise api.Unsupported("allows_inherit_value: empty table")
        parse = api.rd('crates/usvg/src/parser/svgtree/parse.rs')
        need(api, r"if\s+aid\.allows_inherit_value\(\)\s*&&\s*&\*value\s*==\s*\"inherit\"\s*\{", parse,
             "parse.rs: `inherit` is resolved exactly for the attributes of the table")
        return ("Definition allows_inherit_value_list : list string :=\n  [%s]." % "; ".join('"%s"' % n for n in names))
    section('allows_inherit_value', 'crates/usvg/src/parser/svgtree/mod.rs', g_inherit)

    api.write_gen('LeafStyle.v', "\n".join(out))
