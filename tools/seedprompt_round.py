#!/usr/bin/env python3
"""usage: seedprompt_round.py Cxx first last   -- red-team prompt for a later round: output dirs first..last,
with the titles of the existing seeds as an avoid-list (titles only; nothing else from /verif goes in)."""
import glob, json, os, subprocess, sys
pid, first, last = sys.argv[1], int(sys.argv[2]), int(sys.argv[3])
n = last - first + 1
base = subprocess.run([sys.executable, os.path.join(os.path.dirname(__file__), 'seedprompt.py'), pid, str(n)],
                      capture_output=True, text=True).stdout.rstrip('\n')
base = base.replace("For each change i = 1..%d create" % n, "For each change i = %d..%d create" % (first, last))
titles = []
for d in sorted(glob.glob('/verif/seeded/%s-*' % pid), key=lambda x: int(x.rsplit('-', 1)[1])):
    try:
        m = json.load(open(d + '/meta.json'))
    except Exception:
        continue
    t = str(m.get('title', '')).strip().replace('\n', ' ')
    fs = m.get('files_touched') or []
    if isinstance(fs, str):
        fs = [fs]
    short = ', '.join(os.path.basename(f) for f in fs[:2])
    if t:
        titles.append("- %s (%s)" % (t[:200], short))
print(base)
print("\n\nOther engineers already produced the following changes for this property; do NOT repeat these ideas or minor "
      "variants of them — pick different code sites, different clauses of the property and different trigger mechanisms:")
print('\n'.join(titles))
print("\nUse the output directory /tmp/seed-%s-out/<i>/ with i = %d..%d (not 1..%d)." % (pid, first, last, n))
print("\nIMPORTANT about machine load: other jobs share this 16-core machine. Run the test-suite with --test-threads 6, "
      "run at most ONE cargo/nextest invocation at a time (never suites in parallel copies), and do not leave processes "
      "running in the background.")
