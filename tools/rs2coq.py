"""Restricted Rust -> Gallina translator (level T2 of DESIGN.md 1.3).

Handles the leaf-function subset: `let`/`let mut`, reassignment, `if` with or
without `else` (statement form updates the assigned variables), `match` on unit
enum paths, arithmetic and comparisons, tuple values and patterns, field
access, method calls and associated-function calls resolved through a table
supplied by the caller, `return`, `?` on Option values.

Anything outside the subset raises `Unsupported`, which the caller reports as a
broken tie for that function (never a silent default).
"""
import re


class Unsupported(Exception):
    pass


TOKEN_RE = re.compile(r"""
    (?P<ws>\s+|//[^\n]*|/\*.*?\*/)
  | (?P<num>\d[\d_]*(?:\.\d+)?(?:[eE][+-]?\d+)?(?:_?(?:f32|f64|i32|u32|u8|i64|u64|usize|isize))?)
  | (?P<id>[A-Za-z_][A-Za-z0-9_]*)
  | (?P<op>::|->|=>|==|!=|<=|>=|&&|\|\||\+=|-=|\*=|/=|\.\.|[-+*/%<>=!&|.,;:(){}\[\]?\#])
""", re.X | re.S)


def tokenize(src):
    pos = 0
    out = []
    while pos < len(src):
        m = TOKEN_RE.match(src, pos)
        if not m:
            raise Unsupported("cannot tokenize at: %r" % src[pos:pos + 30])
        pos = m.end()
        if m.lastgroup == 'ws':
            continue
        out.append((m.lastgroup, m.group(m.lastgroup)))
    out.append(('eof', ''))
    return out


def find_fn(src, name, after=None):
    """Return (params_text, ret_text, body_text) of `fn name`. `after` is an
    optional regex that must match before the function (e.g. an impl header)."""
    start = 0
    if after:
        m = re.search(after, src)
        if not m:
            raise Unsupported("anchor %r not found" % after)
        start = m.end()
    ms = list(re.finditer(r"\bfn\s+%s\s*(<[^>]*>)?\s*\(" % re.escape(name), src[start:]))
    if not ms:
        raise Unsupported("fn %s not found" % name)
    m = ms[0]
    i = start + m.end() - 1
    depth = 0
    j = i
    while True:
        c = src[j]
        if c == '(':
            depth += 1
        elif c == ')':
            depth -= 1
            if depth == 0:
                break
        j += 1
    params = src[i + 1:j]
    k = src.index('{', j)
    ret = src[j + 1:k].strip()
    if ret.startswith('->'):
        ret = ret[2:].strip()
    depth = 0
    e = k
    while True:
        c = src[e]
        if c == '{':
            depth += 1
        elif c == '}':
            depth -= 1
            if depth == 0:
                break
        e += 1
    return params, ret, src[k:e + 1]


def split_params(params):
    out = []
    depth = 0
    cur = ''
    for c in params:
        if c in '(<[':
            depth += 1
        elif c in ')>]':
            depth -= 1
        if c == ',' and depth == 0:
            out.append(cur.strip())
            cur = ''
        else:
            cur += c
    if cur.strip():
        out.append(cur.strip())
    res = []
    for p in out:
        p = re.sub(r"^\s*mut\s+", "", p)
        if p in ('&self', 'self', '&mut self'):
            res.append(('self', 'Self'))
        else:
            n, t = p.split(':', 1)
            n = n.strip()
            n = re.sub(r"^mut\s+", "", n)
            res.append((n, t.strip().lstrip('&').strip()))
    return res


class Parser:
    def __init__(self, toks):
        self.t = toks
        self.i = 0

    def peek(self, k=0):
        return self.t[self.i + k]

    def next(self):
        tok = self.t[self.i]
        self.i += 1
        return tok

    def accept(self, val):
        if self.peek()[1] == val and self.peek()[0] != 'eof':
            self.i += 1
            return True
        return False

    def expect(self, val):
        if not self.accept(val):
            raise Unsupported("expected %r, got %r" % (val, self.peek()))

    # block := '{' stmt* expr? '}'
    def block(self):
        self.expect('{')
        stmts = []
        tail = None
        while not self.accept('}'):
            if self.peek()[1] == 'let':
                stmts.append(self.let())
                continue
            if self.peek()[1] == 'return':
                self.next()
                e = None if self.peek()[1] == ';' else self.expr()
                self.accept(';')
                stmts.append(('return', e))
                continue
            e = self.expr()
            if self.peek()[1] in ('=', '+=', '-=', '*=', '/='):
                op = self.next()[1]
                rhs = self.expr()
                self.expect(';')
                if e[0] != 'var':
                    raise Unsupported("assignment to non-variable")
                if op != '=':
                    rhs = ('bin', op[0], e, rhs)
                stmts.append(('assign', e[1], rhs))
                continue
            if self.accept(';'):
                stmts.append(('expr', e))
                continue
            if self.peek()[1] == '}':
                tail = e
                continue
            if e[0] in ('if', 'match', 'block'):
                stmts.append(('expr', e))
                continue
            raise Unsupported("unexpected token %r after expression" % (self.peek(),))
        return ('block', stmts, tail)

    def let(self):
        self.expect('let')
        self.accept('mut')
        pat = self.pattern()
        if self.accept(':'):
            self.type_()
        self.expect('=')
        e = self.expr()
        self.expect(';')
        return ('let', pat, e)

    def type_(self):
        depth = 0
        while True:
            k, v = self.peek()
            if depth == 0 and v in ('=', ';', ',', ')', '{'):
                return
            if v in ('<', '('):
                depth += 1
            if v in ('>', ')'):
                depth -= 1
            self.next()

    def pattern(self):
        if self.accept('('):
            items = []
            while not self.accept(')'):
                self.accept('mut')
                items.append(self.pattern())
                self.accept(',')
            return ('ptuple', items)
        k, v = self.next()
        if k != 'id':
            raise Unsupported("pattern %r" % v)
        if v == '_':
            return ('pwild',)
        path = [v]
        while self.accept('::'):
            path.append(self.next()[1])
        if len(path) > 1:
            args = []
            if self.accept('('):
                while not self.accept(')'):
                    args.append(self.pattern())
                    self.accept(',')
            return ('ppath', path, args)
        if self.peek()[1] == '(':
            self.next()
            args = []
            while not self.accept(')'):
                args.append(self.pattern())
                self.accept(',')
            return ('ppath', path, args)
        return ('pvar', v)

    PREC = [['||'], ['&&'], ['==', '!=', '<', '>', '<=', '>='], ['+', '-'], ['*', '/', '%']]

    def expr(self, level=0, nostruct=False):
        if level == len(self.PREC):
            return self.unary()
        lhs = self.expr(level + 1)
        while self.peek()[0] == 'op' and self.peek()[1] in self.PREC[level]:
            op = self.next()[1]
            rhs = self.expr(level + 1)
            lhs = ('bin', op, lhs, rhs)
        return lhs

    def unary(self):
        if self.accept('-'):
            return ('neg', self.unary())
        if self.accept('!'):
            return ('not', self.unary())
        if self.accept('*') or self.accept('&'):
            self.accept('mut')
            return self.unary()
        e = self.postfix()
        while self.peek()[1] == 'as':
            self.next()
            k, v = self.next()
            e = ('cast', e, v)
        return e

    def postfix(self):
        e = self.primary()
        while True:
            if self.accept('.'):
                k, v = self.next()
                if k == 'num':
                    e = ('field', e, v)
                    continue
                if self.peek()[1] == '(':
                    args = self.args()
                    e = ('mcall', e, v, args)
                else:
                    e = ('field', e, v)
                continue
            if self.accept('?'):
                e = ('try', e)
                continue
            return e

    def args(self):
        self.expect('(')
        args = []
        while not self.accept(')'):
            args.append(self.expr())
            self.accept(',')
        return args

    def primary(self):
        k, v = self.peek()
        if v == '(':
            self.next()
            items = []
            trailing = False
            while not self.accept(')'):
                items.append(self.expr())
                trailing = self.accept(',')
            if len(items) == 1 and not trailing:
                return items[0]
            return ('tuple', items)
        if v == '{':
            return self.block()
        if v == 'if':
            self.next()
            c = self.expr()
            th = self.block()
            el = None
            if self.accept('else'):
                if self.peek()[1] == 'if':
                    el = ('block', [], self.primary())
                else:
                    el = self.block()
            return ('if', c, th, el)
        if v == 'match':
            self.next()
            scrut = self.expr()
            self.expect('{')
            arms = []
            while not self.accept('}'):
                pats = [self.pattern()]
                while self.accept('|'):
                    pats.append(self.pattern())
                self.expect('=>')
                body = self.expr()
                self.accept(',')
                arms.append((pats, body))
            return ('match', scrut, arms)
        if k == 'num':
            self.next()
            return ('num', v)
        if k == 'id':
            self.next()
            path = [v]
            while self.accept('::'):
                if self.peek()[1] == '<':
                    raise Unsupported("turbofish")
                path.append(self.next()[1])
            if self.peek()[1] == '(':
                args = self.args()
                return ('call', path, args)
            if len(path) == 1:
                if v in ('true', 'false'):
                    return ('bool', v)
                return ('var', v)
            return ('path', path)
        raise Unsupported("unexpected token %r" % (self.peek(),))


def parse_body(body):
    p = Parser(tokenize(body))
    b = p.block()
    if p.peek()[0] != 'eof':
        raise Unsupported("trailing tokens")
    return b


def assigned_vars(block):
    out = []
    for s in block[1]:
        if s[0] == 'assign' and s[1] not in out:
            out.append(s[1])
        if s[0] == 'expr' and s[1][0] == 'if':
            for b in (s[1][2], s[1][3]):
                if b:
                    for v in assigned_vars(b):
                        if v not in out:
                            out.append(v)
    return out


class Emitter:
    """cfg keys:
       dom: 'Q' | 'Z'
       calls: {'Path::fn' or 'fn': coq_name}
       methods: {(type_or_*, name): coq_name}     (receiver type '*' = any)
       fields: {name: coq_name}
       paths: {'Enum::Variant': coq_ctor}
       casts: {'i32': coq_fn or None (identity)}
       option_ret: bool    function returns Option (enables `?` and Some/None)
    """

    def __init__(self, cfg):
        self.cfg = cfg
        self.dom = cfg.get('dom', 'Q')
        self.uid = 0

    def num(self, v):
        v = re.sub(r"_?(f32|f64|i32|u32|u8|i64|u64|usize|isize)$", "", v).replace('_', '')
        if self.dom == 'Z':
            if '.' in v or 'e' in v.lower():
                raise Unsupported("float literal in Z domain: " + v)
            return "(%s)%%Z" % v
        if 'e' in v.lower():
            raise Unsupported("exponent literal " + v)
        if '.' in v:
            a, b = v.split('.')
            den = 10 ** len(b)
            n = int(a + b)
            from math import gcd
            g = gcd(n, den) or 1
            return "(%d # %d)" % (n // g, den // g)
        return "(%s # 1)" % v

    def binop(self, op, a, b):
        d = self.dom
        if op in ('&&',):
            return "(andb %s %s)" % (a, b)
        if op == '||':
            return "(orb %s %s)" % (a, b)
        if d == 'Q':
            m = {'+': 'Qplus', '-': 'Qminus', '*': 'Qmult', '/': 'Qdiv',
                 '<': 'Qltb', '>': 'Qgtb', '<=': 'Qleb', '>=': 'Qgeb', '==': 'Qeqb', '!=': 'Qneb'}
        else:
            m = {'+': 'Z.add', '-': 'Z.sub', '*': 'Z.mul', '/': 'Z.quot', '%': 'Z.rem',
                 '<': 'Z.ltb', '>': 'Z.gtb', '<=': 'Z.leb', '>=': 'Z.geb', '==': 'Z.eqb', '!=': 'Zneb'}
        if op not in m:
            raise Unsupported("operator " + op)
        return "(%s %s %s)" % (m[op], a, b)

    def path_name(self, path):
        key = '::'.join(path)
        paths = self.cfg.get('paths', {})
        if key in paths:
            return paths[key]
        key2 = '::'.join(path[-2:])
        if key2 in paths:
            return paths[key2]
        raise Unsupported("unknown path " + key)

    def enum_of(self, e):
        if e[0] == 'path':
            try:
                self.path_name(e[1])
                return True
            except Unsupported:
                return False
        return False

    def expr(self, e):
        k = e[0]
        if k == 'num':
            return self.num(e[1])
        if k == 'bool':
            return e[1]
        if k == 'var':
            return self.cfg.get('vars', {}).get(e[1], e[1])
        if k == 'path':
            return self.path_name(e[1])
        if k == 'neg':
            return "(%s %s)" % ('Qopp' if self.dom == 'Q' else 'Z.opp', self.expr(e[1]))
        if k == 'not':
            return "(negb %s)" % self.expr(e[1])
        if k == 'bin':
            op, a, b = e[1], e[2], e[3]
            if op in ('==', '!=') and (self.enum_of(a) or self.enum_of(b)):
                eqf = self.cfg.get('enum_eqb', 'enum_eqb')
                s = "(%s %s %s)" % (eqf, self.expr(a), self.expr(b))
                return s if op == '==' else "(negb %s)" % s
            return self.binop(op, self.expr(a), self.expr(b))
        if k == 'tuple':
            return "(" + ", ".join(self.expr(x) for x in e[1]) + ")"
        if k == 'field':
            f = self.cfg.get('fields', {})
            if e[2] not in f:
                raise Unsupported("unknown field ." + e[2])
            return "(%s %s)" % (f[e[2]], self.expr(e[1]))
        if k == 'mcall':
            recv, name, args = e[1], e[2], e[3]
            ms = self.cfg.get('methods', {})
            if name not in ms:
                raise Unsupported("unknown method ." + name)
            fn = ms[name]
            if fn is None:
                return self.expr(recv)
            return "(%s %s)" % (fn, " ".join([self.expr(recv)] + [self.expr(a) for a in args]))
        if k == 'call':
            key = '::'.join(e[1])
            cs = self.cfg.get('calls', {})
            fn = cs.get(key)
            if fn is None:
                fn = cs.get('::'.join(e[1][-2:]))
            if fn is None:
                fn = cs.get(e[1][-1])
            if fn is None:
                raise Unsupported("unknown function " + key)
            if not e[2]:
                return fn
            return "(%s %s)" % (fn, " ".join(self.expr(a) for a in e[2]))
        if k == 'cast':
            cs = self.cfg.get('casts', {})
            if e[2] not in cs:
                raise Unsupported("cast as " + e[2])
            fn = cs[e[2]]
            if fn is None:
                return self.expr(e[1])
            return "(%s %s)" % (fn, self.expr(e[1]))
        if k == 'if':
            if e[3] is None:
                raise Unsupported("if without else in expression position")
            return "(if %s then %s else %s)" % (self.expr(e[1]), self.block(e[2]), self.block(e[3]))
        if k == 'match':
            arms = []
            for pats, body in e[2]:
                for p in pats:
                    arms.append("| %s => %s" % (self.pat(p), self.expr(body)))
            return "(match %s with %s end)" % (self.expr(e[1]), " ".join(arms))
        if k == 'block':
            return self.block(e)
        if k == 'try':
            raise Unsupported("`?` outside let")
        raise Unsupported("expression kind " + k)

    def pat(self, p):
        if p[0] == 'pvar':
            return p[1]
        if p[0] == 'pwild':
            return '_'
        if p[0] == 'ptuple':
            return "(" + ", ".join(self.pat(x) for x in p[1]) + ")"
        if p[0] == 'ppath':
            name = self.path_name(p[1])
            if p[2]:
                return "(%s %s)" % (name, " ".join(self.pat(x) for x in p[2]))
            return name
        raise Unsupported("pattern")

    def letpat(self, p):
        if p[0] == 'pvar':
            return p[1]
        if p[0] == 'pwild':
            return '_'
        return "'" + self.pat(p)

    def block(self, b, cont=None):
        """Translate a block to a Coq expression. `cont` (string) overrides the tail."""
        stmts, tail = b[1], b[2]
        return self.stmts(list(stmts), tail, cont)

    def stmts(self, stmts, tail, cont):
        if not stmts:
            if cont is not None:
                return cont
            if tail is None:
                raise Unsupported("block without value")
            return self.expr(tail)
        s = stmts[0]
        rest = lambda: self.stmts(stmts[1:], tail, cont)
        if s[0] == 'let':
            rhs = s[2]
            if rhs[0] == 'try':
                return "(match %s with Some %s => %s | None => None end)" % (
                    self.expr(rhs[1]), self.pat(s[1]) if s[1][0] != 'pvar' else s[1][1], rest())
            return "(let %s := %s in %s)" % (self.letpat(s[1]), self.expr(rhs), rest())
        if s[0] == 'assign':
            return "(let %s := %s in %s)" % (s[1], self.expr(s[2]), rest())
        if s[0] == 'return':
            return self.expr(s[1])
        if s[0] == 'expr' and s[1][0] == 'if':
            c, th, el = s[1][1], s[1][2], s[1][3]
            # early return form: if c { return e; }
            if el is None and len(th[1]) == 1 and th[1][0][0] == 'return' and th[2] is None:
                return "(if %s then %s else %s)" % (self.expr(c), self.expr(th[1][0][1]), rest())
            vs = assigned_vars(('block', [s], None))
            if not vs:
                raise Unsupported("statement `if` without assignments")
            tup = vs[0] if len(vs) == 1 else "(" + ", ".join(vs) + ")"
            lp = vs[0] if len(vs) == 1 else "'(" + ", ".join(vs) + ")"
            th_s = self.block(th, cont=tup)
            el_s = self.block(el, cont=tup) if el else tup
            return "(let %s := (if %s then %s else %s) in %s)" % (lp, self.expr(c), th_s, el_s, rest())
        raise Unsupported("statement kind %s" % s[0])


def translate_fn(src, name, cfg, coq_name=None, after=None):
    params, ret, body = find_fn(src, name, after)
    ps = split_params(params)
    ast = parse_body(body)
    em = Emitter(cfg)
    tys = cfg.get('types', {})
    binders = []
    for n, t in ps:
        t0 = t.split('<')[0].split('::')[-1]
        if t0 not in tys:
            raise Unsupported("parameter type %s" % t)
        binders.append("(%s : %s)" % (n if n != 'self' else cfg.get('self_name', 'self'), tys[t0]))
    if 'self_name' in cfg:
        cfg.setdefault('vars', {})['self'] = cfg['self_name']
    rt = cfg.get('ret')
    if rt is None:
        raise Unsupported("return type not configured")
    body_s = em.block(ast)
    return "Definition %s %s : %s :=\n  %s." % (coq_name or name, " ".join(binders), rt, body_s)
