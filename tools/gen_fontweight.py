"""Gen/FontWeight.v (C09): the step function of usvg::parser::text::resolve_font_weight, transcribed arm by arm.

`font-weight` is resolved over the chain of ancestors (root first): every element's value is one step of a `match` on
the string: keyword / number literals set the weight, `bolder` / `lighter` move it relative to the weight so far,
anything else (also an absent attribute, read as "") keeps it.  The arms, the initial value, the `bound` helper and
the loop header are read from the source; a shape outside this subset is a broken tie.
"""
import re

import gen_svgtree

PROPS = ['C09']
TEXT = 'crates/usvg/src/parser/text.rs'


class Missing(Exception):
    pass


def parse(rd):
    src = gen_svgtree.strip_comments(rd(TEXT))
    body = gen_svgtree.fn_body(src, 'resolve_font_weight')
    w = re.sub(r"\s+", " ", body).strip()
    t = {}
    m = re.search(r"fn bound\(min: usize, val: usize, max: usize\) -> usize \{ std::cmp::max\(min, std::cmp::min\(max, val\)\) \}", w)
    if not m:
        raise Missing("resolve_font_weight: helper `bound` changed")
    m = re.search(r"let nodes: Vec<_> = node\.ancestors\(\)\.collect\(\); let mut weight = (\d+); "
                  r"for n in nodes\.iter\(\)\.rev\(\)\.skip\(1\) \{ weight = match n\.attribute\(AId::FontWeight\)\.unwrap_or\(\"\"\) \{ (.*) \}; \} "
                  r"weight as u16$", w)
    if not m:
        raise Missing("resolve_font_weight: initial value / loop over the ancestors (root first) / `weight = match <value or \"\">` / result changed")
    t['init'] = int(m.group(1))
    arms = m.group(2)
    lits = re.findall(r'"([^"]*)" => (\d+),', arms)
    rest = re.sub(r'"([^"]*)" => (\d+),', '', arms).strip()
    t['literals'] = [(k, int(v)) for k, v in lits]
    if len(set(k for k, _ in lits)) != len(lits) or not lits:
        raise Missing("resolve_font_weight: literal arms duplicated or missing")
    for kw, op in (('bolder', r'\+'), ('lighter', '-')):
        mm = re.search(r'"%s" => \{ let step = if weight == (\d+) \{ (\d+) \} else \{ (\d+) \}; bound\((\d+), weight %s step, (\d+)\) \}' % (kw, op), rest)
        if not mm:
            raise Missing("resolve_font_weight: arm %r is outside the transcribed shape" % kw)
        t[kw] = tuple(int(x) for x in mm.groups())
        rest = rest.replace(mm.group(0), '').strip()
    if rest != "_ => weight,":
        raise Missing("resolve_font_weight: unexpected arms %r" % rest[:80])
    # usize arithmetic: `weight - step` must not underflow: step > lower bound only from the pivot weight
    return t


def render(t, header):
    o = [header, "From Coq Require Import String.\nFrom RV Require Import Model.Base.\nLocal Open Scope string_scope.\nLocal Open Scope Z_scope.\n",
         "(* crates/usvg/src/parser/text.rs :: resolve_font_weight *)",
         "Definition fw_init : Z := %d." % t['init'],
         "Definition fw_bound (min val max : Z) : Z := Z.max min (Z.min max val).",
         "Definition fw_literal (v : string) : option Z :=\n  %s None." % " ".join(
             'if String.eqb v "%s" then Some %d else' % kv for kv in t['literals']),
         "Definition fw_bolder (weight : Z) : Z :=\n  let step := if weight =? %d then %d else %d in fw_bound %d (weight + step) %d." % t['bolder'],
         "Definition fw_lighter (weight : Z) : Z :=\n  let step := if weight =? %d then %d else %d in fw_bound %d (weight - step) %d." % t['lighter'],
         "(* one element of the chain; an absent attribute is read as the empty string *)",
         "Definition fw_step (weight : Z) (v : string) : Z :=\n  match fw_literal v with\n  | Some n => n\n  | None => if String.eqb v \"bolder\" then fw_bolder weight\n            else if String.eqb v \"lighter\" then fw_lighter weight else weight\n  end.",
         "(* values of the ancestors-or-self chain, root element first *)",
         "Definition fw_resolve (chain : list string) : Z := fold_left fw_step chain fw_init.\n"]
    return "\n".join(o)


REFERENCE = dict(init=400, literals=[('normal', 400), ('bold', 700)] + [(str(n), n) for n in range(100, 1000, 100)],
                 bolder=(400, 300, 100, 100, 900), lighter=(400, 200, 100, 100, 900))


def generate(api):
    try:
        t = parse(api.rd)
        api.write_gen('FontWeight.v', render(t, api.HEADER))
        api.ok('tables', 'FontWeight', props=PROPS, literals=len(t['literals']))
    except (Missing, gen_svgtree.Missing, OSError, ValueError, IndexError) as e:
        api.broken('table', 'FontWeight', PROPS, e)
        # keep the reference behaviour so that the correspondence can still search for a failing chain
        api.write_gen('FontWeight.v', render(REFERENCE, api.HEADER + "(* NOT TRANSLATED FROM THE CURRENT SOURCE (tie reported broken): reference behaviour *)\n"))
