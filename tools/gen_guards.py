"""Gen/TextGuards.v: under which enclosing conditions crates/usvg/src/writer.rs writes each attribute of preserved text
(the `Node::Text` arm of write_element up to the span loop, and write_span) - C08.

For every `xml.write_svg_attribute(AId::X, V)` of that region the chain of enclosing block headers inside the function is
taken (brace matching).  Structural headers (for loops, `match` and its arms, `if opt.preserve_text`, the `TextFlow::Path`
test that opens <textPath>) are dropped; of the rest, a header is the attribute's OWN condition when it mentions / binds
the value that is written (`if let Some(x) = chunk.x` for `&x`, `if span.font.weight != 400` for `&span.font.weight`,
a local `name` bound by `let name = match E` counts as E), or - for a literal value - when it is the match scrutinee
(`match chunk.anchor`) or, without a match, the innermost `if`.  Every other header is FOREIGN: the attribute would be
written or not depending on something that is not its value.  The table lists the foreign headers per site; they must
all be empty, and `text_anchor_guards` (the foreign headers of text-anchor) feeds Model/TextGuards.v."""
import re

PROPS = ['C08']
REL = 'crates/usvg/src/writer.rs'
IDENT = r"[A-Za-z_][A-Za-z_0-9]*"


def headers_at(body, pos):
    """block headers enclosing body[pos], outermost first"""
    stack = []
    i, instr = 0, False
    last = 0           # start of the current statement
    while i < pos:
        c = body[i]
        if instr:
            if c == '\\':
                i += 1
            elif c == '"':
                instr = False
        elif c == '"':
            instr = True
        elif c == '/' and body[i:i + 2] == '//':
            i = body.index('\n', i)
            continue
        elif c == "'" and re.match(r"'(\\.|[^\\'])'", body[i:i + 4]):
            i += len(re.match(r"'(\\.|[^\\'])'", body[i:i + 4]).group(0))
            continue
        elif c == '{':
            stack.append(re.sub(r"\s+", " ", body[last:i]).strip())
            last = i + 1
        elif c == '}':
            if stack:
                stack.pop()
            last = i + 1
        elif c == ';':
            last = i + 1
        elif c == ',' and stack and stack[-1].startswith('match '):
            last = i + 1
        i += 1
    # a brace-less match arm on the same statement: `PAT => xml.write..`
    tail = re.sub(r"\s+", " ", body[last:pos]).strip()
    m = re.match(r"(.+?)=>\s*", tail)
    if m and stack and stack[-1].startswith('match '):
        stack.append(m.group(1).strip() + ' =>')
    return stack


def structural(h):
    return (h == '' or h.startswith('for ') or h.startswith('match ') or h.endswith('=>') or re.fullmatch(r"if opt\.preserve_text", h) is not None
            or re.match(r"if let TextFlow::Path\(", h) is not None or h.startswith('fn ') or re.match(r"(let|\.filter_map|\|)", h) is not None
            or h.startswith('else') and False)


def generate(api):
    try:
        src = api.rd(REL)
        _, _, we = api.rs2coq.find_fn(src, 'write_element')
        m = re.search(r"Node::Text\(ref text\)\s*=>\s*\{", we)
        if not m:
            raise api.Unsupported("write_element: the Node::Text arm was not found")
        tstart = m.start()
        mspan = re.search(r"write_span\(", we[tstart:])
        if not mspan:
            raise api.Unsupported("write_element: the call of write_span was not found in the text arm")
        regions = [('write_element', we, tstart, tstart + mspan.start())]
        _, _, ws = api.rs2coq.find_fn(src, 'write_span')
        regions.append(('write_span', ws, 0, len(ws)))
        sites = []
        for fn, body, a, b in regions:
            for m in re.finditer(r"write_svg_attribute\(\s*AId::([A-Za-z]+)\s*,\s*([^;]*?)\)\s*[;,\n}]", body[a:b], re.S):
                pos = a + m.start()
                aid, val = m.group(1), re.sub(r"\s+", " ", m.group(2)).strip()
                hs = headers_at(body, pos)
                if fn == 'write_element':
                    # only what lies inside the text arm
                    k = max(i for i, h in enumerate(hs) if 'Node::Text' in h)
                    hs = hs[k + 1:]
                literal = val.startswith('"')
                scrut = None
                for h in hs:
                    if h.startswith('match '):
                        scrut = h[6:].strip()
                toks = set()
                if not literal:
                    v = re.sub(r"^&\s*", "", val)
                    v = re.sub(r"\.get\(\)$", "", v)
                    toks.add(v)
                    if re.fullmatch(IDENT, v):
                        # a local: what it was computed from (the last `let v = [match] a.b.c ..` before the site)
                        mls = list(re.finditer(r"let\s+%s\s*=\s*(?:match\s+)?([a-z_]+(?:\s*\.\s*[a-z_]+)*)" % re.escape(v), body[:pos]))
                        if mls:
                            toks.add(re.sub(r"\s+", "", mls[-1].group(1)))
                elif scrut:
                    toks.add(scrut)
                rest = [h for h in hs if not structural(h)]
                foreign = []
                own_seen = False
                for h in reversed(rest):          # innermost first
                    meth = r"\.(?:is_empty|iter|get|is_default|approx_zero_ulps|any|as_ref|is_some|is_none)$"
                    hpaths = [re.sub(meth, "", q) for q in re.findall(r"[a-z_]+(?:\.[a-z_]+)+", h)]
                    toks = set(re.sub(meth, "", t) for t in toks)
                    if any(re.search(r"(?<![A-Za-z_0-9.])%s(?![A-Za-z_0-9])" % re.escape(t), h) for t in toks) or \
                            any(t == q or t.startswith(q + '.') for t in toks for q in hpaths):
                        own_seen = True
                    elif literal and not scrut and not own_seen:
                        own_seen = True           # `if span.small_caps { .. "small-caps" }`: the innermost test is the condition
                    else:
                        foreign.append(h)
                sites.append(("%s@%s" % (aid, fn), foreign))
        names = [s[0].split('@')[0] for s in sites]
        for need in ('TextAnchor', 'X', 'Y', 'StartOffset', 'FontWeight', 'FontSize'):
            if need not in names:
                raise api.Unsupported("no write of AId::%s found in the preserved-text region" % need)
        ta = [f for n, f in sites if n.startswith('TextAnchor@')]
        ta_guards = sorted(set(h for f in ta for h in f))
        esc = lambda s: s.replace('"', "'")
        out = [api.HEADER, "From Coq Require Import String List.\nImport ListNotations.\nLocal Open Scope string_scope.\n",
               "(* (attribute@function, enclosing conditions that are neither structural nor about the attribute's own value) *)",
               "Definition guard_sites : list (string * list string) := ["]
        out.append(";\n".join('  ("%s", [%s])' % (n, "; ".join('"%s"' % esc(h) for h in f)) for n, f in sites))
        out.append("].\n")
        out.append("(* the foreign conditions around the text-anchor writes of a preserved text chunk *)")
        out.append("Definition text_anchor_guards : list string := [%s].\n" % "; ".join('"%s"' % esc(h) for h in ta_guards))
        api.write_gen('TextGuards.v', "\n".join(out))
        api.ok('tables', 'writer.text_guards', sites=len(sites), foreign=sum(1 for s in sites if s[1]))
    except (api.Unsupported, OSError, ValueError, IndexError) as e:
        api.broken('table', 'writer.text_guards', PROPS, e)
