"""Input streams for the C01 system oracle (parsing is total).

Every generator returns (label, stream, bytes).  Streams: corpus, mutant, grammar, nesting, bomb, entity,
gzip (of the others) and `malformed` (random / truncated bytes, bad UTF-8, bad gzip), which is reported
separately so that it cannot dominate the counts.
"""
import gzip
import io
import os
import re

NUMS = ['0', '-0', '-1', '-7.5', '1e-40', '1e38', '3e38', '3.5e38', '1e300', '-1e300', '99999999999999999999', '4294967296',
        '2147483648', '65536', '50%', '-50%', '1e40%', '0.0000001', '1e-320', 'NaN', 'inf', '1e', '.', '+', '1e+', '0x10',
        '1 ' * 40, '1,' * 300 + '1', '1e300 ' * 8, '65536 65536', '0 0', '-1 -1', '3e38 3e38 3e38 3e38']
# non-ASCII material: 2-, 3-, 4-byte characters, combining marks, with separators the parser slices at
UNI = ['\u00f6', '\u00e9\u00e8', '\u65e5\u672c', '\U0001F600', 'e\u0301', '\u0627\u0644', '\u00f6-x', '\u65e5\u672c-JP', '\U0001F600-\U0001F600', 'x-\u00f6',
       '\u00f6,\u65e5\u672c-JP', 'en-\u00fc-x', '\u2028', '\u00a0', '\ufeffen', '\u00f6;\u00f6:\u00f6', '#\u00f6', 'url(#\u00f6)', '\u00f6 \u00f6', '\u0301-a']
STRING_ATTRS = ['systemLanguage', 'requiredFeatures', 'requiredExtensions', 'font-family', 'class', 'id', 'xlink:href', 'href', 'preserveAspectRatio',
                'style', 'xml:lang', 'lang', 'type', 'in', 'in2', 'result', 'values', 'mode', 'operator', 'text-decoration', 'font-variant', 'unicode-bidi',
                'transform', 'fill', 'stroke', 'filter', 'clip-path', 'mask', 'marker-start', 'd', 'points', 'viewBox', 'offset', 'writing-mode']
UNITS = ['', 'px', 'in', 'cm', 'mm', 'pt', 'pc', 'em', 'ex', '%']
NS = 'xmlns="http://www.w3.org/2000/svg" xmlns:xlink="http://www.w3.org/1999/xlink"'


def names(repo):
    src = open(os.path.join(repo, 'crates/usvg/src/parser/svgtree/names.rs'), encoding='utf-8').read()
    els = re.findall(r'\("([^"]+)",\s*EId::\w+\)', src)
    ats = re.findall(r'\("([^"]+)",\s*AId::\w+\)', src)
    return sorted(set(els)), sorted(set(ats))


# ------------------------------------------------------------------------------------------------ mutants
ATTR_RE = re.compile(r'([A-Za-z_:][-A-Za-z0-9_:.]*)\s*=\s*"([^"<]*)"')
NUM_RE = re.compile(r'[-+]?(?:\d+\.?\d*|\.\d+)(?:[eE][-+]?\d+)?')
REF_RE = re.compile(r'(url\(#|href="#)([^)"]+)')


def mutate(rng, text, other):
    """one structure-aware mutation of an SVG text; `other` is another corpus document (for splices)"""
    kind = rng.below(6)
    if kind == 5:                                   # non-ASCII characters in a string-valued attribute (existing or new)
        ms = [m for m in ATTR_RE.finditer(text) if m.group(1) not in ('xmlns', 'xmlns:xlink')]
        r = rng.below(3)
        if ms and r == 0:
            a = rng.choice(ms)
            v = a.group(2)
            cut = rng.below(len(v) + 1)
            return 'unicode', text[:a.start(2)] + v[:cut] + rng.choice(UNI) + v[cut:] + text[a.end(2):]
        tags = list(re.finditer(r'<([A-Za-z][A-Za-z0-9]*)\b(?![^<>]*\bsystemLanguage)', text))
        if tags:
            t = rng.choice(tags)
            att = rng.choice(STRING_ATTRS)
            if att in t.group(0) or re.search(r'^[^<>]*\b%s=' % re.escape(att), text[t.end():t.end() + 400]):
                att = 'systemLanguage'
            return 'unicode', text[:t.end()] + ' %s="%s"' % (att, rng.choice(UNI)) + text[t.end():]
    if kind == 0:                                   # attribute value swap
        ms = list(ATTR_RE.finditer(text))
        if len(ms) >= 2:
            a, b = rng.choice(ms), rng.choice(ms)
            if a.start() > b.start():
                a, b = b, a
            if a.end() <= b.start():
                return 'swap', (text[:a.start(2)] + b.group(2) + text[a.end(2):b.start(2)] + a.group(2) + text[b.end(2):])
    if kind == 1:                                   # subtree splice: an element of `other` inserted after a start tag
        els = list(re.finditer(r'<([A-Za-z][A-Za-z0-9]*)\b[^<>]*?/>', other)) + \
              list(re.finditer(r'<([A-Za-z][A-Za-z0-9]*)\b[^<>]*>[^<>]*</\1>', other))
        tags = list(re.finditer(r'<[A-Za-z][^<>!?]*[^/]>', text))
        if els and tags:
            e = rng.choice(els).group(0)
            t = rng.choice(tags)
            return 'splice', text[:t.end()] + e + text[t.end():]
    if kind == 2:                                   # id rewiring
        ids = re.findall(r'\bid="([^"]+)"', text)
        refs = list(REF_RE.finditer(text))
        if ids and refs:
            out = text
            for r in rng.sample(refs, 1 + rng.below(min(3, len(refs)))):
                out = out[:r.start(2)] + rng.choice(ids).ljust(0) + out[r.end(2):] if len(out) == len(text) else out
            return 'rewire', out
        if ids:
            # no reference yet: add one that points somewhere
            m = rng.choice(list(re.finditer(r'<(rect|path|circle|g|use|ellipse|text|image)\b', text)) or [None])
            if m:
                att = rng.choice(['fill="url(#%s)"', 'clip-path="url(#%s)"', 'mask="url(#%s)"', 'filter="url(#%s)"',
                                  'marker-start="url(#%s)"', 'xlink:href="#%s"', 'stroke="url(#%s)"']) % rng.choice(ids)
                return 'rewire', text[:m.end()] + ' ' + att + text[m.end():]
    # numeric magnitude substitution (also the fallback)
    spans = []
    for a in ATTR_RE.finditer(text):
        if a.group(1) in ('id', 'xmlns', 'xmlns:xlink', 'version', 'class', 'xml:space') or a.group(1).endswith('href'):
            continue
        for n in NUM_RE.finditer(a.group(2)):
            spans.append((a.start(2) + n.start(), a.start(2) + n.end()))
    if spans:
        out = text
        for s, e in sorted(rng.sample(spans, 1 + rng.below(min(3, len(spans)))), reverse=True):
            out = out[:s] + rng.choice(NUMS) + out[e:]
        return 'number', out
    return 'none', text


# ------------------------------------------------------------------------------------------------ grammar
GEN_LIKE_IDS = ['clipPath1', 'clipPath2', 'mask1', 'filter1', 'filter2', 'pattern1', 'linearGradient1', 'radialGradient1', 'image1', 'result1']
RESULT_NAMES = ['result%d' % i for i in range(1, 10)] + ['result', 'result0', 'result10', 'a', 'SourceGraphic', 'SourceAlpha', 'BackgroundImage', 'FillPaint', '']
PRIMS = ['feFlood', 'feOffset', 'feGaussianBlur', 'feBlend', 'feComposite', 'feMerge', 'feTile', 'feColorMatrix', 'feMorphology', 'feTurbulence',
         'feComponentTransfer', 'feDisplacementMap', 'feDropShadow', 'feImage', 'feConvolveMatrix', 'feDiffuseLighting', 'feSpecularLighting']


def filter_doc(rng):
    """filters whose primitives mix explicit `result` names (also names that look like generated ones) with missing ones,
    `in` / `in2` references to earlier, later and unknown results, applied to rendered elements; ids that look generated"""
    defs = ''
    fids = []
    for fi in range(1 + rng.below(3)):
        fid = rng.choice(GEN_LIKE_IDS + ['f%d' % fi])
        fids.append(fid)
        prims = ''
        for _ in range(1 + rng.below(6)):
            t = rng.choice(PRIMS)
            a = ''
            if rng.below(2):
                a += ' result="%s"' % rng.choice(RESULT_NAMES)
            if rng.below(2):
                a += ' in="%s"' % rng.choice(RESULT_NAMES)
            if rng.below(4) == 0:
                a += ' in2="%s"' % rng.choice(RESULT_NAMES)
            inner = ''
            if t == 'feMerge':
                inner = ''.join('<feMergeNode in="%s"/>' % rng.choice(RESULT_NAMES) for _ in range(rng.below(4)))
            elif t in ('feDiffuseLighting', 'feSpecularLighting'):
                inner = rng.choice(['<feDistantLight/>', '<fePointLight/>', '<feSpotLight/>', ''])
            elif t == 'feComponentTransfer':
                inner = rng.choice(['<feFuncR type="table" tableValues="0 1"/>', '<feFuncA type="gamma"/>', ''])
            elif t == 'feImage':
                a += ' xlink:href="#%s"' % rng.choice(['r1', 'nope'] + GEN_LIKE_IDS)
            prims += '<%s%s>%s</%s>' % (t, a, inner, t)
        defs += '<filter id="%s"%s>%s</filter>' % (fid, rng.choice(['', ' filterUnits="userSpaceOnUse" x="0" y="0" width="50" height="50"',
                                                                      ' primitiveUnits="objectBoundingBox"', ' xlink:href="#%s"' % rng.choice(GEN_LIKE_IDS)]), prims)
    other = ''.join('<%s id="%s">%s</%s>' % (t, i, c, t) for t, i, c in
                    rng.sample([('clipPath', 'clipPath1', '<rect width="9" height="9"/>'), ('mask', 'mask1', '<rect width="9" height="9" fill="white"/>'),
                                ('pattern', 'pattern1', '<rect width="1" height="1"/>'), ('linearGradient', 'linearGradient1', '<stop offset="0"/><stop offset="1" stop-color="red"/>'),
                                ('radialGradient', 'radialGradient1', '<stop offset="0"/><stop offset="1" stop-color="red"/>'), ('symbol', 'image1', '<rect width="3" height="3"/>')], 3))
    body = ''.join('<rect id="%s" x="%d" y="5" width="20" height="20" filter="%s" %s/>'
                   % (rng.choice(['r1', 'r2', 'clipPath2']), 5 + 25 * i,
                      ' '.join('url(#%s)' % rng.choice(fids + ['nope']) for _ in range(1 + rng.below(2))),
                      rng.choice(['', 'clip-path="url(#clipPath1)"', 'mask="url(#mask1)"', 'fill="url(#pattern1)"', 'fill="url(#linearGradient1)"',
                                  'stroke="url(#radialGradient1)"', 'opacity="0.5"']))
                   for i in range(1 + rng.below(3)))
    return '<svg %s width="100" height="100">%s%s%s<use xlink:href="#image1" width="5" height="5"/></svg>' % (NS, defs, other, body)


def value_for(rng, att, ids):
    r = rng.below(10)
    if att in ('result', 'in', 'in2'):
        return rng.choice(RESULT_NAMES)
    if att in ('systemLanguage', 'requiredFeatures', 'requiredExtensions', 'lang', 'font-family', 'class') and rng.below(2):
        return rng.choice(UNI + ['en', 'en-US', 'ru, en', 'de'])
    if rng.below(25) == 0:
        return rng.choice(UNI)
    if att in ('id',):
        return 'g%d' % rng.below(8)
    if att in ('href',) or r == 0:
        return '#' + rng.choice(ids)
    if att in ('fill', 'stroke', 'clip-path', 'mask', 'filter', 'marker-start', 'marker-mid', 'marker-end', 'marker') and r < 6:
        return 'url(#%s)' % rng.choice(ids) + rng.choice(['', ' none', ' red', ' blur(1e300)', ' url(#g1)'])
    if att == 'style':
        return '%s:%s;%s:%s' % (rng.choice(['fill', 'stroke-width', 'font', 'marker', 'opacity', 'font-size', 'filter', 'mix-blend-mode']),
                                rng.choice(NUMS + ['red', 'url(#g1)', 'inherit']), rng.choice(['stroke', 'display', 'transform']), rng.choice(NUMS + ['none', 'inherit']))
    if att == 'd':
        return rng.choice(['M 10 10 L 50 10 50 50 z', 'M 1e300 0 L 1 1', 'M0 0', 'M 0 0 A 1e38 1e38 0 1 1 5 5', 'M 10 10 C 1 1',
                           'm 1 1 ' + 'l 1 1 ' * 50, 'M 3e38 3e38 L -3e38 -3e38 z', 'M 0 0 Q 1e39 0 1 1 T 5 5 z', ''])
    if att == 'points':
        return rng.choice(['0,0 10,10 20,0', '1e38,1e38 -1e38,-1e38 0,0', '1', '1 2 3', ''])
    if att in ('transform', 'gradientTransform', 'patternTransform'):
        return rng.choice(['scale(0)', 'matrix(1e38 0 0 1e38 0 0)', 'rotate(1e300)', 'translate(1e300, 5)', 'scale(1e-40)', 'skewX(90)',
                           'matrix(1 2 3)', 'rotate(45 1e38 1e38)', 'scale(2) ' * 20])
    if att in ('viewBox',):
        return rng.choice(['0 0 100 100', '0 0 0 0', '0 0 -1 5', '1e38 1e38 1e38 1e38', '0 0 1e-40 1e-40', '0 0 1e300 1', '1 2 3'])
    if att == 'preserveAspectRatio':
        return rng.choice(['none', 'xMidYMid slice', 'xMaxYMax meet', 'bogus'])
    if r < 5:
        return rng.choice(NUMS) + (rng.choice(UNITS) if rng.below(3) == 0 else '')
    return rng.choice(['none', 'inherit', 'auto', 'red', '#12345', 'currentColor', 'userSpaceOnUse', 'objectBoundingBox', 'bold', 'normal',
                       'hidden', 'visible', 'evenodd', 'round', 'context-fill', 'context-stroke', 'sRGB', 'linearRGB', 'arithmetic', 'saturate',
                       'hueRotate', 'matrix', 'table', 'discrete', 'gamma', 'wrap', 'fractalNoise', 'dilate', 'R', 'stitch', 'middle', 'tb',
                       'isolate', 'multiply', 'strokeWidth', 'auto-start-reverse', 'SourceAlpha', 'BackgroundImage', 'en', 'en,ru', '', 'data:image/png;base64,AAAA',
                       'data:image/svg+xml;utf8,<svg xmlns="http://www.w3.org/2000/svg"/>', 'text/css'])


CONTAINERS = {
    'svg': None, 'g': None, 'defs': None, 'a': None, 'switch': None, 'symbol': None, 'mask': None, 'clipPath': None, 'pattern': None,
    'marker': None,
    'filter': ['feBlend', 'feColorMatrix', 'feComponentTransfer', 'feComposite', 'feConvolveMatrix', 'feDiffuseLighting', 'feDisplacementMap',
               'feDropShadow', 'feFlood', 'feGaussianBlur', 'feImage', 'feMerge', 'feMorphology', 'feOffset', 'feSpecularLighting', 'feTile',
               'feTurbulence'],
    'feComponentTransfer': ['feFuncA', 'feFuncB', 'feFuncG', 'feFuncR'], 'feMerge': ['feMergeNode'],
    'feDiffuseLighting': ['feDistantLight', 'fePointLight', 'feSpotLight'], 'feSpecularLighting': ['feDistantLight', 'fePointLight', 'feSpotLight'],
    'linearGradient': ['stop'], 'radialGradient': ['stop'], 'text': ['tspan', 'textPath', 'tref', 'a'], 'tspan': ['tspan', 'tref', 'a'],
    'textPath': ['tspan', 'tref'],
}
TEXTY = ('text', 'tspan', 'textPath', 'tref', 'title', 'desc', 'style')


def grammar_doc(rng, els, ats, size):
    """random document over every element / attribute name usvg knows"""
    ids = ['g%d' % i for i in range(8)] + GEN_LIKE_IDS
    count = [0]

    def element(tag, depth):
        count[0] += 1
        attrs = {}
        for _ in range(rng.below(6)):
            a = rng.choice(ats)
            attrs[a] = value_for(rng, a, ids)
        if rng.below(3) == 0:
            attrs['id'] = rng.choice(ids)
        if tag in ('use', 'feImage', 'image', 'tref', 'textPath', 'linearGradient', 'radialGradient', 'pattern', 'filter') and rng.below(2):
            attrs['xlink:href'] = '#' + rng.choice(ids)
        s = '<' + tag
        for k, v in attrs.items():
            if k == 'href':
                k = 'xlink:href'
            if k in ('space', 'lang'):
                k = 'xml:' + k
            s += ' %s="%s"' % (k, v.replace('&', '&amp;').replace('"', '&quot;').replace('<', '&lt;'))
        kids = ''
        if depth < 6 and count[0] < size:
            allowed = CONTAINERS.get(tag, [])
            pool = els if allowed is None else allowed
            if pool:
                for _ in range(rng.below(5 if allowed is None else 4)):
                    kids += element(rng.choice(pool), depth + 1)
        if tag in TEXTY and rng.below(2):
            kids += rng.choice(['text', ' a  b ', 'fill:url(#g1)', '&#x202e;abc', ' ', 'x' * 40])
        if tag == 'style':
            kids = rng.choice(['rect{fill:url(#g1)} *{marker:url(#g2)}', 'g>rect:first-child{stroke-width:1e300}', '.a{font:1e300px x}', '{{{'])
        return s + ('/>' if not kids else '>' + kids + '</' + tag + '>')

    body = ''.join(element(rng.choice(els), 1) for _ in range(1 + rng.below(6)))
    root_attrs = rng.choice(['width="100" height="100"', 'viewBox="0 0 100 100"', 'width="1e300" height="5"', 'width="0" height="0"',
                             '', 'width="50%" height="50%"', 'viewBox="0 0 1e-40 1e-40" width="10" height="10"'])
    return '<svg %s %s>%s</svg>' % (NS, root_attrs, body)


# ------------------------------------------------------------------------------------------------ text structure
TEXT_CHARS = ['a', 'Text', ' ', '  two  words ', 'x y', '\u00e9\u00e8', '\u4e2d\u6587', '\U0001F600', 'e\u0301', '\u0627\u0644\u0639', 'fi', '\t\n', 'A' * 12, '&amp;', '&#x202e;ab']
INVISIBLE = ['display="none"', 'transform="scale(0)"', 'transform="matrix(1 2 2 4 0 0)"', 'systemLanguage="de"', 'systemLanguage="en"',
             'systemLanguage="ru, de"', 'requiredExtensions="x"', 'visibility="hidden"', 'visibility="collapse"', 'font-size="0"',
             'opacity="0"', 'style="display:none"', 'systemLanguage=""', 'systemLanguage="\u65e5\u672c-JP"', 'systemLanguage="\u00f6-x, en"',
             'requiredFeatures="\u00f6"', 'xml:lang="\u65e5\u672c"', 'font-family="\u00f6 \u65e5\u672c"']


def numlist(rng):
    n = rng.choice([0, 1, 1, 2, 3, 5, 9, 40])
    return ' '.join(rng.choice(['0', '5', '10.5', '-3', '1e3', '50%', '2em', '1e38']) for _ in range(n))


def text_doc(rng):
    """mixed content (text, tspan, text, ...) nested 1-3 deep, invisible / conditional spans on inner and outer levels,
    position and rotate lists of varying lengths, multi-byte characters, both xml:space values"""
    def attrs(depth):
        a = []
        if rng.below(3) == 0:
            a.append(rng.choice(INVISIBLE))
        for name in ('x', 'y', 'dx', 'dy', 'rotate'):
            if rng.below(4) == 0:
                a.append('%s="%s"' % (name, numlist(rng)))
        if rng.below(6) == 0:
            a.append('xml:space="%s"' % rng.choice(['preserve', 'default']))
        if rng.below(8) == 0:
            a.append(rng.choice(['text-anchor="middle"', 'writing-mode="tb"', 'letter-spacing="5"', 'word-spacing="1e38"', 'baseline-shift="super"',
                                 'dominant-baseline="no-change"', 'text-decoration="underline"', 'font-size="1e-40"', 'textLength="5"',
                                 'unicode-bidi="bidi-override" direction="rtl"', 'fill="url(#g)"', 'stroke="red"', 'font-family="Noto Sans"']))
        return (' ' + ' '.join(a)) if a else ''

    def content(depth):
        out = ''
        for _ in range(1 + rng.below(5)):
            r = rng.below(10)
            if r < 5 or depth >= 3:
                out += rng.choice(TEXT_CHARS)
            else:
                tag = rng.choice(['tspan', 'tspan', 'tspan', 'a', 'tref', 'textPath'] if depth == 0 else ['tspan', 'tspan', 'a', 'tref'])
                extra = ' xlink:href="#%s"' % rng.choice(['p', 't0', 'nope']) if tag in ('tref', 'textPath') else ''
                out += '<%s%s%s>%s</%s>' % (tag, attrs(depth + 1), extra, content(depth + 1), tag)
        return out
    texts = ''.join('<text id="t%d" x="10" y="%d"%s>%s</text>' % (i, 20 + 20 * i, attrs(0), content(0)) for i in range(1 + rng.below(3)))
    wrap = rng.choice(['%s', '<g %s>%%s</g>' % rng.choice(INVISIBLE), '<switch>%s<text>fallback</text></switch>', '<g font-size="1e30">%s</g>'])
    return ('<svg %s width="100" height="100" xml:space="%s"><path id="p" d="M 10 50 C 30 10 70 90 90 50"/>'
            '<linearGradient id="g"><stop offset="0"/><stop offset="1" stop-color="red"/></linearGradient>%s<use xlink:href="#t0" y="30"/></svg>'
            % (NS, rng.choice(['default', 'preserve']), wrap % texts))


# ------------------------------------------------------------------------------------------------ nesting / bombs / entities
def hidden_use_chain(n):
    """one visible `use` whose expansion nests n deep: the other `use` elements sit below a foreign-namespace element,
    which the parser skips (they are expanded only through the chain), so the svgtree has ~n nodes, not n^2 / 2.
    Compact markup: 2500 links fit into the 64 KiB input domain."""
    def b36(i):
        d = '0123456789abcdefghijklmnopqrstuvwxyz'
        r = ''
        while True:
            r = d[i % 36] + r
            i //= 36
            if i == 0:
                return 'h' + r
    chain = ''.join('<use id="%s" href="#%s"/>' % (b36(i), b36(i + 1)) for i in range(2, n + 1))
    return ('<svg xmlns="http://www.w3.org/2000/svg" xmlns:x="urn:x" width="10" height="10"><x:h>%s<rect id="%s" width="5" height="5"/></x:h>'
            '<use id="h1" href="#%s"/><rect id="vf_witness" x="70" y="70" width="20" height="20" fill="#010203"/></svg>' % (chain, b36(n + 1), b36(2)))


def nesting_docs():
    out = []
    for n in (100, 400, 511, 512, 1200, 2250):
        out.append(("hidden use chain x%d" % n, hidden_use_chain(n)))
    for tag, extra in (('g', ''), ('svg', ''), ('a', ''), ('switch', ''), ('g', ' opacity="0.5"'), ('g', ' clip-path="url(#c)"'),
                       ('symbol', ''), ('mask', ''), ('pattern', ' width="1" height="1"'), ('marker', '')):
        for depth in (500, 1020, 1023, 1024, 1025, 1030, 3000):
            out.append(("nesting %s x%d" % (tag, depth), '<svg %s width="10" height="10"><clipPath id="c"><rect width="5" height="5"/></clipPath>%s<rect width="1" height="1"/>%s</svg>'
                        % (NS, ('<%s%s>' % (tag, extra)) * depth, ('</%s>' % tag) * depth)))
    for depth in (100, 1000, 1030, 5000):
        out.append(("nesting tspan x%d" % depth, '<svg %s width="10" height="10"><text>%sx%s</text></svg>' % (NS, '<tspan>' * depth, '</tspan>' * depth)))
        out.append(("nesting tspan+use x%d" % depth, '<svg %s width="10" height="10"><text id="t">%sx%s</text><use xlink:href="#t"/></svg>'
                    % (NS, '<tspan>' * depth, '</tspan>' * depth)))
    # use chains: each level adds depth 2
    for n in (100, 510, 511, 512, 513, 600):
        s = '<g id="u0"><rect width="1" height="1"/></g>' + ''.join('<use id="u%d" xlink:href="#u%d"/>' % (i, i - 1) for i in range(1, n))
        out.append(("use chain x%d" % n, '<svg %s width="10" height="10">%s</svg>' % (NS, s)))
    return out


def bomb_docs():
    out = []
    for k, fan in ((10, 2), (14, 2), (19, 2), (20, 2), (21, 2), (7, 8), (4, 40), (3, 120), (27, 2), (9, 8), (5, 60)):
        s = '<g id="b0"><rect width="1" height="1"/></g>'
        for i in range(1, k + 1):
            s += '<g id="b%d">%s</g>' % (i, ('<use xlink:href="#b%d"/>' % (i - 1)) * fan)
        out.append(("use bomb %d^%d" % (fan, k), '<svg %s width="10" height="10"><defs>%s</defs><use xlink:href="#b%d"/></svg>' % (NS, s, k)))
    # pattern / mask / clip fan-out through references (no use): every level is converted per referencing shape
    for k in (6, 10):
        s = ''.join('<pattern id="p%d" width="1" height="1">%s</pattern>' % (i, ('<rect width="1" height="1" fill="url(#p%d)"/>' % (i - 1)) * 3 if i else '<rect width="1" height="1"/>')
                    for i in range(k + 1))
        out.append(("pattern fan-out 3^%d" % k, '<svg %s width="10" height="10">%s<rect width="5" height="5" fill="url(#p%d)"/></svg>' % (NS, s, k)))
    for k in (6, 9):
        s = ''.join('<mask id="m%d">%s</mask>' % (i, ('<rect width="9" height="9" fill="white" mask="url(#m%d)"/>' % (i - 1)) * 3 if i else '<rect width="9" height="9" fill="white"/>')
                    for i in range(k + 1))
        out.append(("mask fan-out 3^%d" % k, '<svg %s width="10" height="10">%s<rect width="5" height="5" mask="url(#m%d)"/></svg>' % (NS, s, k)))
    for k in (6, 9):
        s = ''.join('<marker id="k%d" overflow="visible">%s</marker>' % (i, '<path d="M0 0 L1 0 L1 1" marker-start="url(#k%d)" marker-mid="url(#k%d)" marker-end="url(#k%d)"/>' % (i - 1, i - 1, i - 1) if i else '<rect width="1" height="1"/>')
                    for i in range(k + 1))
        out.append(("marker fan-out 3^%d" % k, '<svg %s width="10" height="10">%s<path d="M0 0 L5 0 L5 5" stroke="black" marker-mid="url(#k%d)"/></svg>' % (NS, s, k)))
    # marker products: every vertex of a path makes an instance, every instance copies the whole content of the marker:
    # content x vertices (one level) and content x vertices x vertices (a marker on a path inside a marker)
    for ncont, nv1, nv0 in ((20, 0, 300), (1500, 0, 4000), (10, 300, 300), (100, 300, 300), (1000, 100, 100), (3, 1000, 1000)):
        out.append(("marker product %d x %d x %d" % (ncont, nv1, nv0), marker_product_doc(ncont, nv1, nv0)))
    # one definition per element: every user of an objectBoundingBox clip path / mask / pattern / filter and every marker
    # instance gets a definition of its own, which the tree then lists once each (Tree::clip_paths() ..): nr users in a group
    # that is used nu times (within the node limit of the svgtree)
    for kind, defs, attr in (('clipPath', '<clipPath id="c" clipPathUnits="objectBoundingBox"><rect width="1" height="1"/></clipPath>', 'clip-path="url(#c)"'),
                             ('mask', '<mask id="c" maskContentUnits="objectBoundingBox"><rect width="1" height="1" fill="white"/></mask>', 'mask="url(#c)"'),
                             ('pattern', '<pattern id="c" width="1" height="1" patternContentUnits="objectBoundingBox"><rect width="1" height="1"/></pattern>', 'fill="url(#c)"'),
                             ('filter', '<filter id="c"><feFlood flood-color="green"/></filter>', 'filter="url(#c)"'),
                             ('marker', '<marker id="c"><circle r="1"/></marker>', None)):
        for nr, nu in ((300, 100), (300, 1000)):
            if attr is None:
                body = '<path d="M0 0%s" stroke="black" marker-mid="url(#c)"/>' % ''.join(' L%d 1' % (i % 90) for i in range(nr))
            else:
                body = ('<rect width="5" height="5" %s/>' % attr) * nr
            out.append(("unique defs %s %d x %d" % (kind, nr, nu), '<svg %s width="10" height="10"><defs>%s<g id="a">%s</g></defs>%s</svg>'
                        % (NS, defs, body, '<use xlink:href="#a"/>' * nu)))
    # text under use expansion (known class text-use-expansion: ~150 us per text element)
    for nt, k in ((30, 6), (30, 12)):
        leaf = '<g id="b0">%s</g>' % ('<text>a</text>' * nt)
        s = leaf + ''.join('<g id="b%d">%s</g>' % (i, ('<use xlink:href="#b%d"/>' % (i - 1)) * 2) for i in range(1, k + 1))
        out.append(("text use bomb %d x 2^%d" % (nt, k), '<svg %s width="10" height="10"><defs>%s</defs><use xlink:href="#b%d"/></svg>' % (NS, s, k)))
    return out


def marker_product_doc(ncont, nv1, nv0):
    """marker m0 with ncont elements; nv1 > 0: marker m1 holds a path with nv1 vertices that carries m0 on every vertex; the
    visible path has nv0 vertices and carries m1 (or m0 when nv1 = 0) on every vertex"""
    def d(n):
        return 'M0 0' + ''.join(' L%d 1' % (i % 90) for i in range(n))
    s = '<marker id="m0">%s</marker>' % ('<circle r="1"/>' * ncont)
    if nv1:
        s += '<marker id="m1"><path d="%s" marker-mid="url(#m0)"/></marker>' % d(nv1)
    return ('<svg %s width="100" height="100"><defs>%s</defs><path d="%s" stroke="black" marker-mid="url(#m%d)"/></svg>'
            % (NS, s, d(nv0), 1 if nv1 else 0))


def entity_docs():
    out = []
    out.append(("entity simple", '<!DOCTYPE svg [<!ENTITY r "<rect width=\'5\' height=\'5\'/>">]><svg %s width="10" height="10">&r;&r;</svg>' % NS))
    out.append(("entity in attribute", '<!DOCTYPE svg [<!ENTITY w "1e300">]><svg %s width="10" height="10"><rect width="&w;" height="5" stroke-width="&w;" stroke="red"/></svg>' % NS))
    for levels in (5, 9, 12):
        ents = '<!ENTITY e0 "<rect width=\'1\' height=\'1\'/>">' + ''.join('<!ENTITY e%d "%s">' % (i, ('&e%d;' % (i - 1)) * 8) for i in range(1, levels + 1))
        out.append(("entity laughs 8^%d" % levels, '<!DOCTYPE svg [%s]><svg %s width="10" height="10">&e%d;</svg>' % (ents, NS, levels)))
    out.append(("entity recursive", '<!DOCTYPE svg [<!ENTITY a "&b;"><!ENTITY b "&a;">]><svg %s width="10" height="10">&a;</svg>' % NS))
    out.append(("entity undefined", '<svg %s width="10" height="10">&nope;</svg>' % NS))
    out.append(("entity id dup", '<!DOCTYPE svg [<!ENTITY r "<rect id=\'x\' width=\'5\' height=\'5\' fill=\'url(#x)\'/>">]><svg %s width="10" height="10">&r;&r;<use xlink:href="#x"/></svg>' % NS))
    return out


def gz(data, level=6):
    b = io.BytesIO()
    with gzip.GzipFile(fileobj=b, mode='wb', compresslevel=level, mtime=0) as f:
        f.write(data)
    return b.getvalue()


def malformed(rng, seeds):
    """(label, bytes): random bytes, truncations and byte flips of real documents, bad UTF-8, bad gzip"""
    out = []
    for i in range(len(seeds)):
        d = seeds[i]
        k = rng.below(6)
        if k == 0:
            out.append(("random bytes", bytes(rng.below(256) for _ in range(1 + rng.below(300)))))
        elif k == 1:
            out.append(("truncated", d[:rng.below(max(1, len(d)))]))
        elif k == 2:
            b = bytearray(d)
            for _ in range(1 + rng.below(4)):
                if b:
                    b[rng.below(len(b))] = rng.below(256)
            out.append(("byte flips", bytes(b)))
        elif k == 3:
            p = rng.below(max(1, len(d)))
            out.append(("bad utf-8", d[:p] + rng.choice([b'\xff', b'\xc0\xaf', b'\xed\xa0\x80', b'\xf8\x88\x80\x80\x80']) + d[p:]))
        elif k == 4:
            g = bytearray(gz(d))
            if rng.below(2):
                g = g[:rng.below(max(1, len(g)))]
            else:
                for _ in range(1 + rng.below(3)):
                    g[rng.below(len(g))] = rng.below(256)
            out.append(("bad gzip", bytes(g)))
        else:
            t = d.decode('utf-8', 'replace')
            cut = [m.start() for m in re.finditer(r'[<>"=/]', t)]
            if cut:
                p = rng.choice(cut)
                t = t[:p] + rng.choice(['<', '>', '"', '</', '<!--', '<![CDATA[', '&', '&#xD800;', '\x00', '<?xml ']) + t[p + rng.below(3):]
            out.append(("broken markup", t.encode('utf-8', 'replace')))
    return out


OPTION_SETS = ['-', 'lang=de', 'lang=en', 'lang=\u65e5\u672c,\u00f6', 'lang=\u00f6-x', 'dpi=10', 'dpi=72', 'dpi=300', 'dpi=4000', 'dw=1;dh=1', 'dw=10000;dh=3', 'lang=ru,de', 'lang=',
               'css=' + '*{stroke-width:1e300;fill:url(#g1)} rect{marker:url(#g2);font:bold 1e40px x}'.encode().hex(),
               'css=' + 'svg{display:none}'.encode().hex(), 'nofonts', 'nofonts;dpi=4000', 'fs=0', 'fs=1e30']


# ------------------------------------------------------------------------------------------------ round 4
# (a) reference chains of every link kind in every shape: tail t + cycle c (c = 0: plain chain; t >= 1 and c >= 1: the
#     rho shape, whose cycle does not contain the node the walk starts from), with the units attributes that keep the
#     cacheability / conversion walks going.  (b) numeric fields that are finite one by one but overflow f32 in the sums and
#     products the converter forms before it calls a validated constructor.  (c) definition chains with fan-out 2 reached
#     directly and through use / symbol / nested svg / marker contexts.
LINK_UNITS = {
    'mask': ['', 'maskUnits="userSpaceOnUse" x="0" y="0" width="9" height="9"',
             'maskUnits="userSpaceOnUse" maskContentUnits="userSpaceOnUse"', 'maskContentUnits="objectBoundingBox"'],
    'clip-path': ['', 'clipPathUnits="userSpaceOnUse"', 'clipPathUnits="objectBoundingBox"'],
    'filter-href': ['', 'filterUnits="userSpaceOnUse" primitiveUnits="userSpaceOnUse" x="0" y="0" width="9" height="9"'],
    'lg-href': ['', 'gradientUnits="userSpaceOnUse"'],
    'rg-href': ['', 'gradientUnits="userSpaceOnUse"'],
    'pattern-href': ['', 'patternUnits="userSpaceOnUse" width="2" height="2"'],
    'pattern-fill': ['width="1" height="1"', 'patternUnits="userSpaceOnUse" width="2" height="2"',
                     'patternUnits="userSpaceOnUse" patternContentUnits="objectBoundingBox" width="2" height="2"'],
    'use': [''],
    'feimage': ['', 'filterUnits="userSpaceOnUse" primitiveUnits="userSpaceOnUse" x="0" y="0" width="9" height="9"'],
    'marker': ['', 'markerUnits="userSpaceOnUse" overflow="visible"'],
    'mixed': ['', 'maskUnits="userSpaceOnUse" clipPathUnits="userSpaceOnUse" patternUnits="userSpaceOnUse" width="2" height="2"'],
}


def _link_node(kind, i, j, units, last_plain):
    """definition number i of a chain of kind `kind`, linking to definition j (None: end of a plain chain)"""
    R = '<rect width="5" height="5" fill="white"/>'
    if kind == 'mask':
        return '<mask id="n%d" %s%s>%s</mask>' % (i, units, '' if j is None else ' mask="url(#n%d)"' % j, R)
    if kind == 'clip-path':
        return '<clipPath id="n%d" %s%s>%s</clipPath>' % (i, units, '' if j is None else ' clip-path="url(#n%d)"' % j, R)
    if kind == 'filter-href':
        return '<filter id="n%d" %s%s>%s</filter>' % (i, units, '' if j is None else ' xlink:href="#n%d"' % j, '<feFlood/>' if j is None else '')
    if kind in ('lg-href', 'rg-href'):
        t = 'linearGradient' if kind == 'lg-href' else 'radialGradient'
        return '<%s id="n%d" %s%s>%s</%s>' % (t, i, units, '' if j is None else ' xlink:href="#n%d"' % j,
                                             '<stop offset="0"/><stop offset="1" stop-color="red"/>' if j is None else '', t)
    if kind == 'pattern-href':
        return '<pattern id="n%d" %s%s>%s</pattern>' % (i, units, '' if j is None else ' xlink:href="#n%d"' % j, R if j is None else '')
    if kind == 'pattern-fill':
        return '<pattern id="n%d" %s><rect width="1" height="1"%s/></pattern>' % (i, units, '' if j is None else ' fill="url(#n%d)"' % j)
    if kind == 'use':
        return '<use id="n%d"%s/>' % (i, ' xlink:href="#leaf"' if j is None else ' xlink:href="#n%d"' % j)
    if kind == 'feimage':
        return ('<filter id="n%d" %s><feImage xlink:href="#r%d"/></filter><rect id="r%d" width="3" height="3"%s/>'
                % (i, units, i, i, '' if j is None else ' filter="url(#n%d)"' % j))
    if kind == 'marker':
        return '<marker id="n%d" %s><path d="M0 0 L1 0 L1 1"%s/></marker>' % (i, units, '' if j is None else ' marker-mid="url(#n%d)"' % j)
    if kind == 'mixed':
        t, att = [('mask', 'mask'), ('clipPath', 'clip-path'), ('pattern', 'fill')][i % 3], None
        nxt = '' if j is None else ' %s="url(#n%d)"' % ([('mask', 'mask'), ('clipPath', 'clip-path'), ('pattern', 'fill')][j % 3][1], j)
        return '<%s id="n%d" %s><rect width="1" height="1"%s/></%s>' % (t[0], i, units, nxt, t[0])
    raise ValueError(kind)


LINK_START = {'mask': 'mask="url(#n0)"', 'clip-path': 'clip-path="url(#n0)"', 'filter-href': 'filter="url(#n0)"', 'lg-href': 'fill="url(#n0)"',
              'rg-href': 'stroke="url(#n0)"', 'pattern-href': 'fill="url(#n0)"', 'pattern-fill': 'fill="url(#n0)" stroke="url(#n0)"',
              'feimage': 'filter="url(#n0)"', 'mixed': 'mask="url(#n0)"'}


def link_chain_docs(tails=(0, 1, 2, 3), cycles=(0, 1, 2, 3, 4)):
    out = []
    for kind, unitss in LINK_UNITS.items():
        for ui, units in enumerate(unitss):
            for t in tails:
                for c in cycles:
                    n = t + c
                    if n == 0:
                        continue
                    defs = ''
                    for i in range(n):
                        j = i + 1 if i + 1 < n else (t if c else None)
                        defs += _link_node(kind, i, j, units, c == 0)
                    if kind == 'use':
                        body = '<g id="leaf"><rect width="1" height="1"/></g>' + defs
                        defs = ''
                    elif kind == 'marker':
                        body = '<path d="M0 0 L5 0 L5 5" stroke="black" marker-start="url(#n0)" marker-mid="url(#n0)"/>'
                    else:
                        body = '<rect x="1" y="1" width="8" height="8" %s/>' % LINK_START[kind]
                    for ctx in (('', '') if (t + c + ui) % 3 else ('<defs><g id="ctx">', '</g></defs><use xlink:href="#ctx"/>'),):
                        out.append(("link chain %s units#%d tail %d cycle %d%s" % (kind, ui, t, c, ' in use' if ctx[0] else ''),
                                    '<svg %s width="10" height="10"><defs>%s</defs>%s%s%s</svg>' % (NS, defs, ctx[0], body, ctx[1])))
    return out


BIG = ['3e38', '-3e38', '1e35', '-1e35', '3.4e38', '1.8e38', '1e32', '4e32', '1e20', '-1e20', '1e-40', '0', '1', '-1', '1e38', '2e19', '16777216', '0.5']


def convolve_docs():
    """feConvolveMatrix without / with `divisor`: kernel values that are finite but whose sum (or sum * 1e6) overflows, is NaN
    (+inf + -inf partial sums), cancels to 0, is tiny"""
    out = []
    kernels = []
    for order in (1, 2, 3):
        n = order * order
        for v in ('1e35', '-1e35', '3e38', '-3e38', '1e32', '4e32', '1e-40', '0', '1e38', '3.4e38'):
            kernels.append((order, ' '.join([v] * n)))
        if n > 1:
            kernels.append((order, ' '.join((['3e38', '3e38', '-3e38', '-3e38', '3e38'] * n)[:n])))
            kernels.append((order, ' '.join((['3e38', '-3e38'] * n)[:n])))
            kernels.append((order, ' '.join((['1', '3e38', '3e38'] * n)[:n])))
    for order, k in kernels:
        for extra in ('', 'divisor="0"', 'divisor="1e-40"', 'divisor="3e38" bias="3e38"', 'preserveAlpha="true" targetX="0" targetY="0"',
                      'kernelUnitLength="3e38 3e38" edgeMode="wrap"'):
            out.append(("convolve order %d kernel %s %s" % (order, k[:30], extra),
                        '<svg %s width="10" height="10"><filter id="f"><feConvolveMatrix order="%d" kernelMatrix="%s" %s/></filter>'
                        '<rect width="8" height="8" filter="url(#f)"/></svg>' % (NS, order, k, extra)))
    return out


SUM_TEMPLATES = [
    '<rect x="#" y="#" width="#" height="#" rx="2" stroke="black" stroke-width="#"/>',
    '<rect width="5" height="5" stroke="black" stroke-dasharray="# # #" stroke-dashoffset="#"/>',
    '<circle cx="#" cy="#" r="3"/>', '<ellipse cx="#" cy="#" rx="2" ry="3"/>', '<line x1="#" y1="#" x2="#" y2="#" stroke="red"/>',
    '<polyline points="# # # # # #" stroke="red"/>', '<path d="M # # L # # C # # # # # # Q # # # # Z" stroke="red" stroke-width="#"/>',
    '<g transform="scale(#) translate(# #)"><g transform="scale(# #) rotate(# # #)"><rect width="#" height="#"/></g></g>',
    '<g transform="matrix(# # # # # #)"><rect width="1" height="1" transform="matrix(# # # # # #)"/></g>',
    '<svg x="#" y="#" width="#" height="#" viewBox="# # # #"><rect width="1" height="1"/></svg>',
    '<symbol id="sy@" viewBox="# # # #"><rect width="1" height="1"/></symbol><use xlink:href="#sy@" x="#" y="#" width="#" height="#"/>',
    '<linearGradient id="lg@" x1="#" y1="#" x2="#" y2="#" gradientTransform="scale(#) scale(#)" gradientUnits="$U"><stop offset="#"/><stop offset="#" stop-color="red" stop-opacity="#"/></linearGradient><rect width="9" height="9" fill="url(#lg@)"/><circle cx="5" cy="5" r="3" stroke="url(#lg@)"/>',
    '<radialGradient id="rg@" cx="#" cy="#" r="#" fx="#" fy="#" fr="#" gradientUnits="$U"><stop offset="0"/><stop offset="1" stop-color="red"/></radialGradient><rect width="9" height="9" stroke="url(#rg@)" stroke-width="#"/><circle cx="5" cy="5" r="3" fill="url(#rg@)"/>',
    '<pattern id="pt@" x="#" y="#" width="#" height="#" viewBox="# # # #" patternUnits="$U" patternContentUnits="$U" patternTransform="scale(#)"><rect width="#" height="#"/></pattern><rect x="#" width="9" height="9" fill="url(#pt@)"/><circle cx="5" cy="5" r="3" fill="url(#pt@)" stroke="url(#pt@)"/>',
    '<mask id="mk@" x="#" y="#" width="#" height="#" maskUnits="$U" maskContentUnits="$U"><rect width="#" height="#" fill="white"/></mask><rect x="#" y="#" width="#" height="#" mask="url(#mk@)"/><circle cx="5" cy="5" r="3" mask="url(#mk@)"/>',
    '<clipPath id="cp@" clipPathUnits="$U" transform="scale(# #)"><rect x="#" width="#" height="#"/></clipPath><rect x="#" width="#" height="#" clip-path="url(#cp@)"/><circle cx="5" cy="5" r="3" clip-path="url(#cp@)"/>',
    '<marker id="mr@" markerWidth="#" markerHeight="#" refX="#" refY="#" viewBox="# # # #" markerUnits="$M"><rect width="1" height="1"/></marker><path d="M0 0 L5 0 L5 5" stroke="black" stroke-width="#" marker-mid="url(#mr@)"/>',
    '<filter id="fl@" x="#" y="#" width="#" height="#" filterUnits="$U" primitiveUnits="$U">$P</filter><rect x="#" y="#" width="#" height="#" filter="url(#fl@)"/><circle cx="5" cy="5" r="3" filter="url(#fl@)"/>',
    '<filter id="fl@">$P$P</filter><rect width="9" height="9" filter="url(#fl@)"/>',
    '<filter id="fl@" primitiveUnits="objectBoundingBox">$P</filter><g filter="url(#fl@)"><rect x="#" width="#" height="#"/></g>',
]
SUM_PRIMS = [
    '<feOffset dx="#" dy="#" x="#" y="#" width="#" height="#"/>', '<feGaussianBlur stdDeviation="# #"/>', '<feMorphology radius="# #" operator="dilate"/>',
    '<feTurbulence baseFrequency="# #" numOctaves="#" seed="#"/>', '<feDropShadow dx="#" dy="#" stdDeviation="# #"/>',
    '<feComposite operator="arithmetic" k1="#" k2="#" k3="#" k4="#"/>', '<feColorMatrix type="matrix" values="# # # # # # # # # # # # # # # # # # # #"/>',
    '<feColorMatrix type="saturate" values="#"/>', '<feColorMatrix type="hueRotate" values="#"/>',
    '<feComponentTransfer><feFuncR type="table" tableValues="# # #"/><feFuncG type="linear" slope="#" intercept="#"/><feFuncB type="gamma" amplitude="#" exponent="#" offset="#"/><feFuncA type="discrete" tableValues="# #"/></feComponentTransfer>',
    '<feConvolveMatrix order="2" kernelMatrix="# # # #"/>', '<feConvolveMatrix order="3 1" kernelMatrix="# # #" bias="#"/>', '<feConvolveMatrix order="1" kernelMatrix="#" divisor="#"/>',
    '<feDiffuseLighting surfaceScale="#" diffuseConstant="#"><fePointLight x="#" y="#" z="#"/></feDiffuseLighting>',
    '<feSpecularLighting surfaceScale="#" specularConstant="#" specularExponent="#"><feSpotLight x="#" y="#" z="#" pointsAtX="#" pointsAtY="#" pointsAtZ="#" specularExponent="#" limitingConeAngle="#"/></feSpecularLighting>',
    '<feDiffuseLighting><feDistantLight azimuth="#" elevation="#"/></feDiffuseLighting>', '<feDisplacementMap scale="#" in2="SourceGraphic"/>',
    '<feTile x="#" y="#" width="#" height="#"/>', '<feFlood flood-opacity="#" x="#" width="#"/>', '<feImage xlink:href="#nope" x="#" y="#" width="#" height="#"/>',
]


def sum_doc(rng):
    """(every definition is used by two elements: the converter treats a shared definition differently from an exclusively owned
    one - Arc::get_mut in Paint::to_user_coordinates)
    1-3 templates, every numeric slot filled from BIG with probability 1/2 (else a small sane number)"""
    body = ''
    for k in range(1 + rng.below(3)):
        t = rng.choice(SUM_TEMPLATES)
        while '$P' in t:
            t = t.replace('$P', rng.choice(SUM_PRIMS), 1)
        while '$U' in t:
            t = t.replace('$U', rng.choice(['userSpaceOnUse', 'objectBoundingBox']), 1)
        t = t.replace('$M', rng.choice(['userSpaceOnUse', 'strokeWidth'])).replace('@', str(k))
        hot = 1 + rng.below(3)
        # a numeric slot is a `#` that does not start a reference (`#id`)
        body += re.sub(r'#(?![A-Za-z])', lambda m: rng.choice(BIG) if rng.below(3) < hot else rng.choice(['0', '1', '2', '5', '0.5', '10']), t)
    return '<svg %s width="10" height="10">%s</svg>' % (NS, body)


BOMB_KINDS = {
    # kind: (definition template with %(i)d / %(ref)s, leaf template, reference from a shape, cached on HEAD)
    'pattern-uso': ('<pattern id="d%(i)d" patternUnits="userSpaceOnUse" width="2" height="2"><rect width="1" height="1" fill="url(#d%(j)d)" stroke="url(#d%(j)d)"/></pattern>',
                    '<pattern id="d%(i)d" patternUnits="userSpaceOnUse" width="2" height="2"><rect width="1" height="1"/></pattern>', 'fill="url(#d0)"', True),
    'pattern-obb': ('<pattern id="d%(i)d" width="1" height="1"><rect width="1" height="1" fill="url(#d%(j)d)" stroke="url(#d%(j)d)"/></pattern>',
                    '<pattern id="d%(i)d" width="1" height="1"><rect width="1" height="1"/></pattern>', 'fill="url(#d0)"', False),
    'mask-uso': ('<mask id="d%(i)d" maskUnits="userSpaceOnUse" x="0" y="0" width="9" height="9"><rect width="9" height="9" fill="white" mask="url(#d%(j)d)"/><rect width="5" height="5" fill="white" mask="url(#d%(j)d)"/></mask>',
                 '<mask id="d%(i)d" maskUnits="userSpaceOnUse" x="0" y="0" width="9" height="9"><rect width="9" height="9" fill="white"/></mask>', 'mask="url(#d0)"', True),
    'mask-obb': ('<mask id="d%(i)d"><rect width="9" height="9" fill="white" mask="url(#d%(j)d)"/><rect width="5" height="5" fill="white" mask="url(#d%(j)d)"/></mask>',
                 '<mask id="d%(i)d"><rect width="9" height="9" fill="white"/></mask>', 'mask="url(#d0)"', False),
    'clip-uso': ('<clipPath id="d%(i)d"><rect width="9" height="9" clip-path="url(#d%(j)d)"/><rect width="5" height="5" clip-path="url(#d%(j)d)"/></clipPath>',
                 '<clipPath id="d%(i)d"><rect width="9" height="9"/></clipPath>', 'clip-path="url(#d0)"', True),
    'clip-obb': ('<clipPath id="d%(i)d" clipPathUnits="objectBoundingBox"><rect width="1" height="1" clip-path="url(#d%(j)d)"/><rect width="0.5" height="0.5" clip-path="url(#d%(j)d)"/></clipPath>',
                 '<clipPath id="d%(i)d" clipPathUnits="objectBoundingBox"><rect width="1" height="1"/></clipPath>', 'clip-path="url(#d0)"', False),
    'filter-uso': ('<filter id="d%(i)d" filterUnits="userSpaceOnUse" primitiveUnits="userSpaceOnUse" x="0" y="0" width="9" height="9"><feImage xlink:href="#fa%(i)d"/><feImage xlink:href="#fb%(i)d"/></filter>'
                   '<rect id="fa%(i)d" width="3" height="3" filter="url(#d%(j)d)"/><rect id="fb%(i)d" width="2" height="2" filter="url(#d%(j)d)"/>',
                   '<filter id="d%(i)d" filterUnits="userSpaceOnUse" primitiveUnits="userSpaceOnUse" x="0" y="0" width="9" height="9"><feFlood/></filter>', 'filter="url(#d0)"', True),
    'filter-obb': ('<filter id="d%(i)d"><feImage xlink:href="#fa%(i)d"/><feImage xlink:href="#fb%(i)d"/></filter>'
                   '<rect id="fa%(i)d" width="3" height="3" filter="url(#d%(j)d)"/><rect id="fb%(i)d" width="2" height="2" filter="url(#d%(j)d)"/>',
                   '<filter id="d%(i)d"><feFlood/></filter>', 'filter="url(#d0)"', False),
    'marker': ('<marker id="d%(i)d" overflow="visible"><path d="M0 0 L1 1" marker-start="url(#d%(j)d)" marker-end="url(#d%(j)d)"/></marker>',
               '<marker id="d%(i)d"><rect width="1" height="1"/></marker>', None, False),
}
BOMB_CONTEXTS = ['direct', 'use', 'symbol', 'svg', 'marker', 'use-use']


def context_bomb_docs(deep=18, shallow=7):
    """chains of `depth` definitions, each referencing the next one twice, reached directly and through a use, a symbol, a
    nested svg, a marker, a use of a use.  Kinds that the converter caches (one conversion per definition) get depth `deep`,
    the ones it converts per reference (class reference-fan-out-exponential) depth `shallow`."""
    out = []
    for kind, (tmpl, leaf, start, cached) in BOMB_KINDS.items():
        depth = deep if cached else shallow
        defs = ''.join((tmpl if i < depth - 1 else leaf) % dict(i=i, j=i + 1) for i in range(depth))
        shape = ('<rect x="1" y="1" width="8" height="8" %s/>' % start) if start else \
            '<path d="M0 0 L5 0 L5 5" stroke="black" marker-start="url(#d0)" marker-end="url(#d0)"/>'
        for c in BOMB_CONTEXTS:
            if c == 'direct':
                body = shape
            elif c == 'use':
                body = '<defs><g id="cx">%s</g></defs><use xlink:href="#cx"/>' % shape
            elif c == 'symbol':
                body = '<symbol id="cx">%s</symbol><use xlink:href="#cx" width="10" height="10"/>' % shape
            elif c == 'svg':
                body = '<svg x="0" y="0" width="10" height="10">%s</svg>' % shape
            elif c == 'marker':
                body = '<marker id="cx" overflow="visible">%s</marker><path d="M1 1 L5 5" stroke="black" marker-start="url(#cx)"/>' % shape
            else:
                body = '<defs><g id="cx">%s</g><use id="cy" xlink:href="#cx"/></defs><use xlink:href="#cy"/>' % shape
            out.append(("context bomb %s 2^%d via %s" % (kind, depth, c), cached,
                        '<svg %s width="10" height="10"><defs>%s</defs>%s</svg>' % (NS, defs, body)))
    return out
