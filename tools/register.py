#!/usr/bin/env python3
"""Regenerate MANIFEST.json 'checks' from the table below (only for the ids passed on the command line,
plus those already registered).  usage: tools/register.py C04 C06 ..."""
import json
import os
import sys

VERIF = os.path.dirname(os.path.dirname(os.path.abspath(__file__)))

COMMON_NOTE = ("Trusted: Coq 8.16.1 kernel + vm_compute (no native_compute), tools/translate.py + rs2coq.py + gen_*.py "
               "(source -> Gallina transcription), the Rust harness and python oracles with their stated tolerances; f32 rounding of "
               "finite values idealised as exact rationals in Q-modelled functions; third-party crates (tiny-skia, roxmltree, "
               "svgtypes, simplecss, kurbo, rustybuzz, image decoders) are modelled/observed, not verified. No axioms beyond "
               "those named. ")

T = {
 'C01': dict(text="Coq theorems on the executable model of svgtree construction (depth/node limits regenerated from the source: build never runs out of fuel, nodes and depth bounded, fix-up loops terminate, constructor guards) and a panic-site ledger over the generated list of unwrap/assert/index sites; system oracle: Tree::from_data in crash-isolated workers (release and debug) over corpus, mutants, grammar stream, bombs, gzip, malformed bytes x options. Partial: native stack and wall-clock are observed, not proved.",
             note="Text layout, XML/CSS/value parsers are unmodelled (their panics can only be found by the oracle); ledger entries of class Reviewed are counted as not proved.",
             tech="Coq proof over fuelled build model + generated panic-site ledger + crash-isolated differential oracle"),
 'C02': dict(text="Coq theorems over Z/Q on layer geometry (fit_to_rect source-derived = intersection, canvas inside max_bbox, every layer within max_bbox hence area <= k^2 WH with k from generated constants, saturating casts) tied to the implementation by the layer/filter trace hooks; system oracle: corpus x canvas sizes x root transforms with panic capture (release+debug), time and largest-allocation bounds. Known classes for the filter-intermediate and pattern-tile findings.",
             note="Rasteriser, decoders and text are unmodelled; allocation bound measured by a counting allocator in the harness.",
             tech="Coq proof over source-derived layer geometry + trace correspondence + allocation/time oracle"),
 'C03': dict(text="Coq theorem that the converter's reference-following recursion terminates for every document of any size and any mix of link kinds (measure: nodes minus in-progress stack), pre-pass removes short cycles, HrefIter bounded, frame theorem for independent shapes; correspondence of the svgtree pre-pass via svgtree_dump; exhaustive enumeration of reference graphs on up to 3 (quick) / 4 (thorough) link-bearing elements over 11 link kinds plus random graphs, parsed and rendered in crash-isolated workers with an independent witness shape.",
             note="Native stack depth is observed only; `use` expansion loops beyond the three guards are a known class.",
             tech="Coq termination proof over link-graph model + exhaustive small-graph enumeration against the implementation"),
 'C04': dict(text="Coq theorems (dash list, miter, width, stop offsets in [0,1] and sorted for all inputs and any epsilon function, radii, regions, rect radii, span tiling, unit resolution) over leaf functions translated from the Rust source, and a Coq predicate valid_tree evaluated on the dump of every tree the harness produces (corpus, witnesses, adversarial numerics, mutants).",
             note="Path data, arcs and text layout are unmodelled; finiteness of arbitrary coordinates depends on svgtypes.",
             tech="Coq proof over source-translated leaf functions + in-Coq validity predicate on real tree dumps"),
 'C05': dict(text="Coq theorems on the tree/collector/filter-wiring model (collections duplicate-free and complete for chains of any length, filter inputs reference earlier results, kernel shapes, generated ids fresh, node_by_id) with the model recomputing the collections from real tree dumps inside Coq; system oracle: full walk of every dumped tree vs collections, id multiset, lookup by id.",
             note="Arc identity is taken from pointer values in the dump; typing-level finiteness of definition chains is stated, not proved.",
             tech="Coq proof over mutual-inductive tree model + dump-vs-model correspondence"),
 'C06': dict(text="Coq theorems over source-generated site lists (hash containers used through the lookup interface only, fixed hasher, no shared mutable state, forbid(unsafe_code), per-call cache) and a container model whose observations are independent of an arbitrary per-operation permutation; system oracle: byte-identical to_string and pixels across repeats, permuted orders, 2..16 threads sharing a tree and a font database, and fresh processes. Partial: interleavings/allocator/OS are observed only.",
             note="Receivers are typed syntactically by the scanner (a hash container passed through a generic parameter would escape it).",
             tech="Coq proof over generated site ledger + order-oblivious container model + reproducibility oracle"),
 'C07': dict(text="Coq theorem that well-formed references of the tree (C05's conclusion) imply every url()/href in the written element tree is defined exactly once, prefix uniformity, xlink declaration, number formatting total and finite; writer-skeleton correspondence (real to_string parsed by roxmltree vs model output); system oracle: independent XML parse, reference closure, plain-decimal numbers, re-parse with equal node counts over corpus x WriteOptions.",
             note="XML escaping/indentation (xmlwriter), base64 and float printing are unmodelled.",
             tech="Coq proof over writer reference-structure model + skeleton correspondence + closure oracle"),
 'C08': dict(text="Coq round-trip theorems over enum string tables generated from parser and writer sources (parse(write v) = v for every constructor, elided defaults sound) and the number-formatting error bound; enum round trip through the public API; system oracle: render(T) vs render(parse(write(T))) at 1x/2x and a second round trip over the corpus.",
             note="Equality of the re-parsed tree for structured content is validated, not proved.",
             tech="Coq proof over generated codec tables + round-trip rendering oracle"),
 'C09': dict(text="Coq theorems on the attribute cascade model over tables generated from names.rs / svgtree (lookup invariant under permutation, attribute = style = CSS for a single declaration, precedence incl. !important, inherit for inheritable and non-inheritable properties, explicit defaults, unit equivalences); cascade correspondence via svgtree_dump; system oracle: spelling rewrites of random documents compared on the serialised tree.",
             note="Selector matching and colour/number notation live in simplecss/svgtypes (unmodelled).",
             tech="Coq proof over generated attribute tables + cascade correspondence + rewrite oracle"),
 'C10': dict(text="Coq theorems on affine algebra, transform-origin, use-as-translated-group, symbol/nested-svg viewport (via the source-derived to_transform), switch selection and rect radius rules; construct-vs-expansion document pairs compared on tree dumps.",
             note="Arc conversion (kurbo), path simplification, transform-list parsing (svgtypes), gzip (flate2) are validated only.",
             tech="Coq proof over converter model + construct/expansion differential oracle"),
 'C11': dict(text="Coq theorems on the converter skeleton over tables cut from converter.rs/switch.rs/shapes.rs (an ignorable element leaves cache and parent unchanged; convert_children is context-free under insertion of ignorable junk, lifted through containers; id pre-scan stable); svgtree-filter and skeleton correspondences; system oracle: 11 kinds of non-rendered content inserted at random structural positions, serialised tree and pixels identical.",
             note="Domain guard: no positional CSS selectors (stated in the theorem, enforced by the generator).",
             tech="Coq proof over source-tabled converter model + insertion oracle"),
 'C12': dict(text="Coq theorems on bounding-box algebra (Rect::transform bounds and tightness, parent boxes contain children, abs box = mapped box for axis-aligned transforms, abs transform = product of ancestors outside the known classes) with boxes of every corpus group recomputed inside Coq; system oracle: painted pixels of every node lie inside its reported box grown by the AA margin.",
             note="Tight bounds and stroke outlines come from tiny-skia; text boxes from layout (unmodelled).",
             tech="Coq proof over bbox model + in-Coq recomputation on dumps + painted-pixel oracle"),
 'C13': dict(text="Coq theorems that layer geometry is equivariant under integer shifts (floor/ceil shift, layer box before clamping, clamping preserves the visible part, sub-pixel fraction preserved); layer-trace correspondence under shifted roots; system oracle: render(T, translate(dx,dy) M) vs shifted render(T, M) over the corpus.",
             note="Rasteriser equivariance is observed only.",
             tech="Coq proof over source-derived layer geometry + shift oracle"),
 'C14': dict(text="Coq theorems on premultiplied compositing (over associative, painting through a layer is invisible for arbitrary draw lists, opacity multiplies, 0 erases, 1 is identity) and on layer geometry (layer covers the visible content, placement undoes the shift) tied by the layer trace; system oracle: isolation injected into corpus Micro-SVG and generated documents.",
             note="That tiny-skia implements `over` is observed, not proved.",
             tech="Coq proof over compositing algebra and layer geometry + isolation-injection oracle"),
 'C15': dict(text="Coq theorems on mask/clip algebra (alpha never increases, outside the clip transparent, inside unchanged, nested clip = intersection, white mask identity) incl. exact u8 scaling swept exhaustively; system oracle on generated clips/masks over corpus content.",
             note="Clip coverage is tiny-skia's rasteriser (unmodelled).",
             tech="Coq proof over clip/mask algebra + exhaustive u8 sweep + monotonicity oracle"),
 'C16': dict(text="Exhaustive Coq theorems under exact IEEE binary32 semantics (Flocq) over all 65 536 (channel, alpha) byte pairs for the premultiply/demultiply/transfer kernels and the sRGB tables extracted from the source, Z-theorems on the clear rectangles; exhaustive table correspondence with the real kernels through export hooks; system oracle: region containment, channel <= alpha, identity chains over generated filter documents.",
             note="Uses Flocq: 4 stdlib axioms (sig_forall_dec, sig_not_dec, functional_extensionality_dep, classic) via the reals library. Blur, lighting normals, turbulence noise, displacement, blend modes are modelled only in their final u8 step.",
             tech="Exhaustive vm_compute proof over exact binary32 kernels + exhaustive kernel-table correspondence"),
 'C18': dict(text="Coq theorems on objectBoundingBox resolution over source-derived expressions (bbox_transform is the bbox map, gradient/clip/region/pattern-content equivalence, shared users each get their own resolution under distinct ids, empty-box fallback) guarded by three known classes; 7 correspondence ops inside Coq; system oracle: objectBoundingBox document vs hand-mapped userSpaceOnUse document.",
             note="The refcount model counts references within one definition's content only.",
             tech="Coq proof over source-derived resolution expressions + OBB/USOU differential oracle"),
 'C19': dict(text="Coq theorems on node export (None iff zero-sized, export transform = translate(-box) after the ancestors' transforms, lookup by id sound/complete/first) locked to exact-text source facts; export-ts trace correspondence; system oracle: render_node vs crop of the single-node document, lookup for every present and absent id.",
             note="Documents whose written tree does not survive write->parse are skipped as references.",
             tech="Coq proof over export model + trace correspondence + export-vs-crop oracle"),
 'C20': dict(text="Coq theorems over validators/FitTo/process step order regenerated from main.rs (dimension rules for -w/-h/-w -h/-z, default-size rule, errors precede output, exit codes, trim never panics) with hand-modelled IntSize arithmetic; cli-dims correspondence on the real binaries; system oracle: exit status, stderr, no output on failure, PNG pixels = library rendering, usvg output = Tree::to_string.",
             note="pico-args, the file system, the PNG encoder and partial writes are outside the model.",
             tech="Coq proof over source-derived CLI model + real-binary differential oracle"),
}

# Round-4 (extension round) additions, appended to the level text of each property.
EXT = {
 'C01': "",
 'C02': " Round 4: clip/mask/nested-image buffers have exactly the layer's size for any nesting (size arguments of the Pixmap::new/Mask::new sites translated from source), pattern tiles / filter results / turbulence octaves proved to follow the document (the registered classes), box-blur / IIR / convolve-wrap loop bounds for all radii and sizes, checked subregion translation total for all regions, and a generated ledger of every allocation and panic site of resvg/src matched against proved or reviewed discharges. Second pass: 7 of 21 panic sites proved or computed (f32_bound over all 9 call sites), index arithmetic of lighting, displacement map, component transfer and box-gauss sizes in range for all inputs, layers at any nesting depth <= k^2 WH, layers inside nested images <= k^4 WH with image nesting depth 1 (imported from C03).",
 'C03': " Round 4: frame clause of the pre-pass (skeleton unchanged, nothing added, every removed reference lies on a cycle of length <= 2 of the original document) with the scan scopes derived from source; nested documents through image/feImage are bounded at depth 1 for every file system incl. self-including files (sub-document options derived from source); duplicate ids exercised through all correspondences. Second pass: filter lists (every url entry is an edge; drop rule of filter::convert) inside the termination theorems; the clip-path/mask chain walks of is_cacheable terminate for every graph incl. rho shapes (visited list), weaker guards refuted on the seed C01-12 shape; a generated table of every link-following site in parser/** must be covered by a classified mechanism (C03_link_sites_covered).",
 'C04': " Round 4: every produced filter / mask (for any user sequence, cache hits included) has a positive region, at least one primitive, positive sub-regions and non-negative stdDeviation; all four branches of resolve_primitive_region.",
 'C05': " Round 4: hidden paths' paint servers are collected (paths carry visibility in the model), and the arms/guards of loop_over_paint_servers and of the four collection loops are source-derived tables proved equal to the model's node_paints. Second pass: id programs: every control path that emits several nodes for one source element (image slice/no-slice, convert_path paint-order arms, use clip branch) is a generated straight-line program and emits the source id at most once; nested documents restart id generators and collections dedup by identity.",
 'C06': " Round 4: every ledger entry is a cell with a class (immutable after init, external input, keyed deterministically, not output-affecting, call-local, address equality; Mutable = undischarged) and the allowlist is `discharged (cell_class s)`; over a small machine with a store that persists across calls and is shared by threads: outputs are independent of the history (fresh process = used process) and of the schedule of N threads for ALL histories and schedules given the discharged ledger of the current source, with refuted converses for one mutable cell; order ledger (sort/dedup/binary_search/parallel-iterator sites of usvg, resvg, simplecss and fontdb at their Cargo.lock versions): stable sorts are unique, the CSS cascade needs and has a stable sort.",
 'C07': " Round 4: xmlwriter/writer escaping modelled over byte lists from the xmlwriter source named in Cargo.lock and writer.rs's replace calls: the splice loop is replace_all, unescape(escape_text s) = s, escaped text is well-formed, attribute values never contain their closing quote (guarded + refuted pair for the registered unescaped-xml-char class). Second pass: FromValue for f32 steps in source order: every accepted number is finite for all f64 texts (the opposite order is refuted), so write_num never sees a non-finite parsed number; text escape well-formedness at full strength incl. no `]]>` after fix 94b8b4d.",
 'C08': " Round 4: every id write site of writer.rs (13 definition, 11 reference sites, data-flow traced from source) writes prefix ++ id exactly once and the parser's reading of a written reference equals the written definition id; conditionally written numeric attributes: not written implies value = parser default (11 sites, conditions and defaults derived from source). Second pass: all 26 write_num sites (matrix order, per-segment coordinate counts) generated; write_num is idempotent (second trip changes nothing further) for every value and precision, lifted to lists, transforms and path data; every reachable mask/clip/pattern/gradient/filter is written exactly once for chains of any length; Units and Visibility tables round-trip.",
 'C09': " Round 4: a source-derived table of all 88 read sites of presentation attributes in parser/*.rs with the value type each is parsed with: every site reads a property with exactly the notation set of the spec table, any two sites of one property agree, the opacity family is read as Opacity everywhere, inherited properties are read through ancestors, every length read ends in convert_length; selector matching (simplecss match/specificity over usvg's Element impl), the stable specificity sort and the rule-list cascade as a function of (rule list, element position), tied by a selector correspondence; declarative winner of the cascade for all candidate sequences.",
 'C10': " Round 4: basic shapes as paths: builder scripts of points/polyline/polygon/line/circle/ellipse/rect and the convert_path dispatch transcribed from shapes.rs over a hand model of PathBuilder: polygon/polyline/line/ellipse/circle/rect equal their equivalent path data for all inputs (n points give n (+1) segments in order); viewport clip decision (get_clip_rect transcribed) and use->symbol = group(use transform + style) > viewport clip > group(translate . viewBox transform) > copy, at full strength after fix 214a8de; shape-path and use-symbol correspondences.",
 'C11': " Round 4: cache-registration model (mask/clip step tables from mask.rs/clippath.rs, id generator): every node of the property's own non-rendered list converts to (cache, parent) unchanged, for any number of insertions at any depth, so the sequence of cache registrations and generated ids is unchanged; cache-reg correspondence against the real tree's resolved ids. Second pass: every call site that converts child content in parser/*.rs (39 sites) is generated with the guard that precedes it and must pass the non-rendered filter first (an unguarded new site is a failed obligation); linked masks / clip paths in the cache model.",
 'C12': " Round 4: the abs-transform product invariant over clip-path / mask / pattern / feImage sub-trees at any depth (guarded by the registered pattern_pushed_transform class, with refuted witness), locality of the forest invariant, and the complete table of transform assignment sites of the parser as a source lock.",
 'C13': " Round 4: position-dependent filter primitives translated from source (turbulence offset/sample, point and spot light mapping, canvas draw position): offset invariant, lights equivariant for every integer frame move, turbulence phase exact iff the region origin is the layer origin (guarded by the registered clamped-filter-region-origin class, with refuted witness from a real trace). Second pass: checked subregion translation, feTile origin, feImage placement, feOffset scaling and the pattern shader transform translated from source and proved equivariant for arbitrary integer frame moves; sub-regions exact in Q with the f32 deviation named as the registered filter-region-ulp class.",
 'C14': " Round 4: the 8-bit layer composite: draw_pixmap's source-over rounds the exact rational over within 1/2 level (all 65 536 pairs, tied by a complete sweep of the real tiny-skia), nested layers and single draws are bit-exact, n overlapping draws through a layer differ from direct painting by at most (3n-1)/2 levels, attained at n = 2 (registered class layer-requantisation). Second pass: the layer bounding box is no longer an input: layer_of walks the tree bottom-up over C12's source-locked box model and contains every painted box (stroke boxes, filter regions, transformed children) for all trees at any depth, tied by a per-group correspondence on corpus dumps.",
 'C15': " Round 4: nesting to any depth: mask-on-mask factors stay in [0,1] and multiply, any stack of clip/mask/opacity factors never increases the result, exact u8 mask chains (apply_mask + luminance in binary32) never increase a channel and are 0 where any level has no coverage.",
 'C16': " Round 4: feConvolveMatrix keeps pixels valid for every kernel, divisor, bias, edge mode and window (arbitrary binary32 window sums incl. inf/NaN, by rounding monotonicity, no enumeration) over leaf definitions cut from convolve_matrix.rs; validity of whole chains by induction over arbitrary primitive lists incl. arithmetic, over and convolve steps and the on-demand colour-space conversions.",
 'C17': " Round 4: nested svg / symbol viewport translated from use_node.rs (use_node_size, viewbox_transform, get_clip_rect) and the percent-axis table of convert_length: per-dimension size rule (unit at DPI, percent of the parent viewport, missing = 100%), transform = to_transform of the viewBox onto the spec viewport, clip rectangle = the same rectangle, None iff overflow visible/auto or unsized or empty, meet inside / slice covers / none fills the clip; image placement cut from image.rs: box = natural-size viewBox mapped onto x/y/width/height at the ALIGNED position for every alignment, slice clips by the element rectangle; viewport-clip and image-box correspondences evaluated against the spec vocabulary alone.",
 'C18': " Round 4: primitiveUnits=objectBoundingBox parameter scaling (stdDeviation, dx/dy, radius, displacement scale) equals the mapped user-space primitive for every box and attribute value, filter and mask conversion with their keyed caches modelled in source order: for any user sequence each user gets the definition resolved for its own box and equal ids mean equal definitions. After fixes 4d36085/e3b9753 the parameter equivalence holds for ALL radius values (absent, negative, zero, one-zero, positive) without guard.",
 'C19': " Round 4: lookup by id over the forest with clip/mask/pattern sub-trees equals lookup on the renderable tree (an id that exists only inside a sub-tree is never found).",
 'C20': " Round 4: fit_to_size never yields a zero or overflowing side for any FitTo; on every render_svg path the pixmap dimensions are valid; exit 0 with an image implies it was written with valid dimensions; the control skeleton of render_svg (four branches, their fallible steps and messages), the --export-area-page offset expression and main's exit status are generated from main.rs and the hand model is proved equal to the generated interpreter, so these theorems follow edits of main.rs; page offset = scaled origin truncated toward zero, within one pixel, for every fractional origin and zoom.",
}


def main():
    mp = os.path.join(VERIF, 'MANIFEST.json')
    m = json.load(open(mp))
    have = {c['property_id']: c for c in m['checks']}
    for pid in sys.argv[1:]:
        t = T[pid]
        have[pid] = {
            "property_id": pid,
            "quick_cmd": "./check %s --tier quick" % pid,
            "thorough_cmd": "./check %s --tier thorough" % pid,
            "evidence_file": "evidence/%s.json" % pid,
            "replay_cmd_template": "./check %s --replay {path}" % pid,
            "engine": "coq",
            "level_claimed": {"category": "proof", "text": t['text'] + EXT.get(pid, ''), "design_ref": "DESIGN.md section 4 %s and 0.1" % pid},
            "level_note": COMMON_NOTE + t['note'],
            "technique": t['tech'],
        }
    m['checks'] = [have[k] for k in sorted(have)]
    ids = sorted(have)
    for e in m.get('engines', []):
        e['serves_properties'] = ids
    allp = [json.loads(l)['id'] for l in open(os.path.join(VERIF, 'properties.jsonl'))]
    m['not_applicable'] = [dict(property_id=p, reason="check still being built in this round (not yet registered); the technique applies")
                           for p in allp if p not in have]
    json.dump(m, open(mp, 'w'), indent=1)
    print("registered:", ids)


if __name__ == '__main__':
    main()
