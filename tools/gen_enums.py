"""Gen/EnumTables.v: both directions of every enum <-> string table that the usvg writer emits (source-derived).

parser side   `impl FromValue for E { match value { "a" | "b" => Some(E::V), .., _ => None } }`
              (svgtree/mod.rs, style.rs, converter.rs, text.rs, filter.rs) and the inline tables of parser/filter.rs,
              text.rs (`match fe.attribute(AId::X).unwrap_or("d") { "a" => E::V, .., _ => E::D }`), mask.rs
writer side   every `match x { E::V => "a", E::W => {}, E::X => xml.write_svg_attribute(AId::Y, "b"), .. }` of writer.rs
              (an arm that writes nothing = the value is elided) and the `if x == E::V { write "a" }` forms
defaults      `impl Default for E` / `#[default]` in tree/*.rs (what the parser produces when the attribute is absent);
              for an inline parser table the `_ =>` arm
constructors  `pub enum E { .. }` in tree/*.rs

Per enum E the file defines the inductive type, `parse_E : string -> option E`, `write_E : E -> option string`
(None = nothing written), `default_E`, `all_E`; `enum_checks` lists one boolean per enum.  Also written:
coq/Gen/EnumTables.json for the enum-rt correspondence op."""
import json
import os
import re

PROPS = ['C08']
TREE_FILES = ['crates/usvg/src/tree/mod.rs', 'crates/usvg/src/tree/geom.rs', 'crates/usvg/src/tree/text.rs', 'crates/usvg/src/tree/filter.rs']
PARSER_FILES = ['crates/usvg/src/parser/svgtree/mod.rs', 'crates/usvg/src/parser/style.rs',
                'crates/usvg/src/parser/converter.rs', 'crates/usvg/src/parser/text.rs', 'crates/usvg/src/parser/filter.rs']
WRITER = 'crates/usvg/src/writer.rs'
# the enums the writer emits and the parser reads back through a string table; the check fails when one of them
# can no longer be extracted
REQUIRED = ['LineCap', 'LineJoin', 'FillRule', 'SpreadMethod', 'Units', 'BlendMode', 'ShapeRendering', 'TextRendering',
            'ImageRendering', 'TextAnchor', 'FontStyle', 'DominantBaseline', 'AlignmentBaseline', 'LengthAdjust',
            'ColorInterpolation', 'CompositeOperator', 'EdgeMode', 'ColorChannel', 'MorphologyOperator', 'TurbulenceKind',
            'MaskType', 'WritingMode']


def block_at(src, i):
    """src[i] == '{' -> index just after the matching '}' (strings and comments are skipped)"""
    depth = 0
    j = i
    n = len(src)
    while j < n:
        c = src[j]
        if c == '"':
            j += 1
            while j < n and src[j] != '"':
                j += 2 if src[j] == '\\' else 1
        elif c == '/' and src[j:j + 2] == '//':
            while j < n and src[j] != '\n':
                j += 1
        elif c == '{':
            depth += 1
        elif c == '}':
            depth -= 1
            if depth == 0:
                return j + 1
        j += 1
    raise ValueError("unbalanced braces")


def split_arms(body):
    """arms of a match body (text between the outer braces) -> list of (pattern, rhs)"""
    arms = []
    i = 0
    n = len(body)
    while i < n:
        m = re.compile(r"\s*(//[^\n]*\n\s*)*").match(body, i)
        i = m.end()
        if i >= n:
            break
        k = body.find('=>', i)
        if k < 0:
            break
        pat = body[i:k].strip()
        j = k + 2
        while j < n and body[j] in ' \n\t':
            j += 1
        if j < n and body[j] == '{':
            e = block_at(body, j)
            rhs = body[j:e]
            j = e
            if j < n and body[j] == ',':
                j += 1
        else:
            depth = 0
            s = j
            while j < n:
                c = body[j]
                if c == '"':
                    j += 1
                    while j < n and body[j] != '"':
                        j += 2 if body[j] == '\\' else 1
                elif c in '({[':
                    depth += 1
                elif c in ')}]':
                    depth -= 1
                elif c == ',' and depth == 0:
                    break
                j += 1
            rhs = body[s:j]
            j += 1
        arms.append((pat, rhs.strip()))
        i = j
    return arms


def strip_comments(s):
    return re.sub(r"//[^\n]*", "", s)


def enum_defs(api):
    """enum name -> list of variants, and name -> default variant"""
    variants, defaults = {}, {}
    for rel in TREE_FILES:
        src = api.rd(rel)
        for m in re.finditer(r"pub(?:\(crate\))? enum (\w+)\s*\{", src):
            e = block_at(src, m.end() - 1)
            body = strip_comments(src[m.end():e - 1])
            vs = []
            dflt = None
            depth = 0
            pending_default = False
            for tok in re.finditer(r"#\[default\]|#\[[^\]]*\]|\{|\}|\(|\)|(\w+)", body):
                t = tok.group(0)
                if t == '#[default]':
                    pending_default = True
                elif t in '{(':
                    depth += 1
                elif t in '})':
                    depth -= 1
                elif tok.group(1) and depth == 0 and re.fullmatch(r"[A-Z]\w*", t):
                    vs.append(t)
                    if pending_default:
                        dflt = t
                        pending_default = False
            variants[m.group(1)] = vs
            if dflt:
                defaults[m.group(1)] = dflt
        for m in re.finditer(r"impl Default for (\w+)\s*\{\s*(?:#\[inline\]\s*)?fn default\(\)\s*->\s*\w+\s*\{\s*(?:Self|\w+)::(\w+)\s*\}", src):
            defaults[m.group(1)] = m.group(2)
    return variants, defaults


def parser_tables(api):
    """enum -> dict(strings={str: variant}, fallback=variant or None, site=..)"""
    out = {}
    for rel in PARSER_FILES:
        src = api.rd(rel)
        for m in re.finditer(r"impl<'a, 'input: 'a> FromValue<'a, 'input> for ([\w:]+)\s*\{", src):
            name = m.group(1).split('::')[-1]
            e = block_at(src, m.end() - 1)
            blk = src[m.end():e]
            mm = re.search(r"match value\s*\{", blk)
            if not mm:
                continue
            be = block_at(blk, mm.end() - 1)
            arms = split_arms(blk[mm.end():be - 1])
            strings = {}
            ok = True
            for pat, rhs in arms:
                if pat == '_':
                    if rhs != 'None':
                        ok = False
                    continue
                lits = re.findall(r'"([^"]*)"', pat)
                mv = re.fullmatch(r"Some\((?:[\w:]+::)?(\w+)\)", rhs)
                if not lits or not mv or re.sub(r'"[^"]*"|\||\s', '', pat):
                    ok = False
                    break
                for l in lits:
                    strings[l] = mv.group(1)
            if ok and strings:
                out[name] = dict(strings=strings, fallback=None, site='%s: impl FromValue for %s' % (rel, name))
        # inline total tables: match <x>.attribute(AId::N).unwrap_or("d") { "a" => E::V, .., _ => E::D }
        for mm in re.finditer(r"match\s+\w+\.attribute\((?:AId::)?(\w+)\)\.unwrap_or\(\"([^\"]*)\"\)\s*\{", src):
            be = block_at(src, mm.end() - 1)
            arms = split_arms(src[mm.end():be - 1])
            strings, fallback, name, ok = {}, None, None, True
            for pat, rhs in arms:
                mv = re.match(r"(?:[\w]+::)*?(\w+)::(\w+)\b", rhs)
                if not mv:
                    ok = False
                    break
                name = name or mv.group(1)
                if mv.group(1) != name:
                    ok = False
                    break
                if pat == '_':
                    fallback = mv.group(2)
                    continue
                lits = re.findall(r'"([^"]*)"', pat)
                if not lits or re.sub(r'"[^"]*"|\||\s', '', pat):
                    ok = False
                    break
                for l in lits:
                    strings[l] = mv.group(2)
            if ok and name and fallback and name not in out:
                out[name] = dict(strings=strings, fallback=fallback, absent=mm.group(2),
                                 site='%s: match attribute(%s).unwrap_or("%s")' % (rel, mm.group(1), mm.group(2)))
    # mask-type
    src = api.rd('crates/usvg/src/parser/mask.rs')
    m = re.search(r"if node\.attribute\(AId::MaskType\) == Some\(\"(\w+)\"\)\s*\{\s*MaskType::(\w+)\s*\}\s*else\s*\{\s*MaskType::(\w+)\s*\}", src)
    if m:
        out['MaskType'] = dict(strings={m.group(1): m.group(2)}, fallback=m.group(3), absent='',
                               site='crates/usvg/src/parser/mask.rs: mask-type')
    return out


def writer_tables(api):
    """enum -> list of dict(values={variant: str or None}, site=..) (one entry per site)"""
    src = api.rd(WRITER)
    out = {}
    for m in re.finditer(r"match\s+([\w\.\*&\(\)]+)\s*\{", src):
        be = block_at(src, m.end() - 1)
        arms = split_arms(src[m.end():be - 1])
        vals, name, ok = {}, None, bool(arms)
        for pat, rhs in arms:
            pats = [p.strip() for p in pat.split('|')]
            for p in pats:
                mp = re.fullmatch(r"(?:\w+::)*?(\w+)::(\w+)(?:\s*\{\s*\.\.\s*\})?", p)
                if not mp:
                    ok = False
                    break
                name = name or mp.group(1)
                if mp.group(1) != name:
                    ok = False
                    break
                body = rhs
                lits = re.findall(r'"([^"]*)"', body)
                if body in ('{}', 'unreachable!()') or re.fullmatch(r"\{\s*\}", body):
                    v = None
                elif len(lits) == 1:
                    v = lits[0]
                    if 'AId::Style' in body and ':' in v:
                        v = v.split(':', 1)[1]          # written as style="name:value"
                else:
                    ok = False
                    break
                vals[mp.group(2)] = v
            if not ok:
                break
        if ok and name:
            line = src.count('\n', 0, m.start()) + 1
            out.setdefault(name, []).append(dict(values=vals, site='%s:%d match %s' % (WRITER, line, m.group(1))))
    # `if x == E::V { xml.write_svg_attribute(AId::A, "lit") }`
    for m in re.finditer(r"if\s+[\w\.]+\s*==\s*(?:\w+::)*?(\w+)::(\w+)\s*\{\s*xml\.write_svg_attribute\(AId::\w+,\s*\"([^\"]*)\"\);?\s*\}", src):
        line = src.count('\n', 0, m.start()) + 1
        out.setdefault(m.group(1), []).append(dict(values={m.group(2): m.group(3)}, partial=True,
                                                   site='%s:%d if == %s::%s' % (WRITER, line, m.group(1), m.group(2))))
    # fill-rule: `if !fill.rule.is_default() { .. "evenodd" }`
    m = re.search(r"if\s+!fill\.rule\.is_default\(\)\s*\{(.*?)\n        \}", src, re.S)
    if m:
        lits = [l for l in re.findall(r'"([^"]*)"', m.group(1))]
        if len(lits) == 1:
            out.setdefault('FillRule', []).append(dict(values={'*non-default*': lits[0]}, partial=True,
                                                       site='%s: if !fill.rule.is_default()' % WRITER))
    return out


def ident(s):
    return re.sub(r"\W", "_", s)


def generate(api):
    try:
        variants, defaults = enum_defs(api)
        ptab = parser_tables(api)
        wtab = writer_tables(api)
        names = [n for n in sorted(set(ptab) & set(wtab)) if n in variants]
        missing = [n for n in REQUIRED if n not in names]
        if missing:
            raise api.Unsupported("enum tables not found on both sides for: %s (parser: %s, writer: %s)"
                                  % (missing, sorted(ptab), sorted(wtab)))
        out = [api.HEADER, "From Coq Require Import String List Bool.\nImport ListNotations.\nLocal Open Scope string_scope.\n"]
        summary = {}
        checks = []
        for n in names:
            vs = variants[n]
            pt = ptab[n]
            dflt = pt['fallback'] if pt['fallback'] else defaults.get(n)
            no_default = dflt is None
            # merge writer sites: full tables must agree with each other; partial (`if ==`) sites add single values
            values = {}
            sites = []
            for w in wtab[n]:
                sites.append(w['site'])
                for v, s in w['values'].items():
                    if v == '*non-default*':
                        others = [x for x in vs if x != dflt]
                        if len(others) != 1:
                            raise api.Unsupported("%s: is_default() form needs a two-valued enum" % n)
                        v = others[0]
                    if v in values and values[v] != s and not (w.get('partial') and s is not None):
                        if values[v] is None or s is None:
                            values[v] = values[v] or s        # elided at one site (guarded), written at another
                        else:
                            values.setdefault('__alt__' + v, s)
                    elif v not in values or values[v] is None:
                        values[v] = s
            alts = {k[7:]: s for k, s in values.items() if k.startswith('__alt__')}
            for v in vs:
                values.setdefault(v, None)
            if no_default:
                if any(values[v] is None for v in vs):
                    raise api.Unsupported("enum %s: a value is elided by the writer but no parser default was found" % n)
                dflt = vs[0]        # never used: every constructor is written
            unknown = [v for v in values if v not in vs and not v.startswith('__alt__')]
            if unknown:
                raise api.Unsupported("%s: writer mentions unknown variants %s" % (n, unknown))
            cn = lambda v: "%s_%s" % (n, v)
            out.append("(* ---- %s\n   parser: %s\n   writer: %s *)" % (n, pt['site'], '; '.join(sites)))
            out.append("Inductive E_%s := %s." % (n, " | ".join(cn(v) for v in vs)))
            out.append("Definition all_%s : list E_%s := [%s]." % (n, n, "; ".join(cn(v) for v in vs)))
            arms = "".join('  if s =? "%s" then Some %s else\n' % (s, cn(v)) for s, v in pt['strings'].items() if v in vs)
            fb = "Some %s" % cn(pt['fallback']) if pt['fallback'] else "None"
            out.append("Definition parse_%s (s : string) : option E_%s :=\n%s  %s." % (n, n, arms, fb))
            out.append("Definition write_%s (v : E_%s) : option string :=\n  match v with\n%s  end." % (
                n, n, "".join('  | %s => %s\n' % (cn(v), 'None' if values[v] is None else 'Some "%s"' % values[v]) for v in vs)))
            if alts:
                out.append("(* a second spelling written at another site *)\nDefinition write_alt_%s (v : E_%s) : option string :=\n  match v with\n%s  end." % (
                    n, n, "".join('  | %s => %s\n' % (cn(v), 'Some "%s"' % alts[v] if v in alts else 'None') for v in vs)))
            out.append("Definition default_%s : E_%s := %s." % (n, n, cn(dflt)))
            out.append("Definition eqb_%s (a b : E_%s) : bool :=\n  match a, b with\n%s  | _, _ => false\n  end." % (
                n, n, "".join("  | %s, %s => true\n" % (cn(v), cn(v)) for v in vs)))
            alt_chk = ""
            if alts:
                alt_chk = (" &&\n    match write_alt_%s v with Some s => match parse_%s s with Some w => eqb_%s w v | None => false end | None => true end"
                           % (n, n, n))
            out.append("(* written value parses back to the constructor; an elided constructor is the parser's default *)\n"
                       "Definition check_%s : bool :=\n  forallb (fun v =>\n    match write_%s v with\n"
                       "    | Some s => match parse_%s s with Some w => eqb_%s w v | None => false end\n"
                       "    | None => eqb_%s default_%s v\n    end%s) all_%s.\n" % (n, n, n, n, n, n, alt_chk, n))
            checks.append("check_%s" % n)
            summary[n] = dict(variants=vs, parse=pt['strings'], fallback=pt['fallback'], write=values, default=dflt, alts=alts)
        out.append("Definition enum_checks : list bool := [%s]." % "; ".join(checks))
        out.append("Definition enum_names : list string := [%s].\n" % "; ".join('"%s"' % n for n in names))
        api.write_gen('EnumTables.v', "\n".join(out))
        gen_dir = os.environ.get('VERIF_GEN') or os.path.join(os.path.dirname(os.path.dirname(os.path.abspath(__file__))), 'coq', 'Gen')
        with open(os.path.join(gen_dir, 'EnumTables.json'), 'w') as f:
            json.dump(summary, f, indent=1, sort_keys=True)
        api.ok('tables', 'enums', enums=len(names))
    except (api.Unsupported, OSError, ValueError, IndexError, KeyError) as e:
        api.broken('table', 'writer/parser enum tables', PROPS, e)
