"""Shared pieces of the render-geometry checks C14 / C13 / C02: document generator, layer-trace
correspondence (implementation trace vs. the source-derived Coq model), model-level search."""
import json
import math

import vlib
from vlib import qstr

NS = 'xmlns="http://www.w3.org/2000/svg" xmlns:xlink="http://www.w3.org/1999/xlink"'
COQ_IMPORTS = ['Model.Base', 'Model.RenderPrims', 'Model.Corr', 'Gen.LeafFit', 'Gen.LeafRender', 'Model.Render']


def fnum(x):
    return repr(round(float(x), 4))


# ------------------------------------------------------------------------------------------------
# generated documents: nested groups of simple shapes, partly / wholly outside the canvas, huge groups
# ------------------------------------------------------------------------------------------------
COLORS = ['#d22', '#2a2', '#22d', '#e90', '#0aa', '#a0a', '#111', '#fc0']


def gen_shape(rng, W, H, spread):
    """one shape whose centre lies in [-spread*W, (1+spread)*W]"""
    cx = rng.uniform(-spread * W, (1 + spread) * W)
    cy = rng.uniform(-spread * H, (1 + spread) * H)
    size = rng.choice([0.08, 0.2, 0.5, 1.0, 3.0]) * max(W, H) * rng.uniform(0.5, 1.5)
    if rng.below(4) == 0:   # pixel aligned
        cx, cy, size = round(cx), round(cy), max(1, round(size))
    col = rng.choice(COLORS)
    style = 'fill="%s"' % col
    r = rng.below(10)
    if r < 3:
        style += ' fill-opacity="%s"' % rng.choice(['0.5', '0.25', '0.8'])
    if r in (3, 4, 5):
        style += ' stroke="%s" stroke-width="%s"' % (rng.choice(COLORS), fnum(rng.choice([0.5, 1, 2.5, 6, 15])))
        if r == 5:
            style += ' stroke-opacity="0.5" stroke-linejoin="%s"' % rng.choice(['miter', 'round', 'bevel'])
    k = rng.below(5)
    if k == 0:
        return '<rect x="%s" y="%s" width="%s" height="%s" %s/>' % (fnum(cx - size / 2), fnum(cy - size / 3), fnum(size), fnum(size * 2 / 3), style)
    if k == 1:
        return '<circle cx="%s" cy="%s" r="%s" %s/>' % (fnum(cx), fnum(cy), fnum(size / 2), style)
    if k == 2:
        return '<ellipse cx="%s" cy="%s" rx="%s" ry="%s" %s/>' % (fnum(cx), fnum(cy), fnum(size / 2), fnum(size / 5), style)
    if k == 3:
        pts = ' '.join('%s,%s' % (fnum(cx + size / 2 * math.cos(a)), fnum(cy + size / 2 * math.sin(a)))
                       for a in [rng.uniform(0, 6.28) for _ in range(3 + rng.below(4))])
        return '<polygon points="%s" %s/>' % (pts, style)
    # thin stroked curves much larger than the canvas are rasterised unstably by tiny-skia (flattening depends on
    # the clip): keep them canvas-sized
    size = min(size, 0.6 * max(W, H))
    return ('<path d="M %s %s Q %s %s %s %s T %s %s" fill="none" stroke="%s" stroke-width="%s" stroke-linecap="%s"/>'
            % (fnum(cx - size / 2), fnum(cy), fnum(cx), fnum(cy - size), fnum(cx + size / 2), fnum(cy), fnum(cx + size), fnum(cy),
               rng.choice(COLORS), fnum(rng.choice([1, 3, 8])), rng.choice(['butt', 'round', 'square'])))


def gen_transform(rng, W, H):
    r = rng.below(8)
    if r == 0:
        return 'translate(%s %s)' % (fnum(rng.uniform(-W, W)), fnum(rng.uniform(-H, H)))
    if r == 1:
        return 'scale(%s)' % fnum(rng.choice([0.3, 0.5, 2, 4, 11]))
    if r == 2:
        return 'rotate(%s %s %s)' % (fnum(rng.uniform(-180, 180)), fnum(W / 2), fnum(H / 2))
    if r == 3:
        return 'skewX(%s)' % fnum(rng.uniform(-50, 50))
    if r == 4:
        return 'matrix(%s %s %s %s %s %s)' % tuple(fnum(v) for v in (rng.uniform(0.5, 2), rng.uniform(-0.7, 0.7), rng.uniform(-0.7, 0.7),
                                                                      rng.uniform(0.5, 2), rng.uniform(-W / 2, W / 2), rng.uniform(-H / 2, H / 2)))
    return None


def gen_group(rng, W, H, depth, spread, attrs=None):
    n = 1 + rng.below(4)
    parts = []
    for _ in range(n):
        if depth > 0 and rng.below(3) == 0:
            parts.append(gen_group(rng, W, H, depth - 1, spread))
        else:
            parts.append(gen_shape(rng, W, H, spread))
    a = ''
    t = gen_transform(rng, W, H)
    if t:
        a += ' transform="%s"' % t
    if attrs:
        a += ' ' + attrs
    return '<g%s>%s</g>' % (a, ''.join(parts))


def gen_doc(rng, group_attrs=None, spread=None):
    W = rng.choice([24, 40, 64, 100, 150, 200])
    H = rng.choice([24, 40, 64, 100, 150, 200])
    if spread is None:
        spread = rng.choice([0.0, 0.3, 1.0, 6.0])
    body = ''.join(gen_group(rng, W, H, 3, spread, group_attrs if i == 0 else None) for i in range(1 + rng.below(3)))
    return '<svg %s width="%d" height="%d">%s</svg>' % (NS, W, H, body), W, H


def gen_opacity_doc(rng):
    """isolated groups by themselves: nested opacities, clip paths, masks - for the trace correspondence"""
    a = rng.choice(['opacity="0.5"', 'opacity="0.3"', 'style="isolation:isolate"', 'opacity="0.9" style="isolation:isolate"'])
    return gen_doc(rng, a)


def gen_filter_doc(rng):
    """a group with a filter (blur / offset / flood+composite) whose region may exceed the clamp box"""
    W = rng.choice([24, 40, 64, 100])
    H = rng.choice([24, 40, 64, 100])
    units = rng.choice(['userSpaceOnUse', 'objectBoundingBox'])
    if units == 'userSpaceOnUse':
        reg = 'x="%s" y="%s" width="%s" height="%s"' % (fnum(rng.uniform(-3 * W, W / 2)), fnum(rng.uniform(-3 * H, H / 2)),
                                                       fnum(rng.uniform(W / 4, 8 * W)), fnum(rng.uniform(H / 4, 8 * H)))
    else:
        reg = rng.choice(['', 'x="-0.5" y="-0.5" width="2" height="2"', 'x="0.1" y="0.1" width="0.5" height="0.7"'])
    prim = rng.choice(['<feGaussianBlur stdDeviation="1.5"/>', '<feOffset dx="3" dy="-2"/>',
                       '<feFlood flood-color="green" flood-opacity="0.5"/>',
                       '<feColorMatrix type="saturate" values="0.3"/>'])
    body = gen_group(rng, W, H, 1, rng.choice([0.0, 0.5, 2.0]), 'filter="url(#f)"')
    return ('<svg %s width="%d" height="%d"><filter id="f" filterUnits="%s" %s>%s</filter>%s</svg>' % (NS, W, H, units, reg, prim, body)), W, H


# ------------------------------------------------------------------------------------------------
# layer-trace correspondence
# ------------------------------------------------------------------------------------------------
def ts_str(t):
    return ','.join(repr(float(v)) for v in t)


def rot(deg, cx=0.0, cy=0.0):
    a = math.radians(deg)
    c, s = math.cos(a), math.sin(a)
    return (c, s, -s, c, cx - c * cx + s * cy, cy - s * cx - c * cy)


TRACE_VIEWS = [
    # (W, H, root transform)
    (200, 200, (1, 0, 0, 1, 0, 0)),
    (64, 64, (1, 0, 0, 1, 0.37, -13.61)),
    (3, 3, (1, 0, 0, 1, 0, 0)),
    (1, 1, (0.01, 0, 0, 0.01, 0, 0)),
    (100, 40, (3, 0, 0, 3, -77.25, 5.5)),
    (64, 64, (17, 0, 0, 17, -500, -300)),
    (120, 120, rot(30, 60, 60)),
    (90, 130, (1, 0.4, -0.3, 1.2, 10, -20)),
    (50, 50, (1, 1, 1, 1.0001, 0, 0)),
    (512, 512, (2.5, 0, 0, 2.5, 0.5, 0.5)),
    (1, 200, (1, 0, 0, 1, -50, 0)),
]


def ev_to_coq(e):
    """a recorded layer event -> Coq record literal, or None if it has non-finite numbers"""
    b, i, m, sh = e['bbox'], e['ibbox'], e['max'], e['shift']
    if any(isinstance(v, str) for v in b + sh):
        return None
    return ("{| ev_bbox := mk_qrect %s %s %s %s; ev_nf := %s; ev_max := mk_irect (%d) (%d) (%d) (%d); "
            "ev_ibbox := mk_irect (%d) (%d) (%d) (%d); ev_tx := %s; ev_ty := %s |}"
            % (qstr(b[0]), qstr(b[1]), qstr(b[2]), qstr(b[3]), 'true' if e['filters'] == 0 else 'false',
               m[0], m[1], m[2], m[3], i[0], i[1], i[2], i[3], qstr(sh[4]), qstr(sh[5])))


def layer_trace_correspondence(ctx, binp, jobs, label='layer-trace'):
    """jobs: list of (doc, W, H, ts) with doc an `@path` or SVG text.  Runs the implementation with the
    trace hook, feeds every distinct recorded (bbox, filters, max) to the source-derived model inside Coq and
    requires the recorded ibbox (exactly) and shift (2^-21 relative) to be reproduced.
    Returns dict(events=, distinct=, clamped=, filtered=, bad=[(job, event)], model_ok=bool)."""
    items = ["-\t%s\t%s\t%d\t%d" % (d.replace('\n', ' ').replace('\t', ' '), ts_str(t), W, H) for d, W, H, t in jobs]
    outs = ctx.rvh_batch(binp, 'layer-trace', items, per_item_timeout=15)
    seen = {}
    n_ev = 0
    panics = []
    for j, o in enumerate(outs):
        try:
            r = json.loads(o)
        except (TypeError, ValueError):
            continue
        if 'events' not in r:
            if 'panic' in r or 'crash' in r:
                panics.append((jobs[j], r))
            continue
        for e in r['events']:
            if e.get('ev') != 'layer':
                continue
            n_ev += 1
            key = json.dumps([e['bbox'], e['filters'] == 0, e['max'], e['ibbox'], e['shift'][4:]])
            if key not in seen:
                seen[key] = (j, e)
    evs = list(seen.values())
    coq = []
    keep = []
    for j, e in evs:
        c = ev_to_coq(e)
        if c is not None:
            coq.append(c)
            keep.append((j, e))
    res = dict(events=n_ev, distinct=len(keep), bad=[], model_ok=True, panics=panics,
               clamped=sum(1 for _, e in keep if not (e['max'][0] < e['ibbox'][0] and e['max'][1] < e['ibbox'][1]
                                                      and e['ibbox'][0] + e['ibbox'][2] < e['max'][0] + e['max'][2]
                                                      and e['ibbox'][1] + e['ibbox'][3] < e['max'][1] + e['max'][3])),
               filtered=sum(1 for _, e in keep if e['filters'] > 0))
    CH = 4000
    for c0 in range(0, len(coq), CH):
        chunk = coq[c0:c0 + CH]
        body = ("Definition cases : list layer_ev := [\n%s\n].\n"
                "Eval vm_compute in (bad_indices chk_layer_ev cases).\n" % ";\n".join(chunk))
        rc, out = ctx.coq_eval('k_%s_%d' % (label.replace('-', '_'), c0), body, COQ_IMPORTS, timeout=900)
        badl = ctx.parse_N_list(out) if rc == 0 else None
        if badl is None:
            res['model_ok'] = False
            res['log'] = out[-1500:]
            break
        for b in badl:
            j, e = keep[c0 + b]
            res['bad'].append((jobs[j], e))
    for _, e in keep:
        ctx.note_case("layer/" + json.dumps([e['bbox'], e['filters'] > 0, e['max']]))
    return res


def report_trace(ctx, res, what):
    if not res['model_ok']:
        ctx.violation("%s: the model could not be evaluated on the recorded layer events (source-derived definitions no longer "
                      "fit the checker)" % what, dict(log=res.get('log', '')), found_input=False)
        return
    for (doc, W, H, t), e in res['bad'][:3]:
        ctx.violation("%s: render_group computed a layer box / shift that the source-derived model does not reproduce "
                      "(bbox=%s filters=%d max=%s -> ibbox=%s shift=%s)" % (what, e['bbox'], e['filters'], e['max'], e['ibbox'], e['shift'][4:]),
                      dict(op='layer-trace', doc=doc, canvas=[W, H], root_transform=list(t), event=e,
                           replay="rvh layer-trace with payload '-\\t<doc>\\t<ts>\\t<W>\\t<H>'; compare with Model.Render.layer_box"))


def trace_jobs_corpus(ctx, files, per_file_views):
    jobs = []
    for f in files:
        heavy = 'feMorphology' in f or 'feTurbulence' in f or 'feConvolveMatrix' in f
        views = ctx.rng.sample(TRACE_VIEWS, per_file_views)
        for (W, H, t) in views:
            if heavy and (W * H > 100 * 100 or abs(t[0]) > 2):
                continue
            jobs.append(('@' + f, W, H, t))
    return jobs


def trace_jobs_generated(ctx, n):
    jobs = []
    for k in range(n):
        g = [gen_opacity_doc, gen_filter_doc, gen_opacity_doc][k % 3]
        doc, W, H = g(ctx.rng)
        v = ctx.rng.below(4)
        if v == 0:
            t = (1, 0, 0, 1, 0, 0)
        elif v == 1:
            t = (1, 0, 0, 1, ctx.rng.uniform(-40, 40), ctx.rng.uniform(-40, 40))
        elif v == 2:
            s = ctx.rng.choice([0.5, 3, 20, 0.01])
            t = (s, 0, 0, s, ctx.rng.uniform(-W, W), ctx.rng.uniform(-H, H))
        else:
            t = rot(ctx.rng.uniform(-90, 90), W / 2, H / 2)
        jobs.append((doc, W, H, t))
    return jobs


# ------------------------------------------------------------------------------------------------
# model-level search (used when a proof no longer checks)
# ------------------------------------------------------------------------------------------------
def model_search_geometry(ctx, n=400):
    """Evaluate the boolean forms of the geometry theorems on structured inputs.  Returns a list of
    (checker, description-of-input) for failing cases, or None if the model cannot be evaluated."""
    rng = ctx.rng
    cases = []
    descr = []
    for _ in range(n):
        W = rng.choice([1, 3, 40, 100, 512])
        H = rng.choice([1, 3, 40, 100, 512])
        den = rng.choice([1, 2, 8, 1000])
        x = int(rng.uniform(-7 * W, 7 * W) * den)
        y = int(rng.uniform(-7 * H, 7 * H) * den)
        w = max(1, int(rng.uniform(0, 12 * W) * den))
        h = max(1, int(rng.uniform(0, 12 * H) * den))
        nf = rng.below(3) != 0
        dx, dy = rng.below(81) - 40, rng.below(81) - 40
        px, py = rng.below(W), rng.below(H)
        b = "(mk_qrect (%d # %d) (%d # %d) (%d # %d) (%d # %d))" % (x, den, y, den, w, den, h, den)
        cases.append("(%s, %s, ((%d)%%Z, (%d)%%Z), ((%d)%%Z, (%d)%%Z), ((%d)%%Z, (%d)%%Z))" % (b, 'true' if nf else 'false', W, H, dx, dy, px, py))
        descr.append(dict(bbox=[x / den, y / den, w / den, h / den], no_filters=nf, canvas=[W, H], shift=[dx, dy], pixel=[px, py]))
    body = ("Local Open Scope Z_scope.\n"
            "Definition cases : list (qrect * bool * (Z * Z) * (Z * Z) * (Z * Z)) := [\n%s\n].\n"
            "Definition f1 (c : qrect * bool * (Z * Z) * (Z * Z) * (Z * Z)) : bool :=\n"
            "  let '(b, nf, (W, H), (dx, dy), (px, py)) := c in\n"
            "  match max_bbox W H with Some m => chk_within_max b nf m | None => false end.\n"
            "Definition f2 (c : qrect * bool * (Z * Z) * (Z * Z) * (Z * Z)) : bool :=\n"
            "  let '(b, nf, (W, H), (dx, dy), (px, py)) := c in chk_covers b true W H px py.\n"
            "Definition f3 (c : qrect * bool * (Z * Z) * (Z * Z) * (Z * Z)) : bool :=\n"
            "  let '(b, nf, (W, H), (dx, dy), (px, py)) := c in chk_equivariant b nf W H dx dy px py.\n"
            "Definition f4 (c : qrect * bool * (Z * Z) * (Z * Z) * (Z * Z)) : bool :=\n"
            "  let '(b, nf, (W, H), (dx, dy), (px, py)) := c in\n"
            "  match max_bbox W H with\n"
            "  | Some m => match layer_box b nf m with\n"
            "              | LBox i => chk_offset b i (from_row (3#2) (1#4) (-(1#3)) (2#1) (7#3) (-(5#7))) (inject_Z px) (inject_Z py)\n"
            "              | _ => true end\n"
            "  | None => false end.\n"
            "Eval vm_compute in (bad_indices f1 cases).\nEval vm_compute in (bad_indices f2 cases).\n"
            "Eval vm_compute in (bad_indices f3 cases).\nEval vm_compute in (bad_indices f4 cases).\n" % ";\n".join(cases))
    rc, out = ctx.coq_eval('search_geometry', body, COQ_IMPORTS, timeout=600)
    if rc != 0:
        return None
    import re
    lists = re.findall(r"=\s*\[(.*?)\]\s*:\s*list", out, re.S)
    if len(lists) != 4:
        return None
    found = []
    for name, body_ in zip(['layer_within_max', 'layer_covers_content', 'layers_agree_on_canvas', 'offset_consistent'], lists):
        body_ = body_.strip()
        if body_:
            idx = [int(re.sub(r"%\w+", "", x).strip().strip('()')) for x in body_.split(';')]
            found.append((name, descr[idx[0]], len(idx)))
    return found


def doc_for_bbox(d):
    """a document whose translucent group has (about) the device box of a model counterexample"""
    x, y, w, h = d['bbox']
    W, H = d['canvas']
    return ('<svg %s width="%d" height="%d"><g opacity="0.5"><rect x="%s" y="%s" width="%s" height="%s" fill="#22d" stroke="#d22" stroke-width="1"/></g></svg>'
            % (NS, W, H, fnum(x + 0.5), fnum(y + 0.5), fnum(max(0.01, w - 1)), fnum(max(0.01, h - 1))))


# ------------------------------------------------------------------------------------------------
# strengthening (seeded changes C13-3, C13-4, C14-1, C14-2): content whose visibility / extent is decided by
# something other than the fill box - strokes, images, filter regions - on non-square canvases
# ------------------------------------------------------------------------------------------------
PNG16 = ("data:image/png;base64,iVBORw0KGgoAAAANSUhEUgAAABAAAAAQAQMAAAAlPW0iAAAAB3RJTUUH4gMLDwAjrsLbtwAAAAlwSFlzAAAuIwAALiMBeKU/dgAAABl0RVh0"
         "Q29tbWVudABDcmVhdGVkIHdpdGggR0lNUFeBDhcAAAAGUExURQAA/xjQP14JpdQAAAABYktHRACIBR1IAAAAFklEQVR42mMAgvp/IJTAhgdB1ADVAgDvdAnxN1Ib1gAAAABJRU5ErkJggg==")
SVGIMG = "data:image/svg+xml;utf8,%3Csvg xmlns='http://www.w3.org/2000/svg' width='20' height='20'%3E%3Ccircle cx='10' cy='10' r='9' fill='%23c3c'/%3E%3C/svg%3E"
CAPS = ['butt', 'round', 'square']
JOINS = ['miter', 'round', 'bevel']


def gen_edge_case(rng):
    """(document, view, dx, dy) for the shift oracle: stroke-only shapes and images drawn directly on a portrait /
    landscape canvas, placed so that the whole-pixel shift moves the geometry across a canvas edge by less than
    the stroke width (the stroke must stay visible) or moves an image through every part of the canvas."""
    W, H = rng.choice([(40, 120), (120, 40), (30, 150), (150, 30), (60, 90), (90, 60), (64, 64)])
    sw = rng.choice([6, 10, 16, 24])
    dx, dy = 0, 0
    kind = rng.below(11)
    if kind == 10:
        # a pattern whose content needs a mask / clip / filter / opacity layer, used by a shape inside an isolated group near a
        # canvas corner, the tile larger than what is left of the canvas (seeded change C13-12)
        W = H = 200
        T = rng.choice([60, 100, 140])
        eff = rng.choice(['mask="url(#m)"', 'clip-path="url(#c)"', 'filter="url(#f)"', 'opacity="0.6"', 'mask="url(#m)" opacity="0.8"'])
        defs = ('<mask id="m" maskUnits="userSpaceOnUse" x="0" y="0" width="%d" height="%d"><rect width="%d" height="%d" fill="white"/><circle cx="%d" cy="%d" r="%d" fill="black"/></mask>'
                '<clipPath id="c"><circle cx="%d" cy="%d" r="%d"/></clipPath>'
                '<filter id="f" filterUnits="userSpaceOnUse" x="0" y="0" width="%d" height="%d"><feOffset dx="3" dy="2"/></filter>'
                % (T, T, T, T, T // 2, T // 2, T // 4, T // 2, T // 2, T // 2 - 4, T, T))
        px, py = rng.choice([(100, 100), (0, 0), (40, 130), (130, 30)])
        defs += ('<pattern id="p" patternUnits="userSpaceOnUse" x="%d" y="%d" width="%d" height="%d"><g %s><rect width="%d" height="%d" fill="#d22"/>'
                 '<rect x="%d" y="0" width="%d" height="%d" fill="#22d"/></g></pattern>' % (px, py, T, T, eff, T, T, T // 2, T // 2, T))
        rx, ry = rng.choice([(150, 150), (10, 10), (150, 10), (10, 150), (80, 80)])
        grp = rng.choice(['opacity="0.9"', 'style="isolation:isolate"', 'opacity="0.9" transform="translate(5 3)"'])
        body = '%s<g %s><rect x="%d" y="%d" width="40" height="40" fill="url(#p)"/></g>' % (defs, grp, rx, ry)
        dx, dy = rng.below(71) - 35, rng.below(71) - 35
        if dx == dy:
            dy += 1
        return ('<svg %s width="%d" height="%d">%s</svg>' % (NS, W, H, body)), "native:1:0:0", dx, dy
    if kind == 9:
        # a long dashed two-point line that starts far outside the canvas and ends inside it (seeded change C13-9): the
        # dash phase is a function of user-space length and must not depend on where the canvas cuts the line
        W, H = rng.choice([(100, 100), (120, 60), (60, 120)])
        far = rng.choice([300, 700, 2000])
        ex, ey = 20 + rng.below(W - 40), 20 + rng.below(H - 40)
        side = rng.below(4)
        sx, sy = [(-far, ey + rng.below(21) - 10), (W + far, ey + rng.below(21) - 10), (ex + rng.below(21) - 10, -far), (ex + rng.below(21) - 10, H + far)][side]
        pts = (sx, sy, ex, ey) if rng.below(2) else (ex, ey, sx, sy)
        da = rng.choice(['7 5', '12 4 3 4', '20', '3 9', '15.5 6.25'])
        body = ('<path d="M %s %s L %s %s" fill="none" stroke="%s" stroke-width="%s" stroke-dasharray="%s" stroke-dashoffset="%s" stroke-linecap="%s"/>'
                % (pts + (rng.choice(COLORS), rng.choice([2, 4, 6]), da, rng.choice(['0', '3.5', '-11', '40']), rng.choice(CAPS))))
        if rng.below(3) == 0:
            body = '<g transform="scale(%s)">%s</g>' % (rng.choice([0.5, 1.5]), body)
        dx, dy = rng.below(47) - 23, rng.below(47) - 23
        if dx == dy:
            dy += 1
        return ('<svg %s width="%d" height="%d">%s</svg>' % (NS, W, H, body)), "native:%s:0:0" % rng.choice([1, 2, 2, 3]), dx, dy
    if kind == 8:
        # sharp miter tip: drawn while the outline is partly on the canvas, must stay when the shift moves the outline out
        doc, W, H, rot = gen_miter_doc(rng)
        k = 6 + rng.below(8)
        dx, dy = {0: (k, 1), 90: (-1, k), 180: (-k, 2), 270: (1, -k)}[rot]    # moves the apex inwards for the base rendering
        # base = shifted inwards (outline on the canvas), shifted = original position (outline outside, tip inside)
        return doc, "native:1:%s:%s" % (dx, dy), -dx, -dy
    if kind >= 5:
        return gen_crisp_case(rng, W, H, kind)
    edge = rng.choice(['left', 'top', 'right', 'bottom'])
    col = rng.choice(COLORS)
    if kind in (0, 1, 2):
        # a thick stroked line / frame / zero-area path parallel to an edge, `d` pixels inside it;
        # the shift pushes the geometry d + k pixels outwards with k < stroke/2
        d = rng.below(12) + 1
        k = rng.below(max(1, sw // 2 - 1)) + 1
        if edge in ('left', 'right'):
            x = d if edge == 'left' else W - d
            dx = -(d + k) if edge == 'left' else (d + k)
            dy = rng.below(9) - 4
            geo = (x, 8, x, H - 8)
        else:
            y = d if edge == 'top' else H - d
            dy = -(d + k) if edge == 'top' else (d + k)
            dx = rng.below(9) - 4
            geo = (8, y, W - 8, y)
        if dx == dy:
            dx += 1
        cap = rng.choice(CAPS)
        if kind == 0:
            shape = '<line x1="%s" y1="%s" x2="%s" y2="%s" stroke="%s" stroke-width="%d" stroke-linecap="%s"/>' % (geo + (col, sw, cap))
        elif kind == 1:
            shape = '<path d="M %s %s L %s %s" fill="none" stroke="%s" stroke-width="%d" stroke-linecap="%s" stroke-opacity="0.8"/>' % (geo + (col, sw, cap))
        else:
            # a frame whose one side runs along the edge
            x0, y0, x1, y1 = geo
            if edge in ('left', 'right'):
                x1 = x0 + (30 if edge == 'left' else -30)
            else:
                y1 = y0 + (30 if edge == 'top' else -30)
            shape = '<rect x="%s" y="%s" width="%s" height="%s" fill="none" stroke="%s" stroke-width="%d" stroke-linejoin="%s"/>' % (
                min(x0, x1), min(y0, y1), abs(x1 - x0), abs(y1 - y0), col, sw, rng.choice(JOINS))
        body = shape + '<circle cx="%s" cy="%s" r="4" fill="#111"/>' % (W // 2, H // 2)
    else:
        # an image (raster or nested SVG) somewhere on the canvas - in particular in the lower part of a portrait one
        iw = rng.choice([12, 20, 30])
        x = rng.below(max(1, W - iw + 1))
        y = rng.below(max(1, H - iw + 1))
        href = PNG16 if kind == 3 else SVGIMG
        body = ('<image x="%d" y="%d" width="%d" height="%d" xlink:href="%s"/><rect x="1" y="1" width="%d" height="%d" fill="none" stroke="#888"/>'
                % (x, y, iw, iw, href, W - 2, H - 2))
        dx = rng.below(61) - 30
        dy = rng.below(61) - 30
        if dx == dy:
            dy += 1
    doc = '<svg %s width="%d" height="%d">%s</svg>' % (NS, W, H, body)
    return doc, "native:1:%s:%s" % (rng.choice([0.0, 0.37, 0.61]), rng.choice([0.0, 0.13, 0.29])), dx, dy


def gen_crisp_case(rng, W, H, kind):
    """rendering modes that switch anti-aliasing / smoothing off (seeded changes C13-6, C13-7): any snapping to the device
    grid must commute with whole-pixel translations.  Integer base translation, content well inside the canvas, scales 1 and 2,
    odd and even shifts."""
    scale = rng.choice([1, 2, 2, 3])
    dx = rng.below(25) - 12
    dy = rng.below(25) - 12
    if dx == dy:
        dy += 1
    cx, cy = W // 2, H // 2
    if kind in (5, 6):
        sr = rng.choice(['crispEdges', 'optimizeSpeed', 'crispEdges', 'geometricPrecision'])
        half = rng.choice([0, 0, 0.5])          # centre line on a whole / half device coordinate
        swd = rng.choice([1, 1, 2, 3])
        parts = []
        for _ in range(1 + rng.below(3)):
            c = rng.choice(COLORS)
            r = rng.below(4)
            if r == 0:
                y = cy + rng.below(11) - 5 + half
                parts.append('<line x1="%s" y1="%s" x2="%s" y2="%s" stroke="%s" stroke-width="%s"/>' % (cx - 10, y, cx + 10, y, c, swd))
            elif r == 1:
                x = cx + rng.below(11) - 5 + half
                parts.append('<path d="M %s %s L %s %s" fill="none" stroke="%s" stroke-width="%s"/>' % (x, cy - 9, x, cy + 9, c, swd))
            elif r == 2:
                parts.append('<path d="M %s %s H %s M %s %s V %s" fill="none" stroke="%s" stroke-width="%s"/>'
                             % (cx - 8, cy + half, cx + 8, cx + half, cy - 8, cy + 8, c, swd))
            else:
                parts.append('<rect x="%s" y="%s" width="%s" height="%s" fill="none" stroke="%s" stroke-width="%s"/>'
                             % (cx - 9 + half, cy - 7 + half, 12 + rng.below(6), 9 + rng.below(6), c, swd))
        body = '<g shape-rendering="%s">%s</g>' % (sr, ''.join(parts))
    else:
        ir = rng.choice(['optimizeSpeed', 'optimizeQuality', 'optimizeSpeed'])
        st = rng.choice(['', '', ' style="image-rendering:pixelated"', ' style="image-rendering:crisp-edges"'])
        factor = rng.choice([1, 1, 2, 3])       # drawn size / natural size (16 px)
        body = ('<image x="%d" y="%d" width="%d" height="%d" image-rendering="%s"%s xlink:href="%s"/>'
                % (cx - 8 * factor + rng.below(5), cy - 8 * factor + rng.below(5), 16 * factor, 16 * factor, ir, st, PNG16))
        W, H = max(W, 70), max(H, 70)
    doc = '<svg %s width="%d" height="%d">%s</svg>' % (NS, W, H, body)
    return doc, "native:%s:0:0" % scale, dx, dy


def gen_dot_doc(rng):
    """zero-length subpaths (all at one point) made visible by round / square caps, inside a child group that survives as a
    group (id / transform / opacity) under the group that gets isolated, not covered by sibling content (seeded change C14-11)"""
    W = H = 100
    sw = rng.choice([10, 16, 24])
    cap = rng.choice(['round', 'square'])
    x, y = rng.below(30), rng.below(30)
    d = rng.choice(['M %d %d L %d %d', 'M %d %d h 0', 'M %d %d L %d %d M %d %d L %d %d', 'M %d %d z'])
    d = d.replace('%d %d', '%d %d' % (x, y))
    keep = rng.choice(['id="dots"', 'transform="translate(%d %d)"' % (40 + rng.below(20), 40 + rng.below(20)), 'opacity="0.8" transform="translate(50 50)"',
                       'id="d" transform="translate(55 45) rotate(%d)"' % rng.below(60)])
    inner = '<g %s><path d="%s" fill="none" stroke="%s" stroke-width="%d" stroke-linecap="%s"/></g>' % (keep, d, rng.choice(COLORS), sw, cap)
    if rng.below(2):
        inner = '<g id="outer">%s</g>' % inner
    sib = rng.choice(['', '<rect x="2" y="2" width="6" height="6" fill="#111"/>'])
    return '<svg %s width="%d" height="%d"><g>%s%s</g></svg>' % (NS, W, H, sib, inner)


def gen_clipped_child_doc(rng):
    """a group (receiving isolation / opacity) with a child group whose clip-path or mask definition carries its own
    transform or objectBoundingBox units (seeded change C14-12: the parent's layer box tightened by a mis-placed clip box)"""
    W = H = 200
    k = rng.below(6)
    tx, ty = 40 + rng.below(40), 30 + rng.below(40)
    if k == 0:
        defs = '<clipPath id="c" clipPathUnits="objectBoundingBox"><rect x="0" y="0" width="1" height="%s"/></clipPath>' % rng.choice(['0.5', '0.8', '1'])
        attr = 'clip-path="url(#c)"'
    elif k == 1:
        defs = '<clipPath id="c" transform="translate(%d %d)"><rect x="0" y="0" width="80" height="80"/></clipPath>' % (tx, ty)
        attr = 'clip-path="url(#c)"'
    elif k == 2:
        defs = '<clipPath id="c" transform="translate(%d %d) scale(%s)"><circle cx="30" cy="30" r="30"/></clipPath>' % (tx, ty, rng.choice(['1.5', '2', '0.8']))
        attr = 'clip-path="url(#c)"'
    elif k == 3:
        defs = '<clipPath id="c" clipPathUnits="objectBoundingBox" transform="translate(0.2 0.1)"><rect width="0.7" height="0.7"/></clipPath>'
        attr = 'clip-path="url(#c)"'
    elif k == 4:
        defs = ('<mask id="m" maskContentUnits="objectBoundingBox"><rect x="0.1" y="0.1" width="0.8" height="0.8" fill="white"/></mask>')
        attr = 'mask="url(#m)"'
    else:
        defs = ('<mask id="m" maskUnits="userSpaceOnUse" x="%d" y="%d" width="110" height="110"><g transform="translate(%d %d)"><rect width="100" height="100" fill="white"/></g></mask>'
                % (tx, ty, tx + 5, ty + 5))
        attr = 'mask="url(#m)"'
    child_t = rng.choice(['', ' transform="translate(%d %d)"' % (rng.below(21) - 10, rng.below(21) - 10), ' transform="rotate(%d 100 100)"' % (rng.below(41) - 20)])
    child = '<g %s%s><rect x="60" y="60" width="120" height="120" fill="#208040" stroke="#102010" stroke-width="6"/></g>' % (attr, child_t)
    sib = rng.choice(['<rect x="10" y="10" width="30" height="30" fill="#2060c0"/>', '', '<circle cx="20" cy="180" r="8" fill="#c22"/>'])
    parent = rng.choice(['', ' opacity="0.9"', ' id="par"'])
    return '<svg %s width="%d" height="%d">%s<g%s>%s%s</g></svg>' % (NS, W, H, defs, parent, sib, child)


def gen_tiny_doc(rng):
    """content whose device size is sub-pixel .. 3 px (at root scale 0.5 / 1): a layer must not make it vanish (seeded change C14-9)"""
    size = rng.choice([0.6, 1.0, 1.6, 1.8, 2.5, 4.0, 6.0])
    x, y = 10 + rng.uniform(0, 20), 10 + rng.uniform(0, 20)
    if rng.below(3) == 0:
        x, y = round(x), round(y)
    k = rng.below(3)
    col = rng.choice(['#111', '#d22', '#22d'])
    if k == 0:
        shape = '<rect x="%s" y="%s" width="%s" height="%s" fill="%s"/>' % (fnum(x), fnum(y), fnum(size), fnum(size * rng.choice([1, 0.7])), col)
    elif k == 1:
        shape = '<circle cx="%s" cy="%s" r="%s" fill="%s"/>' % (fnum(x), fnum(y), fnum(size / 2), col)
    else:
        shape = '<path d="M %s %s l %s %s" stroke="%s" stroke-width="%s" stroke-linecap="round"/>' % (fnum(x), fnum(y), fnum(size / 3), fnum(size / 4), col, fnum(size / 2))
    grp = rng.choice(['', ' transform="translate(0.3 0.2)"', ' id="t"'])
    return '<svg %s width="40" height="40"><g%s>%s</g></svg>' % (NS, grp, shape)


def gen_miter_doc(rng):
    """a stroked outline that lies outside the canvas by more than half the stroke width while a sharp miter join (or
    the corner of a square cap on a diagonal end) reaches back into it (seeded change C14-5); on each of the four edges"""
    W = H = 100
    y0 = 20 + rng.below(60)
    if rng.below(3):
        w = rng.choice([8, 10, 12, 16])
        ax = -(w // 2 + 3 + rng.below(6))              # apex outside by more than w/2 + 2
        gap = rng.choice([8, 10, 12])
        shape = ('<polyline points="-60,%d %d,%d -60,%d" fill="none" stroke="%s" stroke-width="%d" stroke-linejoin="miter" stroke-miterlimit="%d"%s/>'
                 % (y0 - gap, ax, y0, y0 + gap, rng.choice(COLORS), w, rng.choice([10, 20, 40]), rng.choice(['', ' stroke-opacity="0.8"'])))
    else:
        w = rng.choice([24, 30, 40])
        ax = -(w // 2 + 3 + rng.below(3))
        shape = ('<path d="M %d %d L %d %d" fill="none" stroke="%s" stroke-width="%d" stroke-linecap="square"/>'
                 % (ax - 40, y0 - 40, ax, y0, rng.choice(COLORS), w))
    rot = rng.choice([0, 90, 180, 270])
    extra = rng.choice(['', '<circle cx="50" cy="50" r="6" fill="#111"/>'])
    return ('<svg %s width="%d" height="%d"><g transform="rotate(%d 50 50)">%s</g>%s</svg>' % (NS, W, H, rot, shape, extra)), W, H, rot


def gen_extent_doc(rng):
    """a document for the isolation oracle whose extent is defined by a filter region (nested 2-3 plain group levels
    below the root) or by the cap / join of a thick stroke on a diagonal open path"""
    W = H = 200
    if rng.below(2) == 0:
        depth = 2 + rng.below(2)
        kind = rng.below(4)
        if kind == 0:
            flt = '<filter id="f" x="-0.6" y="-0.6" width="2.2" height="2.2"><feGaussianBlur stdDeviation="%s"/></filter>' % rng.choice([4, 7, 10])
        elif kind == 1:
            flt = '<filter id="f" x="-1" y="-1" width="3" height="3"><feOffset dx="%d" dy="%d"/></filter>' % (rng.choice([-35, 30, 45]), rng.choice([-30, 25, 40]))
        elif kind == 2:
            flt = ('<filter id="f" x="-0.8" y="-0.8" width="2.6" height="2.6"><feDropShadow dx="%d" dy="%d" stdDeviation="3" flood-color="#22d"/></filter>'
                   % (rng.choice([-25, 20, 30]), rng.choice([-20, 25])))
        else:
            flt = '<filter id="f" filterUnits="userSpaceOnUse" x="20" y="30" width="160" height="150"><feFlood flood-color="#2a2" flood-opacity="0.6"/></filter>'
        inner = '<g filter="url(#f)"><rect x="%d" y="%d" width="%d" height="%d" fill="%s"/></g>' % (
            70 + rng.below(20), 70 + rng.below(20), 30 + rng.below(30), 30 + rng.below(30), rng.choice(COLORS))
        for _ in range(depth):
            t = rng.choice(['', '', ' transform="translate(%d %d)"' % (rng.below(11) - 5, rng.below(11) - 5), ' transform="rotate(%d 100 100)"' % (rng.below(41) - 20)])
            inner = '<g%s>%s</g>' % (t, inner)
        return '<svg %s width="%d" height="%d">%s%s</svg>' % (NS, W, H, flt, inner)
    cap, join = rng.choice(CAPS), rng.choice(JOINS)
    sw = rng.choice([12, 20, 30, 44])
    a = rng.uniform(0.2, 1.3)
    import math as _m
    x0, y0 = 100 - 40 * _m.cos(a), 100 - 40 * _m.sin(a)
    x1, y1 = 100 + 40 * _m.cos(a), 100 + 40 * _m.sin(a)
    mid = '' if rng.below(2) else ' L %s %s' % (fnum(100 + 25 * _m.sin(a)), fnum(100 - 25 * _m.cos(a)))
    path = ('<path d="M %s %s%s L %s %s" fill="none" stroke="%s" stroke-width="%d" stroke-linecap="%s" stroke-linejoin="%s"%s/>'
            % (fnum(x0), fnum(y0), mid, fnum(x1), fnum(y1), rng.choice(COLORS), sw, cap, join,
               rng.choice(['', ' stroke-miterlimit="10"', ' stroke-opacity="0.7"'])))
    t = rng.choice(['', ' transform="rotate(%d 100 100)"' % rng.below(90), ' transform="skewX(%d)"' % (rng.below(41) - 20)])
    return '<svg %s width="%d" height="%d"><g%s><g>%s</g></g></svg>' % (NS, W, H, t, path)


# ------------------------------------------------------------------------------------------------
# nested chains: layer_child_max (the clamp box handed to the children of a layer) vs the recorded trace
# ------------------------------------------------------------------------------------------------
def chain_trace_correspondence(ctx, binp, n):
    """Documents that are a pure chain of k nested isolated groups around one shape: the i+1-th layer event is the
    child of the i-th, so its recorded `max` must be layer_child_max (ev_max e_i) (ev_ibbox e_i) (checked in Coq)."""
    rng = ctx.rng
    jobs = []
    for _ in range(n):
        W, H = rng.choice([(100, 100), (40, 120), (64, 30), (8, 8)])
        k = 2 + rng.below(4)
        x = rng.uniform(-9 * W, 3 * W)
        y = rng.uniform(-9 * H, 3 * H)
        shape = '<rect x="%s" y="%s" width="%s" height="%s" fill="#22d"/>' % (fnum(x), fnum(y), fnum(rng.uniform(1, 14 * W)), fnum(rng.uniform(1, 14 * H)))
        body = shape
        for i in range(k):
            a = rng.choice(['style="isolation:isolate"', 'opacity="0.8"', 'style="isolation:isolate" transform="translate(%s %s)"' % (fnum(rng.uniform(-W, W)), fnum(rng.uniform(-H, H)))])
            body = '<g %s>%s</g>' % (a, body)
        doc = '<svg %s width="%d" height="%d">%s</svg>' % (NS, W, H, body)
        t = (1, 0, 0, 1, rng.uniform(-40, 40), rng.uniform(-40, 40)) if rng.below(2) else (1, 0, 0, 1, 0, 0)
        jobs.append((doc, W, H, t, k))
    outs = ctx.rvh_batch(binp, 'layer-trace', ["-\t%s\t%s\t%d\t%d" % (d, ts_str(t), W, H) for d, W, H, t, k in jobs])
    cases = []
    meta = []
    for (d, W, H, t, k), o in zip(jobs, outs):
        try:
            ev = [e for e in json.loads(o).get('events', []) if e.get('ev') == 'layer']
        except (TypeError, ValueError):
            continue
        for a, b in zip(ev, ev[1:]):
            cases.append("(mk_irect (%d) (%d) (%d) (%d), mk_irect (%d) (%d) (%d) (%d), mk_irect (%d) (%d) (%d) (%d))"
                         % tuple(a['max'] + a['ibbox'] + b['max']))
            meta.append((d, W, H, t, a, b))
    res = dict(documents=len(jobs), pairs=len(cases), translated=sum(1 for m in meta if m[4]['max'] != m[5]['max']), bad=0)
    if not cases:
        ctx.violation("chain-trace: nested isolated groups recorded no parent/child layer pairs", dict(op='layer-trace'), found_input=False)
        return res
    body = ("Local Open Scope Z_scope.\nDefinition cases : list (irect * irect * irect) := [\n%s\n].\n"
            "Eval vm_compute in (bad_indices (fun c => let '(m, i, m') := c in irect_eqb (layer_child_max m i) m') cases).\n" % ";\n".join(cases))
    rcode, out = ctx.coq_eval('k_chain', body, COQ_IMPORTS, timeout=300)
    badl = ctx.parse_N_list(out) if rcode == 0 else None
    if badl is None:
        ctx.violation("chain-trace: layer_child_max could not be evaluated (source-derived definitions no longer fit)", dict(log=out[-1500:]), found_input=False)
        return res
    res['bad'] = len(badl)
    for b in badl[:2]:
        d, W, H, t, ea, eb = meta[b]
        ctx.violation("chain-trace: a nested layer was clamped against max=%s but its parent (max=%s, ibbox=%s) hands down a different box according to "
                      "the source-derived layer_child_max" % (eb['max'], ea['max'], ea['ibbox']),
                      dict(op='layer-trace', doc=d, canvas=[W, H], root_transform=list(t), event=eb, parent_event=ea))
    for m in meta:
        ctx.note_case("chain/%s/%s" % (m[4]['max'], m[4]['ibbox']))
    return res
