"""C19  Exporting one node equals that node's part of the full rendering.

proof      coq/Props/C19.v over Model/Export.v
tie        tools/gen_bbox.py: the exact text of render_node (lib.rs), Node::abs_layer_bounding_box and node_by_id is
           locked (BF_RenderNode*, BF_NodeLayerBox, BF_NodeById -> lock lemma) + the `export-ts` correspondence
K export-ts   every isolated group: the transform its layer is drawn under inside render_node (trace hook, identity and
              scale 2) == model content_ts, compared inside Coq (1e-4 relative)
K node-by-id  Tree::node_by_id(id) is the first node in pre-order carrying the id, None for "" and for absent ids
S e2e-C19     every node with an id (quick: sample): render_node into ceil(abs layer box x scale) vs the single-node
              document (Tree::to_string, the node kept with its ancestors' transforms only) rendered under
              scale * translate(-box origin); scales 1 and 2.  Allowed: +-1 on any pixel plus edge noise (writer
              precision, 4 sub-scanlines): differences > 1 level on at most max(8, 10% of the painted pixels), at
              most 4 pixels above 72 levels.  Measured on the whole corpus: see `noise` in the evidence.
"""
import copy
import json
import os
import re
import xml.etree.ElementTree as ET

import vlib
from vlib import qstr
from props import c12

SVGNS = 'http://www.w3.org/2000/svg'
XLINK = 'http://www.w3.org/1999/xlink'
NS = 'xmlns="%s" xmlns:xlink="%s"' % (SVGNS, XLINK)
ET.register_namespace('', SVGNS)
ET.register_namespace('xlink', XLINK)
IMPORTS = ['Model.Base', 'Model.BBox', 'Model.Export']
TOL = '(1 # 10000)'


def single_docs(svg_text, ids):
    """-> {id: document text} for the ids that occur exactly once in the written SVG (outside defs)"""
    try:
        root = ET.fromstring(svg_text)
    except ET.ParseError:
        return {}
    parent = {}
    for p in root.iter():
        for ch in p:
            parent[ch] = p
    defs = [ch for ch in root if ch.tag == '{%s}defs' % SVGNS]
    in_defs = set()
    for d in defs:
        for e in d.iter():
            in_defs.add(e)
    by_id = {}
    for e in root.iter():
        i = e.get('id')
        if i is not None and e not in in_defs and e is not root:
            by_id.setdefault(i, []).append(e)
    out = {}
    for i in ids:
        es = by_id.get(i, [])
        if len(es) != 1:
            continue
        e = es[0]
        chain = []
        p = parent.get(e)
        while p is not None and p is not root:
            chain.append(p)
            p = parent.get(p)
        new = ET.Element(root.tag, {k: v for k, v in root.attrib.items()})
        for d in defs:
            new.append(copy.deepcopy(d))
        cur = new
        for a in reversed(chain):
            t = a.get('transform')
            if t:
                g = ET.SubElement(cur, '{%s}g' % SVGNS, {'transform': t})
                cur = g
        cur.append(copy.deepcopy(e))
        out[i] = ET.tostring(new, encoding='unicode')
    return out


NOT_RENDERED = {'defs', 'marker', 'pattern', 'clipPath', 'mask', 'symbol', 'linearGradient', 'radialGradient', 'filter'}


def source_ids(text):
    """-> (direct, indirect): ids of elements rendered where they stand / ids of elements below defs, marker, pattern, clipPath,
    mask, symbol, ... (those may only be reached through a reference: their copies carry no id)"""
    direct, indirect = {}, {}
    stack = []
    for m in re.finditer(r"<!--.*?-->|<!\[CDATA\[.*?\]\]>|<\?.*?\?>|<!DOCTYPE[^\[>]*(?:\[.*?\])?\s*>|</[^>]*>|<((?:[\w.-]+:)?[\w.-]+)((?:\"[^\"]*\"|'[^']*'|[^>\"'])*)>",
                         text, re.S):
        t = m.group(0)
        if m.group(1) is None:
            if t.startswith('</') and stack:
                stack.pop()
            continue
        name = m.group(1).split(':')[-1]
        attrs = m.group(2)
        im = re.search(r"(?:^|\s)id\s*=\s*(?:\"([^\"]*)\"|'([^']*)')", attrs)
        if im:
            i = im.group(1) if im.group(1) is not None else im.group(2)
            tgt = indirect if (any(s in NOT_RENDERED for s in stack) or name in NOT_RENDERED) else direct
            tgt[i] = tgt.get(i, 0) + 1
        if not attrs.rstrip().endswith('/'):
            stack.append(name)
    return direct, indirect


def hexdoc(text):
    return 'hex:' + text.encode('utf-8').hex()


def pair_ok(r):
    if 'ndiff' not in r:
        return False
    painted = max(r['nonblank_a'], r['nonblank_b'])
    if r['none']:
        return False
    # low-amplitude noise everywhere (hairline strokes: every pixel is an edge pixel; writer coordinate rounding)
    if r['max'] <= 8:
        return True
    return r['nbig'] <= 4 and r['ndiff'] <= max(8, painted // 10)


def gen_docs(rng, n):
    docs = c12.gen_docs(rng, n)
    # (5d8487d: the writer keeps clipPath children nested in groups - text with a transform; regression input
    #  corpus/witness/C19-clip-text-transform-writer.svg; generator kind 10 of c12.gen_docs has such a clip path)
    # ids on every element are already there (g1, g2, p1, p2, u1, u2, n1, t1, i1); add documents with nested groups
    for i in range(n // 4):
        t1 = rng.choice(['translate(50,60)', 'scale(2)', 'rotate(30 100 100)', 'translate(20 10) scale(0.5 1.5)', 'skewX(20)'])
        t2 = rng.choice(['', 'translate(-10 5)', 'scale(1.5)', 'rotate(-45 50 50)'])
        deco = rng.choice(['', 'opacity="0.5"', 'filter="url(#f)"', 'clip-path="url(#c)"', 'mask="url(#m)"'])
        docs.append('<svg %s width="220" height="220" viewBox="0 0 220 220"><defs><filter id="f"><feGaussianBlur stdDeviation="3"/></filter>'
                    '<clipPath id="c"><circle cx="40" cy="40" r="35"/></clipPath><mask id="m"><rect width="60" height="60" fill="white"/></mask></defs>'
                    '<g id="g1" transform="%s"><g id="g2" transform="%s" %s><rect id="r1" x="10" y="10" width="40" height="30" fill="green" stroke="navy" stroke-width="4"/>'
                    '<circle id="c1" cx="60" cy="50" r="18" fill="orange"/></g><path id="l1" d="M 5 80 L 90 80" stroke="red" stroke-width="6"/>'
                    '<path id="l2" d="M 5 90 L 90 90" fill="none"/></g></svg>' % (NS, t1, t2, deco))
    # nodes whose absolute layer box is under one pixel wide and / or high: not zero-sized, must export (canvas = ceil, min 1 px)
    for i in range(max(6, n // 5)):
        sc = rng.choice([0.1, 0.05, 0.25])
        docs.append('<svg %s width="120" height="100"><rect id="bar%d" x="20" y="30.2" width="60" height="%s" fill="red"/>'
                    '<rect id="sliver%d" x="50.3" y="10" width="%s" height="40" fill="blue"/>'
                    '<circle id="dot%d" cx="90.5" cy="70.5" r="%s" fill="green"/><rect id="speck%d" x="10.1" y="80.2" width="%s" height="%s" fill="black"/>'
                    '<g id="tinyg%d" transform="translate(30 60) scale(%s)"><rect id="tinyr%d" width="%s" height="%s" fill="purple"/></g>'
                    '<g id="thing%d"><path id="thinp%d" d="M 5 5 L 100 5 L 100 %s L 5 %s Z" fill="teal"/></g>'
                    '<path id="hair%d" d="M 10 95 L 110 95" stroke="navy" stroke-width="%s"/></svg>'
                    % (NS, i, rng.choice([0.5, 0.1, 0.9, 0.3]), i, rng.choice([0.4, 0.2, 0.8]), i, rng.choice([0.3, 0.45, 0.2]), i,
                       rng.choice([0.4, 0.7]), rng.choice([0.6, 0.3]), i, sc, i, rng.choice([3, 5, 8]), rng.choice([2, 4, 30]),
                       i, i, rng.choice([5.4, 5.8]), rng.choice([5.4, 5.8]), i, rng.choice([0.5, 0.25, 0.8])))
    for i in range(max(6, n // 5)):
        inner = rng.choice(['<path id="i%dp" d="M 0 0 L 8 4 L 0 8 Z" fill="red"/>',
                            '<g id="i%dg"><rect id="i%dr" width="6" height="6" fill="blue"/></g>',
                            '<use id="i%du" xlink:href="#shape%d"/>',
                            '<g id="i%dg"><use id="i%du" xlink:href="#shape%d" x="1"/><circle id="i%dc" cx="4" cy="4" r="2"/></g>',
                            '<text id="i%dt" x="0" y="7" font-size="7" font-family="Noto Sans">a</text>',
                            '<svg id="i%ds" width="8" height="8"><rect id="i%dq" width="8" height="8" fill="green"/></svg>'])
        inner = re.sub(r"%d", str(i), inner)
        docs.append('<svg %s width="200" height="200"><defs><circle id="shape%d" cx="4" cy="4" r="3" fill="orange"/>'
                    '<marker id="mk%d" markerWidth="8" markerHeight="8" refX="4" refY="4" orient="auto">%s</marker>'
                    '<pattern id="pt%d" width="10" height="10" patternUnits="userSpaceOnUse">%s</pattern>'
                    '<clipPath id="cp%d"><rect id="cpr%d" x="20" y="20" width="120" height="120"/><use id="cpu%d" xlink:href="#shape%d"/></clipPath>'
                    '<mask id="ms%d"><g id="msg%d"><rect id="msr%d" x="0" y="0" width="200" height="200" fill="white"/></g></mask>'
                    '<symbol id="sy%d" viewBox="0 0 8 8">%s</symbol></defs>'
                    '<path id="line%d" d="M 20 20 L 100 40 L 60 120 L 150 150" fill="none" stroke="black" stroke-width="3" '
                    'marker-start="url(#mk%d)" marker-mid="url(#mk%d)" marker-end="url(#mk%d)"/>'
                    '<rect id="filled%d" x="100" y="10" width="80" height="60" fill="url(#pt%d)" clip-path="url(#cp%d)" mask="url(#ms%d)"/>'
                    '<use id="inst%d" xlink:href="#sy%d" x="10" y="130" width="40" height="40"/><use id="inst%db" xlink:href="#sy%d" x="60" y="130" width="40" height="40"/>'
                    '<g id="top%d" clip-path="url(#cp%d)"><circle id="disc%d" cx="60" cy="60" r="30" fill="teal"/></g></svg>'
                    % ((NS, i, i, inner.replace('id="i', 'id="m'), i, inner.replace('id="i', 'id="p'), i, i, i, i, i, i, i, i,
                        inner.replace('id="i', 'id="s'), i, i, i, i, i, i, i, i, i, i, i, i, i, i, i)))
    return docs


def run(ctx):
    rng = ctx.rng
    quick = ctx.tier == 'quick'
    ctx.cov['trusted_base'] = vlib.BASE_TRUSTED + [
        "tools/gen_bbox.py anchors (exact text of render_node, abs_layer_bounding_box, node_by_id)",
        "Tree::to_string / re-parse (the reference single-node document goes through the writer: C08's noise applies)",
        "render.rs below render_node (layers, filters, clip, mask): unmodelled here (C13/C14/C15/C16), exercised by the oracle",
    ]
    ctx.assumptions = ["a group's own transform is invertible (else render_node falls back to the identity)",
                       "abs_transform(node) is the product of the ancestors' transforms (C12; known class use_transform_twice is inherited)",
                       "ids that occur more than once among the renderable nodes are skipped by the oracle (node_by_id returns the first)"]
    broken = ctx.translate()
    res = ctx.coq_props()
    proof_ok = res['ok'] and not broken
    binp, blog = ctx.harness('release')
    if binp is None:
        ctx.violation("harness does not build against the current tree (correspondence cannot run)", dict(build_log=blog[-2000:]), found_input=False)
        return

    files = vlib.corpus_files()
    wit = [os.path.join(vlib.VERIF, 'corpus', 'witness', f) for f in ('F19.svg', 'F14.svg', 'C19-filter-edge.svg', 'C12-nested-svg-transform.svg', 'C12-leaf-export-crop.svg')]
    wit = [w for w in wit if os.path.exists(w)]
    sample = list(files) if not quick else rng.sample(files, 350)
    must = [f for f in files if re.search(r"structure/(use|symbol|svg|g)/|filters/filter/|masking/(mask|clipPath)/|structure/transform/", f)]
    if quick:
        must = rng.sample(must, min(120, len(must)))
    sample = sorted(set(sample + must)) + wit
    gdocs = gen_docs(rng, 80 if quick else 800)
    docs = [('@' + f, f, 'res=%s' % os.path.dirname(f)) for f in sample] + [(d, 'gen%d' % i, '-') for i, d in enumerate(gdocs)]

    # ------------------------------------------------------------------ written trees and node lists
    wouts = ctx.rvh_batch(binp, 'c19-write', ["%s\t%s" % (o, d) for d, _, o in docs], per_item_timeout=40)
    infos = []
    for (d, name, o), w in zip(docs, wouts):
        try:
            r = json.loads(w)
        except (TypeError, ValueError):
            r = {'error': 'unparsable'}
        if 'svg' not in r:
            if 'crash' in r or 'panic' in r:
                ctx.violation("writing the tree crashed: %s" % str(r)[:200], dict(doc=d))
            infos.append(None)
            continue
        infos.append(r)

    ctx.log('written trees: %d' % len(infos))
    # ------------------------------------------------------------------ K node-by-id
    payloads = []
    idx = []
    srcinfo = {}
    for k, ((d, name, o), r) in enumerate(zip(docs, infos)):
        if r is None:
            continue
        src = c12.source_text(d)
        # ids of the source that are not renderable nodes (definitions, ids dropped inside use), plus made-up ones
        src_ids = sorted(set(re.findall(r'\bid="([^"]+)"', src)))[:40]
        extra = [i for i in src_ids if ',' not in i and '\t' not in i] + ['vf_absent', 'ID', ' ', 'rect1 ']
        direct, indirect = source_ids(src) if '<!ENTITY' not in src else ({}, {})
        forb = [i for i in indirect if i not in direct and ',' not in i and '\t' not in i and i]
        srcinfo[k] = (direct, indirect)
        payloads.append("%s\t%s\t%s\t%s" % (o, d, ','.join(extra), ','.join(forb)))
        idx.append(k)
    nouts = ctx.rvh_batch(binp, 'node-by-id', payloads, per_item_timeout=40)
    nid = 0
    nabs = 0
    ndup = 0
    nduprep = 0
    nforb = 0
    for k, o in zip(idx, nouts):
        try:
            r = json.loads(o)
        except (TypeError, ValueError):
            r = {'error': 'unparsable'}
        if 'ids' not in r:
            continue
        nid += r['ids']
        nabs += r['absent']
        nforb += r.get('forbidden', 0)
        ctx.note_case("nbi/%s/%d" % (docs[k][1], r['ids']), nontrivial=r['ids'] > 0)
        for b in r['bad'][:2]:
            ctx.violation("node_by_id(%r) does not return the first renderable node carrying that id in %s: %s" % (b.get('id'), docs[k][1], json.dumps(b)),
                          dict(op='node-by-id', doc=docs[k][0], opts=docs[k][2], mismatch=b))
        # ids must be unique among the renderable nodes when they are unique in the source
        direct, indirect = srcinfo.get(k, ({}, {}))
        for dup in r.get('dups', []):
            ndup += 1
            if direct.get(dup, 0) + indirect.get(dup, 0) <= 1 and (direct or indirect) and nduprep < 3:
                nduprep += 1
                ctx.violation("the id %r occurs once in %s but more than one renderable node of the tree carries it (node_by_id can only return one of them)"
                              % (dup, docs[k][1]), dict(op='node-by-id', doc=docs[k][0], opts=docs[k][2], mismatch=dict(id=dup, duplicate=True)))
    ctx.cov['node_by_id'] = dict(ids=nid, absent_ids=nabs, not_rendered_ids=nforb, duplicated_ids_seen=ndup)

    ctx.log('node-by-id done')
    # ------------------------------------------------------------------ K export-ts
    touts = ctx.rvh_batch(binp, 'export-ts', ["%s\t%s" % (o, d) for d, _, o in docs], per_item_timeout=60)
    ctx.log('export-ts traces collected')
    cases = []
    meta = []
    for (d, name, o), t in zip(docs, touts):
        try:
            r = json.loads(t)
        except (TypeError, ValueError):
            r = {'error': 'unparsable'}
        for it in r.get('items', []):
            nums = it['ts'] + it['abs_ts'] + it['lbbox'] + (it['event_ts'] or [])
            if it['event_ts'] is None or it['none'] or not all(isinstance(x, (int, float)) for x in nums):
                continue
            x, y, w, h = it['lbbox']
            s = it['scale']
            cases.append("(EGroup \"\" %s %s (mkbox %s %s %s %s) [], from_scale %s %s, %s)"
                         % (c12.cts(it['ts']), c12.cts(it['abs_ts']), qstr(x), qstr(y), qstr(c12.f32(x + w)), qstr(c12.f32(y + h)),
                            qstr(s), qstr(s), c12.cts(it['event_ts'])))
            meta.append((d, name, it))
            ctx.note_case("export-ts/%s%s/%s" % (name, it['path'], s))
    ctx.cov['export_ts_cases'] = len(cases)
    if quick and len(cases) > 400:
        keep = sorted(rng.sample(list(range(len(cases))), 400))
        cases = [cases[i] for i in keep]
        meta = [meta[i] for i in keep]
    if cases:
        import concurrent.futures as cf
        CH = 60

        def ev(k):
            body = ("From Coq Require Import String.\nLocal Open Scope Q_scope.\nLocal Open Scope string_scope.\n"
                    "Fixpoint bad_from {A} (f : A -> bool) (l : list A) (i : N) : list N :=\n"
                    "  match l with [] => [] | x :: r => if f x then bad_from f r (N.succ i) else i :: bad_from f r (N.succ i) end.\n"
                    "Definition cases : list (enode * ts * ts) := [\n%s\n].\n"
                    "Eval vm_compute in (bad_from (fun c => match c with (n, tr, ev) => ts_closeb' %s (content_ts n tr) (Some ev) end) cases 0%%N).\n"
                    % (";\n".join(cases[k * CH:(k + 1) * CH]), TOL))
            return ctx.coq_eval('k_export_ts_%d' % k, body, IMPORTS, timeout=900)
        nch = (len(cases) + CH - 1) // CH
        with cf.ThreadPoolExecutor(max_workers=10) as ex:
            results = list(ex.map(ev, range(nch)))
        badl = []
        for k, (rc, out) in enumerate(results):
            bl = ctx.parse_N_list(out) if rc == 0 else None
            if bl is None:
                badl = None
                ctx.log("model evaluation failed:\n" + out[-1500:])
                break
            badl += [k * CH + i for i in bl]
        if badl is None:
            ctx.violation("export-ts: the model no longer evaluates (Model/Export.v)", dict(), found_input=False)
        else:
            rep = 0
            for bi in badl:
                d, name, it = meta[bi]
                src = c12.source_text(d)
                text = ("export-ts: group %r (%s) of %s is drawn by render_node under %s, the model says scale * translate(-box) * abs_transform"
                        % (it['id'], it['path'], name, it['event_ts']))
                rp = dict(op='export-ts', doc=d, item=it)
                if c12.use_transform_class(src):
                    ctx.known_or_violation('use_transform_twice', text, rp)
                elif rep < 3:
                    ctx.violation(text, rp)
                    rep += 1
    ctx.log('export-ts done')
    # ------------------------------------------------------------------ S e2e-C19
    # the reference goes through the writer: documents whose WHOLE tree does not survive write -> parse (C08's business,
    # e.g. COLRv1 glyphs) cannot serve as a reference
    rt_items = []
    rt_idx = []
    for k, ((d, name, o), r) in enumerate(zip(docs, infos)):
        if r is None:
            continue
        W = int(min(1500, max(1, float(r['size'][0]) + 0.999)))
        H = int(min(1500, max(1, float(r['size'][1]) + 0.999)))
        rt_items.append("%s\t%s\t1,0,0,1,0,0\t%s\t1,0,0,1,0,0\t%d\t%d\t1" % (o, d, hexdoc(r['svg']), W, H))
        rt_idx.append(k)
    routs = ctx.rvh_batch(binp, 'render-pair', rt_items, per_item_timeout=60)
    lossy = set()
    for k, o in zip(rt_idx, routs):
        try:
            rr = json.loads(o)
        except (TypeError, ValueError):
            rr = {}
        if 'ndiff' not in rr or rr['nbig'] > 4 or rr['ndiff'] > max(8, rr['nonblank'] // 10):
            lossy.add(k)
    ctx.cov['writer_lossy_documents_skipped'] = len(lossy)
    per = 6 if quick else 60
    payloads = []
    pmeta = []
    nodes_total = 0
    for k, ((d, name, o), r) in enumerate(zip(docs, infos)):
        if r is None or k in lossy:
            continue
        withid = [n for n in r['nodes'] if n['id']]
        counts = {}
        for n in withid:
            counts[n['id']] = counts.get(n['id'], 0) + 1
        uniq = [n for n in withid if counts[n['id']] == 1 and '\t' not in n['id']]
        nodes_total += len(uniq)
        if len(uniq) > (max(per, 12) if name.startswith('gen') else per):      # generated documents: every id
            uniq = rng.sample(uniq, max(per, 12) if name.startswith('gen') else per)
        sd = single_docs(r['svg'], [n['id'] for n in uniq])
        for n in uniq:
            if n['id'] not in sd:
                continue
            for s in ((1,) if 'huge-radius' in name else (1, 2)):
                payloads.append("%s\t%s\t%s\t%s\t%s" % (o, d, n['id'], hexdoc(sd[n['id']]), s))
                pmeta.append((d, name, n, s, sd[n['id']], o))
    ctx.log('single-node documents: %d' % len(payloads))
    eouts = ctx.rvh_batch(binp, 'export-pair', payloads, per_item_timeout=60)
    ctx.log('export-pair done')
    stats = dict(pairs=0, identical=0, within1=0, noisy=0, none=0, skipped=0, nodes_with_unique_id=nodes_total)
    worst = []
    rep = 0
    for (d, name, n, s, sdoc, opts), o in zip(pmeta, eouts):
        try:
            r = json.loads(o)
        except (TypeError, ValueError):
            r = {'error': 'unparsable'}
        if 'skipped' in r:
            stats['skipped'] += 1
            continue
        src = c12.source_text(d)
        rp = dict(op='export-pair', doc=d, opts=opts, id=n['id'], scale=s, single_doc=sdoc, result=r, node=n)
        if r.get('no_layer_box'):
            stats['none'] += 1
            x, y, w, h = r['abs_sbbox']
            ctx.note_case("none/%s/%s" % (name, n['id']))
            if not r['none'] or (w > 0 and h > 0) or r['kind'] == 'g':
                ctx.violation("render_node / abs_layer_bounding_box: 'nothing to render' for %s %r of %s whose absolute stroke box is %s"
                              % (r['kind'], n['id'], name, r['abs_sbbox']), rp)
            continue
        if 'ndiff' not in r:
            if 'crash' in r or 'panic' in r or 'error' in r:
                ctx.violation("export of %r from %s failed: %s" % (n['id'], name, str(r)[:200]), rp)
            continue
        stats['pairs'] += 1
        ctx.note_case("export/%s/%s/%s" % (name, n['id'], s), nontrivial=r['nonblank_b'] > 0)
        if r['max'] == 0:
            stats['identical'] += 1
        elif r['ndiff'] == 0:
            stats['within1'] += 1
        elif pair_ok(r):
            stats['noisy'] += 1
            worst.append((r['ndiff'], r['max'], name, n['id']))
        if pair_ok(r):
            continue
        text = ("export of %s %r from %s at scale %s differs from its part of the full rendering: %d pixels (max delta %d, %d above 72) of %dx%d%s"
                % (r['kind'], n['id'], name, s, r['ndiff'], r['max'], r['nbig'], r['w'], r['h'], ', render_node returned None' if r['none'] else ''))
        if c12.use_transform_class(src):
            ctx.known_or_violation('use_transform_twice', text, rp)
        elif r.get('filter_edge_near_int') and not r['none']:
            ctx.known_or_violation('filter_region_edge_on_pixel_grid', text, rp)
        elif rep < 4:
            ctx.violation(text, rp)
            rep += 1
    worst.sort(reverse=True)
    stats['noise_worst'] = worst[:5]
    ctx.cov['export'] = stats
    if pmeta:
        ctx.add_sample(dict(op='export-pair', doc=pmeta[0][0][:300], id=pmeta[0][2]['id']))

    if not proof_ok and not ctx.violations:
        ctx.violation("C19 proof obligations no longer check: %s %s" % (res['failed'] + res['audit'], [x['name'] + ': ' + str(x['err']) for x in broken]),
                      dict(failed_files=res['failed'], audit=res['audit'], broken_ties=broken, log_tail=res['log'][-3000:]), found_input=False)
    ctx.cov['rule'] = ("every node with a unique id (quick: up to 6 per document, thorough: up to 60) of the corpus sample (quick ~450 files incl. use/symbol/svg/g/"
                       "filter/mask/clipPath/transform; thorough: all) and of generated documents (C12's generator + nested transformed groups with opacity / "
                       "filter / clip-path / mask, stroked and zero-area lines), export transforms identity and scale 2; node-by-id: every id of the tree, the "
                       "source's non-renderable ids, made-up ids and the empty id; export-ts: every isolated group.  Non-trivial: the reference paints a pixel.")


def replay(ctx, path):
    r = json.load(open(path))
    print(json.dumps({k: v for k, v in r.items() if k != 'replay'}, indent=1)[:1500])
    rp = r.get('replay', {})
    print(json.dumps({k: v for k, v in rp.items() if k != 'single_doc'}, indent=1)[:2500])
    if rp.get('op') == 'export-pair':
        binp, _ = ctx.harness('release')
        out = ctx.rvh_batch(binp, 'export-pair', ["%s\t%s\t%s\t%s\t%s" % (rp.get('opts', '-'), rp['doc'], rp['id'], hexdoc(rp['single_doc']), rp['scale'])])[0]
        print("result now:", out)
        try:
            ok = pair_ok(json.loads(out))
        except (TypeError, ValueError):
            ok = False
        print("REPRODUCED" if not ok else "not reproduced")
        return 0 if ok else 1
    if rp.get('op') == 'node-by-id':
        binp, _ = ctx.harness('release')
        print("result now:", ctx.rvh_batch(binp, 'node-by-id', ["%s\t%s\t%s" % (rp.get('opts', '-'), rp['doc'], rp['mismatch'].get('id', ''))])[0])
    return 0
