"""C18  objectBoundingBox definitions resolve to the equivalent user-space definitions."""
import concurrent.futures as cf
import json
import math
import os
import re
from fractions import Fraction

import vlib
from vlib import qstr

NS = 'xmlns="http://www.w3.org/2000/svg" xmlns:xlink="http://www.w3.org/1999/xlink"'
IMPORTS = ['Model.Base', 'Model.GeomPrims', 'Model.StylePrims', 'Model.Corr', 'Model.ObbPrims', 'Gen.LeafObb', 'Model.Obb',
           'Model.ObbChk']
IMPORTS_EXT = IMPORTS + ['Model.ObbFilter', 'Model.ObbFilterChk']
W, H = 240, 200
KINDS = ['lg', 'rg', 'pattern', 'clip', 'mask', 'filter']


def fs(v):
    """number -> attribute text (dyadic values print exactly)"""
    v = float(v)
    return repr(int(v)) if v == int(v) and abs(v) < 1e15 else repr(v)


def dy(rng, lo, hi, den=4):
    return Fraction(int(lo * den) + rng.below(int((hi - lo) * den) + 1), den)


# ------------------------------------------------------------------------------------------------
# transforms
# ------------------------------------------------------------------------------------------------
def gen_ts(rng):
    """(attribute text, matrix as 6 Fractions/floats [sx ky kx sy tx ty]) with exactly representable entries"""
    r = rng.below(6)
    if r == 0:
        return '', [1, 0, 0, 1, 0, 0]
    if r == 1:
        tx, ty = dy(rng, -1, 1, 8), dy(rng, -1, 1, 8)
        return 'translate(%s %s)' % (fs(tx), fs(ty)), [1, 0, 0, 1, tx, ty]
    if r == 2:
        sx, sy = rng.choice([Fraction(1, 2), 2, Fraction(3, 2), -1, Fraction(3, 4)]), rng.choice([Fraction(1, 2), 1, 2, Fraction(5, 4)])
        return 'scale(%s %s)' % (fs(sx), fs(sy)), [sx, 0, 0, sy, 0, 0]
    if r == 3:
        return 'rotate(90)', [0, 1, -1, 0, 0, 0]
    if r == 4:
        k = rng.choice([Fraction(1, 2), Fraction(-1, 4), 1])
        return 'matrix(1 0 %s 1 0 0)' % fs(k), [1, 0, k, 1, 0, 0]
    m = [rng.choice([1, Fraction(1, 2), 2]), rng.choice([0, Fraction(1, 4)]), rng.choice([0, Fraction(-1, 2)]),
         rng.choice([1, Fraction(3, 2)]), dy(rng, -1, 1, 8), dy(rng, -1, 1, 8)]
    return 'matrix(%s)' % ' '.join(fs(v) for v in m), m


def coq_ts(m):
    return '(from_row %s)' % ' '.join(qstr(Fraction(v) if not isinstance(v, float) else v) for v in m)


def coq_rect(b):
    return '{| rx := %s; ry := %s; rw := %s; rh := %s |}' % tuple(qstr(v) for v in b)


def bbox_matrix_text(b):
    return 'matrix(%s 0 0 %s %s %s)' % (fs(b[2]), fs(b[3]), fs(b[0]), fs(b[1]))


# ------------------------------------------------------------------------------------------------
# users
# ------------------------------------------------------------------------------------------------
def gen_user(rng, i, paint):
    kinds = ['rect', 'rect', 'path', 'line', 'text', 'use'] + (['marker', 'inherit'] if paint else ['group', 'groupz', 'groupz'])
    k = rng.choice(kinds)
    x, y = dy(rng, 5, 150, 2), dy(rng, 5, 120, 2)
    w, h = dy(rng, 8, 70, 2), dy(rng, 8, 60, 2)
    return dict(kind=k, id='u%d' % i, x=x, y=y, w=w, h=h)


def user_elem(u, attr):
    """element markup of a user with the reference attribute text `attr` (e.g. fill="url(#d)")"""
    k, uid = u['kind'], u['id']
    x, y, w, h = u['x'], u['y'], u['w'], u['h']
    if k == 'rect':
        return '', '<rect id="%s" x="%s" y="%s" width="%s" height="%s" %s/>' % (uid, fs(x), fs(y), fs(w), fs(h), attr)
    if k == 'path':
        return '', '<path id="%s" d="M %s %s L %s %s L %s %s Z" %s/>' % (uid, fs(x), fs(y), fs(x + w), fs(y), fs(x), fs(y + h), attr)
    if k == 'line':
        return '', '<path id="%s" d="M %s %s L %s %s" %s/>' % (uid, fs(x), fs(y), fs(x + w), fs(y), attr)
    if k == 'text':
        return '', '<text id="%s" x="%s" y="%s" font-family="Noto Sans" font-size="28" %s>Ab</text>' % (uid, fs(x), fs(y + 30), attr)
    if k == 'use':
        return ('<rect id="base_%s" width="%s" height="%s"/>' % (uid, fs(w), fs(h)),
                '<use id="%s" xlink:href="#base_%s" x="%s" y="%s" %s/>' % (uid, uid, fs(x), fs(y), attr))
    if k == 'group':
        return '', ('<g id="%s" %s><rect x="%s" y="%s" width="%s" height="%s"/><rect x="%s" y="%s" width="10" height="12"/></g>'
                    % (uid, attr, fs(x), fs(y), fs(w), fs(h), fs(x + w + 4), fs(y + 3)))
    if k == 'groupz':
        # the object box of a group is the union of its children's boxes INCLUDING child groups (nested g with own opacity /
        # transform) around zero-width or zero-height geometry; only a child group without any content is skipped
        return '', ('<g id="%s" %s><rect x="%s" y="%s" width="%s" height="%s"/>'
                    '<g opacity="0.75"><path d="M %s %s L %s %s" fill="none" stroke="#a03060" stroke-width="3"/></g>'
                    '<g transform="translate(0 2)"><g><path d="M %s %s L %s %s" fill="none" stroke="#30a060" stroke-width="3"/></g></g><g/></g>'
                    % (uid, attr, fs(x), fs(y), fs(w), fs(h), fs(x - 6), fs(y + h + 8), fs(x + w + 12), fs(y + h + 8),
                       fs(x + w + 20), fs(y - 4), fs(x + w + 20), fs(y + h)))
    if k == 'inherit':   # paint inherited from the parent group: resolved with the shape's own box
        return '', ('<g %s><rect id="%s" x="%s" y="%s" width="%s" height="%s"/></g>' % (attr, uid, fs(x), fs(y), fs(w), fs(h)))
    if k == 'marker':
        # a curved outline whose control point lies outside the tight box: the context box of the marker content must be
        # the path's tight bounding box (the one its own fill is resolved with), not the box of the control points
        return ('<marker id="mk_%s" markerUnits="userSpaceOnUse" markerWidth="24" markerHeight="24" refX="12" refY="12" overflow="visible">'
                '<rect width="24" height="24" fill="context-fill" stroke="none"/></marker>' % uid,
                '<path id="%s" d="M %s %s Q %s %s %s %s L %s %s L %s %s Z" marker-start="url(#mk_%s)" marker-end="url(#mk_%s)" %s/>'
                % (uid, fs(x), fs(y + h), fs(x + w / 2), fs(y - h), fs(x + w), fs(y + h), fs(x + w), fs(y + 2 * h), fs(x), fs(y + 2 * h), uid, uid, attr))
    raise ValueError(k)


def exact_box(u):
    """bounding box of the user when it is known exactly, else None (text, use: read from the dump)"""
    k = u['kind']
    if k in ('rect', 'path', 'inherit'):
        return [u['x'], u['y'], u['w'], u['h']]
    if k == 'marker':
        # M (x, y+h) Q (x+w/2, y-h) (x+w, y+h): the curve peaks at y + h - h = y (t = 1/2: (y+h)/4 + (y-h)/2 + (y+h)/4 = y)
        return [u['x'], u['y'], u['w'], 2 * u['h']]
    if k == 'line':
        return [u['x'], u['y'], u['w'], Fraction(0)]
    if k == 'groupz':
        # rect (x, y, w, h)  U  horizontal line y+h+8 from x-6 to x+w+12  U  vertical line x+w+20 from y-4+2 to y+h+2
        x1, x2 = u['x'] - 6, u['x'] + u['w'] + 20
        y1, y2 = u['y'] - 2, u['y'] + u['h'] + 8
        return [x1, y1, x2 - x1, y2 - y1]
    if k == 'group':
        x2 = max(u['x'] + u['w'], u['x'] + u['w'] + 14)
        y1 = min(u['y'], u['y'] + 3)
        y2 = max(u['y'] + u['h'], u['y'] + 15)
        return [u['x'], y1, x2 - u['x'], y2 - y1]
    return None


# ------------------------------------------------------------------------------------------------
# definitions: objectBoundingBox form (doc A) and the form mapped through a box (doc B)
# ------------------------------------------------------------------------------------------------
FR = [Fraction(0), Fraction(1, 4), Fraction(1, 2), Fraction(3, 4), Fraction(1), Fraction(-1, 4), Fraction(5, 4)]
STOPS = '<stop offset="0" stop-color="#e02020"/><stop offset="0.5" stop-color="#20c040"/><stop offset="1" stop-color="#2030e0"/>'


def frac_attr(rng, v):
    """a bbox fraction written as a number or as a percentage"""
    return (fs(v * 100) + '%') if rng.below(3) == 0 else fs(v)


def gen_def(rng, kind):
    tt, tm = gen_ts(rng)
    d = dict(kind=kind, ts_text=tt, ts=tm, href=rng.below(3) == 0)
    if kind in ('lg', 'rg'):
        # every attribute with a non-default value; href templates of either kind (1-3 levels) carrying the inheritable
        # attributes gradientUnits / spreadMethod / stops (gradientTransform stays on the element: usvg does not inherit it)
        d['gunits'] = 'user' if rng.below(4) == 0 else 'obb'
        d['spread'] = rng.choice(['pad', 'reflect', 'repeat'])
        levels = rng.below(4)
        d['chain'] = [rng.choice(['lg', 'rg']) for _ in range(levels)]
        lv = list(range(1, levels + 1))
        d['units_at'] = rng.choice((['self'] if d['gunits'] == 'user' else ['none', 'self']) + lv)
        d['spread_at'] = 'none' if d['spread'] == 'pad' else rng.choice(['self'] + lv)
        d['href'] = levels > 0
    if kind == 'lg':
        if d['gunits'] == 'user':
            d['c'] = [Fraction(20), Fraction(10), Fraction(180), Fraction(120)]
        else:
            d['c'] = [rng.choice(FR) for _ in range(4)]
            if d['c'][0] == d['c'][2] and d['c'][1] == d['c'][3]:
                d['c'][2] = d['c'][0] + Fraction(1, 2)
    elif kind == 'rg':
        if d['gunits'] == 'user':
            d['c'] = [Fraction(100), Fraction(80), Fraction(70), Fraction(rng.choice([100, 80, 120])), Fraction(rng.choice([80, 70]))]
        else:
            cx, cy = rng.choice([Fraction(1, 2), Fraction(1, 4), Fraction(3, 4)]), rng.choice([Fraction(1, 2), Fraction(1, 4)])
            d['c'] = [cx, cy, rng.choice([Fraction(1, 2), Fraction(1, 4), Fraction(3, 4), Fraction(1)]),
                      rng.choice([cx, cx - Fraction(1, 8), cx + Fraction(1, 8)]), rng.choice([cy, cy + Fraction(1, 8)])]   # cx cy r fx fy
    elif kind == 'pattern':
        d['rect'] = [rng.choice([Fraction(0), Fraction(1, 8), Fraction(-1, 8)]), rng.choice([Fraction(0), Fraction(1, 4)]),
                     rng.choice([Fraction(1, 4), Fraction(1, 2), Fraction(3, 8)]), rng.choice([Fraction(1, 4), Fraction(1, 2)])]
        d['cu'] = rng.choice(['user', 'obb'])
        d['vb'] = rng.choice([None, None, '0 0 20 10', '0 0 8 8'])
        # patternUnits of both kinds: a user-space tile with objectBoundingBox content (and a viewBox) is resolved too
        d['units'] = rng.choice(['obb', 'obb', 'user'])
        if d['units'] == 'user':
            d['rect'] = [Fraction(rng.choice([0, 2, -3])), Fraction(rng.choice([0, 1])), Fraction(rng.choice([24, 16, 12])), Fraction(rng.choice([16, 10]))]
            d['cu'] = 'obb' if rng.below(4) else 'user' 
        d['par'] = rng.choice(['', 'none', 'xMinYMax slice'])
    elif kind == 'clip':
        d['shape'] = rng.choice(['rect', 'circle'])
        d['link'] = rng.choice([None, None, 'obb-obb', 'obb-user', 'user-obb'])   # units of (this, linked)
    elif kind == 'mask':
        d['units'] = rng.choice(['obb', 'obb', 'user'])
        d['cu'] = 'obb' if d['units'] == 'user' else rng.choice(['user', 'obb'])
        d['rect'] = rng.choice([None, [Fraction(0), Fraction(0), Fraction(1), Fraction(1)],
                                [Fraction(1, 4), Fraction(1, 8), Fraction(1, 2), Fraction(3, 4)]])
        d['link'] = rng.choice([None, None, None, 'obb'])
    elif kind == 'filter':
        d['units'] = rng.choice(['obb', 'obb', 'user'])
        d['pu'] = 'obb' if d['units'] == 'user' else rng.choice(['user', 'obb'])
        d['rect'] = rng.choice([None, [Fraction(-1, 4), Fraction(-1, 4), Fraction(3, 2), Fraction(3, 2)],
                                [Fraction(0), Fraction(0), Fraction(1), Fraction(1)]])
        d['prim'] = rng.choice(['blur', 'blur1', 'offset', 'flood', 'offset-sub', 'shadow', 'shadow1', 'morph', 'morph1', 'displace',
                                'morphz', 'morphzz', 'morphn', 'morpha'])   # zero / one-zero radii (4d36085), negative / absent radius (e3b9753)
        d['p'] = [rng.choice([Fraction(1, 16), Fraction(1, 8), Fraction(1, 32)]), rng.choice([Fraction(1, 16), Fraction(1, 8)])]
        d['sub'] = [Fraction(1, 8), Fraction(1, 4), Fraction(1, 2), Fraction(1, 2)]
        d['fhref'] = rng.choice([None, None, 'own', 'own-only', 'inherit'])
        if d['prim'] == 'displace' and d['rect'] is None and d['units'] == 'obb':
            d['rect'] = [Fraction(-1, 4), Fraction(-1, 4), Fraction(3, 2), Fraction(3, 2)]     # exact in f32: no ceil flip of the region
    return d


def ts_attr(name, text):
    return ' %s="%s"' % (name, text) if text else ''


def def_markup_A(rng, d):
    """objectBoundingBox definition with id `d` (+ helper definitions)"""
    k = d['kind']
    t = d['ts_text']
    if k in ('lg', 'rg'):
        TAG = {'lg': 'linearGradient', 'rg': 'radialGradient'}
        tag = TAG[k]
        names = ('x1', 'y1', 'x2', 'y2') if k == 'lg' else ('cx', 'cy', 'r', 'fx', 'fy')
        wr = (lambda v: fs(v)) if d['gunits'] == 'user' else (lambda v: frac_attr(rng, v))
        coords = ''.join(' %s="%s"' % (n, wr(v)) for n, v in zip(names, d['c']))
        units_text = 'userSpaceOnUse' if d['gunits'] == 'user' else 'objectBoundingBox'

        def own(level):
            a = ''
            if d['units_at'] == level:
                a += ' gradientUnits="%s"' % units_text
            if d['spread_at'] == level:
                a += ' spreadMethod="%s"' % d['spread']
            return a
        n = len(d['chain'])
        out = ''
        for lvl in range(n, 0, -1):
            kk = d['chain'][lvl - 1]
            inner = STOPS if lvl == n else ''
            href = ' xlink:href="#t%d"' % (lvl + 1) if lvl < n else ''
            out += '<%s id="t%d"%s%s>%s</%s>' % (TAG[kk], lvl, href, own(lvl), inner, TAG[kk])
        href = ' xlink:href="#t1"' if n else ''
        out += '<%s id="d"%s%s%s%s>%s</%s>' % (tag, href, coords, own('self'), ts_attr('gradientTransform', t), '' if n else STOPS, tag)
        return out
    if k == 'pattern':
        r = d['rect']
        if d.get('units') == 'user':
            a = ' patternUnits="userSpaceOnUse" x="%s" y="%s" width="%s" height="%s"' % tuple(fs(v) for v in r)
        else:
            a = ' x="%s" y="%s" width="%s" height="%s"' % tuple(frac_attr(rng, v) for v in r)
        a += ts_attr('patternTransform', t)
        if d['cu'] == 'obb':
            a += ' patternContentUnits="objectBoundingBox"'
        if d['vb']:
            a += ' viewBox="%s"' % d['vb']
            if d['par']:
                a += ' preserveAspectRatio="%s"' % d['par']
        return '<pattern id="d"%s>%s</pattern>' % (a, pattern_content(d))
    if k == 'clip':
        inner = ''
        link = ''
        units = 'objectBoundingBox'
        if d['link']:
            mine, theirs = d['link'].split('-')
            units = 'objectBoundingBox' if mine == 'obb' else 'userSpaceOnUse'
            iu = 'objectBoundingBox' if theirs == 'obb' else 'userSpaceOnUse'
            inner = '<clipPath id="inner" clipPathUnits="%s">%s</clipPath>' % (iu, clip_shape('circle', theirs == 'obb'))
            link = ' clip-path="url(#inner)"'
        return inner + '<clipPath id="d" clipPathUnits="%s"%s%s>%s</clipPath>' % (
            units, ts_attr('transform', t if units == 'objectBoundingBox' else ''), link, clip_shape(d['shape'], units == 'objectBoundingBox'))
    if k == 'mask':
        a = ''
        if d['units'] == 'user':
            a += ' maskUnits="userSpaceOnUse" x="0" y="0" width="%d" height="%d"' % (W, H)
        elif d['rect']:
            a += ' x="%s" y="%s" width="%s" height="%s"' % tuple(frac_attr(rng, v) for v in d['rect'])
        if d['cu'] == 'obb':
            a += ' maskContentUnits="objectBoundingBox"'
        inner = ''
        if d['link']:
            inner = ('<mask id="inner" maskContentUnits="objectBoundingBox"><rect x="0" y="0" width="0.75" height="1" fill="white"/></mask>')
            a += ' mask="url(#inner)"'
        return inner + '<mask id="d"%s>%s</mask>' % (a, mask_content(d['cu'] == 'obb'))
    if k == 'filter':
        a = ''
        if d['units'] == 'user':
            a += ' filterUnits="userSpaceOnUse" x="0" y="0" width="%d" height="%d"' % (W, H)
        elif d['rect']:
            a += ' x="%s" y="%s" width="%s" height="%s"' % tuple(frac_attr(rng, v) for v in d['rect'])
        PU = {'obb': 'objectBoundingBox', 'user': 'userSpaceOnUse'}
        fh = d.get('fhref')
        if not fh:
            if d['pu'] == 'obb':
                a += ' primitiveUnits="objectBoundingBox"'
            return '<filter id="d"%s>%s</filter>' % (a, filter_prims(d, None))
        # the primitives come from an href template; primitiveUnits is resolved from the referenced filter ITSELF first
        # (own attribute), then along the href chain (SVG rules; the effective value is d['pu'])
        other = 'user' if d['pu'] == 'obb' else 'obb'
        if fh == 'own':          # own attribute wins over a contradicting template
            own, tpl = ' primitiveUnits="%s"' % PU[d['pu']], ' primitiveUnits="%s"' % PU[other]
        elif fh == 'own-only':   # own attribute, template silent
            own, tpl = ' primitiveUnits="%s"' % PU[d['pu']], ''
        else:                    # inherited from the template
            own, tpl = '', ' primitiveUnits="%s"' % PU[d['pu']]
        return ('<filter id="ft"%s>%s</filter><filter id="d" xlink:href="#ft"%s%s/>' % (tpl, filter_prims(d, None), a, own))
    raise ValueError(k)


def pattern_content(d):
    if d['vb']:
        return '<rect width="6" height="5" fill="#c03030"/><circle cx="12" cy="6" r="3" fill="#3040c0"/>'
    if d['cu'] == 'obb':
        return '<rect width="0.125" height="0.125" fill="#c03030"/><circle cx="0.25" cy="0.125" r="0.0625" fill="#3040c0"/>'
    return '<rect width="6" height="5" fill="#c03030"/><circle cx="12" cy="6" r="3" fill="#3040c0"/>'


def clip_shape(shape, obb):
    if obb:
        return '<rect x="0.125" y="0.25" width="0.75" height="0.5"/>' if shape == 'rect' else '<circle cx="0.5" cy="0.5" r="0.375"/>'
    return ('<rect x="10" y="10" width="%d" height="%d"/>' % (W - 60, H - 60)) if shape == 'rect' else '<circle cx="100" cy="90" r="85"/>'


def mask_content(obb):
    if obb:
        return '<rect x="0.125" y="0" width="0.75" height="0.75" fill="white"/><rect x="0.5" y="0.5" width="0.5" height="0.5" fill="#808080"/>'
    return '<rect x="0" y="0" width="%d" height="%d" fill="#c0c0c0"/>' % (W, H)


def filter_prims(d, B):
    """primitives of the filter; B = None: as written in doc A, else mapped through the box B"""
    pu_obb = d['pu'] == 'obb'
    p0, p1 = d['p']
    sub = d['sub']
    if B is None or not pu_obb:
        sx, sy = (p0, p1) if pu_obb else (p0 * 32, p1 * 32)
        suba = ' x="%s" y="%s" width="%s" height="%s"' % tuple(fs(v) for v in sub) if pu_obb else ' x="20" y="10" width="150" height="140"'
    else:
        sx, sy = p0 * B[2], p1 * B[3]
        suba = ' x="%s" y="%s" width="%s" height="%s"' % (fs(sub[0] * B[2] + B[0]), fs(sub[1] * B[3] + B[1]), fs(sub[2] * B[2]), fs(sub[3] * B[3]))
    k = d['prim']
    # one-number forms stand for both axes: under objectBoundingBox primitive units the two axes scale differently
    if B is None or not pu_obb:
        s1x = s1y = None
    else:
        s1x, s1y = p0 * B[2], p0 * B[3]
    one = (lambda: fs(sx)) if s1x is None else (lambda: '%s %s' % (fs(s1x), fs(s1y)))
    if k == 'blur1':
        return '<feGaussianBlur stdDeviation="%s"/>' % one()
    if k == 'shadow':
        return '<feDropShadow dx="%s" dy="%s" stdDeviation="%s %s" flood-color="#203040"/>' % (fs(sx), fs(sy), fs(sx), fs(sy))
    if k == 'shadow1':
        return '<feDropShadow dx="%s" dy="%s" stdDeviation="%s" flood-color="#203040"/>' % (fs(sx), fs(sy), one())
    if k == 'morph':
        return '<feMorphology operator="dilate" radius="%s %s"/>' % (fs(sx), fs(sy))
    if k == 'morph1':
        return '<feMorphology operator="dilate" radius="%s"/>' % one()
    if k == 'morphz':       # one radius zero: replaced by 1 AFTER the mapping through the box, in both documents
        return '<feMorphology operator="dilate" radius="0 %s"/>' % fs(sy)
    if k == 'morphzz':
        return '<feMorphology operator="dilate" radius="0 0"/>'
    if k == 'morphn':       # a negative component: the fallback radius is 1 user unit in both documents
        return '<feMorphology operator="dilate" radius="%s %s"/>' % (fs(-sx), fs(sy))
    if k == 'morpha':       # no radius: 1 user unit in both documents
        return '<feMorphology operator="dilate"/>'
    if k == 'displace':
        sc = sx if (B is None or not pu_obb) else p0 * (B[2] + B[3]) / 2
        return '<feDisplacementMap in="SourceGraphic" in2="SourceGraphic" scale="%s" xChannelSelector="B" yChannelSelector="A"/>' % fs(sc)
    if k == 'blur':
        return '<feGaussianBlur stdDeviation="%s %s"/>' % (fs(sx), fs(sy))
    if k == 'offset':
        return '<feOffset dx="%s" dy="%s"/>' % (fs(sx), fs(sy))
    if k == 'offset-sub':
        return '<feOffset dx="%s" dy="%s"%s/>' % (fs(sx), fs(sy), suba)
    return '<feFlood flood-color="#d04010" flood-opacity="0.5"%s/><feMerge><feMergeNode/><feMergeNode in="SourceGraphic"/></feMerge>' % suba


def mapped(r, B):
    return [r[0] * B[2] + B[0], r[1] * B[3] + B[1], r[2] * B[2], r[3] * B[3]]


def def_markup_B(d, i, B):
    """the same definition rewritten in userSpaceOnUse with its coordinates mapped through B, under id d<i>"""
    k = d['kind']
    t = d['ts_text']
    bm = bbox_matrix_text(B)
    if k in ('lg', 'rg'):
        tag = 'linearGradient' if k == 'lg' else 'radialGradient'
        names = ('x1', 'y1', 'x2', 'y2') if k == 'lg' else ('cx', 'cy', 'r', 'fx', 'fy')
        coords = ''.join(' %s="%s"' % (n, fs(v)) for n, v in zip(names, d['c']))
        sm = ' spreadMethod="%s"' % d['spread']
        # effective units by the SVG href rules (taken from the source document, not from the parsed tree):
        # userSpaceOnUse -> the definition is independent of the box; objectBoundingBox -> mapped through B
        gt = ('%s' % t) if d['gunits'] == 'user' else ('%s %s' % (bm, t))
        return '<%s id="d%d" gradientUnits="userSpaceOnUse"%s%s%s>%s</%s>' % (tag, i, coords, sm, ts_attr('gradientTransform', gt.strip()), STOPS, tag)
    if k == 'pattern':
        r = mapped(d['rect'], B) if d.get('units') != 'user' else d['rect']
        a = ' patternUnits="userSpaceOnUse" x="%s" y="%s" width="%s" height="%s"' % tuple(fs(v) for v in r) + ts_attr('patternTransform', t)
        content = pattern_content(d)
        if d['vb']:
            a += ' viewBox="%s"' % d['vb']
            if d['par']:
                a += ' preserveAspectRatio="%s"' % d['par']
        elif d['cu'] == 'obb':
            content = '<g transform="scale(%s %s)">%s</g>' % (fs(B[2]), fs(B[3]), content)
        return '<pattern id="d%d"%s>%s</pattern>' % (i, a, content)
    if k == 'clip':
        inner = ''
        link = ''
        mine_obb = True
        if d['link']:
            mine, theirs = d['link'].split('-')
            mine_obb = mine == 'obb'
            its = ' transform="%s"' % bm if theirs == 'obb' else ''
            inner = '<clipPath id="inner%d"%s>%s</clipPath>' % (i, its, clip_shape('circle', theirs == 'obb'))
            link = ' clip-path="url(#inner%d)"' % i
        ts = ' transform="%s %s"' % (t, bm) if mine_obb else ''
        return inner + '<clipPath id="d%d"%s%s>%s</clipPath>' % (i, ts, link, clip_shape(d['shape'], mine_obb))
    if k == 'mask':
        if d['units'] == 'user':
            r = [0, 0, W, H]
        else:
            r = mapped(d['rect'] or [Fraction(-1, 10), Fraction(-1, 10), Fraction(12, 10), Fraction(12, 10)], B)
        a = ' maskUnits="userSpaceOnUse" x="%s" y="%s" width="%s" height="%s"' % tuple(fs(v) for v in r)
        content = mask_content(d['cu'] == 'obb')
        if d['cu'] == 'obb':
            content = '<g transform="%s">%s</g>' % (bm, content)
        inner = ''
        if d['link']:
            ir = mapped([Fraction(-1, 10), Fraction(-1, 10), Fraction(12, 10), Fraction(12, 10)], B)
            inner = ('<mask id="inner%d" maskUnits="userSpaceOnUse" x="%s" y="%s" width="%s" height="%s"><g transform="%s">'
                     '<rect x="0" y="0" width="0.75" height="1" fill="white"/></g></mask>' % ((i,) + tuple(fs(v) for v in ir) + (bm,)))
            a += ' mask="url(#inner%d)"' % i
        return inner + '<mask id="d%d"%s>%s</mask>' % (i, a, content)
    if k == 'filter':
        if d['units'] == 'user':
            r = [0, 0, W, H]
        else:
            r = mapped(d['rect'] or [Fraction(-1, 10), Fraction(-1, 10), Fraction(12, 10), Fraction(12, 10)], B)
        a = ' filterUnits="userSpaceOnUse" x="%s" y="%s" width="%s" height="%s"' % tuple(fs(v) for v in r)
        return '<filter id="d%d"%s>%s</filter>' % (i, a, filter_prims(d, B))
    raise ValueError(k)


REF_ATTR = {'lg': 'fill', 'rg': 'fill', 'pattern': 'fill', 'clip': 'clip-path', 'mask': 'mask', 'filter': 'filter'}


def ref_markup(d, u, target):
    """attribute text that applies definition `target` (an id) to user u"""
    k = d['kind']
    if k in ('lg', 'rg', 'pattern'):
        if u['kind'] == 'line':
            return 'fill="none" stroke="url(#%s) #008000" stroke-width="4"' % target
        return 'fill="url(#%s)"' % target
    extra = ' fill="#205080"'
    if u['kind'] == 'line':
        extra = ' fill="none" stroke="#205080" stroke-width="4"'
    return '%s="url(#%s)"%s' % (REF_ATTR[k], target, extra)


def box_free(d):
    """a definition in which nothing is objectBoundingBox: the element's box plays no role (also when it is empty)"""
    if d['kind'] in ('lg', 'rg'):
        return d.get('gunits') == 'user'
    return d['kind'] == 'pattern' and d.get('units') == 'user' and d['cu'] == 'user'


def fallback_markup(d, u):
    """what an element with an empty box must look like in the hand-mapped document"""
    if d['kind'] == 'pattern' and d.get('units') == 'user':
        # user-space tile with objectBoundingBox content: the unit test at parse time passes, the post-pass cannot
        # resolve the content and removes the paint (element not rendered; the fallback colour is not used)
        return 'fill="none" stroke="none"'
    if d['kind'] in ('lg', 'rg', 'pattern'):
        return 'fill="none" stroke="#008000" stroke-width="4"'
    return 'display="none"'


# (round-5 seed C18-15) ordinary elements whose ids look like generated ones: the copies made for the users must avoid them
DECOYS = ''.join('<rect id="%s1" x="0" y="0" width="1" height="1" fill="#fefefe"/>' % n
                 for n in ('linearGradient', 'radialGradient', 'pattern', 'clipPath', 'mask', 'filter'))


def doc_A(rng, d, users):
    defs = def_markup_A(rng, d)
    body = DECOYS
    for u in users:
        dm, em = user_elem(u, ref_markup(d, u, 'd'))
        defs += dm
        body += em
    return '<svg %s width="%d" height="%d"><defs>%s</defs>%s</svg>' % (NS, W, H, defs, body)


def doc_B(d, users, boxes):
    defs = ''
    body = DECOYS
    for i, (u, B) in enumerate(zip(users, boxes)):
        if box_free(d) and B is not None:
            defs += def_markup_B(d, i, B)
            dm, em = user_elem(u, ref_markup(d, u, 'd%d' % i))
        elif B is None or B[2] <= 0 or B[3] <= 0:
            dm, em = user_elem(u, fallback_markup(d, u))
        else:
            defs += def_markup_B(d, i, B)
            dm, em = user_elem(u, ref_markup(d, u, 'd%d' % i))
        defs += dm
        body += em
    return '<svg %s width="%d" height="%d"><defs>%s</defs>%s</svg>' % (NS, W, H, defs, body)


# ------------------------------------------------------------------------------------------------
# reading dumps
# ------------------------------------------------------------------------------------------------
def find_nodes(dump):
    """id -> node (groups, paths, texts of the main tree, incl. flattened text excluded)"""
    out = {}

    def rec(n, parent):
        if n.get('id'):
            out.setdefault(n['id'], (n, parent))
        if n['t'] == 'g':
            for c in n['children']:
                rec(c, n)
    rec(dump['root'], None)
    return out


def user_box_from_dump(u, nodes):
    ent = nodes.get(u['id'])
    if ent is None:
        return None
    n, parent = ent
    b = n['bbox']
    if u['kind'] == 'use' and n['t'] == 'g':
        # object box of a `use` in the coordinate system of the element the property is attached to (its group)
        return None if any(isinstance(v, str) for v in b) else [Fraction(v) for v in b]
    return None if any(isinstance(v, str) for v in b) else [Fraction(v) for v in b]


def user_paint(u, nodes):
    """the paint definition of user u in a dump (dict from dump.rs) or None / 'color'"""
    ent = nodes.get(u['id'])
    if ent is None:
        return None
    n, _ = ent
    key = 'stroke' if u['kind'] == 'line' else 'fill'
    if n['t'] == 'text':
        sp = n['chunks'][0]['spans'][0]
        f = sp.get('fill')
    elif n['t'] == 'g':
        # use: the referenced shape inside the group
        def first_path(g):
            for c in g['children']:
                if c['t'] == 'path':
                    return c
                if c['t'] == 'g':
                    r = first_path(c)
                    if r:
                        return r
            return None
        p = first_path(n)
        f = p.get(key) if p else None
    else:
        f = n.get(key)
    if not f:
        return None
    return f['paint']


def user_group_def(u, nodes, key):
    """clip / mask / filter attached to user u (the user node itself if it is a group, else its wrapping group)"""
    ent = nodes.get(u['id'])
    if ent is None:
        return None
    n, parent = ent
    g = n if n['t'] == 'g' else parent
    if g is None:
        return None
    if key == 'filter':
        return g['filters'][0] if g.get('filters') else None
    return g.get(key)


def close(a, b, tol=1e-4):
    if isinstance(a, str) or isinstance(b, str):
        return a == b
    return abs(a - b) <= tol * max(1.0, abs(a), abs(b))


def lists_close(a, b):
    return len(a) == len(b) and all(close(x, y) for x, y in zip(a, b))


def def_numbers(kind, o):
    """the numbers of a resolved definition that the two documents must agree on"""
    if o is None:
        return None
    if kind in ('lg', 'rg'):
        if o.get('k') == 'color':
            return ['color'] + o['rgb']
        d = o['def']
        base = [d[k] for k in (('x1', 'y1', 'x2', 'y2') if 'x1' in d else ('cx', 'cy', 'r', 'fx', 'fy'))]
        stops = []
        for st in d['stops']:
            stops += [st['offset'], st['opacity']] + list(st['rgb'])
        return base + d['ts'] + [d['spread']] + stops
    if kind == 'pattern':
        if o.get('k') == 'color':
            return ['color'] + o['rgb']
        d = o['def']
        return d['rect'] + d['ts'] + content_numbers(d['root'])
    if kind == 'clip':
        out = o['ts'] + content_numbers(o['root'])
        if o.get('clip'):
            out += o['clip']['ts'] + content_numbers(o['clip']['root'])
        return out
    if kind == 'mask':
        out = o['rect'] + content_numbers(o['root'])
        if o.get('mask'):
            out += o['mask']['rect'] + content_numbers(o['mask']['root'])
        return out
    if kind == 'filter':
        out = list(o['rect'])
        for p in o['primitives']:
            out += p['rect']
            kk = p['kind']
            for key in ('sx', 'sy', 'dx', 'dy', 'rx', 'ry', 'scale'):
                if key in kk:
                    out.append(kk[key])
        return out
    raise ValueError(kind)


def mul_ts(a, b):
    return [a[0] * b[0] + a[2] * b[1], a[1] * b[0] + a[3] * b[1], a[0] * b[2] + a[2] * b[3], a[1] * b[2] + a[3] * b[3],
            a[0] * b[4] + a[2] * b[5] + a[4], a[1] * b[4] + a[3] * b[5] + a[5]]


def content_numbers(root):
    """how the content of a definition is placed: for every path the product of the local transforms above it (the
    stored abs_transform of pattern content is not updated by push_pattern_transform, so it is not used) and its box"""
    out = []

    def rec(n, acc):
        if n['t'] == 'path':
            out.extend(acc)
            out.extend(n['bbox'])
        elif n['t'] == 'g':
            t = n['ts']
            if any(isinstance(v, str) for v in t) or any(isinstance(v, str) for v in acc):
                a2 = ['nan'] * 6
            else:
                a2 = mul_ts(acc, t)
            for c in n['children']:
                rec(c, a2)
    rec(root, [1.0, 0.0, 0.0, 1.0, 0.0, 0.0])
    return out


# ------------------------------------------------------------------------------------------------
# nested content (F25): a shared user-space pattern / mask whose content is painted with an objectBoundingBox gradient
# ------------------------------------------------------------------------------------------------
def gen_nested(rng):
    n = 1 + rng.below(3)
    users = [dict(kind='rect', id='u%d' % j, x=dy(rng, 5, 150, 2), y=dy(rng, 5, 120, 2), w=dy(rng, 20, 70, 2), h=dy(rng, 20, 60, 2))
             for j in range(n)]
    return dict(kind='nested', outer=rng.choice(['pattern', 'mask', 'pattern-obb', 'pattern-obb']), users=users, cw=rng.choice([8, 12, 16]),
                ch=rng.choice([8, 10]))


def nested_docs(c):
    cw, ch = c['cw'], c['ch']
    grad_a = '<linearGradient id="g">%s</linearGradient>' % STOPS
    grad_b = ('<linearGradient id="g" gradientUnits="userSpaceOnUse" x1="0" y1="0" x2="1" y2="0" gradientTransform="matrix(%d 0 0 %d 2 1)">%s</linearGradient>'
              % (cw, ch, STOPS))
    if c['outer'] == 'pattern-obb':
        # an objectBoundingBox pattern (cloned per user) whose content is painted with an objectBoundingBox gradient
        content = '<rect x="2" y="1" width="%d" height="%d" fill="url(#g)"/>' % (cw, ch)
        outer = '<pattern id="d" x="0" y="0" width="0.5" height="0.5">%s</pattern>' % content
        body = ''.join(user_elem(u, 'fill="url(#d)"')[1] for u in c['users'])
        defs_b = ''
        body_b = ''
        for i, u in enumerate(c['users']):
            r = mapped([Fraction(0), Fraction(0), Fraction(1, 2), Fraction(1, 2)], exact_box(u))
            defs_b += ('<pattern id="d%d" patternUnits="userSpaceOnUse" x="%s" y="%s" width="%s" height="%s">%s</pattern>'
                       % ((i,) + tuple(fs(v) for v in r) + (content,)))
            body_b += user_elem(u, 'fill="url(#d%d)"' % i)[1]
        da = '<svg %s width="%d" height="%d"><defs>%s%s</defs>%s</svg>' % (NS, W, H, grad_a, outer, body)
        db = '<svg %s width="%d" height="%d"><defs>%s%s</defs>%s</svg>' % (NS, W, H, grad_b, defs_b, body_b)
        return da, db
    if c['outer'] == 'pattern':
        outer = ('<pattern id="d" patternUnits="userSpaceOnUse" width="%d" height="%d"><rect x="2" y="1" width="%d" height="%d" fill="url(#g)"/></pattern>'
                 % (cw + 6, ch + 4, cw, ch))
        attr = 'fill="url(#d)"'
    else:
        outer = ('<mask id="d" maskUnits="userSpaceOnUse" x="0" y="0" width="%d" height="%d"><rect x="2" y="1" width="%d" height="%d" fill="url(#g)"/>'
                 '<rect x="0" y="%d" width="%d" height="60" fill="white"/></mask>' % (W, H, cw * 10, ch * 10, ch * 10, W))
        grad_b = ('<linearGradient id="g" gradientUnits="userSpaceOnUse" x1="0" y1="0" x2="1" y2="0" gradientTransform="matrix(%d 0 0 %d 2 1)">%s</linearGradient>'
                  % (cw * 10, ch * 10, STOPS))
        attr = 'mask="url(#d)" fill="#205080"'
    body = ''.join(user_elem(u, attr)[1] for u in c['users'])
    da = '<svg %s width="%d" height="%d"><defs>%s%s</defs>%s</svg>' % (NS, W, H, grad_a, outer, body)
    db = '<svg %s width="%d" height="%d"><defs>%s%s</defs>%s</svg>' % (NS, W, H, grad_b, outer, body)
    return da, db


# ------------------------------------------------------------------------------------------------
# known classes (predicates on the generated case)
# ------------------------------------------------------------------------------------------------
def distinct_boxes(boxes):
    """two users whose boxes differ (an empty box counts as a box of its own)"""
    bs = [tuple(float(v) for v in b) if (b is not None and b[2] > 0 and b[3] > 0) else None for b in boxes]
    return len(set(bs)) >= 2


def known_class(d, users, boxes):
    k = d['kind']
    # (a cacheable clipPath/mask linking an objectBoundingBox one, F18, is fixed by 18adf92: those cases must pass)
    if k == 'filter' and d['pu'] == 'obb' and d['prim'] == 'offset-sub':
        return 'primitive-subregion-obb'
    if k == 'nested' and len(users) >= 2 and d['outer'] in ('pattern', 'mask'):      # shared USER-SPACE definition only
        return 'shared-def-nested-obb'
    return None


# ------------------------------------------------------------------------------------------------
# Coq items for the correspondence
# ------------------------------------------------------------------------------------------------
def idnum(s):
    m = re.match(r"^(?:linearGradient|radialGradient|pattern|clipPath|mask|filter)(\d+)$", s)
    if m:
        return int(m.group(1))
    return {'d': 1000, 'inner': 1001, 'base': 1002, 't1': 1003, 't2': 1004, 't3': 1005}.get(s, 2000 + (hash(s) % 1000))


def fts(t):
    return '(from_row %s)' % ' '.join(qstr(v) for v in t)


def frect(r):
    return '{| rx := %s; ry := %s; rw := %s; rh := %s |}' % tuple(qstr(v) for v in r)


def oq(v):
    return 'None' if v is None else '(Some %s)' % qstr(v)


def coq_bad(ctx, name, typ, chk, items, shard=300, jobs=8, imports=None):
    if not items:
        return []
    chunks = [(k, items[i:i + shard]) for k, i in enumerate(range(0, len(items), shard))]

    def one(arg):
        k, its = arg
        body = ("Local Open Scope Q_scope.\nDefinition cases : list (%s) := [\n%s\n].\n"
                "Eval vm_compute in (bad_indices %s cases).\n" % (typ, ";\n".join(its), chk))
        rc, out = ctx.coq_eval('%s_%d' % (name, k), body, imports or IMPORTS, timeout=900)
        bl = ctx.parse_N_list(out) if rc == 0 else None
        if bl is None:
            ctx.log("model evaluation %s_%d failed:\n%s" % (name, k, out[-1200:]))
            return None
        return [k * shard + b for b in bl]
    with cf.ThreadPoolExecutor(max_workers=jobs) as ex:
        res = list(ex.map(one, chunks))
    if any(r is None for r in res):
        return None
    return sorted(sum(res, []))


def first_child_group_ts(root):
    gs = [c for c in root['children'] if c['t'] == 'g']
    return gs[0]['ts'] if len(gs) == 1 and len(root['children']) == 1 else None


def jload(o):
    try:
        return json.loads(o)
    except (TypeError, ValueError):
        return {'error': 'unparsable harness output'}


def nonzero(B):
    return B is not None and B[2] > 0 and B[3] > 0


# ------------------------------------------------------------------------------------------------
# extension round 4: sequences of users over two filters / two masks of one document (conversion caches, primitiveUnits scaling)
# ------------------------------------------------------------------------------------------------
CACHE_IDS = {'f1': 1001, 'f2': 1002, 'm1': 1003, 'm2': 1004}
PVALS = [Fraction(0), Fraction(1, 16), Fraction(1, 8), Fraction(1, 4), Fraction(2), Fraction(3), Fraction(-1, 8)]


def cache_idnum(s):
    if s in CACHE_IDS:
        return CACHE_IDS[s]
    m = re.match(r"^(?:mask|filter)(\d+)$", s)
    return int(m.group(1)) if m else 999999


def coq_units(u):
    return 'ObjectBoundingBox' if u == 'obb' else 'UserSpaceOnUse'


def gen_cache_prim(rng):
    """(markup, Coq fparam, reader of the dumped kind -> Coq rparam)"""
    k = rng.choice(['blur1', 'blur2', 'blur3', 'offset', 'offset1', 'shadow', 'shadow0', 'morph1', 'morph2', 'morph0', 'displace', 'displace0'])
    a, b, c = rng.choice(PVALS), rng.choice(PVALS), rng.choice(PVALS)
    S = lambda v: '(Some %s)' % qstr(v)
    rd2 = lambda ctor, k1, k2: (lambda kk: '(%s %s %s)' % (ctor, qstr(Fraction(kk[k1])), qstr(Fraction(kk[k2]))))
    if k == 'blur1':
        return '<feGaussianBlur stdDeviation="%s"/>' % fs(a), 'FP_blur %s None None' % S(a), rd2('RP_blur', 'sx', 'sy')
    if k == 'blur2':
        return '<feGaussianBlur stdDeviation="%s %s"/>' % (fs(a), fs(b)), 'FP_blur %s %s None' % (S(a), S(b)), rd2('RP_blur', 'sx', 'sy')
    if k == 'blur3':
        return ('<feGaussianBlur stdDeviation="%s %s %s"/>' % (fs(a), fs(b), fs(c)), 'FP_blur %s %s %s' % (S(a), S(b), S(c)), rd2('RP_blur', 'sx', 'sy'))
    if k == 'offset':
        return '<feOffset dx="%s" dy="%s"/>' % (fs(a), fs(b)), 'FP_offset %s %s' % (S(a), S(b)), rd2('RP_offset', 'dx', 'dy')
    if k == 'offset1':
        return '<feOffset dy="%s"/>' % fs(b), 'FP_offset None %s' % S(b), rd2('RP_offset', 'dx', 'dy')
    rd4 = lambda kk: '(RP_shadow %s %s %s %s)' % tuple(qstr(Fraction(kk[x])) for x in ('dx', 'dy', 'sx', 'sy'))
    if k == 'shadow':
        return ('<feDropShadow dx="%s" dy="%s" stdDeviation="%s"/>' % (fs(a), fs(b), fs(c)), 'FP_shadow %s %s %s None None' % (S(a), S(b), S(c)), rd4)
    if k == 'shadow0':        # no stdDeviation: the default text "2 2"; no dx: 2
        return '<feDropShadow dy="%s"/>' % fs(b), 'FP_shadow None %s (Some 2) (Some 2) None' % S(b), rd4
    if k == 'morph1':
        return '<feMorphology operator="dilate" radius="%s"/>' % fs(a), 'FP_morph (Some [%s])' % qstr(a), rd2('RP_morph', 'rx', 'ry')
    if k == 'morph2':
        return ('<feMorphology radius="%s %s"/>' % (fs(a), fs(b)), 'FP_morph (Some [%s; %s])' % (qstr(a), qstr(b)), rd2('RP_morph', 'rx', 'ry'))
    if k == 'morph0':
        return '<feMorphology operator="dilate"/>', 'FP_morph None', rd2('RP_morph', 'rx', 'ry')
    rd1 = lambda kk: '(RP_displace %s)' % qstr(Fraction(kk['scale']))
    if k == 'displace':
        return ('<feDisplacementMap in="SourceGraphic" in2="SourceGraphic" scale="%s" xChannelSelector="R"/>' % fs(a), 'FP_displace %s' % S(a), rd1)
    return '<feDisplacementMap in="SourceGraphic" in2="SourceGraphic"/>', 'FP_displace None', rd1


def gen_cache_case(rng):
    UN = {'obb': 'objectBoundingBox', 'user': 'userSpaceOnUse'}
    defs, filters, masks = '', [], []
    for k, fid in enumerate(('f1', 'f2')):
        units = 'user' if (k == 0 and rng.below(4)) else rng.choice(['obb', 'user'])
        pu = 'user' if (k == 0 and rng.below(4)) else rng.choice(['obb', 'user'])
        rect = [Fraction(0), Fraction(0), Fraction(200), Fraction(160)] if units == 'user' else \
            rng.choice([[Fraction(-1, 4), Fraction(-1, 4), Fraction(3, 2), Fraction(3, 2)], [Fraction(0), Fraction(0), Fraction(1), Fraction(1)]])
        mk, fpar, rd = gen_cache_prim(rng)
        defs += '<filter id="%s" filterUnits="%s" primitiveUnits="%s" x="%s" y="%s" width="%s" height="%s">%s</filter>' % (
            (fid, UN[units], UN[pu]) + tuple(fs(v) for v in rect) + (mk,))
        term = ('{| fe_id := %d; fe_units := %s; fe_punits := %s; fe_rect := %s; fe_prims := [ {| fp_kind := PK_Other; fp_x := None; fp_y := None; '
                'fp_w := None; fp_h := None; fp_par := %s |} ] |}' % (CACHE_IDS[fid], coq_units(units), coq_units(pu), frect(rect), fpar))
        filters.append(dict(id=fid, term=term, rd=rd))
    link = rng.below(2) == 0
    for k, mid in enumerate(('m1', 'm2')):
        units = 'user' if (k == 0 and rng.below(4)) else rng.choice(['obb', 'user'])
        cu = 'user' if (k == 0 and rng.below(4)) else rng.choice(['obb', 'user'])
        rect = [Fraction(0), Fraction(0), Fraction(200), Fraction(160)] if units == 'user' else \
            rng.choice([[Fraction(1, 4), Fraction(1, 8), Fraction(1, 2), Fraction(3, 4)], [Fraction(0), Fraction(0), Fraction(1), Fraction(1)]])
        content = '<rect x="0" y="0" width="0.75" height="1" fill="white"/>' if cu == 'obb' else '<rect x="0" y="0" width="150" height="160" fill="white"/>'
        defs += '<mask id="%s" maskUnits="%s" maskContentUnits="%s" x="%s" y="%s" width="%s" height="%s"%s>%s</mask>' % (
            (mid, UN[units], UN[cu]) + tuple(fs(v) for v in rect) + (' mask="url(#m2)"' if (k == 0 and link) else '', content))
        masks.append('{| me_id := %d; me_units := %s; me_cunits := %s; me_rect := %s; me_content := true |}'
                     % (CACHE_IDS[mid], coq_units(units), coq_units(cu), frect(rect)))
    chains = {'m1': '[%s]' % (';'.join(masks) if link else masks[0]), 'm2': '[%s]' % masks[1]}
    users, body = [], ''
    for j in range(2 + rng.below(4)):
        x, y = dy(rng, 0, 100, 2), dy(rng, 0, 80, 2)
        w, h = Fraction(8 + 4 * rng.below(12)), Fraction(8 + 4 * rng.below(10))
        line = rng.below(7) == 0
        what = rng.choice(['f1', 'f2', 'm1', 'm2', 'f1', 'm1'])
        attr = 'filter' if what[0] == 'f' else 'mask'
        if line:
            shape = '<path d="M %s %s h %s" stroke="black" stroke-width="4"/>' % (fs(x), fs(y), fs(w))
            box = None
        else:
            shape = '<rect x="%s" y="%s" width="%s" height="%s" fill="green"/>' % (fs(x), fs(y), fs(w), fs(h))
            box = [x, y, w, h]
        body += '<g id="u%d" %s="url(#%s)">%s</g>' % (j, attr, what, shape)
        users.append(dict(id='u%d' % j, what=what, box=box))
    doc = '<svg %s width="%d" height="%d"><defs>%s</defs>%s%s</svg>' % (NS, W, H, defs, DECOYS, body)
    return dict(doc=doc, filters=filters, chains=chains, users=users)


def cache_items(c, tree):
    """Coq items (filter users, mask users) of one generated cache case from its dump"""
    nodes = find_nodes(tree)
    fus, mus = [], []
    for u in c['users']:
        ent = nodes.get(u['id'])
        g = ent[0] if ent and ent[0]['t'] == 'g' else None
        bt = '(Some %s)' % frect(u['box']) if u['box'] else 'None'
        if u['what'][0] == 'f':
            f = [x for x in c['filters'] if x['id'] == u['what']][0]
            o = g['filters'][0] if g and g.get('filters') else None
            if o is None:
                obs = 'None'
            else:
                obs = '(Some (%d%%N, %s, %s))' % (cache_idnum(o['id']), frect([Fraction(v) for v in o['rect']]), f['rd'](o['primitives'][0]['kind']))
            fus.append('(%s, %s, %s)' % (f['term'], bt, obs))
        else:
            o = g.get('mask') if g else None
            if o is None:
                obs = 'None'
            else:
                l = []
                while o:
                    ch = o['root']['children']
                    l.append('(%d%%N, %s, %s, %s)' % (cache_idnum(o['id']), frect([Fraction(v) for v in o['rect']]),
                                                     'true' if (ch and ch[0]['t'] == 'g') else 'false', 'true' if ch else 'false'))
                    o = o.get('mask')
                obs = '(Some [%s])' % ';'.join(l)
            mus.append('(%s, %s, %s)' % (c['chains'][u['what']], bt, obs))
    taken = '[1%N; 1001%N; 1002%N; 1003%N; 1004%N]'
    return ('(%s, [%s])' % (taken, ';'.join(fus)) if fus else None, '(%s, [%s])' % (taken, ';'.join(mus)) if mus else None)


def run(ctx):
    rng = ctx.rng
    quick = ctx.tier == 'quick'
    ctx.cov['trusted_base'] = vlib.BASE_TRUSTED + [
        "tools/gen_obb.py (slices of geom.rs / paint_server.rs / clippath.rs / mask.rs / filter.rs translated by rs2coq; shape anchors)",
        "tiny-skia-path Transform::from_bbox / pre_concat / post_concat, NonZeroRect::from_xywh, Rect::to_non_zero_rect: hand-modelled "
        "(Model/ObbPrims.v), validated by the obb-resolve correspondence",
        "Arc reference counts are modelled as the number of holders in the user list (Model/Obb.v); the cache of converted clip paths as an "
        "association list",
        "tools/props/c18.py: document generators, the hand mapping of definitions through a box, dump readers, tolerances",
        "Model/ObbPrims.v positive_new / Qapprox_zero / Qsign_positive (strict-num PositiveF32::new, usvg approx_zero_ulps, is_sign_positive over "
        "exact rationals; -0.0 and f32 overflow not distinguished); caches of converted filters / masks as association lists (Model/ObbFilter.v), "
        "validated by the filter-users / mask-users correspondence",
    ]
    ctx.assumptions = [
        "exact rational arithmetic; implementation compared within 1e-4 relative tolerance",
        "C18_shared_users: all users hold the same definition (cell 0) when the post-pass starts; zero-area shapes hold no reference "
        "(usvg applies the paint fallback at parse time)",
        "C18_nested_content_resolved covers user-space patterns; reference counts inside a pattern's content are counted within that content",
        "feFlood/feImage sub-regions are compared only when all four of x, y, width, height are given",
    ]
    broken = ctx.translate()
    res = ctx.coq_props(extra_targets=['Model/ObbChk.v', 'Model/ObbFilterChk.v'])
    proof_ok = res['ok'] and not broken
    binp, blog = ctx.harness('release')
    if binp is None:
        ctx.violation("harness does not build against the current tree (correspondence cannot run)",
                      dict(build_log=blog[-2000:]), found_input=False)
        return

    ncase = 1200 if quick else 12000
    cases = []
    for i in range(ncase):
        kind = KINDS[i % 6] if i % 13 else 'nested'
        if kind == 'nested':
            c = gen_nested(rng)
            da, db = nested_docs(c)
            cases.append(dict(d=c, users=c['users'], docA=da, docB=db))
            continue
        d = gen_def(rng, kind)
        if kind == 'mask' and rng.below(6) == 0:
            d.update(units='user', cu='user', link='obb', rect=None)     # cacheable mask in front of an objectBoundingBox one (F18 shape)
        users = [gen_user(rng, j, kind in ('lg', 'rg', 'pattern')) for j in range(1 + rng.below(4))]
        cases.append(dict(d=d, users=users, docA=doc_A(rng, d, users)))
    outsA = ctx.rvh_batch(binp, 'dump', ["-\t" + c['docA'] for c in cases])
    # boxes, hand-mapped documents
    for c, o in zip(cases, outsA):
        t = jload(o)
        c['A'] = t
        if 'root' not in t:
            continue
        nodes = find_nodes(t)
        c['nodesA'] = nodes
        boxes = []
        for u in c['users']:
            eb = exact_box(u)
            boxes.append(eb if eb is not None else user_box_from_dump(u, nodes))
        c['boxes'] = boxes
        if c['d']['kind'] != 'nested':
            c['docB'] = doc_B(c['d'], c['users'], boxes)
    live = [c for c in cases if 'docB' in c]
    for c in cases:
        if 'docB' not in c:
            ctx.violation("objectBoundingBox document failed in the parser: %s" % str(c['A'])[:200], dict(kind='s-obb', docA=c['docA']))
    outsB = ctx.rvh_batch(binp, 'dump', ["-\t" + c['docB'] for c in live])
    rp = ctx.rvh_batch(binp, 'render-pair', ["-\t%s\t1,0,0,1,0,0\t%s\t1,0,0,1,0,0\t%d\t%d\t1" % (c['docA'], c['docB'], W, H) for c in live])

    # ---------------------------------------------------------------- S: objectBoundingBox document vs hand-mapped document
    kinds_hist = {}
    skipped_f4 = [0]
    noise = dict(max_delta=0, max_ndiff=0)
    for c, ob, r in zip(live, outsB, rp):
        d, users, boxes = c['d'], c['users'], c['boxes']
        kind = d['kind']
        tb = jload(ob)
        r = jload(r)
        c['B'] = tb
        f4 = False
        if 'root' in tb and 'panic' in r and re.search(r"assertion failed: src\.(width|height) ==", str(r.get('panic', ''))) \
                and re.search(r"filter/(composite|lighting|displacement_map)\.rs", str(r.get('at', ''))):
            # the renderer's filter-size assert (C02/C13 known class filter-size-assert, F4) fired while rendering the pair:
            # not a C18 matter; the pixels cannot be compared, the definition numbers still are
            f4 = True
            skipped_f4[0] += 1
            r = dict(ndiff=0, nbig=0, max=0, nonblank=1)
        if 'root' not in tb or 'ndiff' not in r:
            ctx.violation("hand-mapped document failed: %s %s" % (str(tb)[:120], str(r)[:120]), dict(kind='s-obb', docA=c['docA'], docB=c['docB']))
            continue
        na, nb = c['nodesA'], find_nodes(tb)
        probs = []
        if kind == 'nested':
            for u in users:
                ga = nested_inner_numbers(c['A'])
                gb = nested_inner_numbers(tb)
                if ga != gb and not (ga and gb and lists_close(ga, gb)):
                    probs.append((u['id'], 'nested gradient', ga, gb))
                    break
        else:
            for u, B in zip(users, boxes):
                if kind in ('lg', 'rg', 'pattern'):
                    a, b = user_paint(u, na), user_paint(u, nb)
                else:
                    a, b = user_group_def(u, na, kind), user_group_def(u, nb, kind)
                if not nonzero(B) and not box_free(d):
                    # empty box: fallback paint / element not rendered; never a definition resolved with a degenerate box
                    ok = True
                    if kind in ('lg', 'rg', 'pattern'):
                        ok = a is None or a.get('k') == 'color'
                    elif kind == 'mask':
                        # masked completely: some mask of the chain has no content
                        chain = []
                        m = a
                        while m:
                            chain.append(m)
                            m = m.get('mask')
                        ok = a is None or any(not m['root']['children'] for m in chain)
                    else:
                        ok = a is None
                    if not ok:
                        probs.append((u['id'], 'definition on an element without a box', def_numbers(kind, a), None))
                    continue
                xa, xb = def_numbers(kind, a), def_numbers(kind, b)
                if (xa is None) != (xb is None) or (xa is not None and not lists_close(xa, xb)):
                    probs.append((u['id'], u['kind'], xa, xb))
        if kind in ('lg', 'rg', 'pattern') and any(u['kind'] == 'marker' for u in users):
            pa_, pb_ = all_paint_numbers(c['A']), all_paint_numbers(tb)
            if len(pa_) != len(pb_) or any(not lists_close(x, y) for x, y in zip(pa_, pb_)):
                probs.append(('marker', 'paints of the marker content (context-fill)', pa_[:4], pb_[:4]))
        # distinct definition objects carry distinct ids (every user has its own resolution under its own id)
        if kind != 'nested':
            seen_ids = {}
            node_ids = set(na.keys())        # ids of the renderable nodes of the main tree (users, decoys with generated-looking ids)
            for u in users:
                o = user_paint(u, na) if kind in ('lg', 'rg', 'pattern') else user_group_def(u, na, kind)
                chain = []
                if o is not None and kind in ('lg', 'rg', 'pattern'):
                    if o.get('k') != 'color':
                        chain.append(o['def'])
                while o is not None and kind in ('clip', 'mask'):
                    chain.append(o)
                    o = o.get(kind)
                if o is not None and kind == 'filter':
                    chain.append(o)
                for dd in chain:
                    if dd['id'] in node_ids:
                        probs.append((u['id'], 'a definition shares the id %s with an ordinary element' % dd['id'], None, None))
                    if seen_ids.setdefault(dd['id'], dd['ptr']) != dd['ptr']:
                        probs.append((u['id'], 'two definitions share the id %s' % dd['id'], None, None))
        pix_bad = r['ndiff'] > 0 and pixel_safe(d, boxes)
        noise['max_delta'] = max(noise['max_delta'], r['max'] if not pix_bad else 0)
        kinds_hist[kind] = kinds_hist.get(kind, 0) + 1
        ctx.note_case('s/' + c['docA'], nontrivial=r.get('nonblank', 0) > 0)
        if probs or pix_bad:
            cls = known_class(d, users, boxes)
            text = ("objectBoundingBox %s differs from the definition mapped through the element's box: %s%s"
                    % (kind, [(p[0], p[1]) for p in probs[:3]],
                       "; %d pixels differ (max delta %d)" % (r['ndiff'], r['max']) if pix_bad else ''))
            rep = dict(kind='s-obb', docA=c['docA'], docB=c['docB'], problems=str(probs[:4])[:1500], pixels=r, case=str(d)[:600])
            if cls:
                ctx.known_or_violation(cls, text, rep)
            else:
                ctx.violation(text, rep)
            if len(ctx.violations) > 10:
                break
    ctx.cov['oracle'] = dict(cases=len(live), kinds=kinds_hist, pixel_tolerance=1, max_delta_on_passing=noise['max_delta'], skipped_f4_assert=skipped_f4[0],
                             known_classes_hit=[c for c, _ in ctx.known_hits])
    if live:
        ctx.add_sample(dict(op='s-obb', docA=live[0]['docA'][:400]))

    # must-pass regression inputs (former witnesses of the feMorphology defects repaired by 4d36085 and e3b9753): the objectBoundingBox
    # document and the same filters with primitiveUnits=userSpaceOnUse and the radius mapped through the 50x20 box give the same tree
    wdir = os.path.join(os.path.dirname(os.path.dirname(os.path.dirname(os.path.abspath(__file__)))), 'corpus', 'witness')
    ctx.cov['oracle']['witnesses'] = {}
    for wname, subst in (('C18-morphology-zero-radius-obb.svg', [('radius="0 3"', 'radius="0 60"')]),
                         ('C18-morphology-default-radius-obb.svg', [('radius="-1 3"', 'radius="-50 60"')])):
        try:
            wa = open(os.path.join(wdir, wname)).read().strip().replace('\n', ' ')
        except OSError:
            wa = None
        if wa is None or 'primitiveUnits="objectBoundingBox"' not in wa or any(x not in wa for x, _ in subst):
            ctx.violation("regression input corpus/witness/%s is missing or was changed" % wname, dict(kind='s-witness'), found_input=False)
            continue
        wb = wa.replace('primitiveUnits="objectBoundingBox"', 'primitiveUnits="userSpaceOnUse"')
        for x, y in subst:
            wb = wb.replace(x, y)
        wo = [jload(o) for o in ctx.rvh_batch(binp, 'dump', ["-\t" + wa, "-\t" + wb])]

        def wnum(t):
            fl = []

            def rec(n):
                for f in n.get('filters') or []:
                    fl.append(def_numbers('filter', f))
                for c in n.get('children') or []:
                    rec(c)
            if 'root' in t:
                rec(t['root'])
            return fl
        na_, nb_ = wnum(wo[0]), wnum(wo[1])
        ctx.note_case('s/witness-' + wname, nontrivial=bool(na_))
        if not na_ or len(na_) != len(nb_) or any(not lists_close(x, y) for x, y in zip(na_, nb_)):
            ctx.violation("feMorphology radius under primitiveUnits=objectBoundingBox differs from the mapped user-space primitive "
                          "(regression input %s): %s vs %s" % (wname, str(na_)[:200], str(nb_)[:200]), dict(kind='s-obb', docA=wa, docB=wb))
        ctx.cov['oracle']['witnesses'][wname] = dict(obb=str(na_)[:160], mapped=str(nb_)[:160])

    # ---------------------------------------------------------------- K: dumped definitions vs the model (inside Coq)
    g_items, gt_items, p_items, cu_items, ce_items, r_items, fb_items, pr_items = [], [], [], [], [], [], [], []
    g_idx, gt_idx, p_idx, cu_idx, ce_idx, r_idx, fb_idx, pr_idx = [], [], [], [], [], [], [], []
    for ci, c in enumerate(live):
        d, users, boxes = c['d'], c['users'], c['boxes']
        kind = d['kind']
        na = c['nodesA']
        if kind in ('lg', 'rg') and d['gunits'] == 'obb':
            simple = all(u['kind'] in ('rect', 'path', 'inherit', 'line') for u in users)
            holders = []
            for u, B in zip(users, boxes):
                pa = user_paint(u, na)
                if u['kind'] == 'marker':
                    continue
                if nonzero(B) and pa and pa.get('k') in ('lg', 'rg'):
                    gt_items.append('(%s, %s, %s)' % (fts(d['ts']), frect(B), fts(pa['def']['ts'])))
                    gt_idx.append(ci)
                if simple and nonzero(B):
                    obs = 'None' if not pa or pa.get('k') == 'color' else '(Some (%d%%N, %s))' % (idnum(pa['def']['id']), fts(pa['def']['ts']))
                    holders.append('(%s, %s)' % (frect(B), obs))
            if simple and holders:
                g_items.append('(%s, 1000%%N, [1%%N; 1000%%N; 1002%%N; 1003%%N; 1004%%N; 1005%%N], [%s])' % (fts(d['ts']), ';'.join(holders)))
                g_idx.append(ci)
        elif kind == 'pattern':
            for u, B in zip(users, boxes):
                pa = user_paint(u, na)
                if u['kind'] == 'marker' or not nonzero(B):
                    continue
                if pa and pa.get('k') == 'pattern':
                    obs_rect = '(Some %s)' % frect(pa['def']['rect'])
                    ct = first_child_group_ts(pa['def']['root']) if (d['cu'] == 'obb' and not d['vb']) else None
                    obs_ct = '(Some %s)' % fts(ct) if ct else 'None'
                else:
                    obs_rect, obs_ct = 'None', 'None'
                p_items.append('(%s, %s, %s, %s, %s)' % ('UserSpaceOnUse' if d.get('units') == 'user' else 'ObjectBoundingBox',
                                                         frect(d['rect']), frect(B), obs_rect, obs_ct))
                p_idx.append(ci)
        elif kind == 'clip':
            if all(u['kind'] in ('rect', 'path', 'group', 'groupz', 'line') for u in users):
                chain = []
                if d['link']:
                    mine, theirs = d['link'].split('-')
                    chain.append((1000, mine, d['ts'] if mine == 'obb' else [1, 0, 0, 1, 0, 0]))
                    chain.append((1001, theirs, [1, 0, 0, 1, 0, 0]))
                else:
                    chain.append((1000, 'obb', d['ts']))
                chain_t = '[%s]' % ';'.join('{| ce_id := %d; ce_units := %s; ce_ts := %s |}'
                                            % (i_, 'ObjectBoundingBox' if u_ == 'obb' else 'UserSpaceOnUse', fts(t_)) for i_, u_, t_ in chain)
                us_t = []
                for u, B in zip(users, boxes):
                    a = user_group_def(u, na, 'clip')
                    bt = '(Some %s)' % frect(B) if nonzero(B) else 'None'
                    if a is None:
                        us_t.append('(%s, None)' % bt)
                    else:
                        l = [(idnum(a['id']), a['ts'])]
                        if a.get('clip'):
                            l.append((idnum(a['clip']['id']), a['clip']['ts']))
                        us_t.append('(%s, Some [%s])' % (bt, ';'.join('(%d%%N, %s)' % (i_, fts(t_)) for i_, t_ in l)))
                cu_items.append('([1%%N; 1000%%N; 1001%%N], %s, [%s])' % (chain_t, ';'.join(us_t)))
                cu_idx.append(ci)
                ce_items.append('(%s, [%s])' % (chain_t, ';'.join(us_t)))
                ce_idx.append(ci)
        elif kind == 'mask':
            for u, B in zip(users, boxes):
                a = user_group_def(u, na, 'mask')
                if not nonzero(B) or a is None:
                    continue
                if d['units'] == 'obb':
                    rect = d['rect'] or [Fraction(-1, 10), Fraction(-1, 10), Fraction(12, 10), Fraction(12, 10)]
                    r_items.append('(ObjectBoundingBox, %s, %s, Some %s)' % (frect(rect), frect(B), frect(a['rect'])))
                    r_idx.append(ci)
                if d['cu'] == 'obb':
                    ct = first_child_group_ts(a['root'])
                    if ct:
                        fb_items.append('(%s, %s)' % (frect(B), fts(ct)))
                        fb_idx.append(ci)
        elif kind == 'filter':
            for u, B in zip(users, boxes):
                a = user_group_def(u, na, 'filter')
                if not nonzero(B) or a is None:
                    continue
                if d['units'] == 'obb':
                    rect = d['rect'] or [Fraction(-1, 10), Fraction(-1, 10), Fraction(12, 10), Fraction(12, 10)]
                    r_items.append('(ObjectBoundingBox, %s, %s, Some %s)' % (frect(rect), frect(B), frect(a['rect'])))
                    r_idx.append(ci)
                if d['pu'] == 'obb' and d['prim'] in ('flood', 'offset-sub'):
                    pk = 'PK_FloodOrImage' if d['prim'] == 'flood' else 'PK_Other'
                    sub = d['sub']
                    pr_items.append('(%s, ObjectBoundingBox, %s, %s, %s, %s, Some %s, %s, Some %s)'
                                    % (pk, oq(sub[0]), oq(sub[1]), oq(sub[2]), oq(sub[3]), frect(B), frect(a['rect']),
                                       frect(a['primitives'][0]['rect'])))
                    pr_idx.append(ci)
    specs = [
        ('gradient-users', 'ts * N * list N * list (qrect * option (N * ts))', 'chk_gradient_users', g_items, g_idx),
        ('gradient-ts', 'ts * qrect * ts', 'chk_gradient_ts', gt_items, gt_idx),
        ('pattern', 'units_ * qrect * qrect * option qrect * option ts', 'chk_pattern', p_items, p_idx),
        ('clip-users', 'list N * csrc * list (option qrect * option (list (N * ts)))', 'chk_clip_users', cu_items, cu_idx),
        ('region', 'units_ * qrect * qrect * option qrect', 'chk_region', r_items, r_idx),
        ('mask-content', 'qrect * ts', 'chk_from_bbox', fb_items, fb_idx),
        ('primitive-region', 'prim_kind * units_ * option Q * option Q * option Q * option Q * option qrect * qrect * option qrect',
         'chk_prim', pr_items, pr_idx),
    ]
    model_ok = True
    for name, typ, chk, items, idx in specs:
        bad = coq_bad(ctx, 'k_' + name.replace('-', '_'), typ, chk, items)
        ctx.cov.setdefault('correspondence', {})[name] = len(items)
        if bad is None:
            model_ok = False
            ctx.violation("C18 model (%s) no longer evaluates: correspondence cannot run" % name, dict(kind='k-' + name), found_input=False)
            continue
        for b in bad[:3]:
            c = live[idx[b]]
            ctx.violation("model and implementation disagree on objectBoundingBox resolution (%s)" % name,
                          dict(kind='k-' + name, docA=c['docA'], coq_item=items[b], case=str(c['d'])[:600]))
    # extension round 4: sequences of users over cacheable / non-cacheable filters and mask chains of one document
    ccases = [gen_cache_case(rng) for _ in range(120 if quick else 1200)]
    couts = ctx.rvh_batch(binp, 'dump', ["-\t" + c['doc'] for c in ccases])
    fu_items, fu_idx, mu_items, mu_idx = [], [], [], []
    for ci, (c, o) in enumerate(zip(ccases, couts)):
        t = jload(o)
        if 'root' not in t:
            ctx.violation("cache-users document failed in the parser: %s" % str(t)[:200], dict(kind='k-cache-users', docA=c['doc']))
            continue
        ctx.note_case('cache/' + c['doc'], nontrivial=True)
        fi, mi = cache_items(c, t)
        if fi:
            fu_items.append(fi)
            fu_idx.append(ci)
        if mi:
            mu_items.append(mi)
            mu_idx.append(ci)
    for name, typ, chk, items, idx in (
            ('filter-users', 'list N * list (felem * option qrect * option (N * qrect * rparam))', 'chk_filter_users', fu_items, fu_idx),
            ('mask-users', 'list N * list (msrc * option qrect * option (list (N * qrect * bool * bool)))', 'chk_mask_users', mu_items, mu_idx)):
        bad = coq_bad(ctx, 'k_' + name.replace('-', '_'), typ, chk, items, shard=60, imports=IMPORTS_EXT)
        ctx.cov.setdefault('correspondence', {})[name] = len(items)
        if bad is None:
            model_ok = False
            ctx.violation("C18 model (%s) no longer evaluates: correspondence cannot run" % name, dict(kind='k-' + name), found_input=False)
            continue
        for b in bad[:3]:
            c = ccases[idx[b]]
            ctx.violation("model and implementation disagree on the users of shared filters / masks (%s: ids through the conversion cache, "
                          "regions, primitiveUnits scaling)" % name, dict(kind='k-' + name, docA=c['doc'], coq_item=items[b]))
    # the per-user expectation for clip chains (what the property demands): F18 shows up here
    bad = coq_bad(ctx, 'k_clip_expected', 'csrc * list (option qrect * option (list (N * ts)))', 'chk_clip_expected', ce_items)
    if bad is None:
        model_ok = False
    else:
        for b in bad[:6]:
            c = live[ce_idx[b]]
            cls = known_class(c['d'], c['users'], c['boxes'])
            text = "clip path chain of a user is not the chain resolved for that user's box"
            rep = dict(kind='k-clip-expected', docA=c['docA'], coq_item=ce_items[b], case=str(c['d'])[:600])
            if cls:
                ctx.known_or_violation(cls, text, rep)
            else:
                ctx.violation(text, rep)

    # ---------------------------------------------------------------- proofs / ties broke: search the model
    if not proof_ok:
        found = bool(ctx.violations)
        if not found and model_ok:
            items = []
            for _ in range(300):
                tt, tm = gen_ts(rng)
                boxes = [[dy(rng, 0, 100, 2), dy(rng, 0, 100, 2), dy(rng, 0, 60, 2), dy(rng, 0, 60, 2)] for _ in range(1 + rng.below(4))]
                items.append('(%s, [%s])' % (fts(tm), ';'.join(frect(b) for b in boxes)))
            bad = coq_bad(ctx, 'm_shared', 'ts * list qrect', 'thm_shared', items)
            for b in (bad or [])[:1]:
                ctx.violation("model counterexample to C18_shared_users (source-derived leaves)", dict(kind='m-shared', coq_item=items[b]))
                found = True
            items = ['(%s, %s)' % (frect([dy(rng, -1, 1, 8), dy(rng, -1, 1, 8), dy(rng, 0, 2, 8), dy(rng, 0, 2, 8)]),
                                   frect([dy(rng, 0, 100, 2), dy(rng, 0, 100, 2), dy(rng, 0, 60, 2), dy(rng, 0, 60, 2)])) for _ in range(300)]
            bad = coq_bad(ctx, 'm_bbox', 'qrect * qrect', 'thm_bbox_map', items)
            for b in (bad or [])[:1]:
                ctx.violation("model counterexample to C18_bbox_transform_is_map", dict(kind='m-bbox', coq_item=items[b]))
                found = True
        if not found and model_ok:
            # C18_primitive_params_equiv over the regenerated filter slices
            items = []
            for _ in range(300):
                par = gen_cache_prim(rng)[1]
                items.append('(%s, %s)' % (par, frect([dy(rng, 0, 100, 2), dy(rng, 0, 100, 2), dy(rng, 1, 60, 2), dy(rng, 1, 60, 2)])))
            bad = coq_bad(ctx, 'm_params', 'fparam * qrect', 'thm_params', items, imports=IMPORTS_EXT)
            for b in (bad or [])[:1]:
                ctx.violation("model counterexample to C18_primitive_params_equiv (source-derived filter slices): parameters under "
                              "primitiveUnits=objectBoundingBox differ from the primitive mapped through the box", dict(kind='m-params', coq_item=items[b]))
                found = True
        if not found:
            ctx.violation("C18 proof obligations no longer check: %s %s" % (res['failed'] + res['audit'], [b['name'] for b in broken]),
                          dict(failed_files=res['failed'], audit=res['audit'], broken_ties=broken, log_tail=res['log'][-3000:]),
                          found_input=False)
    ctx.cov['rule'] = (
        "generated documents: one definition of each kind (linear/radial gradient, pattern, clipPath, mask, filter; href inheritance, "
        "transforms, pattern viewBox, content / primitive units of both kinds, percentages) applied to 1..4 elements (rect, path, "
        "zero-height line, text, use instance, group, inherited paint, marker content via context-fill) with random boxes; plus shared "
        "user-space patterns/masks with objectBoundingBox paint inside.  oracle: dump numbers (1e-4) and pixels (tolerance 1) of the "
        "document vs the same definitions rewritten per element in userSpaceOnUse with coordinates mapped through the element's box.  "
        "correspondence: the dumped resolved definitions (ids, transforms, regions) vs Model/Obb.v evaluated in Coq.  Non-trivial = the "
        "rendering is not blank; distinct by document text.")


def all_paint_numbers(tree):
    """transform (+ rect) of every gradient / pattern used by a path of the main tree, in document order"""
    out = []

    def rec(n):
        if n['t'] == 'g':
            for c in n['children']:
                rec(c)
        elif n['t'] == 'path':
            for key in ('fill', 'stroke'):
                f = n.get(key)
                if f and f['paint'].get('k') in ('lg', 'rg', 'pattern'):
                    d = f['paint']['def']
                    out.append(list(d['ts']) + list(d.get('rect', [])))
    rec(tree['root'])
    return out


def pixel_safe(d, boxes):
    """Layer / filter-region sizes are rounded outwards to whole pixels (floor / ceil), so a region whose edge or size is
    a whole number in exact arithmetic can land on either side after f32 rounding (57.000004 vs 57.0: measured, 50-60 edge
    pixels differ).  Pixels are compared only when the default (-10%, 120%: not dyadic) region is not in that situation;
    the definition numbers are compared in every case."""
    if d['kind'] not in ('mask', 'filter') or d.get('units') != 'obb':
        return True
    for B in boxes:
        if not nonzero(B):
            continue
        exact = d.get('rect') is not None and all(Fraction(v).denominator in (1, 2) for v in B)
        if exact:
            continue        # dyadic fractions of half-integer boxes: the f32 computation is exact
        r = mapped(d.get('rect') or [Fraction(-1, 10), Fraction(-1, 10), Fraction(12, 10), Fraction(12, 10)], B)
        for v in (r[0], r[1], r[2], r[3], r[0] + r[2], r[1] + r[3]):
            f = v - math.floor(v)
            if f < Fraction(1, 50) or f > Fraction(49, 50):
                return False
    return True


def nested_inner_numbers(tree):
    """the gradient used inside the shared definition: transform + coordinates (None if not found)"""
    found = []

    def rec(o):
        if isinstance(o, dict):
            if o.get('k') in ('lg', 'rg') and 'def' in o:
                d = o['def']
                found.append(d['ts'] + [d.get('x1', 0), d.get('y1', 0), d.get('x2', 0), d.get('y2', 0)])
            for v in o.values():
                rec(v)
        elif isinstance(o, list):
            for v in o:
                rec(v)
    rec(tree.get('root'))
    rec(tree.get('patterns'))
    return found[0] if found else None


def replay(ctx, path):
    r = json.load(open(path))
    print(json.dumps({k: v for k, v in r.items() if k != 'replay'}, indent=1))
    rp = r.get('replay', {})
    binp, _ = ctx.harness('release')
    if binp is None or 'docA' not in rp:
        print(json.dumps(rp, indent=1)[:3000])
        return 0
    print("objectBoundingBox document:\n", rp['docA'])
    if rp.get('docB'):
        print("hand-mapped document:\n", rp['docB'])
        out = ctx.rvh_batch(binp, 'render-pair', ["-\t%s\t1,0,0,1,0,0\t%s\t1,0,0,1,0,0\t%d\t%d\t1" % (rp['docA'], rp['docB'], W, H)])[0]
        print("render-pair now:", out)
    if rp.get('problems'):
        print("definition numbers (objectBoundingBox tree vs hand-mapped tree):", rp['problems'])
    if rp.get('coq_item'):
        print("correspondence item:", rp['coq_item'][:2000])
    return 0
