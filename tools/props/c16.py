"""C16  Filters stay inside their region, keep pixels valid premultiplied RGBA, identity chains are no-ops.

translate (gen_pixel plug-in) -> Coq closure of Props/C16.v -> harness -> correspondence
  K1 exhaustive byte-pair tables of the private kernels (multiply/demultiply, both LUT passes)
  K2 the real filter::apply on chosen source pixmaps vs the per-pixel model (identity matrix and
     linearRGB round trip on byte pairs; random colour matrices / transfer functions / arithmetic)
  K3 the private morphology kernel on random images vs the model
  K4 crop rectangles: flood + primitive subregion, alpha bitmap vs the model's four rectangles
  K5 traced layer geometry vs to_int_rect + source-derived fit_to_rect
  K6 tiny-skia SourceOver table (merge of a single input)
-> system oracle on the real pipeline (containment, validity, identity chains) -> protocol.
"""
import concurrent.futures as cf
import json
import math
import os
import struct
import time
from fractions import Fraction

import vlib
from vlib import qstr

NS = 'xmlns="http://www.w3.org/2000/svg" xmlns:xlink="http://www.w3.org/1999/xlink"'
IMPORTS = ['Model.F32', 'Gen.PixelTables', 'Model.Pixel', 'Model.PixelChk', 'Model.FilterWire']
GEO_IMPORTS = ['Model.Base', 'Model.GeomPrims', 'Model.Corr', 'Gen.LeafFit', 'Model.FilterGeom']


# ------------------------------------------------------------------------------------------------
# helpers
# ------------------------------------------------------------------------------------------------
def f32_of(x):
    """the f32 nearest to the Python float x (what `f64 as f32` gives), as a Python float"""
    try:
        return struct.unpack('>f', struct.pack('>f', x))[0]
    except OverflowError:
        return math.inf if x > 0 else -math.inf


def coq_f32(x):
    """Gallina term for the f32 value of x (exact)"""
    x = f32_of(x)
    if math.isnan(x):
        return "fnan"
    if math.isinf(x):
        return "(finf %s)" % ('false' if x > 0 else 'true')
    if x == 0:
        return "fzero"
    b = struct.unpack('>I', struct.pack('>f', x))[0]
    s, ex, fr = b >> 31, (b >> 23) & 0xff, b & 0x7fffff
    m, e = (fr, -149) if ex == 0 else (fr | 0x800000, ex - 150)
    while m % 2 == 0 and e < 0:
        m //= 2
        e += 1
    return "(of_me (%d) (%d))" % (-m if s else m, e)


def zl(vals, chunk=200):
    """Coq `list Z` literal that the parser survives (nested chunks)"""
    if len(vals) <= chunk:
        return "[%s]" % ";".join(str(v) for v in vals)
    return "(concat [%s])" % ";\n".join("[%s]" % ";".join(str(v) for v in vals[i:i + chunk])
                                        for i in range(0, len(vals), chunk))


def num(x):
    r = repr(float(x))
    return r[:-2] if r.endswith('.0') else r


def dy(rng, lo, hi, den=64):
    """dyadic value k/den in [lo, hi] (exact in f32 and in the decimal text)"""
    return (int(lo * den) + rng.below(int((hi - lo) * den) + 1)) / den


def jload(o):
    try:
        return json.loads(o)
    except (TypeError, ValueError):
        return {'error': 'unparsable harness output: %r' % (o if o is None else o[:120])}


def run_evals(ctx, jobs, workers=8):
    """jobs: list of (name, body, imports) -> {name: (rc, out)} evaluated in parallel coqc processes"""
    res = {}
    times = {}

    def one(n, b, imp):
        t = time.time()
        r = ctx.coq_eval(n, b, imp, 1500)
        times[n] = round(time.time() - t, 1)
        return r
    with cf.ThreadPoolExecutor(max_workers=workers) as ex:
        futs = {ex.submit(one, n, b, imp): n for n, b, imp in jobs}
        for fu in cf.as_completed(futs):
            res[futs[fu]] = fu.result()
    ctx.cov.setdefault('model_eval_seconds', {}).update({k: v for k, v in times.items() if v >= 15})
    return res


# ------------------------------------------------------------------------------------------------
# K2: documents for filter::apply on chosen sources, with their model expressions
# ------------------------------------------------------------------------------------------------
def apply_doc(w, h, prims, cif='sRGB'):
    return ('<svg %s width="%d" height="%d"><filter id="f" filterUnits="userSpaceOnUse" primitiveUnits="userSpaceOnUse" '
            'x="0" y="0" width="%d" height="%d" color-interpolation-filters="%s">%s</filter>'
            '<rect width="%d" height="%d" filter="url(#f)"/></svg>' % (NS, w, h, w, h, cif, prims, w, h))


def gen_cm(rng):
    k = rng.below(5)
    if k <= 2:
        vals = [dy(rng, -2, 2) if rng.below(3) else rng.choice([0.0, 1.0, -1.0, 0.5]) for _ in range(20)]
        if k == 2:   # sparse: close to what documents use
            vals = [v if rng.below(3) == 0 else 0.0 for v in vals]
        return ('<feColorMatrix type="matrix" values="%s"%%s/>' % " ".join(num(v) for v in vals),
                "(CMMatrix [%s])" % "; ".join(coq_f32(v) for v in vals), 'matrix')
    if k == 3:
        v = dy(rng, 0, 1)
        return ('<feColorMatrix type="saturate" values="%s"%%s/>' % num(v), "(CMSaturate %s)" % coq_f32(v), 'saturate')
    return ('<feColorMatrix type="luminanceToAlpha"%s/>', "CMLuminanceToAlpha", 'luminanceToAlpha')


def gen_tf(rng):
    k = rng.below(6)
    if k == 0:
        return None, "TFIdentity", 'none'
    if k == 1:
        return 'type="identity"', "TFIdentity", 'identity'
    if k in (2, 3):
        n = rng.choice([0, 1, 2, 3, 5, 9])
        vals = [dy(rng, -0.5, 1.5) if rng.below(4) == 0 else dy(rng, 0, 1) for _ in range(n)]
        ty = 'table' if k == 2 else 'discrete'
        attr = 'type="%s"' % ty + (' tableValues="%s"' % " ".join(num(v) for v in vals) if n else '')
        return attr, "(%s [%s])" % ('TFTable' if k == 2 else 'TFDiscrete', "; ".join(coq_f32(v) for v in vals)), ty
    s, i = dy(rng, -2, 2), dy(rng, -1, 1)
    return 'type="linear" slope="%s" intercept="%s"' % (num(s), num(i)), "(TFLinear %s %s)" % (coq_f32(s), coq_f32(i)), 'linear'


def gen_ct(rng):
    fs = [gen_tf(rng) for _ in range(4)]
    body = "".join('<feFunc%s %s/>' % (c, f[0]) for c, f in zip('RGBA', fs) if f[0] is not None)
    return ('<feComponentTransfer%%s>%s</feComponentTransfer>' % body, "[%s]" % "; ".join(f[1] for f in fs),
            "+".join(f[2] for f in fs))


def wrap_cs(model, cif):
    """the model of one per-pixel primitive run by filter::apply in the given interpolation space"""
    if cif == 'sRGB':
        return "(fun p => %s p)" % model
    return "(fun p => px_into_srgb (%s (px_into_linear p)))" % model


def gen_convolve(rng, order1):
    """feConvolveMatrix whose window is uniform (1x1 kernel on any image, or any kernel on a 1x1 image), with the Model/Pixel.v term:
    (element %% extra attributes, model, label, image size)"""
    pres = rng.below(2) == 1
    div = rng.choice([1.0, 1.0, 0.5, 2.0, -1.0, dy(rng, 0.25, 4), -dy(rng, 0.25, 2)])
    bias = rng.choice([0.0, 0.0, 0.5, 1.0, dy(rng, -1, 1)])
    big = rng.below(8) == 0

    def kv():
        if big and rng.below(2):
            return rng.choice([3e38, -3e38, 3.4e38, 1e-40])
        return rng.choice([1.0, 0.0, -1.0, dy(rng, -2, 2), dy(rng, 0, 1)])
    if order1:
        cols, rows, tx, ty, edge, size = 1, 1, 0, 0, rng.choice(['duplicate', 'wrap', 'none']), 16
        ks = [kv()]
        visited = ks
    else:
        cols, rows = rng.choice([(2, 1), (1, 2), (2, 2), (3, 1), (3, 3), (2, 3)])
        tx, ty, edge, size = rng.below(cols), rng.below(rows), rng.choice(['duplicate', 'wrap', 'none']), 1
        ks = [kv() for _ in range(cols * rows)]
        # the loops visit (ox, oy) row by row and read kernel element (cols-1-ox, rows-1-oy): the reversed list; on a 1x1 image
        # edgeMode none keeps only the cell that falls on the pixel itself (ox = targetX, oy = targetY)
        visited = list(reversed(ks)) if edge != 'none' else [ks[(rows - 1 - ty) * cols + (cols - 1 - tx)]]
    el = ('<feConvolveMatrix order="%d %d" kernelMatrix="%s" divisor="%s" bias="%s" targetX="%d" targetY="%d" edgeMode="%s" preserveAlpha="%s"%%s/>'
          % (cols, rows, " ".join(num(k) for k in ks), num(div), num(bias), tx, ty, edge, 'true' if pres else 'false'))
    mdl = "px_convolve_uniform %s %s %s [%s]" % ('true' if pres else 'false', coq_f32(div), coq_f32(bias), "; ".join(coq_f32(k) for k in visited))
    return el, mdl, 'convolve%dx%d/%s/%s%s' % (cols, rows, edge, 'preserve' if pres else 'plain', '/huge' if big else ''), size


def gen_apply_cases(rng, n_rand):
    cases = []
    for j in range(n_rand // 5):          # extension round 4: the convolve leaf arithmetic through the real parser + filter::apply
        cif = rng.choice(['sRGB', 'linearRGB'])
        el, mdl, label, size = gen_convolve(rng, j % 3 == 0)
        for _ in range(1 if size > 1 else 6):
            cases.append(dict(kind=label + '/' + cif, doc=apply_doc(size, size, el % '', cif), src='rand:%d:%d:%d' % (rng.below(1 << 30), size, size),
                              out='rgba', model=wrap_cs(mdl, cif)))
    for _ in range(n_rand):
        cif = rng.choice(['sRGB', 'linearRGB'])
        kind = rng.below(3)
        seed = rng.below(1 << 30)
        if kind == 0:
            el, coq, label = gen_cm(rng)
            mdl = "px_color_matrix %s" % coq
            if label == 'matrix' and rng.below(2):      # against the hand-written specification rows instead of the source-derived ones
                mdl, label = "px_color_matrix_spec %s" % coq[len("(CMMatrix "):-1], 'matrix-spec'
            cases.append(dict(kind='colormatrix/' + label + '/' + cif, doc=apply_doc(16, 16, el % '', cif),
                              src='rand:%d:16:16' % seed, out='rgba', model=wrap_cs(mdl, cif)))
        elif kind == 1:
            el, coq, label = gen_ct(rng)
            spec = rng.below(2)
            cases.append(dict(kind='transfer%s/' % ('-spec' if spec else '') + label + '/' + cif, doc=apply_doc(16, 16, el % '', cif),
                              src='rand:%d:16:16' % seed, out='rgba', model=wrap_cs("px_component_transfer%s %s" % ('_spec' if spec else '', coq), cif)))
        else:
            el, coq, label = gen_cm(rng)
            ks = [rng.choice([0.0, 1.0, dy(rng, -2, 2), dy(rng, -1, 1), 0.5]) for _ in range(4)]
            if rng.below(6) == 0:
                ks[rng.below(4)] = rng.choice([3e38, -3e38, 1e-40, 255.0, 3.4e38])   # non-finite texts such as 1e40 are rejected by the parser now (attribute ignored)
            prims = (el % ' result="b"') + ('<feComposite in="SourceGraphic" in2="b" operator="arithmetic" k1="%s" k2="%s" k3="%s" k4="%s"/>'
                                            % tuple(num(k) for k in ks))
            cases.append(dict(kind='arithmetic/' + label, doc=apply_doc(16, 16, prims, 'sRGB'), src='rand:%d:16:16' % seed, out='rgba',
                              model="(fun p => px_arithmetic %s p (px_color_matrix %s p))" % (" ".join(coq_f32(k) for k in ks), coq)))
    return cases


IDENT = "1 0 0 0 0  0 1 0 0 0  0 0 1 0 0  0 0 0 1 0"


def gen_wire_case(rng):
    """a chain of per-pixel primitives with reused result names, implicit inputs, unknown references and mixed colour spaces,
    with the Model/FilterWire.v term that the real filter::apply must agree with on every pixel"""
    names = {'a': 1, 'b': 2}
    xml, coq = '', []
    defined = []         # tokens of earlier steps, in order
    for j in range(3 + rng.below(4)):
        nm = rng.choice(['a', 'b', 'a', None])
        tok = names[nm] if nm else 100 + j
        cs = rng.choice(['sRGB', 'linearRGB'])

        def inp():
            k = rng.below(8)
            if k == 0:
                return 'SourceGraphic', 'WSource'
            if k == 1:
                return 'SourceAlpha', 'WSourceAlpha'
            if k <= 4:
                n = rng.choice(['a', 'b', 'zz'])
                if n in names and names[n] in defined:
                    return n, '(WRef %d%%N)' % names[n]
                return n, ('(WRef %d%%N)' % defined[-1] if defined else 'WSource')     # unknown reference: previous result, else SourceGraphic
            return None, ('(WRef %d%%N)' % defined[-1] if defined else 'WSource')         # no `in`: previous result, else SourceGraphic
        attr = ' color-interpolation-filters="%s"' % cs + (' result="%s"' % nm if nm else '')

        def inp_explicit():
            i, ci = inp()
            return ('SourceGraphic', 'WSource') if i is None else (i, ci)
        k = rng.below(8)
        if k == 5:       # extension round 4: arithmetic composite, over composite / normal blend, 1x1 convolve inside chains
            (i1, c1), (i2, c2) = inp(), inp_explicit()
            ks = [rng.choice([0.0, 1.0, 0.5, dy(rng, -1, 2)]) for _ in range(4)]
            xml += '<feComposite%s in2="%s" operator="arithmetic" k1="%s" k2="%s" k3="%s" k4="%s"%s/>' % (
                (' in="%s"' % i1 if i1 else ''), i2, num(ks[0]), num(ks[1]), num(ks[2]), num(ks[3]), attr)
            kind = "WArithmetic %s %s %s" % (" ".join(coq_f32(v) for v in ks), c1, c2)
        elif k == 6:
            (i1, c1), (i2, c2) = inp(), inp_explicit()
            xml += ('<feComposite%s in2="%s" operator="over"%s/>' if rng.below(2) else '<feBlend%s in2="%s" mode="normal"%s/>') % (
                (' in="%s"' % i1 if i1 else ''), i2, attr)
            kind = "WOver %s %s" % (c1, c2)
        elif k == 7:
            i, ci = inp()
            pres, dv, bs, kk = rng.below(2) == 1, rng.choice([1.0, 0.5, 2.0, -1.0]), rng.choice([0.0, 0.25, -0.5]), rng.choice([1.0, 2.0, 0.5, -1.0, dy(rng, 0, 2)])
            xml += '<feConvolveMatrix order="1" kernelMatrix="%s" divisor="%s" bias="%s" preserveAlpha="%s"%s%s/>' % (
                num(kk), num(dv), num(bs), 'true' if pres else 'false', (' in="%s"' % i if i else ''), attr)
            kind = "WConvolve1 %s %s %s %s %s" % ('true' if pres else 'false', coq_f32(dv), coq_f32(bs), coq_f32(kk), ci)
        elif k == 0:
            i, ci = inp()
            xml += ('<feOffset dx="0" dy="0"%s%s/>' if rng.below(2) else '<feGaussianBlur stdDeviation="0"%s%s/>') % (' in="%s"' % i if i else '', attr)
            kind = "WOffset0 %s" % ci
        elif k == 1:
            i, ci = inp()
            el, c, _ = gen_cm(rng)
            xml += el % ((' in="%s"' % i if i else '') + attr)
            kind = "WColorMatrix %s %s" % (c, ci)
        elif k == 2:
            i, ci = inp()
            el, c, _ = gen_ct(rng)
            xml += el % ((' in="%s"' % i if i else '') + attr)
            kind = "WTransfer %s %s" % (c, ci)
        else:
            ins = [inp() for _ in range(1 + rng.below(3))]
            xml += '<feMerge%s>%s</feMerge>' % (attr, "".join('<feMergeNode%s/>' % (' in="%s"' % i if i else '') for i, _ in ins))
            kind = "WMerge [%s]" % "; ".join(ci for _, ci in ins)
        coq.append("{| w_kind := %s; w_cs := %s; w_name := %d%%N |}" % (kind, 'CsSRGB' if cs == 'sRGB' else 'CsLinear', tok))
        defined.append(tok)
    return dict(kind='wire', doc=apply_doc(12, 12, xml, 'sRGB'), src='rand:%d:12:12' % rng.below(1 << 30), out='rgba',
                model="(run_filter [%s])" % ";\n ".join(coq))


def gen_pair_cases(rng, alphas):
    a = ",".join(str(x) for x in alphas)
    n = len(alphas)
    return [
        dict(kind='pairs/identity-matrix/sRGB', doc=apply_doc(256, n, '<feColorMatrix type="matrix" values="%s"/>' % IDENT),
             src='pairs:' + a, out='ra', model="(px_color_matrix (CMMatrix identity_matrix))"),
        dict(kind='pairs/merge/linearRGB', doc=apply_doc(256, n, '<feMerge><feMergeNode in="SourceGraphic"/></feMerge>', 'linearRGB'),
             src='pairs:' + a, out='ra', model="(fun p => px_into_srgb (px_into_linear p))"),
        dict(kind='pairs/identity-transfer/sRGB',
             doc=apply_doc(256, n, '<feComponentTransfer><feFuncR type="linear" slope="1" intercept="0"/><feFuncG type="table" tableValues="0 1"/>'
                                   '<feFuncB type="identity"/><feFuncA type="table" tableValues="0 0.25 0.5 0.75 1"/></feComponentTransfer>'),
             src='pairs:' + a, out='ra',
             model="(px_component_transfer [TFLinear f1 fzero; TFTable [fzero; f1]; TFIdentity; TFTable [fzero; flit 1 4; flit 1 2; flit 3 4; f1]])"),
        # second pass: every third alpha row is enough here (the rows are proved for all bytes; this validates parser + wiring)
        dict(kind='pairs/saturate1/sRGB', doc=apply_doc(256, len(alphas[::3]), '<feColorMatrix type="saturate" values="1"/>'),
             src='pairs:' + ",".join(str(x) for x in alphas[::3]), out='ra', model="(px_color_matrix (CMSaturate f1))"),
        dict(kind='pairs/hue0/sRGB', doc=apply_doc(256, len(alphas[::3]), '<feColorMatrix type="hueRotate" values="0"/>'),
             src='pairs:' + ",".join(str(x) for x in alphas[::3]), out='ra', model="(px_color_matrix (CMHueRotate f1 fzero))"),
        dict(kind='pairsany/luminance/sRGB', doc=apply_doc(256, n, '<feColorMatrix type="luminanceToAlpha"/>'),
             src='pairsany:' + a, out='ra', model="(px_color_matrix CMLuminanceToAlpha)"),
    ]


# ------------------------------------------------------------------------------------------------
# system oracle: generated content x filters
# ------------------------------------------------------------------------------------------------
COLORS = ['#ff0000', '#00c000', '#2040ff', '#ffff00', '#00ffff', '#ff00ff', '#ffffff', '#000000', '#808080', '#c08040', '#123456']


def mat_mul(a, b):
    """2x3 affine (sx, ky, kx, sy, tx, ty) product a*b (apply b first)"""
    return (a[0] * b[0] + a[2] * b[1], a[1] * b[0] + a[3] * b[1], a[0] * b[2] + a[2] * b[3], a[1] * b[2] + a[3] * b[3],
            a[0] * b[4] + a[2] * b[5] + a[4], a[1] * b[4] + a[3] * b[5] + a[5])


def mat_pt(m, x, y):
    return (m[0] * x + m[2] * y + m[4], m[1] * x + m[3] * y + m[5])


def rot(deg):
    c, s = math.cos(math.radians(deg)), math.sin(math.radians(deg))
    return (c, s, -s, c, 0.0, 0.0)


def gen_paint(rng, defs, prefix):
    k = rng.below(4)
    if k <= 1:
        return rng.choice(COLORS)
    gid = '%sg%d' % (prefix, len(defs))
    stops = "".join('<stop offset="%s" stop-color="%s" stop-opacity="%s"/>' % (num(o), rng.choice(COLORS), num(rng.choice([1, 1, 0.5, 0.25, 0])))
                    for o in ([0, 1] if rng.below(2) else [0, 0.5, 1]))
    if k == 2:
        defs.append('<linearGradient id="%s" x1="0" y1="0" x2="1" y2="%s">%s</linearGradient>' % (gid, num(rng.choice([0, 1])), stops))
    else:
        defs.append('<radialGradient id="%s" cx="0.5" cy="0.5" r="0.6">%s</radialGradient>' % (gid, stops))
    return 'url(#%s)' % gid


def gen_content(rng, defs, prefix=''):
    """1..3 shapes in the square [30,130]^2; returns (xml, bbox (x0,y0,x1,y1) of the fill geometry)"""
    shapes = []
    bb = [1e9, 1e9, -1e9, -1e9]

    def grow(x0, y0, x1, y1):
        bb[0], bb[1], bb[2], bb[3] = min(bb[0], x0), min(bb[1], y0), max(bb[2], x1), max(bb[3], y1)
    for _ in range(1 + rng.below(3)):
        fill = gen_paint(rng, defs, prefix)
        attrs = ' fill="%s"' % fill
        if rng.below(3) == 0:
            attrs += ' fill-opacity="%s"' % num(rng.choice([0.5, 0.25, 0.8]))
        if rng.below(4) == 0:
            attrs += ' stroke="%s" stroke-width="%s"' % (rng.choice(COLORS), num(rng.choice([1, 2.5, 6])))
            if rng.below(2):
                attrs += ' stroke-opacity="0.5"'
        k = rng.below(3)
        if k == 0:
            x, y = dy(rng, 30, 90, 4), dy(rng, 30, 90, 4)
            w, h = dy(rng, 8, 40, 4), dy(rng, 8, 40, 4)
            shapes.append('<rect x="%s" y="%s" width="%s" height="%s"%s%s/>' % (num(x), num(y), num(w), num(h),
                                                                                 ' rx="%s"' % num(rng.choice([3, 8])) if rng.below(4) == 0 else '', attrs))
            grow(x, y, x + w, y + h)
        elif k == 1:
            cx, cy, r = dy(rng, 50, 110, 4), dy(rng, 50, 110, 4), dy(rng, 5, 20, 4)
            shapes.append('<circle cx="%s" cy="%s" r="%s"%s/>' % (num(cx), num(cy), num(r), attrs))
            grow(cx - r, cy - r, cx + r, cy + r)
        else:
            pts = [(dy(rng, 30, 130, 4), dy(rng, 30, 130, 4)) for _ in range(3 + rng.below(3))]
            shapes.append('<path d="M %s Z"%s/>' % (" L ".join("%s %s" % (num(px), num(py)) for px, py in pts), attrs))
            grow(min(p[0] for p in pts), min(p[1] for p in pts), max(p[0] for p in pts), max(p[1] for p in pts))
    return "".join(shapes), tuple(bb)


LIGHTS = ['<feDistantLight azimuth="%s" elevation="%s"/>', '<fePointLight x="%s" y="%s" z="30"/>',
          '<feSpotLight x="%s" y="%s" z="40" pointsAtX="80" pointsAtY="80" pointsAtZ="0" specularExponent="4" limitingConeAngle="40"/>']
BLEND_MODES = ['normal', 'multiply', 'screen', 'overlay', 'darken', 'lighten', 'color-dodge', 'color-burn', 'hard-light',
               'soft-light', 'difference', 'exclusion', 'hue', 'saturation', 'color', 'luminosity']
PRIM_KINDS = ['feFlood', 'feOffset', 'feGaussianBlur', 'feColorMatrix', 'feComponentTransfer', 'feComposite', 'feBlend', 'feMerge',
              'feMorphology', 'feConvolveMatrix', 'feDisplacementMap', 'feTurbulence', 'feDiffuseLighting', 'feSpecularLighting',
              'feDropShadow', 'feTile', 'feImage']
IMG_SVG = ('data:image/svg+xml;utf8,&lt;svg xmlns=&quot;http://www.w3.org/2000/svg&quot; width=&quot;20&quot; height=&quot;20&quot;&gt;'
           '&lt;rect width=&quot;20&quot; height=&quot;20&quot; fill=&quot;green&quot; fill-opacity=&quot;0.6&quot;/&gt;'
           '&lt;circle cx=&quot;10&quot; cy=&quot;10&quot; r=&quot;6&quot; fill=&quot;red&quot;/&gt;&lt;/svg&gt;')


def gen_input(rng, names):
    k = rng.below(10)
    if k <= 2:
        return None
    if k == 3:
        return 'SourceGraphic'
    if k == 4:
        return 'SourceAlpha'
    if k == 5:
        return rng.choice(['missing', 'BackgroundImage', 'FillPaint', 'BackgroundAlpha', 'StrokePaint'])
    return rng.choice(names) if names else 'SourceGraphic'


def gen_primitive(rng, kind, names, obb_units, bbox):
    """-> xml of one primitive"""
    a = ''
    if kind not in ('feFlood', 'feTurbulence', 'feImage', 'feMerge'):
        i = gen_input(rng, names)
        if i:
            a += ' in="%s"' % i
    if kind in ('feComposite', 'feBlend', 'feDisplacementMap'):
        i = gen_input(rng, names)
        if i:
            a += ' in2="%s"' % i
    if rng.below(3) == 0:
        nm = 'r%d' % len(names)
        names.append(nm)
        a += ' result="%s"' % nm
    if rng.below(10) < 3:   # primitive subregion
        if obb_units:
            vals = (dy(rng, -0.2, 0.6, 16), dy(rng, -0.2, 0.6, 16), dy(rng, 0.2, 1.2, 16), dy(rng, 0.2, 1.2, 16))
        else:
            bw, bh = bbox[2] - bbox[0], bbox[3] - bbox[1]
            vals = (bbox[0] + dy(rng, -0.2, 0.6, 16) * bw, bbox[1] + dy(rng, -0.2, 0.6, 16) * bh, dy(rng, 0.2, 1.2, 16) * bw, dy(rng, 0.2, 1.2, 16) * bh)
        for nme, v in zip(('x', 'y', 'width', 'height'), vals):
            if rng.below(5):
                a += ' %s="%s"' % (nme, num(round(v, 3)))
    if rng.below(5) == 0:
        a += ' color-interpolation-filters="%s"' % rng.choice(['sRGB', 'linearRGB'])
    sc = 1.0 if not obb_units else 0.02    # numbers in primitiveUnits=objectBoundingBox are fractions of the box
    if kind == 'feFlood':
        return '<feFlood flood-color="%s" flood-opacity="%s"%s/>' % (rng.choice(COLORS), num(rng.choice([1, 0.5, 0.3, 0])), a)
    if kind == 'feOffset':
        return '<feOffset dx="%s" dy="%s"%s/>' % (num(dy(rng, -12, 12, 4) * sc), num(dy(rng, -12, 12, 4) * sc), a)
    if kind == 'feGaussianBlur':
        s1 = rng.choice([0, 0.5, 1, 1.5, 2, 3, 5]) * sc
        return '<feGaussianBlur stdDeviation="%s"%s/>' % (num(s1) if rng.below(2) else "%s %s" % (num(s1), num(rng.choice([0, 1, 4]) * sc)), a)
    if kind == 'feColorMatrix':
        k = rng.below(4)
        if k == 0:
            return '<feColorMatrix type="matrix" values="%s"%s/>' % (" ".join(num(dy(rng, -1.5, 1.5)) if rng.below(2) else '0' for _ in range(20)), a)
        if k == 1:
            return '<feColorMatrix type="saturate" values="%s"%s/>' % (num(dy(rng, 0, 2)), a)
        if k == 2:
            return '<feColorMatrix type="hueRotate" values="%s"%s/>' % (num(dy(rng, -360, 360, 1)), a)
        return '<feColorMatrix type="luminanceToAlpha"%s/>' % a
    if kind == 'feComponentTransfer':
        fs = ''
        for c in 'RGBA':
            k = rng.below(6)
            if k == 0:
                continue
            if k == 1:
                fs += '<feFunc%s type="gamma" amplitude="%s" exponent="%s" offset="%s"/>' % (c, num(dy(rng, 0, 2)), num(dy(rng, 0.25, 3)), num(dy(rng, -0.5, 0.5)))
            else:
                fs += '<feFunc%s %s/>' % (c, gen_tf(rng)[0] or 'type="identity"')
        return '<feComponentTransfer%s>%s</feComponentTransfer>' % (a, fs)
    if kind == 'feComposite':
        op = rng.choice(['over', 'in', 'out', 'atop', 'xor', 'arithmetic', 'arithmetic'])
        if op == 'arithmetic':
            a += ' k1="%s" k2="%s" k3="%s" k4="%s"' % tuple(num(rng.choice([0, 1, 0.5, dy(rng, -2, 2)])) for _ in range(4))
        return '<feComposite operator="%s"%s/>' % (op, a)
    if kind == 'feBlend':
        return '<feBlend mode="%s"%s/>' % (rng.choice(BLEND_MODES), a)
    if kind == 'feMerge':
        return '<feMerge%s>%s</feMerge>' % (a, "".join('<feMergeNode in="%s"/>' % (gen_input(rng, names) or 'SourceGraphic') for _ in range(1 + rng.below(3))))
    if kind == 'feMorphology':
        return '<feMorphology operator="%s" radius="%s"%s/>' % (rng.choice(['erode', 'dilate']),
                                                               "%s %s" % (num(rng.choice([0, 0.5, 1, 2, 3]) * sc), num(rng.choice([0.5, 1, 2]) * sc)), a)
    if kind == 'feConvolveMatrix':
        o = rng.choice([3, 3, 2])
        km = " ".join(num(rng.choice([0, 1, -1, 2, 0.5, -0.25])) for _ in range(o * o))
        extra = ''
        if rng.below(2):
            extra += ' divisor="%s"' % num(rng.choice([1, 2, 4, 0.5]))
        if rng.below(3) == 0:
            extra += ' bias="%s"' % num(rng.choice([0, 0.25, 0.5, -0.25]))
        if rng.below(2):
            extra += ' preserveAlpha="true"'
        extra += ' edgeMode="%s"' % rng.choice(['duplicate', 'wrap', 'none'])
        return '<feConvolveMatrix order="%d" kernelMatrix="%s"%s%s/>' % (o, km, extra, a)
    if kind == 'feDisplacementMap':
        return '<feDisplacementMap scale="%s" xChannelSelector="%s" yChannelSelector="%s"%s/>' % (
            num(dy(rng, -20, 20, 4) * sc), rng.choice('RGBA'), rng.choice('RGBA'), a)
    if kind == 'feTurbulence':
        return '<feTurbulence type="%s" baseFrequency="%s" numOctaves="%d" seed="%d"%s%s/>' % (
            rng.choice(['fractalNoise', 'turbulence']), num(rng.choice([0.01, 0.05, 0.1, 0.3])), 1 + rng.below(3), rng.below(50),
            ' stitchTiles="stitch"' if rng.below(4) == 0 else '', a)
    if kind in ('feDiffuseLighting', 'feSpecularLighting'):
        li = rng.choice(LIGHTS) % (num(dy(rng, 0, 160, 1)), num(dy(rng, 0, 120, 1)))
        if kind == 'feDiffuseLighting':
            return '<feDiffuseLighting surfaceScale="%s" diffuseConstant="%s" lighting-color="%s"%s>%s</feDiffuseLighting>' % (
                num(rng.choice([1, 5, 10, -3])), num(rng.choice([0.5, 1, 2])), rng.choice(COLORS), a, li)
        return '<feSpecularLighting surfaceScale="%s" specularConstant="%s" specularExponent="%s" lighting-color="%s"%s>%s</feSpecularLighting>' % (
            num(rng.choice([1, 5, 10])), num(rng.choice([0.5, 1, 2])), num(rng.choice([1, 4, 20])), rng.choice(COLORS), a, li)
    if kind == 'feDropShadow':
        return '<feDropShadow dx="%s" dy="%s" stdDeviation="%s" flood-color="%s" flood-opacity="%s"%s/>' % (
            num(dy(rng, -8, 8, 4) * sc), num(dy(rng, -8, 8, 4) * sc), num(rng.choice([0, 1, 2.5]) * sc), rng.choice(COLORS), num(rng.choice([1, 0.5])), a)
    if kind == 'feTile':
        return '<feTile%s/>' % a
    if kind == 'feImage':
        return '<feImage xlink:href="%s"%s/>' % (IMG_SVG, a)
    raise ValueError(kind)


def build_filter(rng, fid, attrs, prims, cif=None, allow_href=True, used=None):
    """attrs: list of (name, value) among filterUnits / primitiveUnits / x / y / width / height, as the DOCUMENT specifies them.
    With probability 1/3 the filter is split over an xlink:href chain of 1-2 template filters: every attribute sits either on the
    referencing filter or on a referenced one (SVG: attributes not given on the element are taken from the referenced filter, and so are
    the primitives when the element has none).  color-interpolation-filters is a PROPERTY of the primitives, so it stays on their holder."""
    holders = [fid]
    if allow_href and rng.below(3) == 0:
        holders += ['%st%d' % (fid, k) for k in range(1, 2 + rng.below(2))]
        if used is not None:
            used.append('href-template-%d' % (len(holders) - 1))
    where = {h: [] for h in holders}
    for a in attrs:
        where[rng.choice(holders)].append(a)
    ph = rng.choice(holders)
    out = []
    for i in range(len(holders) - 1, -1, -1):      # referenced filters first
        h = holders[i]
        a = "".join(' %s="%s"' % kv for kv in where[h])
        if i + 1 < len(holders):
            a += ' xlink:href="#%s"' % holders[i + 1]
        if h == ph and cif:
            a += ' color-interpolation-filters="%s"' % cif
        out.append('<filter id="%s"%s>%s</filter>' % (h, a, prims if h == ph else ''))
    return "".join(out)


def gen_filter(rng, fid, bbox, kinds=None, force_kind=None):
    """-> (xml, user-space region (x0,y0,x1,y1) AS THE DOCUMENT SPECIFIES IT, kinds used)"""
    bw, bh = bbox[2] - bbox[0], bbox[3] - bbox[1]
    attrs = []
    fu = rng.choice(['objectBoundingBox', 'userSpaceOnUse', None])
    if fu:
        attrs.append(('filterUnits', fu))
    if fu == 'userSpaceOnUse':
        rx, ry = bbox[0] + dy(rng, -0.4, 0.3, 16) * bw, bbox[1] + dy(rng, -0.4, 0.3, 16) * bh
        rw, rh = dy(rng, 0.5, 1.8, 16) * bw, dy(rng, 0.5, 1.8, 16) * bh
        rx, ry, rw, rh = [round(v * 4) / 4 for v in (rx, ry, rw, rh)]
        rw, rh = max(rw, 2.0), max(rh, 2.0)
        attrs += [('x', num(rx)), ('y', num(ry)), ('width', num(rw)), ('height', num(rh))]
        region = (rx, ry, rx + rw, ry + rh)
    else:
        fr = [-0.1, -0.1, 1.2, 1.2]
        if rng.below(3):
            fr = [dy(rng, -0.4, 0.3, 16), dy(rng, -0.4, 0.3, 16), dy(rng, 0.5, 1.8, 16), dy(rng, 0.5, 1.8, 16)]
            attrs += [(n, num(v)) for n, v in zip(('x', 'y', 'width', 'height'), fr)]
        region = (bbox[0] + fr[0] * bw, bbox[1] + fr[1] * bh, bbox[0] + (fr[0] + fr[2]) * bw, bbox[1] + (fr[1] + fr[3]) * bh)
    pu = rng.choice(['userSpaceOnUse', 'userSpaceOnUse', 'objectBoundingBox', None])
    if pu:
        attrs.append(('primitiveUnits', pu))
    cif = rng.choice(['sRGB', 'linearRGB', None])
    names = []
    used = []
    n = 1 + rng.below(5)
    prims = ''
    for j in range(n):
        kind = force_kind if (force_kind and j == n - 1) else rng.choice(kinds or PRIM_KINDS)
        if kind == 'feTile' and j == 0:
            kind = 'feFlood'
        used.append(kind)
        prims += gen_primitive(rng, kind, names, pu == 'objectBoundingBox', bbox)
    return build_filter(rng, fid, attrs, prims, cif, used=used), region, used


CIF_LEVELS = ['primitive', 'filter', 'filter', 'g', 'defs', 'root', 'root-style', 'css-svg', 'css-star']
ID_PRIMS = ['offset0', 'blur0', 'merge1', 'matrix', 'transfer', 'over-nothing', 'saturate1', 'shadow', 'shadow-implicit', 'mixed-cs', 'mixed-cs2']


def gen_identity_filter(rng, fid, bbox, cut):
    bw, bh = bbox[2] - bbox[0], bbox[3] - bbox[1]
    if cut:      # the region cuts through the content
        fr = [dy(rng, -0.3, 0.2, 16), dy(rng, -0.3, 0.2, 16), dy(rng, 0.6, 1.6, 16), dy(rng, 0.6, 1.6, 16)]
    else:        # the region contains the content with room for strokes and miter joins (<= 4 * 3 user units)
        mx, my = (14 + dy(rng, 0, 10, 4)) / bw, (14 + dy(rng, 0, 10, 4)) / bh
        fr = [-mx, -my, 1 + 2 * mx + dy(rng, 0, 0.5, 16), 1 + 2 * my + dy(rng, 0, 0.5, 16)]
    region = (bbox[0] + fr[0] * bw, bbox[1] + fr[1] * bh, bbox[0] + (fr[0] + fr[2]) * bw, bbox[1] + (fr[1] + fr[3]) * bh)
    prims = ''
    used = []
    for j in range(1 + rng.below(4)):
        k = rng.choice(ID_PRIMS)
        used.append(k)
        if k == 'offset0':
            prims += '<feOffset dx="0" dy="0"/>'
        elif k == 'blur0':
            prims += '<feGaussianBlur stdDeviation="%s"/>' % rng.choice(['0', '0 0'])
        elif k == 'merge1':
            prims += '<feMerge><feMergeNode/></feMerge>' if j else '<feMerge><feMergeNode in="SourceGraphic"/></feMerge>'
        elif k == 'matrix':
            prims += '<feColorMatrix type="matrix" values="%s"/>' % IDENT
        elif k == 'saturate1':
            prims += '<feColorMatrix type="saturate" values="1"/>'
        elif k == 'transfer':
            fs = "".join('<feFunc%s %s/>' % (c, rng.choice(['type="identity"', 'type="linear" slope="1" intercept="0"', 'type="table" tableValues="0 1"',
                                                            'type="table" tableValues="0 0.25 0.5 0.75 1"', 'type="linear"'])) for c in 'RGBA' if rng.below(4))
            prims += '<feComponentTransfer>%s</feComponentTransfer>' % fs
        elif k == 'shadow':
            # a result name used twice: the later reference must see the newer result (get_input looks up the LAST one)
            prims += ('<feFlood flood-color="%s" result="s%d"/><feOffset in="SourceGraphic" dx="0" dy="0" result="s%d"/>'
                      '<feMerge><feMergeNode in="s%d"/></feMerge>' % (rng.choice(COLORS), j, j, j))
        elif k == 'shadow-implicit':
            prims += ('<feColorMatrix type="luminanceToAlpha" in="SourceGraphic" result="s%d"/><feGaussianBlur in="SourceGraphic" stdDeviation="0" result="s%d"/>'
                      '<feOffset dx="0" dy="0"/>' % (j, j))
        elif k == 'mixed-cs':
            # one named sRGB result read first by a linearRGB merge (dead end), then again in sRGB: reading must not rewrite the stored result
            prims += ('<feOffset in="SourceGraphic" dx="0" dy="0" result="m%d"/><feMerge color-interpolation-filters="linearRGB" result="dead%d"><feMergeNode in="m%d"/></feMerge>'
                      '<feColorMatrix type="matrix" values="%s" in="m%d"/>' % (j, j, j, IDENT, j))
        elif k == 'mixed-cs2':
            prims += ('<feMerge result="m%d"><feMergeNode in="SourceGraphic"/></feMerge><feComponentTransfer color-interpolation-filters="linearRGB" in="m%d" result="dead%d">'
                      '<feFuncR type="linear" slope="0.5"/></feComponentTransfer><feColorMatrix color-interpolation-filters="linearRGB" type="saturate" values="0.3" in="m%d" result="dead2%d"/>'
                      '<feMerge><feMergeNode in="m%d"/></feMerge>' % (j, j, j, j, j, j))
        else:
            prims += ('<feOffset dx="0" dy="0" result="keep%d"/><feFlood flood-opacity="0" result="none%d"/>'
                      '<feComposite in="keep%d" in2="none%d" operator="over"/>' % (j, j, j, j))
    # "when interpolating in sRGB", however that is specified: on every primitive, on the filter, on an ancestor of the filter (g, defs,
    # root svg as attribute or style) or by a CSS rule
    level = rng.choice(CIF_LEVELS)
    used.append('sRGB@' + level)
    if level == 'primitive':
        import re as _re
        prims = _re.sub(r"<(fe(?!MergeNode|Func[RGBA])[A-Za-z]+)(?![^>]*color-interpolation-filters)", r'<\1 color-interpolation-filters="sRGB"', prims)
    xml = build_filter(rng, fid, [(n, num(v)) for n, v in zip(('x', 'y', 'width', 'height'), fr)], prims, 'sRGB' if level == 'filter' else None, used=used)
    if level == 'g':
        xml = '<g color-interpolation-filters="sRGB">%s</g>' % xml
    return xml, region, used, level


def hull_of(regions, ts, eps=2e-3):
    xs, ys = [], []
    for r in regions:
        for (x, y) in ((r[0], r[1]), (r[2], r[1]), (r[0], r[3]), (r[2], r[3])):
            px, py = mat_pt(ts, x, y)
            xs.append(px)
            ys.append(py)
    return (math.floor(min(xs) - eps), math.floor(min(ys) - eps), math.ceil(max(xs) + eps), math.ceil(max(ys) + eps))


CSS_IDENT_FNS = ['saturate(1)', 'brightness(100%)', 'brightness(1)', 'contrast(1)', 'opacity(1)', 'hue-rotate(0deg)', 'grayscale(0)', 'sepia(0)', 'invert(0)',
                 'blur(0)', 'opacity(100%)', 'contrast(100%)']


def gen_sys_case(rng, mode, force_kind=None):
    """mode: 'random' | 'identity' | 'identity-cut' | 'identity-css' | 'list' | 'css'"""
    defs = []
    empty_g = mode == 'random' and force_kind is None and rng.below(14) == 0
    content, bbox = gen_content(rng, defs)
    if empty_g:
        content = '<g/>' + content      # an empty group has no geometry: it must not move the object bounding box
    gts = (1.0, 0.0, 0.0, 1.0, 0.0, 0.0)
    gattr = ''
    if rng.below(3) == 0:
        k = rng.below(3)
        if k == 0:
            t = (dy(rng, -10, 10, 4), dy(rng, -10, 10, 4))
            gts, gattr = (1.0, 0.0, 0.0, 1.0, t[0], t[1]), ' transform="translate(%s %s)"' % (num(t[0]), num(t[1]))
        elif k == 1:
            ang = rng.choice([10, -20, 45, 90])
            gts = mat_mul(mat_mul((1, 0, 0, 1, 80, 80), rot(ang)), (1, 0, 0, 1, -80, -80))
            gattr = ' transform="rotate(%d 80 80)"' % ang
        else:
            sx, sy = rng.choice([0.5, 1.25, 0.75]), rng.choice([0.5, 1.25, 1])
            gts, gattr = (sx, 0.0, 0.0, sy, 0.0, 0.0), ' transform="scale(%s %s)"' % (num(sx), num(sy))
    s = rng.choice([0.5, 1, 1, 1.5, 2, 3])
    ang = rng.choice([0, 0, 0, 15, -30, 90])
    size = int(math.ceil(160 * s))
    base = mat_mul(rot(ang), (s, 0, 0, s, 0, 0))
    cx, cy = mat_pt(base, 80, 80)
    root = (base[0], base[1], base[2], base[3], size / 2.0 - cx, size / 2.0 - cy)
    root = tuple(f32_of(v) for v in root)
    total = mat_mul(root, gts)
    regions = []
    used = []
    root_attr, defs_attr, css, wrap = '', '', '', None
    if mode in ('identity', 'identity-cut'):
        fx, reg, used, level = gen_identity_filter(rng, 'f0', bbox, mode == 'identity-cut')
        defs.append(fx)
        regions.append(reg)
        fattr = 'url(#f0)'
        if level == 'defs':
            defs_attr = ' color-interpolation-filters="sRGB"'
        elif level == 'root':
            root_attr = ' color-interpolation-filters="sRGB"'
        elif level == 'root-style':
            root_attr = ' style="color-interpolation-filters:sRGB"'
        elif level == 'css-svg':
            css = '<style>svg{color-interpolation-filters:sRGB}</style>'
        elif level == 'css-star':
            css = '<style>*{color-interpolation-filters:sRGB}</style>'
    elif mode == 'identity-css':
        # CSS filter functions always work in sRGB, whatever color-interpolation-filters says on the element or above it
        pick = [rng.choice(CSS_IDENT_FNS) for _ in range(1 + rng.below(2))]
        cif = rng.choice(['linearRGB', 'linearRGB', 'sRGB', None])
        lvl = rng.choice(['element', 'parent', 'root', 'css-svg', 'css-star'])
        used = [p.split('(')[0] + '=identity' for p in pick] + ['%s@%s' % (cif, lvl)]
        fattr = " ".join(pick)
        if cif:
            if lvl == 'element':
                gattr += ' color-interpolation-filters="%s"' % cif
            elif lvl == 'parent':
                wrap = '<g color-interpolation-filters="%s">%%s</g>' % cif
            elif lvl == 'root':
                root_attr = ' color-interpolation-filters="%s"' % cif
            else:
                css = '<style>%s{color-interpolation-filters:%s}</style>' % ('svg' if lvl == 'css-svg' else '*', cif)
    elif mode == 'css':
        fns = ['blur(%spx)' % num(rng.choice([0, 1, 2.5])), 'brightness(%s)' % num(rng.choice([0.5, 1, 1.5])), 'contrast(%s)' % num(rng.choice([0.5, 1, 2])),
               'grayscale(%s)' % num(rng.choice([0, 0.5, 1])), 'hue-rotate(%ddeg)' % rng.choice([0, 90, 200]), 'invert(%s)' % num(rng.choice([0, 0.5, 1])),
               'opacity(%s)' % num(rng.choice([0.3, 1])), 'saturate(%s)' % num(rng.choice([0, 1, 3])), 'sepia(%s)' % num(rng.choice([0, 1])),
               'drop-shadow(%spx %spx %spx %s)' % (num(rng.choice([2, -3])), num(rng.choice([2, 4])), num(rng.choice([0, 2])), rng.choice(COLORS))]
        pick = [rng.choice(fns) for _ in range(1 + rng.below(3))]
        used = [p.split('(')[0] for p in pick]
        fattr = " ".join(pick)
    else:
        nf = 1 if mode == 'random' else 2 + rng.below(2)
        for j in range(nf):
            fx, reg, u = gen_filter(rng, 'f%d' % j, bbox, force_kind=force_kind if j == nf - 1 else None)
            defs.append(fx)
            regions.append(reg)
            used += u
        fattr = " ".join('url(#f%d)' % j for j in range(nf))
    if empty_g:
        used.append('empty-g-child')
    head = '<svg %s width="160" height="160"%s>%s<defs%s>%s</defs>' % (NS, root_attr, css, defs_attr, "".join(defs))
    body_f = '<g filter="%s"%s>%s</g>' % (fattr, gattr, content)
    body_p = '<g%s>%s</g>' % (gattr, content)
    if wrap:
        body_f, body_p = wrap % body_f, wrap % body_p
    doc = head + body_f + '</svg>'
    plain = head + body_p + '</svg>'
    box_union = None
    if len(regions) > 1:
        # a filter list: every filter works on the previous result and crops to its own region, so the final result lies inside the
        # LAST filter's region; resvg keeps one layer for the union of the regions (known class filter-list-later-region-smaller)
        union = (min(r[0] for r in regions), min(r[1] for r in regions), max(r[2] for r in regions), max(r[3] for r in regions))
        box_union = hull_of([union], total)
        regions = [regions[-1]]
    box = hull_of(regions, total) if regions else None
    return dict(mode=mode, doc=doc, plain=plain, ts=root, size=size, box=box, box_union=box_union, used=used, scale=s, angle=ang, empty_g=empty_g)


CELLS4 = [(0, 0), (80, 0), (0, 80), (80, 80)]


def gen_shared_template_case(rng):
    """2-3 filters WITHOUT children that take their primitives from ONE template filter through xlink:href, each with its own
    userSpaceOnUse region and used by its own element in its own 80x80 cell: every element must stay inside ITS filter's region"""
    defs = []
    nusers = 2 + rng.below(2)
    cells = rng.sample(CELLS4, nusers)
    names = []
    kinds = ['feOffset', 'feGaussianBlur', 'feColorMatrix', 'feComponentTransfer', 'feMorphology', 'feComposite', 'feMerge']
    prims = "".join(gen_primitive(rng, rng.choice(kinds), names, False, (30.0, 30.0, 130.0, 130.0)) for _ in range(rng.below(3)))
    prims += rng.choice(['<feFlood flood-color="%s" flood-opacity="0.8"/>' % rng.choice(COLORS), '<feOffset dx="0" dy="0" in="SourceGraphic"/>',
                         '<feMerge><feMergeNode in="SourceGraphic"/></feMerge>', '<feFlood flood-color="#00f" result="bg"/><feMerge><feMergeNode in="bg"/><feMergeNode in="SourceGraphic"/></feMerge>'])
    import re as _re
    prims = _re.sub(r' (x|y|width|height)="[^"]*"', '', prims)        # no primitive subregions here
    tattrs = ' primitiveUnits="userSpaceOnUse"'
    units_on_template = rng.below(2) == 0
    if units_on_template:
        tattrs += ' filterUnits="userSpaceOnUse"'
    defs.append('<filter id="tpl"%s>%s</filter>' % (tattrs, prims))
    s = rng.choice([1, 1, 1.5, 2])
    size = int(math.ceil(160 * s))
    root = tuple(f32_of(v) for v in (s, 0.0, 0.0, s, 0.0, 0.0))
    body_f, body_p = '', ''
    boxes = []
    for u in range(nusers):
        content, bbox = gen_content(rng, defs, prefix='u%d' % u)
        bw, bh = bbox[2] - bbox[0], bbox[3] - bbox[1]
        rx, ry = bbox[0] + dy(rng, -0.3, 0.3, 16) * bw, bbox[1] + dy(rng, -0.3, 0.3, 16) * bh
        rw, rh = dy(rng, 0.5, 1.4, 16) * bw, dy(rng, 0.5, 1.4, 16) * bh
        rx, ry, rw, rh = [round(v * 4) / 4 for v in (rx, ry, max(rw, 4.0), max(rh, 4.0))]
        defs.append('<filter id="fs%d" xlink:href="#tpl"%s x="%s" y="%s" width="%s" height="%s"/>'
                    % (u, '' if units_on_template else ' filterUnits="userSpaceOnUse"', num(rx), num(ry), num(rw), num(rh)))
        gts = (0.5, 0.0, 0.0, 0.5, float(cells[u][0]), float(cells[u][1]))
        tr = ' transform="translate(%d %d) scale(0.5)"' % cells[u]
        body_f += '<g filter="url(#fs%d)"%s>%s</g>' % (u, tr, content)
        body_p += '<g%s>%s</g>' % (tr, content)
        boxes.append(hull_of([(rx, ry, rx + rw, ry + rh)], mat_mul(root, gts)))
    head = '<svg %s width="160" height="160"><defs>%s</defs>' % (NS, "".join(defs))
    return dict(mode='shared-template', doc=head + body_f + '</svg>', plain=head + body_p + '</svg>', ts=root, size=size, box=boxes[0], boxes=boxes,
                box_union=None, used=['shared-href-template', '%d users' % nusers], scale=s, angle=0, empty_g=False)


def gen_shared_function_case(rng):
    """round 5: 2-3 elements with DIFFERENT bounding boxes, each in its own 80x80 cell, that carry the textually SAME filter value: identity CSS filter
    functions (region = -10% .. 120% of the element's OWN box) or one url() filter with objectBoundingBox units.  Expectations come from the source
    document: every element stays inside the region derived from ITS box, and the identity functions leave every element unchanged (whole canvas compared)."""
    nusers = 2 + rng.below(2)
    cells = rng.sample(CELLS4, nusers)
    css = rng.below(3) != 0
    defs = ''
    if css:
        fattr = " ".join(rng.choice(CSS_IDENT_FNS) for _ in range(1 + rng.below(2)))
    else:
        fattr = 'url(#fo)'
        defs = ('<filter id="fo"%s><feFlood flood-color="%s" flood-opacity="0.5" result="bg"/><feMerge><feMergeNode in="bg"/><feMergeNode in="SourceGraphic"/></feMerge></filter>'
                % (rng.choice(['', ' filterUnits="objectBoundingBox"', ' primitiveUnits="userSpaceOnUse"']), rng.choice(COLORS)))
    s_ = rng.choice([1, 1, 1.5, 2])
    size = int(math.ceil(160 * s_))
    root = tuple(f32_of(v) for v in (s_, 0.0, 0.0, s_, 0.0, 0.0))
    body_f, body_p, boxes = '', '', []
    for u in range(nusers):
        x, y, w, h = 30 + rng.below(50), 30 + rng.below(50), 20 + 2 * rng.below(16), 20 + 2 * rng.below(16)
        col = rng.choice(COLORS[:7])
        k = rng.below(3)
        if k == 0:
            shape = '<rect x="%d" y="%d" width="%d" height="%d" fill="%s"%%s/>' % (x, y, w, h, col)
        elif k == 1:
            shape = '<ellipse cx="%d" cy="%d" rx="%d" ry="%d" fill="%s"%%s/>' % (x + w // 2, y + h // 2, w // 2, h // 2, col)
        else:
            shape = '<path d="M %d %d h %d v %d h %d Z" fill="%s"%%s/>' % (x, y, w, h, -w, col)
        tr = ' transform="translate(%d %d) scale(0.5)"' % cells[u]
        gts = (0.5, 0.0, 0.0, 0.5, float(cells[u][0]), float(cells[u][1]))
        if rng.below(2):
            body_f += '<g%s>%s</g>' % (tr, shape % (' filter="%s"' % fattr))
        else:
            body_f += '<g filter="%s"%s>%s</g>' % (fattr, tr, shape % '')
        body_p += '<g%s>%s</g>' % (tr, shape % '')
        boxes.append(hull_of([(x - 0.1 * w, y - 0.1 * h, x + 1.1 * w, y + 1.1 * h)], mat_mul(root, gts)))
    head = '<svg %s width="160" height="160"><defs>%s</defs>' % (NS, defs)
    return dict(mode='identity-shared-fn' if css else 'shared-obb', doc=head + body_f + '</svg>', plain=head + body_p + '</svg>', ts=root, size=size, box=boxes[0],
                boxes=boxes, box_union=None, used=['same-filter-value', fattr, '%d users' % nusers], scale=s_, angle=0, empty_g=False, cmp_all=css)


def is_ident(c):
    return c['mode'] in ('identity', 'identity-cut', 'identity-css', 'identity-shared-fn')


def sys_payload(c, with_plain):
    ts = ",".join(repr(float(v)) for v in c['ts'])
    box = ",".join(str(v) for v in c['box']) if c['box'] else '-'
    if c.get('boxes'):
        box = ";".join(",".join(str(v) for v in b) for b in c['boxes'])
    cmpbox = '-'
    if c['mode'] == 'identity-cut':
        # where the region cuts the content, tiny-skia clips the paths at the layer edge and re-distributes anti-aliasing
        # coverage in the two pixel rows / columns next to the edge: compare two pixels inside the region hull only
        cmpbox = "%d,%d,%d,%d" % (c['box'][0] + 3, c['box'][1] + 3, c['box'][2] - 3, c['box'][3] - 3)
    if c.get('cmp_all'):
        cmpbox = "0,0,%d,%d" % (c['size'], c['size'])
    return "-\t%s\t%s\t%s\t%d\t%d\t%s\t%s" % (c['doc'], c['plain'] if with_plain else '-', ts, c['size'], c['size'], box, cmpbox)


# Noise floors measured on the unchanged tree (seeds 1, 2, 12345; quick and thorough populations; 2026-09-30):
#  * containment: 0 pixels outside the pixel hull of the expected device region (hull grown by 2e-3 px against f32 rounding
#    of region edges that land on an integer) in every generated case.
#  * validity: 0 invalid pixels (r, g, b <= a) in every generated case and in every corpus file under tests/filters
#    (content restricted to solid / gradient paints, as the property says).
#  * identity chains (sRGB) vs the unfiltered document inside the layer box: see IDENT_TOL below.
IDENT_MAX_DELTA = 1
# edge pixels (some channel of the unfiltered rendering varies by > 8 levels in the 3x3 neighbourhood): tiny-skia's anti-aliasing is not
# invariant under the integer shift between canvas and layer.  Measured on 3 x 1600 identity cases: smooth pixels max delta 0 (98%) or 1,
# never more; edge pixels max delta 95, at most 24% (8 of 34) of a case's edge pixels differ by more than 1.
EDGE_MAX_DELTA = 128
# faint pixels (alpha <= 16 in both renderings, differing by more than 1): sub-pixel slivers sampled at the layer's integer shift only;
# measured: one such pixel (alpha 7) in one of 4800 thorough identity cases
FAINT_MAX = 6
EDGE_MIN_COUNT = 24
EDGE_MAX_FRACTION = 0.35


def classify_sys(ctx, c, r, stats, with_plain):
    """apply the three oracles to one measured case; returns list of (kind, text)"""
    bad = []
    if 'panic' in r or 'crash' in r:
        stats['panic'] = stats.get('panic', 0) + 1     # totality is C02's property (F4: size asserts with filter lists)
        return bad
    if 'error' in r:
        stats['error'] = stats.get('error', 0) + 1
        bad.append(('machinery', "system oracle document did not parse: %s" % r['error'][:150]))
        return bad
    nontrivial = r['nonblank'] > 0
    ctx.note_case("%s|%s" % (c['mode'], c['doc']), nontrivial=nontrivial)
    stats['nonblank'] = stats.get('nonblank', 0) + (1 if nontrivial else 0)
    if r['invalid'] > 0:
        bad.append(('validity', "filter output has %d pixels with a colour channel above alpha, first (x,y,r,g,b,a)=%s [%s]"
                    % (r['invalid'], r['invalid_at'], "+".join(c['used']))))
    if c['box'] is not None and r['outside'] > 0:
        text = ("%d non-transparent pixels outside the device-space filter region%s %s, first (x,y,alpha)=%s [%s]"
                % (r['outside'], 's of the elements' if c.get('boxes') else '', [list(b) for b in c['boxes']] if c.get('boxes') else list(c['box']),
                   r['outside_at'], "+".join(c['used'])))
        # KNOWN class layer-origin-negative (Coq: layer_origin_negative / C16_result_within_region_refuted): the filter layer starts left of /
        # above the canvas and tiny-skia's draw_pixmap repeats its last column / row one pixel beyond the layer.  Decided on the traced layer
        # box: every offending pixel must lie in that one extra column (only if x < 0) or row (only if y < 0).
        layers = [t for t in r.get('trace', []) if t.get('ev') == 'layer' and t.get('filters', 0) > 0]
        known = False
        if len(layers) >= 1:
            ib = layers[0]['ibbox']
            ob = r['outside_bbox']
            right, bottom = ib[0] + ib[2], ib[1] + ib[3]
            okx = ob[2] <= (right if ib[0] < 0 else right - 1)
            oky = ob[3] <= (bottom if ib[1] < 0 else bottom - 1)
            known = (ib[0] < 0 or ib[1] < 0) and okx and oky and ob[0] >= ib[0] and ob[1] >= ib[1]
        kind = 'containment-known' if known else 'containment'
        ob = r['outside_bbox']
        if not known and c.get('box_union') is not None:
            u = c['box_union']
            # KNOWN class filter-list-later-region-smaller: a list of filters, every offending pixel inside the union of the regions
            if u[0] <= ob[0] and u[1] <= ob[1] and ob[2] < u[2] + 1 and ob[3] < u[3] + 1:
                kind = 'containment-known-list'
        bad.append((kind, text))
    if with_plain and r.get('cmp'):
        m = r['cmp']
        stats.setdefault('ident_smooth_max', {})
        stats['ident_smooth_max'][m['max']] = stats['ident_smooth_max'].get(m['max'], 0) + 1
        stats['ident_edge_max'] = max(stats.get('ident_edge_max', 0), m['max_edge'])
        if m['nedge']:
            stats['ident_edge_frac_max'] = max(stats.get('ident_edge_frac_max', 0.0), round(m['nedge_diff'] / float(m['nedge']), 3))
        stats['ident_faint_max'] = max(stats.get('ident_faint_max', 0), m.get('nfaint', 0))
        if m['max'] > IDENT_MAX_DELTA or m.get('nfaint', 0) > FAINT_MAX:
            bad.append(('identity', "identity chain [%s] changes the image inside the region: %d non-edge pixels differ by more than 1 (max %d), "
                        "first (x,y,delta,filtered,unfiltered)=%s" % ("+".join(c['used']), m['ndiff1'], m['max'], m['at'])))
        elif m['max_edge'] > EDGE_MAX_DELTA or m['nedge_diff'] > max(EDGE_MIN_COUNT, EDGE_MAX_FRACTION * m['nedge']):
            bad.append(('identity', "identity chain [%s] changes the anti-aliased outline beyond rasteriser noise: %d of %d edge pixels differ by more than 1 (max %d)"
                        % ("+".join(c['used']), m['nedge_diff'], m['nedge'], m['max_edge'])))
        if m['n'] == 0 or m['n'] == m['nedge']:
            stats['empty_cmp'] = stats.get('empty_cmp', 0) + 1
    return bad


def run(ctx):
    rng = ctx.rng
    quick = ctx.tier == 'quick'
    ctx.cov['trusted_base'] = vlib.BASE_TRUSTED + [
        "Flocq 4 BinarySingleNaN as the meaning of Rust f32 + - * / (round-to-nearest-even, no FMA) and Model/F32.v for `as u8` / `as f32` / literals",
        "tools/gen_pixel.py (expression-level transcription of the byte kernels, tables, pass lists, guards)",
        "tiny-skia (rasteriser, draw_pixmap / fill_rect / blend modes, blur-independent parts), usvg filter parsing: unmodelled, exercised by "
        "correspondence and the system oracle only; tiny-skia's u8 SourceOver is hand-modelled (over_u8) and compared exhaustively",
        "blur kernels, lighting, turbulence noise, displacement, tile, non-normal blend modes, in/out/atop/xor composite, Gamma transfer, hueRotate, flood: covered by "
        "the system oracle only (feConvolveMatrix: validity proved for every window; window selection by edge mode only exercised on uniform windows)",
    ]
    ctx.assumptions = ["pixmap dimensions below 2^24 (integer -> f32 conversions of sizes are exact)",
                       "content painted with solid colours and gradients (tiny-skia's bicubic pattern shader is outside the validity clause)",
                       "crop theorem: primitive subregion not wholly left of / above the filter region (refuted otherwise; outside the property statement)"]
    broken = ctx.translate()
    res = ctx.coq_props()
    proof_ok = res['ok'] and not broken
    fut_chk = None
    if not quick and proof_ok and hasattr(ctx, 'coqchk'):
        # the independent checker re-runs the two exhaustive sweeps with its own (slow) evaluator: ~12 min, in the background
        chk_pool = cf.ThreadPoolExecutor(max_workers=1)
        t_chk = time.time()
        fut_chk = chk_pool.submit(ctx.coqchk)

    binp, blog = ctx.harness('release')
    if binp is None:
        ctx.violation("harness does not build against the current tree (correspondence cannot run)", dict(build_log=blog[-2000:]), found_input=False)
        return

    model_ok = 'Model/Pixel.v' not in res['failed'] and 'Gen/PixelTables.v' not in res['failed'] and 'Model/F32.v' not in res['failed']
    if model_ok:
        ok, log, failed = ctx.coq_build(['Model/PixelChk.v', 'Model/FilterGeom.v', 'Model/Corr.v', 'Model/FilterWire.v'])
        model_ok = ok
        if not ok:
            ctx.log("model files do not compile: %s\n%s" % (failed, log[-1500:]))
    corr_violations = 0

    # ============================================================== system oracle runs first in the background
    t_sys = time.time()
    n_rand, n_ident, n_list, n_css = (1200, 360, 100, 60) if quick else (12000, 3600, 1000, 600)
    cases = []
    for kind in PRIM_KINDS:                       # every primitive kind as the last primitive at least twice
        for _ in range(2 if quick else 8):
            cases.append(gen_sys_case(rng, 'random', force_kind=kind))
    cases += [gen_sys_case(rng, 'random') for _ in range(n_rand)]
    cases += [gen_sys_case(rng, 'identity') for _ in range(n_ident)]
    cases += [gen_sys_case(rng, 'identity-cut') for _ in range(n_ident // 3)]
    cases += [gen_sys_case(rng, 'identity-css') for _ in range(n_ident // 3)]
    cases += [gen_shared_template_case(rng) for _ in range(n_list)]
    cases += [gen_shared_function_case(rng) for _ in range(n_list)]
    cases += [gen_sys_case(rng, 'list') for _ in range(n_list)]
    cases += [gen_sys_case(rng, 'css') for _ in range(n_css)]
    pool = cf.ThreadPoolExecutor(max_workers=2)
    fut_sys = pool.submit(ctx.rvh_batch, binp, 'c16-sys', [sys_payload(c, is_ident(c)) for c in cases], (), 60)
    corpus = [p for p in vlib.corpus_files() if '/filters/' in p]
    if quick:
        corpus = [p for i, p in enumerate(corpus) if i % 2 == (ctx.seed % 2)] if len(corpus) > 200 else corpus
    fut_corpus = pool.submit(ctx.rvh_batch, binp, 'c16-sys', ["-\t@%s\t-\t1,0,0,1,0,0\t0\t0\t-\t-" % p for p in corpus], (), 60)

    # ============================================================== K1 exhaustive kernel tables
    evals = []
    kern = {}
    if model_ok:
        outs = ctx.rvh_batch(binp, 'c16-kernel', ['mul', 'demul', 'lin', 'srgb'])
        d_rand = 1 + rng.below(254)
        outs += ctx.rvh_batch(binp, 'c16-blend', ['over:0', 'over:%d' % d_rand])
        names = ['mul', 'demul', 'lin', 'srgb', 'over0', 'overd']
        overd = None
        for nme, o in zip(names, outs):
            r = jload(o)
            if 't' not in r or (nme in ('mul', 'demul', 'lin', 'srgb') and not r.get('uniform')):
                ctx.violation("kernel table %s: implementation treats r, g, b differently or changes alpha / op failed: %s" % (nme, str(r)[:200]),
                              dict(op='c16-kernel', kernel=nme))
                corr_violations += 1
                continue
            kern[nme] = r
        for nme, tbl in (('mul', 'mul_rows'), ('demul', 'demul_rows')):
            if nme in kern:
                for q in range(4):      # all 65 536 pairs, in four parallel evaluations of 64 alpha rows each
                    evals.append(('k1_%s_%d' % (nme, q), "Local Open Scope Z_scope.\nDefinition impl : list Z := %s.\nEval vm_compute in (first5 (diff_indices (%s %d 64%%nat) impl)).\n"
                                  % (zl(kern[nme]['t'][q * 16384:(q + 1) * 16384]), tbl, q * 64), IMPORTS))
        small = []
        for nme, tbl in (('lin', 'lin_table'), ('srgb', 'srgb_table')):
            if nme in kern:
                small.append("(verdict (diff_indices %s %s))" % (tbl, zl(kern[nme]['t'])))
        for nme in ('over0', 'overd'):
            if nme in kern:
                d = {'over0': 0}.get(nme, d_rand)
                small.append("(verdict (diff_indices (over_table %d) %s))" % (d, zl(kern[nme]['t'])))
                small.append("(verdict (diff_indices (over_alpha_table %d) %s))" % (d, zl(kern[nme]['ta'])))
        evals.append(('k1_small', "Local Open Scope Z_scope.\nEval vm_compute in [%s].\n" % ";\n".join(small), IMPORTS))

    # ============================================================== K2 filter::apply on chosen sources
    if quick:
        alphas = sorted(set([0, 1, 128, 254, 255] + [rng.below(256) for _ in range(3)]))
    else:
        # the leaf kernels are compared on all 65 536 pairs above; the composed pipelines on 72 alpha rows x 256 colours
        alphas = sorted(set(list(range(0, 256, 4)) + [1, 2, 3, 127, 129, 253, 254, 255]))
    acases = gen_pair_cases(rng, alphas) + gen_apply_cases(rng, 30 if quick else 240) + [gen_wire_case(rng) for _ in range(18 if quick else 150)]
    aouts = ctx.rvh_batch(binp, 'c16-apply', ["-\t%s\t1,0,0,1,0,0\t%s\t%s" % (c['doc'], c['src'], c['out']) for c in acases]) if model_ok else []
    groups = {}
    for i, (c, o) in enumerate(zip(acases, aouts)):
        r = jload(o)
        c['res'] = r
        if 'out' not in r:
            ctx.violation("filter::apply correspondence case failed to run (%s): %s" % (c['kind'], str(r)[:200]),
                          dict(op='c16-apply', doc=c['doc'], src=c['src']))
            corr_violations += 1
            continue
        if c['out'] == 'ra' and not r.get('grey'):
            ctx.violation("filter::apply on a grey image returned r, g, b that differ (%s)" % c['kind'], dict(op='c16-apply', doc=c['doc'], src=c['src']))
            corr_violations += 1
            continue
        ctx.note_case("apply|" + c['kind'] + c['doc'] + c['src'])
        g = 'pairs%d' % i if c['out'] == 'ra' else ('wire%d' % (i % 3) if c['kind'] == 'wire' else 'rand%d' % (i % 6))
        groups.setdefault(g, []).append(i)
    for g, idxs in groups.items():
        items = []
        for i in idxs:
            c = acases[i]
            chk = 'chk_ra' if c['out'] == 'ra' else 'chk_rgba'
            items.append("(verdict (%s %s %s %s 0%%N))" % (chk, c['model'], zl(c['res']['src']), zl(c['res']['out'])))
        evals.append(('k2_' + g, "Local Open Scope Z_scope.\nEval vm_compute in [%s].\n" % ";\n".join(items), IMPORTS))

    # ============================================================== K3 morphology
    mcases = []
    for _ in range(24 if quick else 200):
        w, h = 1 + rng.below(7), 1 + rng.below(7)
        rx, ry = rng.choice([0.25, 0.5, 1, 1.5, 2, 3, 7.25]), rng.choice([0.25, 1, 2, 2.5, 4])
        mcases.append(dict(op=rng.choice(['erode', 'dilate']), rx=rx, ry=ry, w=w, h=h, seed=rng.below(1 << 30), valid=rng.below(2)))
    mouts = ctx.rvh_batch(binp, 'c16-morph', ["%s\t%s\t%s\t%d\t%d\t%d\t%d" % (c['op'], c['rx'], c['ry'], c['w'], c['h'], c['seed'], c['valid'])
                                              for c in mcases]) if model_ok else []
    items = []
    midx = []
    for i, (c, o) in enumerate(zip(mcases, mouts)):
        r = jload(o)
        if 'out' not in r:
            ctx.violation("morphology kernel failed to run: %s" % str(r)[:200], dict(op='c16-morph', case=c))
            corr_violations += 1
            continue
        ctx.note_case("morph|%s" % json.dumps(c, sort_keys=True))
        items.append("(verdict (diff_indices (of_pxs (morphology %s %d %d %d %d (to_pxs %s))) %s))"
                     % ('Erode' if c['op'] == 'erode' else 'Dilate', math.ceil(c['rx']), math.ceil(c['ry']), c['w'], c['h'], zl(r['src']), zl(r['out'])))
        midx.append(i)
    if items:
        evals.append(('k3_morph', "Local Open Scope Z_scope.\nEval vm_compute in [%s].\n" % ";\n".join(items), IMPORTS))

    # ============================================================== K4 crop rectangles
    ccases = []
    for j in range(40 if quick else 300):
        W, H = 4 + rng.below(20), 4 + rng.below(20)
        X, Y = rng.below(30) - 10, rng.below(30) - 10
        k = rng.below(8)
        if k == 0:      # wholly left of / above the region: the uncovered quirk of the four rectangles
            sw, sh = 1 + rng.below(W), 1 + rng.below(H)
            sx, sy = X - sw - rng.below(6) - (0 if rng.below(2) else 1), Y + rng.below(H)
            if rng.below(2):
                sx, sy = X + rng.below(W), Y - sh - rng.below(6) - 1
        else:
            sx, sy = X + rng.below(W + 8) - 4, Y + rng.below(H + 8) - 4
            sw, sh = 1 + rng.below(W + 4), 1 + rng.below(H + 4)
        sc = rng.choice([1, 1, 2])
        doc = ('<svg %s width="100" height="100"><filter id="f" filterUnits="userSpaceOnUse" primitiveUnits="userSpaceOnUse" x="%d" y="%d" width="%d" height="%d">'
               '<feFlood flood-color="red" x="%d" y="%d" width="%d" height="%d"/></filter><rect x="%d" y="%d" width="%d" height="%d" filter="url(#f)"/></svg>'
               % (NS, X, Y, W, H, sx, sy, sw, sh, X, Y, W, H))
        ccases.append(dict(doc=doc, W=W * sc, H=H * sc, sub=((sx - X) * sc, (sy - Y) * sc, sw * sc, sh * sc), sc=sc, region=(X * sc, Y * sc, W * sc, H * sc)))
    couts = ctx.rvh_batch(binp, 'c16-apply', ["-\t%s\t%d,0,0,%d,0,0\topaque:%d:%d\ta01" % (c['doc'], c['sc'], c['sc'], c['W'], c['H']) for c in ccases]) if model_ok else []
    items = []
    cidx = []
    quirk_seen = 0
    for i, (c, o) in enumerate(zip(ccases, couts)):
        r = jload(o)
        if 'out' not in r:
            ctx.violation("crop correspondence case failed to run: %s" % str(r)[:200], dict(op='c16-apply', doc=c['doc']))
            corr_violations += 1
            continue
        tr = [t for t in r.get('trace', []) if t.get('ev') == 'filter']
        if not tr or tuple(tr[0]['region']) != c['region']:
            ctx.violation("device-space filter region differs from the integer region of the document: traced %s, expected %s"
                          % (tr[0]['region'] if tr else None, list(c['region'])), dict(op='c16-apply', doc=c['doc'], scale=c['sc']))
            corr_violations += 1
            continue
        if c['sub'][0] + c['sub'][2] < 0 or c['sub'][1] + c['sub'][3] < 0:
            quirk_seen += 1
        ctx.note_case("crop|" + c['doc'] + str(c['sc']))
        items.append("(verdict (diff_indices (crop_bitmap %d %d {| ix := %d; iy := %d; iw := %d; ih := %d |}) %s))"
                     % ((c['W'], c['H']) + c['sub'] + (zl(r['out']),)))
        cidx.append(i)
    if items:
        evals.append(('k4_crop', "Local Open Scope Z_scope.\nEval vm_compute in [%s].\n" % ";\n".join(items), GEO_IMPORTS + IMPORTS))
    ctx.cov['crop_cases_with_subregion_left_or_above'] = quirk_seen

    # ============================================================== K7 draw_pixmap destination rectangle (tiny-skia Rect::round)
    dcases = []
    for j in range(30 if quick else 200):
        W, H = 3 + rng.below(10), 3 + rng.below(10)
        w, h = 1 + rng.below(8), 1 + rng.below(8)
        dcases.append((rng.below(W + 8) - 8, rng.below(H + 8) - 8, w, h, W, H))
    douts = ctx.rvh_batch(binp, 'c16-blend', ["draw:%d:%d:%d:%d:%d:%d" % c for c in dcases]) if model_ok else []
    items = []
    for c, o in zip(dcases, douts):
        r = jload(o)
        if 't' not in r:
            continue
        ctx.note_case("draw|%s" % (c,))
        items.append("(verdict (diff_indices (draw_bitmap %d %d {| ix := %d; iy := %d; iw := %d; ih := %d |}) %s))" % (c[4], c[5], c[0], c[1], c[2], c[3], zl(r['t'])))
    if items:
        evals.append(('k7_draw', "Local Open Scope Z_scope.\nEval vm_compute in [%s].\n" % ";\n".join(items), GEO_IMPORTS + IMPORTS))

    # ============================================================== collect the system oracle, feed K5
    souts = fut_sys.result()
    corp_outs = fut_corpus.result()
    ctx.log("system oracle measured (%d generated, %d corpus) in %.0fs" % (len(cases), len(corpus), time.time() - t_sys))
    stats = {}
    sys_bad = []
    layer_items = []
    layer_src = []
    kinds_hist = {}
    mism = 0
    for c, o in zip(cases, souts):
        r = jload(o)
        for u in c['used']:
            kinds_hist[u] = kinds_hist.get(u, 0) + 1
        for kind, text in classify_sys(ctx, c, r, stats, is_ident(c)):
            sys_bad.append((kind, text, c))
        layers = [t for t in r.get('trace', []) if t.get('ev') == 'layer' and t.get('filters', 0) > 0]
        filt = [t for t in r.get('trace', []) if t.get('ev') == 'filter']
        for t in layers[:1]:
            if all(isinstance(v, (int, float)) for v in t['bbox']):
                layer_items.append("(opt_eqb irect_eqb (filter_layer {| rx := %s; ry := %s; rw := %s; rh := %s |} {| ix := %d; iy := %d; iw := %d; ih := %d |}) "
                                   "(Some {| ix := %d; iy := %d; iw := %d; ih := %d |}))"
                                   % (tuple(qstr(v) for v in t['bbox']) + tuple(t['max']) + tuple(t['ibbox'])))
                layer_src.append((c, t))
                if c['box'] is not None and c.get('box_union') is None and not c.get('boxes'):
                    ib = t['ibbox']
                    if not (c['box'][0] <= ib[0] and c['box'][1] <= ib[1] and ib[0] + ib[2] <= c['box'][2] and ib[1] + ib[3] <= c['box'][3]):
                        sys_bad.append(('containment', "the layer of the filtered group %s is not inside the pixel hull %s of the filter region computed from the document"
                                        % (ib, list(c['box'])), c))
        if len(layers) == 1 and len(filt) == 1 and (filt[0]['region'][2:] != filt[0]['source'] or filt[0]['region'][:2] != [0, 0]):
            mism += 1
    ctx.cov['region_vs_layer_mismatch'] = mism      # F4's domain (clamped layer / union of several filters); informative only
    for p, o in zip(corpus, corp_outs):
        r = jload(o)
        if 'panic' in r or 'crash' in r or 'error' in r:
            stats['corpus_skipped'] = stats.get('corpus_skipped', 0) + 1
            continue
        ctx.note_case("corpus|" + p, nontrivial=r['nonblank'] > 0)
        if r['invalid'] > 0 and '/pattern' not in p:
            sys_bad.append(('validity', "corpus file renders %d pixels with a colour channel above alpha, first %s" % (r['invalid'], r['invalid_at']),
                            dict(doc='@' + p, plain='-', ts=(1, 0, 0, 1, 0, 0), size=0, box=None, used=[os.path.basename(p)], mode='corpus')))
    if layer_items and model_ok:
        evals.append(('k5_layer', "Local Open Scope Z_scope.\nDefinition cases : list bool := [\n%s\n].\nEval vm_compute in (bad_indices (fun b => b) cases).\n"
                      % ";\n".join(layer_items), GEO_IMPORTS))

    # ============================================================== evaluate the model (all comparisons inside Coq)
    t_ev = time.time()
    results = run_evals(ctx, evals, workers=12) if evals else {}
    ctx.log("%d model evaluations in %.0fs" % (len(evals), time.time() - t_ev))
    n_corr = 0
    per_kind = {}

    def vio(kind, text, replay):
        per_kind[kind] = per_kind.get(kind, 0) + 1
        if per_kind[kind] <= 3:        # at most three replays per correspondence operation
            ctx.violation(text, replay)

    for name, (rc, out) in sorted(results.items()):
        lst = ctx.parse_N_list(out) if rc == 0 else None
        if lst is None:
            model_ok = False
            ctx.log("model evaluation %s failed:\n%s" % (name, out[-1200:]))
            continue
        if name.startswith('k1_') and name != 'k1_small':
            n_corr += 16384
            if lst:
                nme, q = name[3:].rsplit('_', 1)
                i = lst[0] + int(q) * 16384
                vio('k1_', "exhaustive table of %s_alpha disagrees with the source-derived model at (c=%d, a=%d): implementation gives %d (%d+ pairs differ)"
                              % ('multiply' if nme == 'mul' else 'demultiply', i % 256, i // 256, kern[nme]['t'][i], len(lst)),
                              dict(op='c16-kernel', kernel=nme, c=i % 256, a=i // 256, implementation=kern[nme]['t'][i]))
                corr_violations += 1
        elif name == 'k1_small':
            labels = [n for n in ('lin', 'srgb') if n in kern] + [x for n in ('over0', 'overd') if n in kern for x in (n, n + '/alpha')]
            n_corr += 512 + 65536 * 4
            for lab, v in zip(labels, lst):
                if v:
                    vio('k1_small', "table %s disagrees with the model at index %d" % (lab, v - 1), dict(op='c16-kernel/c16-blend', table=lab, index=v - 1))
                    corr_violations += 1
        elif name.startswith('k2_'):
            for i, v in zip(groups[name[3:]], lst):
                c = acases[i]
                n_corr += len(c['res']['out']) // (2 if c['out'] == 'ra' else 4)
                if v:
                    j = v - 1
                    step = 2 if c['out'] == 'ra' else 4
                    vio('k2_', "filter::apply (%s) disagrees with the per-pixel model at pixel %d: source %s -> implementation %s"
                                  % (c['kind'], j, c['res']['src'][j * step:(j + 1) * step], c['res']['out'][j * step:(j + 1) * step]),
                                  dict(op='c16-apply', doc=c['doc'], src=c['src'], pixel=j, source_pixel=c['res']['src'][j * step:(j + 1) * step],
                                       implementation=c['res']['out'][j * step:(j + 1) * step], model=c['model']))
                    corr_violations += 1
        elif name == 'k3_morph':
            n_corr += len(lst)
            for i, v in zip(midx, lst):
                if v:
                    vio('k3_morph', "morphology kernel disagrees with the model (case %s, first differing byte %d)" % (mcases[i], v - 1),
                                  dict(op='c16-morph', case=mcases[i]))
                    corr_violations += 1
        elif name == 'k4_crop':
            n_corr += len(lst)
            for i, v in zip(cidx, lst):
                if v:
                    c = ccases[i]
                    vio('k4_crop', "cropping a primitive result to its subregion disagrees with the four-rectangle model at pixel index %d "
                                  "(pixmap %dx%d, region-relative subregion %s)" % (v - 1, c['W'], c['H'], list(c['sub'])),
                                  dict(op='c16-apply', doc=c['doc'], scale=c['sc'], pixel_index=v - 1))
                    corr_violations += 1
        elif name == 'k7_draw':
            n_corr += len(lst)
            for c, v in zip(dcases, lst):
                if v:
                    vio('k7_draw', "draw_pixmap of a %dx%d pixmap at (%d,%d) on a %dx%d canvas covers other pixels than the model of tiny-skia's destination "
                                  "rectangle (first differing pixel index %d)" % (c[2], c[3], c[0], c[1], c[4], c[5], v - 1), dict(op='c16-blend', table="draw:%d:%d:%d:%d:%d:%d" % c))
                    corr_violations += 1
        elif name == 'k5_layer':
            n_corr += len(layer_items)
            for b in lst[:3]:
                c, t = layer_src[b]
                vio('k5_layer', "traced filter layer %s is not to_int_rect + fit_to_rect of the traced device box %s (max %s)" % (t['ibbox'], t['bbox'], t['max']),
                              dict(op='c16-sys', doc=c['doc'], ts=list(c['ts']), size=c['size'], trace=t))
                corr_violations += 1
    ctx.cov['correspondence_cases'] = n_corr
    ctx.cov['exhaustive_tables'] = ['multiply_alpha 65536', 'demultiply_alpha 65536', 'into_linear_rgb 256', 'from_linear_rgb 256',
                                    'tiny-skia SourceOver 2 x 65536 (colour and alpha; destination 0 and a random value)',
                                    'filter::apply on %d alpha rows x 256 colours: identity matrix, identity transfer, linearRGB merge, luminanceToAlpha' % len(alphas)]

    # ============================================================== verdicts of the system oracle
    by_kind = {}
    for kind, text, c in sys_bad:
        by_kind.setdefault(kind, []).append((text, c))
    ctx.cov['known_class_hits'] = {'layer-origin-negative': len(by_kind.get('containment-known', [])),
                                   'filter-list-later-region-smaller': len(by_kind.get('containment-known-list', []))}
    for kind, lst in by_kind.items():
        lst.sort(key=lambda tc: len(tc[1]['doc']))
        for text, c in lst[:2]:
            if kind == 'containment-known-list':
                cls = 'filter-list-later-region-smaller'
                ctx.known_or_violation(cls, text, dict(op='c16-sys', doc=c['doc'], plain='-', ts=list(c['ts']), size=c['size'], box=list(c['box']),
                                                       clause='containment', known_class=cls))
                continue
            if kind == 'containment-known':
                ctx.known_or_violation('layer-origin-negative', text, dict(op='c16-sys', doc=c['doc'], plain='-', ts=list(c['ts']), size=c['size'],
                                                                         box=list(c['box']), clause='containment', known_class='layer-origin-negative'))
                continue
            ctx.violation(text, dict(op='c16-sys', doc=c['doc'], plain=c.get('plain', '-'), ts=list(c['ts']), size=c['size'],
                                     box=list(c['box']) if c.get('box') else None, boxes=[list(b) for b in c['boxes']] if c.get('boxes') else None, clause=kind, payload=sys_payload(c, is_ident(c)) if c['mode'] != 'corpus' else None))
    # the witness of the known class is replayed on every run (it documents the class; if it stops reproducing the guard can be dropped)
    wit = os.path.join(vlib.VERIF, 'corpus', 'witness', 'C16-layer-origin-negative.svg')
    if os.path.exists(wit):
        wr = jload(ctx.rvh_batch(binp, 'c16-sys', ["-\t@%s\t-\t1,0,0,1,0,0\t40\t40\t-6,-10,15,11\t-" % wit])[0])
        ctx.cov['known_witness_layer_origin_negative'] = dict(outside=wr.get('outside'), outside_bbox=wr.get('outside_bbox'))
        if wr.get('outside', 0) > 0:
            ctx.known_or_violation('layer-origin-negative', "witness corpus/witness/C16-layer-origin-negative.svg: %d pixels painted below the filter region" % wr['outside'],
                                   dict(op='c16-sys', doc='@' + wit, plain='-', ts=[1, 0, 0, 1, 0, 0], size=40, box=[-6, -10, 15, 11], clause='containment',
                                        known_class='layer-origin-negative'))
    # fixed in /repo ab43936: the witness must stay inside the region the document specifies (48,48)-(72,72)
    wit2 = os.path.join(vlib.VERIF, 'corpus', 'witness', 'C16-empty-group-bbox.svg')
    if os.path.exists(wit2):
        w2 = jload(ctx.rvh_batch(binp, 'c16-sys', ["-\t@%s\t-\t1,0,0,1,0,0\t100\t100\t48,48,72,72\t-" % wit2])[0])
        ctx.cov['fixed_witness_empty_group_bbox'] = dict(outside=w2.get('outside'))
        if w2.get('outside', 1) != 0:
            ctx.violation("regression of fixed finding ab43936: an empty <g/> child moves the objectBoundingBox filter region (%s pixels outside (48,48)-(72,72))"
                          % w2.get('outside'), dict(op='c16-sys', doc='@' + wit2, plain='-', ts=[1, 0, 0, 1, 0, 0], size=100, box=[48, 48, 72, 72], clause='containment'))
    ctx.cov['system_cases'] = dict(generated=len(cases), corpus=len(corpus), **stats)
    ctx.cov['primitive_kinds'] = kinds_hist
    for c in cases[:2] + [c for c in cases if is_ident(c)][:1]:
        ctx.add_sample(dict(op='c16-sys', mode=c['mode'], doc=c['doc'][:600], ts=list(c['ts'])))
    if acases:
        ctx.add_sample(dict(op='c16-apply', kind=acases[-1]['kind'], doc=acases[-1]['doc'][:400], src=acases[-1]['src']))

    if fut_chk is not None:
        if not fut_chk.result():
            proof_ok = False
            res['audit'].append('coqchk rejected the compiled closure of Props/C16.vo')
        ctx.log("coqchk finished %.0fs after its start" % (time.time() - t_chk))

    # ============================================================== protocol for broken proofs / ties
    if not proof_ok or not model_ok:
        # (i) model-level search: evaluate the statements of the exhaustive lemmas over the regenerated definitions
        if model_ok:
            searches = [
                ('search_mul_valid', IMPORTS, "multiply_alpha yields a colour channel above alpha"),
                ('search_roundtrip', IMPORTS, "multiply_alpha(demultiply_alpha(c, a), a) differs from c for a valid channel c <= a"),
                ('search_from_to_normalized', IMPORTS, "from_normalized(to_normalized(c)) differs from c"),
                ('search_identity_matrix', IMPORTS, "the identity colour matrix changes an opaque grey pixel"),
                ('search_identity_transfer', IMPORTS, "an identity transfer function (linear 1 0 / table 0 1) changes a byte"),
                ('search_lut_monotone', IMPORTS, "a lookup table is not monotone"),
                ('search_convolve_valid', IMPORTS, "feConvolveMatrix stores a colour channel above alpha"),
                ('search_identity_saturate_hue', IMPORTS, "feColorMatrix saturate(1) / hueRotate(0) changes an opaque grey pixel"),
                ('into_linear_bad', ['Model.Base', 'Model.F32', 'Gen.PixelTables', 'Model.SrgbSpec'], "SRGB_TO_LINEAR_RGB_TABLE entry is not the rounded sRGB transfer function"),
                ('from_linear_bad', ['Model.Base', 'Model.F32', 'Gen.PixelTables', 'Model.SrgbSpec'], "LINEAR_RGB_TO_SRGB_TABLE entry is not the rounded sRGB transfer function"),
            ]
            ok2, _, _ = ctx.coq_build(['Model/SrgbSpec.v'])
            sres = run_evals(ctx, [('s_' + n, "Eval vm_compute in %s.\n" % n, imp) for n, imp, _ in searches if ok2 or 'SrgbSpec' not in imp[-1]])
            import re as _re
            for n, imp, text in searches:
                rc, out = sres.get('s_' + n, (1, ''))
                if rc != 0:
                    continue
                m = _re.search(r"=\s*\[(.*?)\]\s*:\s*list", out, _re.S)
                if not m or not m.group(1).strip():
                    continue
                nums = [int(x) for x in _re.findall(r"-?\d+", m.group(1))]
                if n == 'search_convolve_valid':
                    pv, k4, d4, b4, c0, a0 = nums[:6]
                    doc = apply_doc(256, 1, '<feConvolveMatrix order="1" kernelMatrix="%s" divisor="%s" bias="%s" preserveAlpha="%s"/>'
                                    % (num(k4 / 4), num(d4 / 4), num(b4 / 4), 'true' if pv else 'false'))
                    o = jload(ctx.rvh_batch(binp, 'c16-apply', ["-\t%s\t1,0,0,1,0,0\tpairs:%d\tra" % (doc, a0)])[0])
                    got = o.get('out', [None] * 512)[2 * c0:2 * c0 + 2]
                    ctx.violation("%s (C16_convolve_valid): model counterexample kernelMatrix=%s divisor=%s bias=%s preserveAlpha=%s on the pixel (%d,%d,%d,%d); the real "
                                  "filter::apply stores r,a=%s" % (text, num(k4 / 4), num(d4 / 4), num(b4 / 4), bool(pv), c0, c0, c0, a0, got),
                                  dict(op='c16-apply', doc=doc, src='pairs:%d' % a0, pixel=c0, lemma=n, witness=nums[:6], failed_files=res['failed']),
                                  found_input=bool(got and got[0] is not None and got[0] > got[1]))
                elif n == 'search_identity_saturate_hue':
                    kd, c0 = nums[0], nums[1]
                    doc = apply_doc(256, 1, '<feColorMatrix type="%s"/>' % ('saturate" values="1' if kd == 0 else 'hueRotate" values="0'))
                    o = jload(ctx.rvh_batch(binp, 'c16-apply', ["-\t%s\t1,0,0,1,0,0\tpairs:255\tra" % doc])[0])
                    got = o.get('out', [None] * 512)[2 * c0:2 * c0 + 2]
                    ctx.violation("%s (C16_identity_%s): model counterexample: the opaque grey pixel %d; the real filter::apply returns r,a=%s"
                                  % (text, 'saturate1' if kd == 0 else 'hue0', c0, got),
                                  dict(op='c16-apply', doc=doc, src='pairs:255', pixel=c0, lemma=n, witness=nums[:2], failed_files=res['failed']),
                                  found_input=bool(got and got[0] is not None and got[0] != c0))
                elif n in ('search_mul_valid', 'search_roundtrip'):
                    c0, a0 = nums[0], nums[1]
                    doc = apply_doc(256, 1, '<feColorMatrix type="matrix" values="%s"/>' % IDENT)
                    o = jload(ctx.rvh_batch(binp, 'c16-apply', ["-\t%s\t1,0,0,1,0,0\tpairs:%d\tra" % (doc, a0)])[0])
                    got = o.get('out', [None] * 512)[2 * min(c0, a0):2 * min(c0, a0) + 2]
                    ctx.violation("%s: model counterexample (c=%d, a=%d); the real filter::apply with the identity colour matrix maps the pixel (%d,%d,%d,%d) to r,a=%s"
                                  % (text, c0, a0, min(c0, a0), min(c0, a0), min(c0, a0), a0, got),
                                  dict(op='c16-apply', doc=doc, src='pairs:%d' % a0, pixel=min(c0, a0), lemma=n, witness=[c0, a0], failed_files=res['failed']))
                else:
                    c0 = nums[0]
                    ctx.violation("%s: model counterexample at byte %d (source-derived definitions of the current tree)" % (text, c0),
                                  dict(op='c16-kernel', kernel='lin' if n == 'into_linear_bad' else 'srgb' if n == 'from_linear_bad' else 'mul',
                                       c=c0, a=255, lemma=n, witness=nums[:5], failed_files=res['failed']))
        if not ctx.violations:
            ctx.violation("C16 proof obligations / source ties no longer check and neither the model search, the correspondence nor the system oracle found a failing input: %s %s"
                          % (res['failed'] + res['audit'], [b['name'] + ': ' + b['err'][:120] for b in broken]),
                          dict(failed_files=res['failed'], audit=res['audit'], broken_ties=broken, log_tail=res['log'][-3000:]), found_input=False)
    ctx.cov['rule'] = ("kernel tables: all 65536 (colour, alpha) byte pairs; filter::apply: byte pairs on %d alpha rows + random valid premultiplied pixels x random "
                       "dyadic parameters; morphology: random images up to 7x7 x radii; crop: random integer regions/subregions incl. subregions outside the region; "
                       "system: generated solid/gradient content x every primitive kind x inputs (SourceGraphic, SourceAlpha, named, missing, unsupported) x subregions x "
                       "filterUnits/primitiveUnits both kinds x colour-interpolation x chains 1..5 x lists 2..3 x CSS functions x root scale 0.5..3 x rotation, plus identity "
                       "chains and the corpus filters directory.  A system case is non-trivial when the rendering is not blank; distinct by document text." % len(alphas))


def replay(ctx, path):
    r = json.load(open(path))
    rp = r.get('replay', {})
    print(json.dumps({k: v for k, v in r.items() if k != 'replay'}, indent=1))
    binp, _ = ctx.harness('release')
    if binp is None:
        print("harness does not build")
        return 1
    op = rp.get('op')
    if op == 'c16-sys' and rp.get('doc'):
        ts = ",".join(repr(float(v)) for v in rp['ts'])
        box = ",".join(str(v) for v in rp['box']) if rp.get('box') else '-'
        if rp.get('boxes'):
            box = ";".join(",".join(str(v) for v in b) for b in rp['boxes'])
        out = ctx.rvh_batch(binp, 'c16-sys', ["-\t%s\t%s\t%s\t%d\t%d\t%s\t-" % (rp['doc'], rp.get('plain') or '-', ts, rp['size'], rp['size'], box)])
        print("document:", rp['doc'])
        print("measured:", out[0])
    elif op == 'c16-apply':
        sc = rp.get('scale', 1)
        src = rp.get('src') or 'opaque:64:64'
        out = ctx.rvh_batch(binp, 'c16-apply', ["-\t%s\t%d,0,0,%d,0,0\t%s\t%s" % (rp['doc'], sc, sc, src, 'rgba')])
        print("document:", rp['doc'])
        print("source:", src, "pixel:", rp.get('pixel'), "source pixel:", rp.get('source_pixel'), "implementation:", rp.get('implementation'), "model:", rp.get('model'))
        print("measured:", (out[0] or '')[:600])
    elif op == 'c16-kernel':
        out = ctx.rvh_batch(binp, 'c16-kernel', [rp['kernel']])
        t = jload(out[0]).get('t', [])
        i = rp.get('a', 0) * 256 + rp.get('c', 0)
        print("kernel %s at (c=%s, a=%s): implementation now gives %s" % (rp['kernel'], rp.get('c'), rp.get('a'), t[i] if i < len(t) else None))
    elif op == 'c16-morph':
        c = rp['case']
        out = ctx.rvh_batch(binp, 'c16-morph', ["%s\t%s\t%s\t%d\t%d\t%d\t%d" % (c['op'], c['rx'], c['ry'], c['w'], c['h'], c['seed'], c['valid'])])
        print("measured:", out[0])
    else:
        print(json.dumps(rp, indent=1)[:4000])
    return 0
