"""C01  Parsing is total: no panic, stack overflow, abort or hang on any input."""
import glob
import gzip
import json
import os
import re
import struct

import vlib
import c01gen as G
import c03gen as G3

KNOWN_FANOUT = 'reference-fan-out-exponential'
KNOWN_TEXTPATH = 'textpath-huge-path'
KNOWN_IMAGE = 'image-huge-size'
KNOWN_TORIGIN = 'transform-origin-sign'
KNOWN_ARC = 'path-arc-huge'
# svgtypes (external crate): registered in round 4
KNOWN_TORIGIN_EXP = 'transform-origin-dangling-exponent'
# found while re-deriving the time budget (session 4): text layout costs ~150-200 us per text element and `use` expansion
# multiplies text elements up to the node limit
KNOWN_TEXTBOMB = 'text-use-expansion'
TEXTBOMB_MIN = 50000        # expanded text elements: 50 000 x 150 us = 7.5 s of text layout
# witnesses of fixed findings (fixes 0f46e14: nested marker instances are limited; 7272c32: no stroker for coordinates beyond
# 1e18; 728fa22: the elements copied by marker instances are limited; 37642ef: the unique clip paths / masks / filters /
# paint servers of a tree are collected in linear time): must parse within the budget, whatever a class predicate says
MUST_PASS = ('C01-fanout-marker.svg', 'C01-marker-bomb-k14.svg', 'C01-stroked-quad-huge.svg', 'C01-stroked-text-huge-font.svg',
             'C01-marker-product.svg', 'C01-unique-defs-quadratic.svg', 'C01-unique-defs-quadratic-marker.svg',
             'C01-unique-defs-quadratic-bomb.svg')

# CPU-time budget of one Tree::from_data call: A + B * bytes (microseconds, thread CPU time measured inside the worker).
# Noise floor measured over the whole corpus (1695 files) with 16 workers on a loaded machine (load average 60):
#   release: worst file 10.3 ms (text/font-size/named-value.svg), worst per-byte cost 8.8 us/byte (text/text/zalgo.svg)
#   debug (opt-level 1 + overflow checks + debug assertions): 8.1 ms, 10.0 us/byte
#   constant work allowed by the limits: use chain x512 (131 840 nodes) 0.50 s release / 0.72 s debug;
#   use bombs stopped by the 1 000 000-node limit 0.20 - 0.28 s; deepest legal nesting 23 ms.
#   since the fixes 728fa22 / 37642ef (session 4) the budget is re-derived from what the limits of the code admit, measured alone on the
#   reference machine (release / debug):
#     100 000 nested marker instances (C01-marker-bomb-k14.svg)                        0.61 s / 0.68 s  (2.4 s before 37642ef)
#     use bomb of a path with markers, 1 390 000 nodes from 1.4 KB                     3.7 s  / 3.9 s
#     use bomb of rectangles with objectBoundingBox clip path + mask + pattern, 3.2 KB    4.9 s  / 5.7 s  (49 s before 37642ef)
#     marker instances up to the 1 000 000-element limit (C01-marker-product.svg)      2.4 s  / 2.7 s
#     960 000 objectBoundingBox-clipped rectangles from 64 KB (flat use), 1.9 M nodes  5.6 s  / 6.2 s   (87 us/byte)
#     the same with marker paths from 99 KB, 2.9 M nodes                               7.7 s  / 9.0 s
#   i.e. ~2.6-2.9 us per node of the result; a small document reaches ~1.2-2 M nodes (a use bomb spends half of the 1 000 000 svgtree
#   nodes on its intermediate levels), a 64 KiB document ~3 M.  Text is the exception: ~150-200 us per text element, known class
#   text-use-expansion.
# A = 2x the largest constant work a small document can legally ask for (~6 s), B = 45x the worst per-byte cost of the corpus and 4.6x the
# worst per-byte cost of a legal flat document.  (A was 4 s / 8 s = "7x the largest legal constant work" when only use chains and use
# bombs of single rectangles had been measured; that was 1.6x the work of C01-marker-bomb-k14.svg and raised a false alarm, see below.)
# A verdict is never taken from a measurement made while 16 workers share the cores (thread CPU time doubles on a loaded SMT machine:
# 2.4 s -> 4.75 s was observed for C01-marker-bomb-k14.svg): an over-budget or timed-out document is measured again
# alone (SOLO_RUNS runs, the fastest counts), against the budget scaled by the speed of the machine as measured on two
# calibration documents at that moment (see `solo` in e2e).  Noise can only add CPU time, so the fastest solitary run is the
# fairest measurement of the work the document asks for; a hang or an exponential expansion stays over any such budget.
BUDGET = {'release': (12_000_000, 400), 'debug': (14_000_000, 800)}
SOLO_RUNS = 3
# calibration: (label of a generated / corpus document, CPU us alone on the reference machine: release, debug); the machine
# factor is the smaller of the two ratios measured / reference, clamped to [1, 4] (a change to the repository that slows one of
# the two documents down does not loosen the budget; one that slows both down by less than 4x loosens it by that factor at most)
CALIBRATION = (('corpus/c01/C01-fanout-marker.svg', {'release': 320_000, 'debug': 375_000}),
               ('use chain x512', {'release': 535_000, 'debug': 573_000}))


def text_nesting_depth(data):
    """deepest nesting of elements below a <text> element (cheap scan, no XML parser)"""
    try:
        t = data.decode('utf-8', 'replace')
    except Exception:
        return 0
    best = 0
    for m in re.finditer(r'<text\b', t):
        depth = 0
        i = m.start()
        end = min(len(t), i + 400000)
        for tag in re.finditer(r'<(/?)([A-Za-z][A-Za-z0-9]*)\b[^<>]*?(/?)>', t[i:end]):
            if tag.group(3):
                continue
            if tag.group(1):
                depth -= 1
                if depth <= 0:
                    break
            else:
                depth += 1
                best = max(best, depth)
    return best


DEF_TAGS = ('pattern', 'mask', 'clipPath', 'filter', 'marker', 'linearGradient', 'radialGradient')


def converted_once(tag, attrs, by_id, depth=0):
    """the converter's caches (paint_server::convert, clippath / mask / filter ::convert) keep this definition after its
    first conversion.  Same rule as Model/Totality.v `cacheable` (derived from the cache lookup sites, Gen/Totality.v)."""
    def a(name, at=None):
        m = re.search(r'\b%s\s*=\s*"([^"]*)"' % re.escape(name), attrs if at is None else at)
        return m.group(1) if m else None
    if tag in ('linearGradient', 'radialGradient'):
        return True
    if tag == 'pattern':
        # cached by id, but objectBoundingBox units / content units are resolved per user afterwards (update_paint_servers)
        return a('patternUnits') == 'userSpaceOnUse' and a('patternContentUnits') != 'objectBoundingBox'
    if tag == 'filter':
        return a('filterUnits') == 'userSpaceOnUse' and a('primitiveUnits') in (None, 'userSpaceOnUse')
    if tag in ('mask', 'clipPath'):
        if tag == 'mask':
            own = a('maskUnits') == 'userSpaceOnUse' and a('maskContentUnits') != 'objectBoundingBox'
            link = a('mask')
        else:
            own = a('clipPathUnits') != 'objectBoundingBox'
            link = a('clip-path')
        if not own:
            return False
        m = re.match(r'\s*url\(#([^)]+)\)', link or '')
        if m and m.group(1) in by_id and depth < 40 and by_id[m.group(1)][0] == tag:
            return converted_once(tag, by_id[m.group(1)][1], by_id, depth + 1)
        return True
    return False            # marker: converted per vertex


def fan_out(data):
    """largest number of conversions of one definition: W(x) = 1 for a definition the converter caches, else the sum over
    the references to x of W(owner) (the number of reference paths that reach x)"""
    try:
        t = data.decode('utf-8', 'replace')
    except Exception:
        return 0
    # owner of a position = innermost enclosing element with an id (None at top level)
    stack = []
    owner_refs = {}                # owner id (or None) -> list of referenced ids
    by_id = {}
    for tag in re.finditer(r'<(/?)([A-Za-z][A-Za-z0-9:]*)\b([^<>]*?)(/?)>', t):
        close, name, attrs, selfc = tag.groups()
        if close:
            if stack:
                stack.pop()
            continue
        idm = re.search(r'\bid="([^"]*)"', attrs)
        my = idm.group(1) if idm else None
        if my is not None and my not in by_id:
            by_id[my] = (name, attrs)
        owner = my if my is not None else next((s for s in reversed(stack) if s is not None), None)
        for r in re.findall(r'url\(#([^)"]+)\)|href="#([^"]+)"', attrs):
            owner_refs.setdefault(owner, []).append(r[0] or r[1])
        if not selfc:
            stack.append(my if my is not None else (stack[-1] if stack else None))
    incoming = {}
    for o, refs in owner_refs.items():
        for r in refs:
            incoming.setdefault(r, []).append(o)
    memo = {}

    def W(x, depth):
        if x is None:
            return 1
        if x in memo:
            return memo[x]
        if depth > 60:
            return 1
        memo[x] = 1         # cycle guard
        if x in by_id and by_id[x][0] in DEF_TAGS and converted_once(by_id[x][0], by_id[x][1], by_id):
            return 1
        s = sum(W(o, depth + 1) for o in incoming.get(x, []))
        memo[x] = min(max(s, 1), 10 ** 12)
        return memo[x]
    return max([W(x, 0) for x in incoming] or [0])


def batch(binp, op, items, per_item_timeout, chunk, grace=4, jobs=16):
    """Same protocol as vlib.Ctx.rvh_batch (idx\\tpayload lines in, idx\\tresult lines out, a dead or hanging worker is
    restarted after the offending item), with a short grace period so that a hang costs per_item_timeout * chunk + grace."""
    import concurrent.futures as cf
    import subprocess
    n = len(items)
    results = [None] * n
    chunks = [list(range(i, min(n, i + chunk))) for i in range(0, n, chunk)]
    env = dict(os.environ)
    env['VERIF_REPO'] = os.path.realpath(vlib.REPO)

    def work(idxs):
        pos = 0
        while pos < len(idxs):
            cur = idxs[pos:]
            inp = "".join("%d\t%s\n" % (i, items[i]) for i in cur)
            p = subprocess.Popen([binp, op], cwd=vlib.TESTS_DIR, stdin=subprocess.PIPE, stdout=subprocess.PIPE,
                                 stderr=subprocess.PIPE, env=env)
            try:
                out, err = p.communicate(inp.encode(), timeout=per_item_timeout * len(cur) + grace)
                rc, kind = p.returncode, 'exit%d' % p.returncode
            except subprocess.TimeoutExpired:
                p.kill()
                out, err = p.communicate()
                rc, kind = -9, 'timeout'
            got = set()
            for line in out.decode('utf-8', 'replace').splitlines():
                k, sep, v = line.partition('\t')
                if sep and k.isdigit() and int(k) in cur:
                    results[int(k)] = v
                    got.add(int(k))
            if rc == 0 and len(got) == len(cur):
                return
            missing = [i for i in cur if results[i] is None]
            if not missing:
                return
            bad = missing[0]
            if rc == 0:
                results[bad] = json.dumps({'crash': 'no-output'})
            else:
                if rc < 0 and kind != 'timeout':
                    kind = 'signal%d' % (-rc)
                tail = err.decode('utf-8', 'replace').strip().splitlines()[-3:]
                results[bad] = json.dumps({'crash': kind, 'stderr': " | ".join(tail)[-400:]})
            pos = idxs.index(bad) + 1
            for i in idxs[pos:]:
                results[i] = None

    with cf.ThreadPoolExecutor(max_workers=jobs) as ex:
        list(ex.map(work, chunks))
    return results


def fan_out_label_ok(label):
    """debug profile: skip the fan-out bombs that take minutes with debug assertions on"""
    m = re.search(r"fan-out (\d+)\^(\d+)", label)
    # ... and the arc witness, which hangs in every profile (one time limit in the release pass is enough)
    return not (m and int(m.group(2)) > 8) and 'fanout' not in label and 'arc-huge' not in label and 'text-use-bomb' not in label and 'text use bomb' not in label


def f32_bound_class(data):
    """a stop offset or a feColorMatrix `values` / `offset`-like number that overflows f32"""
    try:
        t = data.decode('utf-8', 'replace')
    except Exception:
        return False
    for m in re.finditer(r'\b(offset|values)\s*=\s*"([^"]*)"', t):
        for n in G.NUM_RE.findall(m.group(2)):
            try:
                if abs(float(n)) > 3.4028235e38:
                    return True
            except ValueError:
                pass
    # the same through CSS / entities is not searched for: such inputs are reported as violations
    return False


def textpath_huge(data):
    """a textPath is present and some path data has a coordinate of magnitude >= 1e12"""
    try:
        t = data.decode('utf-8', 'replace')
    except Exception:
        return False
    if '<textPath' not in t:
        return False
    for m in re.finditer(r'\bd\s*=\s*"([^"]*)"', t):
        for n in G.NUM_RE.findall(m.group(1)):
            try:
                if abs(float(n)) >= 1e12:
                    return True
            except (ValueError, OverflowError):
                return True
    return False


def expanded_text_count(data):
    """number of <text> elements after `use` expansion: every text element counts once per reference path that reaches its
    innermost enclosing element with an id through xlink:href / href references (the same path count as fan_out, over `use`
    references only)"""
    t = _text(data)
    if '<text' not in t:
        return 0
    stack = []
    owner_refs = {}
    texts = {}
    for tag in re.finditer(r'<(/?)([A-Za-z][A-Za-z0-9:]*)\b([^<>]*?)(/?)>', t):
        close, name, attrs, selfc = tag.groups()
        if close:
            if stack:
                stack.pop()
            continue
        idm = re.search(r'\bid="([^"]*)"', attrs)
        my = idm.group(1) if idm else None
        owner = my if my is not None else next((x for x in reversed(stack) if x is not None), None)
        if name == 'use':
            for r in re.findall(r'href="#([^"]+)"', attrs):
                owner_refs.setdefault(owner, []).append(r)
        if name == 'text':
            texts[owner] = texts.get(owner, 0) + 1
        if not selfc:
            stack.append(my if my is not None else (stack[-1] if stack else None))
    incoming = {}
    for o, refs in owner_refs.items():
        for r in refs:
            incoming.setdefault(r, []).append(o)
    memo = {}

    def W(x, depth):
        if x is None:
            return 1
        if x in memo:
            return memo[x]
        if depth > 60:
            return 1
        memo[x] = 1
        s_ = sum(W(o, depth + 1) for o in incoming.get(x, []))
        memo[x] = min(max(s_, 1), 10 ** 12)
        return memo[x]
    return sum(n * W(o, 0) for o, n in texts.items())


def _text(data):
    try:
        return data.decode('utf-8', 'replace')
    except Exception:
        return ''


def _big(num, limit):
    try:
        return abs(float(num)) >= limit
    except (ValueError, OverflowError):
        return True


def huge_image(data):
    t = _text(data)
    for m in re.finditer(r'<image\b([^<>]*)>', t):
        for a in re.finditer(r'\b(?:width|height)\s*=\s*"([^"]*)"', m.group(1)):
            if any(_big(n, 2e9) for n in G.NUM_RE.findall(a.group(1))):
                return True
    return False


def origin_sign(data):
    """a transform-origin value with a token that consists of a sign and / or a dot only"""
    t = _text(data)
    for m in re.finditer(r'transform-origin\s*[=:]\s*"?([^";]*)', t):
        for tok in re.split(r'[\s,]+', m.group(1).strip()):
            if re.fullmatch(r'[+-]?\.?', tok) and tok != '':
                return True
            if re.fullmatch(r'[+-]\.?|\.', tok):
                return True
        if re.search(r'(?<![0-9eE.])[+-](?![0-9.])', m.group(1)):
            return True
    return False


def origin_dangling_exp(data):
    """the first token of a transform-origin value is a number with an exponent marker and sign but no exponent digits (`1e+`)"""
    t = _text(data)
    for m in re.finditer(r'transform-origin\s*[=:]\s*"?([^";]*)', t):
        toks = re.split(r'[\s,]+', m.group(1).strip())
        if toks and re.fullmatch(r'[+-]?(?:\d+\.?\d*|\.\d+)[eE][+-]', toks[0]):
            return True
    return False


def arc_huge(data):
    t = _text(data)
    for m in re.finditer(r'\bd\s*=\s*"([^"]*)"', t):
        d = m.group(1)
        if re.search(r'[aA]', d) and any(_big(n, 1e20) for n in G.NUM_RE.findall(d)):
            return True
    return False


def run(ctx):
    quick = ctx.tier == 'quick'
    rng = ctx.rng
    ctx.cov['trusted_base'] = vlib.BASE_TRUSTED + [
        "tools/gen_sites.py (panic-site scanner) and the hand-maintained ledger coq/Proofs/Ledger.v: entries of class Reviewed are NOT proved",
        "roxmltree, simplecss, svgtypes, flate2, fontdb/rustybuzz/ttf-parser, text layout, image decoders: unmodelled; their panics can only be found by the e2e oracle",
        "strict-num / tiny-skia-path constructors are modelled over the xq domain and compared with the real constructors (ctor correspondence)",
        "native stack use and CPU time are observed by the harness workers (signal / timeout / clock_gettime), not proved",
        "tools/gen_totality.py (regex scanner: constructor bodies, guards in front of unwrap sites, loops, cache lookup sites); loop ledger classes "
        "LCounter / LOwned / LReviewed, recursion ledger classes RGuarded / RStructural / RNameClash / RReviewed and iterator class ITree of "
        "coq/Proofs/Totality.v are NOT proved; the call graph matches calls by name (over-approximation; trait-object / closure calls are not seen)",
        "id generators (C01_gen_id_terminates): names are read as injective in the counter and the hash set of converter.rs as a set of names",
        "cache linearity (C01_cached_conversions_linear) is about sequential requests: re-entrancy is excluded by C03's acyclicity theorems, not here",
    ]
    ctx.assumptions = [
        "model of the svgtree construction: elements, ids, href links; text content, CSS and attribute copying are not modelled",
        "xq numeric domain: finite rationals with overflow to +-inf above f32::MAX, NaN; rounding of finite values ignored",
        "CPU budget per parse: release %d us + %d us/byte, debug %d us + %d us/byte" % (BUDGET['release'] + BUDGET['debug']),
    ]
    broken = ctx.translate()
    res = ctx.coq_props(extra_targets=['Model/LinksChk.v', 'Model/XqChk.v'])
    proof_ok = res['ok'] and not broken
    if not quick and res['ok']:
        if not ctx.coqchk():
            proof_ok = False
            res['audit'].append('coqchk rejected the compiled closure of Props/C01.vo')
    ledger_stats(ctx)
    if not proof_ok:
        # model-level search: values (xq samples) that pass the guard in front of a NonZeroF32::new(v).unwrap() site and are
        # rejected by the constructor as it is written now (only Gen/ and Model/ files are needed for this)
        rc_, out_ = ctx.coq_eval('k_unguarded', "From Coq Require Import List String.\nImport ListNotations.\n"
                                 "Eval vm_compute in (map (fun u => match u with (f, g, t, v, gd) => (t, unguarded_values gd) end) G_NONZERO_F32_UNWRAPS).\n",
                                 ['Model.Xq', 'Gen.Totality', 'Model.Totality'], timeout=200)
        if rc_ == 0 and re.search(r"X(?:PInf|NInf|NaN|Fin)", out_):
            ctx.log("model level: values that pass the guard of an unwrap site but are rejected by NonZeroF32::new: %s" % re.sub(r"\s+", " ", out_)[-600:])
            ctx.cov['unguarded_model_values'] = re.sub(r"\s+", " ", out_)[-600:]

    bins = {}
    for prof in ('release', 'debug'):
        b, blog = ctx.harness(prof)
        if b is None:
            ctx.violation("harness (%s) does not build against the current tree" % prof, dict(build_log=blog[-2000:]), found_input=False)
            return
        bins[prof] = b

    # ------------------------------------------------------------------ K: ctor correspondence
    ctor_corr(ctx, bins['release'])
    # ------------------------------------------------------------------ K: svgtree-build correspondence (node count / Err vs model)
    build_corr(ctx, bins['release'], quick)

    # ------------------------------------------------------------------ S: e2e oracle
    els, ats = G.names(vlib.REPO)
    ctx.cov['names'] = dict(elements=len(els), attributes=len(ats))
    corpus = vlib.corpus_files()
    inputs = []                      # (label, stream, payload-doc, bytes for the budget, raw bytes or None)

    def add(label, stream, data):
        inputs.append((label, stream, 'hex:' + data.hex(), len(data), data))

    extra = sorted(glob.glob(os.path.join(vlib.VERIF, 'corpus', '**', '*.svg'), recursive=True))
    for p in corpus + extra:
        inputs.append((os.path.relpath(p, vlib.REPO) if p.startswith(vlib.REPO) else os.path.relpath(p, vlib.VERIF),
                       'corpus', '@' + p, os.path.getsize(p), None))
    texts = {}

    def text_of(p):
        if p not in texts:
            try:
                texts[p] = open(p, encoding='utf-8').read()
            except (OSError, UnicodeDecodeError):
                texts[p] = None
        return texts[p]
    nmut = 700 if quick else 8000
    small = [p for p in corpus if os.path.getsize(p) < 20000]
    made = 0
    while made < nmut:
        p, q = rng.choice(small), rng.choice(small)
        a, b = text_of(p), text_of(q)
        if a is None or b is None:
            continue
        kind, m = G.mutate(rng, a, b)
        for _ in range(rng.below(3)):
            kind2, m = G.mutate(rng, m, b)
            kind += '+' + kind2
        add("mutant(%s) of %s" % (kind, os.path.relpath(p, vlib.CORPUS)), 'mutant', m.encode('utf-8', 'replace'))
        made += 1
    ngram = 600 if quick else 6000
    for i in range(ngram):
        if i % 4 == 3:
            add("grammar (filter) %d" % i, 'grammar', G.filter_doc(rng).encode())
        else:
            add("grammar %d" % i, 'grammar', G.grammar_doc(rng, els, ats, 10 + rng.below(60)).encode())
    ntext = 1500 if quick else 15000
    for i in range(ntext):
        add("text structure %d" % i, 'text', G.text_doc(rng).encode())
    for label, d in G.nesting_docs():
        add(label, 'nesting', d.encode())
    for label, d in G.bomb_docs():
        add(label, 'bomb', d.encode())
    for label, d in G.entity_docs():
        add(label, 'entity', d.encode())
    # reference graphs of C03 (use loops included)
    for kinds, places in G3.all_cycles(2):
        d = G3.cycle_doc(kinds, places)
        add("refgraph %s" % '>'.join(kinds), 'refgraph', G3.to_svg(d).encode())
    # gzip of a sample of everything above
    ngz = 200 if quick else 1500
    pool = [x for x in inputs if x[4] is not None]
    for x in rng.sample(pool, min(ngz, len(pool))):
        add("gzip of " + x[0], 'gzip', G.gz(x[4]))
        inputs[-1] = inputs[-1][:3] + (len(x[4]),) + inputs[-1][4:]
    for p in rng.sample(corpus, 60 if quick else 600):
        data = open(p, 'rb').read()
        add("gzip of " + os.path.relpath(p, vlib.CORPUS), 'gzip', G.gz(data))
        inputs[-1] = inputs[-1][:3] + (len(data),) + inputs[-1][4:]
    nmal = 400 if quick else 6000
    seeds = []
    for _ in range(nmal):
        x = rng.choice(pool)
        seeds.append(x[4])
    for label, data in G.malformed(rng, seeds):
        add("malformed: " + label, 'malformed', data)

    # round 4, crash-isolated streams (one worker process per document, short time limit): reference chains of every link
    # kind and shape (plain, cycle, rho = tail + cycle) x units; feConvolveMatrix kernels and numeric fields that are finite
    # one by one but overflow in the sums / products formed before a validated constructor; definition chains with fan-out 2
    # reached directly and through use / symbol / nested svg / marker contexts (depth 18 where the converter caches the
    # definition - a linear job, 0.3 ms measured - and depth 8 where it converts per reference, the known fan-out class)
    for label, d in G.link_chain_docs():
        add(label, 'linkchain', d.encode())
    for label, d in G.convolve_docs():
        add(label, 'numsum', d.encode())
    for i in range(800 if quick else 8000):
        add("numeric sums %d" % i, 'numsum', G.sum_doc(rng).encode())
    for label, cached, d in G.context_bomb_docs(18, 8):
        add(label, 'ctxbomb', d.encode())
    ISOLATED = ('linkchain', 'numsum', 'ctxbomb')
    iso_idx = [i for i, x in enumerate(inputs) if x[1] in ISOLATED]

    # options: every input with the default options; a seeded subset of the cheap streams crossed with the option sets
    HEAVY = ('nesting', 'bomb', 'entity')
    heavy_idx = [i for i, x in enumerate(inputs) if x[1] in HEAVY or '/verif/corpus/' in x[2] or x[0].startswith('corpus/c0')]
    heavy_set = set(heavy_idx) | set(iso_idx)
    light_idx = [i for i in range(len(inputs)) if i not in heavy_set]
    jobs = [(i, '-') for i in light_idx]
    ncross = 600 if quick else 8000
    for _ in range(ncross):
        jobs.append((rng.choice(light_idx), rng.choice(G.OPTION_SETS[1:])))
    rng.shuffle(jobs)
    hjobs = [(i, '-') for i in heavy_idx] + [(i, rng.choice(G.OPTION_SETS[1:])) for i in heavy_idx
                                             if inputs[i][1] != 'bomb' and '/corpus/c0' not in inputs[i][2]]
    ijobs = [(i, '-') for i in iso_idx] + [(i, rng.choice(G.OPTION_SETS[1:])) for i in iso_idx if inputs[i][1] == 'numsum' and rng.below(4) == 0]
    ctx.log("e2e inputs: %d documents, %d + %d + %d (document, options) jobs" % (len(inputs), len(jobs), len(hjobs), len(ijobs)))

    # first input of every known class goes to the log (label, options), so that a class that stops firing on its witness but
    # still fires elsewhere can be traced
    _kov = ctx.known_or_violation
    _first = {}

    def _known_logged(cls, text, replay):
        if cls not in _first:
            _first[cls] = 1
            ctx.log("known class %s: first input: %s (options %s, %s build)" % (cls, replay.get('label'), replay.get('options'), replay.get('profile')))
        return _kov(cls, text, replay)
    ctx.known_or_violation = _known_logged

    hist = {}
    outcomes = {}
    worst = {'release': (0, None), 'debug': (0, None)}
    reported = set()

    def assess(prof, nbytes, r, factor=1.0, note=''):
        """None, or what is wrong with the result r of one Tree::from_data call"""
        A, B = BUDGET[prof]
        if 'panic' in r:
            return "panic (%s build) at %s: %s" % (prof, r.get('at'), r.get('panic'))
        if 'crash' in r:
            c = str(r['crash'])
            return ("stack overflow / abort (%s, %s build): %s" % (c, prof, r.get('stderr', '')[:120])) if c.startswith('signal') else \
                   ("no result within the time limit%s (%s build)" % (note, prof) if c == 'timeout' else "worker died (%s, %s build)" % (c, prof))
        if r.get('r') in ('ok', 'err'):
            cpu = r.get('cpu_us', 0)
            if cpu > factor * (A + B * nbytes):
                return "CPU time %.2f s%s for %d bytes exceeds the budget %.2f s (%s build)" % (cpu / 1e6, note, nbytes, factor * (A + B * nbytes) / 1e6, prof)
            return None
        return "unexpected harness result: %s" % str(r)[:120]

    def timing(bad):
        return bad is not None and ('CPU time' in bad or 'time limit' in bad)

    solo_log = []

    def machine_factor(prof):
        """speed of this machine right now relative to the reference machine: each calibration document alone, fastest of
        SOLO_RUNS runs; the smaller ratio counts; 1 when a calibration document does not parse"""
        ratios = []
        for lab, ref in CALIBRATION:
            idx = next((k for k, x in enumerate(inputs) if x[0] == lab), None)
            if idx is None:
                continue
            best = None
            for _ in range(SOLO_RUNS):
                try:
                    rr = json.loads(batch(bins[prof], 'c01-parse', ["-\t%s" % inputs[idx][2]], per_item_timeout=20, chunk=1, grace=2, jobs=1)[0])
                except (TypeError, ValueError):
                    rr = {}
                if rr.get('r') == 'ok' and (best is None or rr['cpu_us'] < best):
                    best = rr['cpu_us']
            if best is not None:
                ratios.append(best / ref[prof])
        f = min(ratios) if ratios else 1.0
        return min(4.0, max(1.0, f)), ratios

    def solo(prof, i, o, first):
        """measure one (document, options) job again with nothing else running in this check: the fastest of SOLO_RUNS runs,
        stopping at the first run within the scaled budget; a run that times out alone (time limit 3x the scaled budget, at
        least the limit of the crowded run) ends the measurement"""
        label, stream, payload, nbytes, raw = inputs[i]
        A, B = BUDGET[prof]
        f, ratios = machine_factor(prof)
        limit = max(30 if prof == 'release' else 40, int(3 * f * (A + B * nbytes) / 1e6) + 1)
        best, runs = None, 0
        for _ in range(SOLO_RUNS):
            runs += 1
            try:
                rr = json.loads(batch(bins[prof], 'c01-parse', ["%s\t%s" % (o, payload)], per_item_timeout=limit, chunk=1, grace=2, jobs=1)[0])
            except (TypeError, ValueError):
                rr = {'crash': 'unparsable output'}
            if rr.get('r') not in ('ok', 'err'):
                best = rr
                break
            if best is None or rr.get('cpu_us', 0) < best.get('cpu_us', 0):
                best = rr
            if assess(prof, nbytes, rr, f) is None:
                break
        solo_log.append(dict(profile=prof, input=label, options=o, crowded=first, solo=best, runs=runs, machine_factor=round(f, 2),
                             calibration_ratios=[round(x, 2) for x in ratios], time_limit_s=limit))
        ctx.log("solitary re-measurement (%s build, machine factor %.2f): %s: crowded %s -> alone %s (%d run(s))"
                % (prof, f, label, json.dumps(first)[:90], json.dumps(best)[:90], runs))
        return best, f, " (fastest of %d solitary run(s), time limit %d s, machine factor %.2f; first measured among 16 workers: %s)" \
            % (runs, limit, f, ("%.2f s" % (first.get('cpu_us', 0) / 1e6)) if 'cpu_us' in first else str(first.get('crash')))

    def known_timing_class(data):
        return data is not None and (fan_out(data) >= 10000 or textpath_huge(data) or arc_huge(data) or expanded_text_count(data) >= TEXTBOMB_MIN)

    def judge(prof, i, o, res_):
        label, stream, payload, nbytes, raw = inputs[i]
        try:
            r = json.loads(res_)
        except (TypeError, ValueError):
            r = {'crash': 'unparsable output'}
        key = "%s/%s" % (stream, prof)
        hist[key] = hist.get(key, 0) + 1
        ctx.note_case("%s|%s|%s" % (prof, o, payload[:200] + str(len(payload))), nontrivial=(r.get('r') == 'ok'))
        oc = r.get('r') or ('panic' if 'panic' in r else 'crash')
        outcomes[stream + '/' + oc] = outcomes.get(stream + '/' + oc, 0) + 1
        if r.get('r') in ('ok', 'err') and r.get('cpu_us', 0) > worst[prof][0]:
            worst[prof] = (r.get('cpu_us', 0), label)
        bad = assess(prof, nbytes, r)
        if bad is None:
            return
        data = raw
        if data is None and payload.startswith('@'):
            data = open(payload[1:], 'rb').read()
        if data is not None and data[:2] == b'\x1f\x8b':
            try:
                data = gzip.decompress(data)
            except Exception:
                pass
        must_pass = any(n in label for n in MUST_PASS)
        if timing(bad) and (must_pass or not known_timing_class(data)) and len(solo_log) < 40:
            # a time measured among 16 workers is no verdict: measure alone, against the budget of this machine
            r, f, note = solo(prof, i, o, r)
            bad = assess(prof, nbytes, r, f, note)
            if bad is None:
                outcomes[stream + '/within-budget-alone'] = outcomes.get(stream + '/within-budget-alone', 0) + 1
                return
        replay = dict(op='c01-parse', profile=prof, options=o, label=label, doc=payload if len(payload) < 200000 else payload[:200000],
                      result=r, cmd="printf '0\\t<options>\\t<doc>\\n' | harness/target/%s/rvh c01-parse" % prof)
        sig = (bad.split(':')[0][:40], label)
        if sig in reported:
            return
        reported.add(sig)
        text = "%s on %s [%s]" % (bad, label, stream)
        if must_pass:
            ctx.violation(text + " (witness of a fixed finding: must pass)", replay)
        elif data is not None and ('CPU time' in bad or 'time limit' in bad or ('signal6' in bad and 'memory allocation' in bad)) \
                and fan_out(data) >= 10000:
            # exponential work and memory: over the time budget, or the 3 GiB address space of the worker exhausted
            ctx.known_or_violation(KNOWN_FANOUT, text, replay)
        elif data is not None and ('time limit' in bad or 'CPU time' in bad or ('kurbo' in bad and 'shift left with overflow' in bad)) \
                and textpath_huge(data):
            ctx.known_or_violation(KNOWN_TEXTPATH, text, replay)
        elif data is not None and 'size.rs' in bad and 'tiny-skia-path' in bad and huge_image(data):
            ctx.known_or_violation(KNOWN_IMAGE, text, replay)
        elif data is not None and 'transform_origin.rs' in bad and origin_sign(data):
            ctx.known_or_violation(KNOWN_TORIGIN, text, replay)
        elif data is not None and ('time limit' in bad or 'CPU time' in bad or 'signal6' in bad) and arc_huge(data):
            ctx.known_or_violation(KNOWN_ARC, text, replay)
        elif data is not None and ('time limit' in bad or 'CPU time' in bad) and expanded_text_count(data) >= TEXTBOMB_MIN:
            ctx.known_or_violation(KNOWN_TEXTBOMB, text, replay)
        elif data is not None and 'transform_origin.rs' in bad and origin_dangling_exp(data):
            ctx.known_or_violation(KNOWN_TORIGIN_EXP, text, replay)
        else:
            ctx.violation(text, replay)

    for prof in ('release', 'debug'):
        if prof == 'debug' and quick:
            # the debug harness is ~10x slower: every generated input once, a quarter of the corpus
            sub = [j for j in jobs if inputs[j[0]][1] != 'corpus' or (hash(inputs[j[0]][0]) % 4 == ctx.seed % 4)]
        else:
            sub = jobs
        items = ["%s\t%s" % (o, inputs[i][2]) for i, o in sub]
        outs = batch(bins[prof], 'c01-parse', items, per_item_timeout=2 if prof == 'release' else 4, chunk=8)
        ctx.log("%s: %d light jobs done" % (prof, len(sub)))
        for (i, o), res_ in zip(sub, outs):
            judge(prof, i, o, res_)
            if len(ctx.violations) > 12:
                break
        # heavy inputs: one process each so that a hang costs one time limit only
        hsub = hjobs if prof == 'release' else [j for j in hjobs if fan_out_label_ok(inputs[j[0]][0])]
        hitems = ["%s\t%s" % (o, inputs[i][2]) for i, o in hsub]
        houts = batch(bins[prof], 'c01-parse', hitems, per_item_timeout=(30 if prof == 'release' else 40) if quick else 60, chunk=1, grace=2)
        ctx.log("%s: %d heavy jobs done" % (prof, len(hsub)))
        for (i, o), res_ in zip(hsub, houts):
            judge(prof, i, o, res_)
        if len(ctx.violations) > 12:
            break
        # isolated streams: a hang costs one short time limit (4 s release / 8 s debug: 13x / 10x the slowest legal document
        # of these streams, 0.3 s / 0.8 s CPU) and nothing else
        iitems = ["%s\t%s" % (o, inputs[i][2]) for i, o in ijobs]
        iouts = batch(bins[prof], 'c01-parse', iitems, per_item_timeout=4 if prof == 'release' else 8, chunk=1, grace=1)
        ctx.log("%s: %d isolated jobs done" % (prof, len(ijobs)))
        for (i, o), res_ in zip(ijobs, iouts):
            judge(prof, i, o, res_)
            if len(ctx.violations) > 12:
                break
        if len(ctx.violations) > 12:
            break
    ctx.cov['e2e_cases'] = sum(hist.values())
    ctx.cov['e2e_streams'] = hist
    ctx.cov['e2e_outcomes'] = outcomes
    ctx.cov['worst_cpu_us'] = {k: dict(cpu_us=v[0], input=v[1]) for k, v in worst.items()}
    ctx.cov['solitary_remeasurements'] = solo_log
    ctx.add_sample(dict(op='c01-parse', label=inputs[len(corpus) + 5][0], doc=inputs[len(corpus) + 5][2][:400]))
    ctx.add_sample(dict(op='c01-parse', label=inputs[-3][0], doc=inputs[-3][2][:400]))

    if not proof_ok:
        if not ctx.violations:
            ctx.violation("C01 proof obligations no longer check: %s %s" % (res['failed'] + res['audit'], [b['name'] + ': ' + b['err'][:300] for b in broken]),
                          dict(failed_files=res['failed'], audit=res['audit'], broken_ties=broken, log_tail=res['log'][-3000:],
                               hint="a new or changed panic site has no entry in coq/Proofs/Ledger.v (see coq/Gen/Sites.lines.txt); or a loop has no / a "
                                    "stale entry in the loop / recursion / iterator ledger of coq/Proofs/Totality.v (see coq/Gen/Loops.lines.txt, Gen/Totality.v parser_recursions); or a guard no longer covers "
                                    "a constructor's reject list / a cache lookup site changed (coq/Gen/Totality.v)"),
                          found_input=False)
        else:
            ctx.log("proof obligations no longer check: %s %s (failing inputs reported above)" % (res['failed'] + res['audit'], [b['name'] for b in broken]))
    ctx.cov['rule'] = ("Tree::from_data in worker processes, release and debug (overflow checks + debug assertions) harness: every corpus file and /verif/corpus "
                       "file; structure-aware mutants of corpus files (attribute value swap, subtree splice, id rewiring, numeric magnitude substitution "
                       "with 0, -0, negative, 1e-40, 1e38, 3e38, 1e300, huge integers, percent, overlong lists), 1-3 mutations each; grammar documents over "
                       "all element and attribute names of names.rs; nesting to and beyond the depth limit for 10 container kinds and text; use bombs and "
                       "reference fan-out bombs; DTD entities; all reference 1- and 2-cycles of C03; gzip of a sample; malformed stream (random bytes, "
                       "truncation, byte flips, bad UTF-8, bad gzip, broken markup) reported separately; options dpi 10/72/300/4000, default size, "
                       "languages, injected stylesheets, no fonts, font size.  Oracle: Ok or Err returned, no panic, no signal, CPU <= A + B*bytes.")


# ------------------------------------------------------------------------------------------------
def ledger_stats(ctx):
    """count the ledger classes; Reviewed entries are listed as not proved"""
    p = os.path.join(vlib.COQ, 'Proofs', 'Ledger.v')
    try:
        src = open(p).read()
    except OSError:
        return
    n_guard = len(re.findall(r",\s*Guard\s+_", src))
    n_const = len(re.findall(r",\s*ConstArg\s+_", src))
    reviewed = re.findall(r',\s*Reviewed\s+"((?:[^"]|"")*)"', src)
    known = re.findall(r',\s*Known\s+"((?:[^"]|"")*)"', src)
    # sites decided by computation from the facts gen_sites.py emits (Gen/Sites.v site_auto)
    try:
        gen = open(os.path.join(vlib.COQ, 'Gen', 'Sites.v')).read()
    except OSError:
        gen = ''
    auto = gen[gen.find('Definition site_auto'):]
    n_auto_index = len(re.findall(r",\s*AIndex\s+\d+\s+\d+\)", auto))
    n_auto_ctor = len(re.findall(r",\s*ACtor\s+\w+", auto))
    ctx.cov['ledger'] = dict(sites=n_guard + n_const + len(reviewed) + len(known) + n_auto_index + n_auto_ctor,
                             proved_guard_lemma=n_guard, proved_index_under_length_guard=n_auto_index,
                             constant_argument_computed=n_auto_ctor + n_const,
                             reviewed_not_proved=len(reviewed), known_finding_not_proved=len(known))
    # loop ledger (Proofs/Totality.v): proved = visited-set walks + finder loops of the pre-pass
    try:
        tsrc = open(os.path.join(vlib.COQ, 'Proofs', 'Totality.v')).read()
        tsrc = tsrc[tsrc.find('Definition loop_ledger'):]
        lsrc = tsrc[:tsrc.find('Definition rec_ledger')] if 'Definition rec_ledger' in tsrc else tsrc
    except OSError:
        tsrc = ''
    ctx.cov['loop_ledger'] = {k: len(re.findall(r',\s*%s\b' % k, lsrc if tsrc else '')) for k in ('LVisited', 'LFinder', 'LCounter', 'LGenId', 'LOwned', 'LReviewed')}
    rsrc = tsrc[tsrc.find('Definition rec_ledger'):] if 'Definition rec_ledger' in tsrc else ''
    ctx.cov['recursion_ledger'] = {k: len(re.findall(r',\s*%s\b' % k, rsrc)) for k in ('RDepthProved', 'RGuarded', 'RStructural', 'RNameClash', 'RReviewed')}
    ctx.cov['iterator_ledger'] = {k: len(re.findall(r',\s*%s\b' % k, rsrc)) for k in ('IHrefProved', 'ITree', 'IReviewed')}
    ctx.cov['ledger_proved'] = n_guard + n_auto_index
    ctx.cov['ledger_const'] = n_auto_ctor + n_const
    ctx.cov['ledger_reviewed'] = len(reviewed)
    ctx.cov['ledger_reviewed_reasons'] = sorted(set(reviewed))
    ctx.cov['ledger_known_classes'] = sorted(set(known))


def f32_bits(v):
    try:
        return struct.unpack('<I', struct.pack('<f', v))[0]
    except OverflowError:
        return 0x7f800000 if v > 0 else 0xff800000


def xq_of_bits(b):
    sign = b >> 31
    exp = (b >> 23) & 0xff
    man = b & 0x7fffff
    if exp == 0xff:
        if man:
            return "XNaN"
        return "XNInf" if sign else "XPInf"
    from fractions import Fraction
    if exp == 0:
        v = Fraction(man, 1 << 149)
    else:
        v = Fraction((1 << 23) | man, 1 << 23) * (Fraction(2) ** (exp - 127))
    if sign:
        v = -v
    return "(XFin (%d # %d))" % (v.numerator, v.denominator)


def ctor_corr(ctx, binp):
    vals = [0.0, -0.0, 1.0, -1.0, 0.5, 1.0000001, 0.99999994, 2.0, 100.0, -7.5, 1e-40, -1e-40, 1e38, 3e38, -3e38, 3.4028235e38,
            float('inf'), float('-inf'), float('nan'), 1e-45, 1.1754944e-38, 16777216.0, 0.1, 255.0]
    bits = [f32_bits(v) for v in vals]
    bits[1] = 0x80000000
    items, terms = [], []
    for name in ('positive', 'nonzero_positive', 'normalized'):
        for b in bits:
            items.append("%s\t%08x" % (name, b))
            terms.append("(x_%s %s)" % (name, xq_of_bits(b)))
    for b1 in bits:
        for b2 in bits:
            items.append("size\t%08x,%08x" % (b1, b2))
            terms.append("(x_size %s %s)" % (xq_of_bits(b1), xq_of_bits(b2)))
    # usvg's own NonZeroF32::new against the predicate READ FROM tree/mod.rs (Gen/Totality.v G_NONZERO_F32_REJECTS, evaluated
    # over the xq domain): the values above and the subnormals next to zero (0..6 ulps, both signs)
    for b in bits + [1, 2, 3, 4, 5, 6, 0x80000001, 0x80000004, 0x80000005, 0x00800000]:
        items.append("nonzero\t%08x" % b)
        terms.append("(x_nonzero_f32 %s)" % xq_of_bits(b))
    rect_bits = [f32_bits(v) for v in (0.0, 1.0, -1.0, 0.5, 100.0, 3e38, -3e38, float('inf'), float('nan'), 1e-40)]
    for l in rect_bits:
        for r in rect_bits:
            for (t, b) in ((f32_bits(0.0), f32_bits(1.0)), (l, r), (f32_bits(1.0), f32_bits(1.0)), (f32_bits(-3e38), f32_bits(3e38))):
                items.append("nz_ltrb\t%08x,%08x,%08x,%08x" % (l, t, r, b))
                terms.append("(x_nz_ltrb %s %s %s %s)" % (xq_of_bits(l), xq_of_bits(t), xq_of_bits(r), xq_of_bits(b)))
    # from_xywh on values whose f32 sums are exact or overflow (the model ignores rounding of finite sums)
    xs = [f32_bits(v) for v in (0.0, 1.0, -1.0, 0.5, 100.0, float('inf'), float('-inf'), float('nan'))]
    ws = [f32_bits(v) for v in (0.0, 1.0, -1.0, 0.5, 100.0, 3e38, -3e38, float('inf'), float('nan'))]
    combos = [(x, w) for x in xs for w in ws] + [(f32_bits(3e38), f32_bits(3e38)), (f32_bits(3e38), f32_bits(-3e38)),
                                                 (f32_bits(-3e38), f32_bits(3e38)), (f32_bits(-3e38), f32_bits(-3e38))]
    for x, w in combos:
        items.append("nz_rect\t%08x,%08x,%08x,%08x" % (x, f32_bits(0.0), w, f32_bits(1.0)))
        terms.append("(x_nz_xywh %s %s %s %s)" % (xq_of_bits(x), xq_of_bits(f32_bits(0.0)), xq_of_bits(w), xq_of_bits(f32_bits(1.0))))
    outs = ctx.rvh_batch(binp, 'c01-ctor', items)
    impl = []
    for it, o in zip(items, outs):
        try:
            v = json.loads(o)
        except (TypeError, ValueError):
            v = None
        if v not in ('some', 'none'):
            ctx.violation("constructor call failed in the harness: %s -> %s" % (it, str(o)[:100]), dict(op='c01-ctor', item=it))
            return
        impl.append('true' if v == 'some' else 'false')
    body = ("From Coq Require Import QArith List Bool.\nImport ListNotations.\nLocal Open Scope Q_scope.\n"
            "Definition cases : list (bool * bool) := [\n%s\n].\n"
            "Eval vm_compute in (xq_bad cases).\n" % ";\n".join("(%s, %s)" % (t, i) for t, i in zip(terms, impl)))
    rc, out = ctx.coq_eval('k_ctor', body, ['Model.Xq', 'Model.XqChk', 'Gen.Totality', 'Model.Totality'], timeout=300)
    bad = ctx.parse_N_list(out) if rc == 0 else None
    if bad is None:
        ctx.violation("model evaluation for the ctor correspondence failed", dict(log=out[-1500:]), found_input=False)
        return
    ctx.cov['ctor_cases'] = len(items)
    for b in bad[:3]:
        ctx.violation("validated constructor: model (xq domain) and implementation disagree on %s" % items[b],
                      dict(op='c01-ctor', item=items[b], impl=impl[b], model_term=terms[b]))


def build_corr(ctx, binp, quick):
    """svgtree construction: node count or Err (limits) of the real parser vs Model/SvgBuild.v on use-heavy documents"""
    import sys
    sys.setrecursionlimit(max(sys.getrecursionlimit(), 50000))
    E = G3.El
    docs = []

    def doc(label, kids):
        docs.append((label, G3.number(E('svg', kids=kids))))
    for n in ((3, 40, 120) if quick else (3, 40, 120, 512, 513)):
        kids = [E('g', 'u0', kids=[E('path')])] + [E('use', 'u%d' % i).add('href', 'u%d' % (i - 1)) for i in range(1, n)]
        doc("use chain %d" % n, kids)
    for k, fan in ((3, 2), (8, 2), (4, 6)):
        kids = [E('g', 'b0', kids=[E('path')])]
        for i in range(1, k + 1):
            kids.append(E('g', 'b%d' % i, kids=[E('use').add('href', 'b%d' % (i - 1)) for _ in range(fan)]))
        doc("use bomb %d^%d" % (fan, k), kids)
    for depth in ((100, 1024, 1025) if quick else (100, 1023, 1024, 1025)):
        root = inner = E('g')
        for _ in range(depth - 1):
            nxt = E('g')
            inner.kids.append(nxt)
            inner = nxt
        inner.kids.append(E('path'))
        doc("nesting %d" % depth, [root])
    # the depth counter inside `text` (fix 09fa255): text > tspan^depth, no character data
    for depth in ((3, 1023, 1024) if quick else (3, 1020, 1021, 1022, 1023, 1024, 1025)):
        root = inner = E('text')
        for _ in range(depth):
            nxt = E('tspan')
            inner.kids.append(nxt)
            inner = nxt
        doc("text nesting %d" % depth, [root, E('g', kids=[E('text', kids=[E('path'), E('tspan', 'ts1')])])])
    # the depth counter across a use (+2): g nest of `depth`, then a use of t = g > g > path
    for depth in ((1020, 1021) if quick else (1017, 1018, 1019, 1020, 1021, 1022, 1023)):
        root = inner = E('g')
        for _ in range(depth - 1):
            nxt = E('g')
            inner.kids.append(nxt)
            inner = nxt
        inner.kids.append(E('use').add('href', 't'))
        doc("nesting %d + use" % depth, [E('g', 't', kids=[E('g', kids=[E('path')])]), root])
    for label, d in __import__('props.c03', fromlist=['use_family']).use_family():
        docs.append((label, d))
    for kinds, places in G3.all_cycles(2):
        if 'use' in kinds:
            docs.append(("cycle %s" % '>'.join(kinds), G3.cycle_doc(kinds, places)))
    import sys
    sys.setrecursionlimit(max(sys.getrecursionlimit(), 20000))
    items = ["-\t" + G3.to_svg(d) for _, d in docs]
    outs = ctx.rvh_batch(binp, 'c03-svgtree', items, per_item_timeout=30)
    pairs = []
    for (label, d), o in zip(docs, outs):
        try:
            r = json.loads(o)
        except (TypeError, ValueError):
            r = {'crash': 1}
        if 'crash' in r or 'panic' in r:
            ctx.violation("svgtree construction crashed on %s: %s" % (label, str(r)[:150]), dict(op='c03-svgtree', label=label, doc=items[len(pairs)][2:]))
            return
        impl = 'None' if 'error' in r else '(Some %d%%Z)' % r['n']
        pairs.append("(%s, %s)" % (G3.to_coq(d, G3.Names()), impl))
    # The evaluation is sharded (thorough: the 513-use chain and the ~1020-deep nestings make one vm_compute of all cases take
    # 6-9 min and 3 GB, close to the 600 s limit of coq_eval; measured 2026-10-01): shards of similar total term size are
    # evaluated by concurrent coqc processes and the failing indices are mapped back.
    import concurrent.futures as cf
    nshards = 1 if quick else 6
    order = sorted(range(len(pairs)), key=lambda i: -len(pairs[i]))
    shards, load = [[] for _ in range(nshards)], [0] * nshards
    for i in order:
        k = load.index(min(load))
        shards[k].append(i)
        load[k] += len(pairs[i])

    def eval_shard(k):
        idxs = shards[k]
        if not idxs:
            return []
        body = ("From Coq Require Import ZArith NArith List.\nImport ListNotations.\n"
                "Definition cases : list (xnode * option Z) := [\n%s\n].\n"
                "Eval vm_compute in (bad_idx (fun p => let b := build (fst p) in match snd b, snd p with\n"
                "   | OOk _, Some n => Z.eqb (b_count (fst b)) n | OErr _, None => true | _, _ => false end) cases).\n"
                % ";\n".join(pairs[i] for i in idxs))
        rc, out = ctx.coq_eval('k_build' if nshards == 1 else 'k_build_%d' % k, body,
                               ['Gen.Consts', 'Gen.LinkGuards', 'Model.SvgBuild', 'Model.Links', 'Model.LinksChk'], timeout=600)
        got = ctx.parse_N_list(out) if rc == 0 else None
        return None if got is None else [idxs[j] for j in got], out
    with cf.ThreadPoolExecutor(max_workers=nshards) as ex:
        results = list(ex.map(eval_shard, range(nshards)))
    bad = []
    for r in results:
        if r == []:
            continue
        if r[0] is None:
            ctx.violation("model evaluation for the svgtree-build correspondence failed", dict(log=r[1][-1500:]), found_input=False)
            return
        bad += r[0]
    bad.sort()
    ctx.cov['build_corr_cases'] = len(pairs)
    for b in bad[:3]:
        ctx.violation("svgtree construction: model and implementation disagree on the node count / limit error for %s" % docs[b][0],
                      dict(op='c03-svgtree', label=docs[b][0], doc=items[b][2:], impl=json.loads(outs[b]) if outs[b] else None))


def replay(ctx, path):
    r = json.load(open(path))
    rp = r.get('replay', {})
    print(json.dumps({k: (v if k != 'replay' else {kk: (vv if kk != 'doc' else str(vv)[:300] + '...') for kk, vv in rp.items()}) for k, v in r.items()}, indent=1)[:5000])
    doc = rp.get('doc')
    if not doc or rp.get('op') not in ('c01-parse', 'c03-svgtree', 'c01-ctor'):
        return 0
    prof = rp.get('profile', 'release')
    binp, _ = ctx.harness(prof)
    if binp is None:
        print("harness does not build")
        return 1
    if rp['op'] == 'c01-ctor':
        o = ctx.rvh_batch(binp, 'c01-ctor', [rp['item']])
    else:
        o = ctx.rvh_batch(binp, rp['op'], ["%s\t%s" % (rp.get('options', '-'), doc)], per_item_timeout=120)
    print("%s (%s) -> %s" % (rp['op'], prof, str(o[0])[:2000]))
    return 0
