"""C08  Write then parse preserves the rendering.

proof:           coq/Props/C08.v over Gen/EnumTables.v (both directions of every enum <-> string table, parser defaults,
                 constructor lists: tools/gen_enums.py) and Model/WriteNum.v over Gen/WriterNum.v
correspondence:  enum-rt   for every enum and every spelling the parser accepts (and for the absent attribute): a one-element
                           document is parsed, written and parsed again with the real code; the constructor read from the
                           first tree must be the one the generated parser table predicts, the one read from the second tree
                           must be the same (validates the generated tables AND the codec)
system oracle:   render(T) vs render(parse(write(T))) at 1x and 2x, within +-2 per channel except at most 40 edge pixels
                 (none above 72 levels); render(parse(write(T2))) identical to render(T2); every corpus file, witnesses,
                 generated documents, with id prefixes and with / without preserve_text."""
import base64
import json
import os
import re

import vlib
from props import treeref, refgen
from props import rtgen
from props import c07

NS = refgen.NS
WITNESS = os.path.join(vlib.VERIF, 'corpus', 'witness')
PNG = ("iVBORw0KGgoAAAANSUhEUgAAAAQAAAAECAIAAAAmkwkpAAAAFElEQVR4nGP8z8DAwMDAxMDAwMAAAA0GAQOGZq0kAAAAAElFTkSuQmCC")


def jload(o):
    try:
        return json.loads(o)
    except (TypeError, ValueError):
        return {'error': 'unparsable harness output: %r' % (o[:200] if isinstance(o, str) else o)}


# ------------------------------------------------------------------------------------------------
# enum-rt
# ------------------------------------------------------------------------------------------------
def first_path(t):
    def go(g):
        for n in g['children']:
            if n['t'] == 'path':
                return n
            if n['t'] == 'g':
                r = go(n)
                if r:
                    return r
        return None
    return go(t['root'])


def first_of(t, kind):
    def go(g):
        for n in g['children']:
            if n['t'] == kind:
                return n
            if n['t'] == 'g':
                r = go(n)
                if r:
                    return r
        return None
    return go(t['root'])


def first_group_with(t, key):
    def go(g):
        for n in g['children']:
            if n['t'] == 'g':
                if key(n):
                    return n
                r = go(n)
                if r:
                    return r
        return None
    return go(t['root'])


def prim0(t):
    return t['filters'][0]['primitives'][0]


def comp_op(t):
    o = prim0(t)['kind']['op']
    return 'Arithmetic' if isinstance(o, dict) else o


FILTER = '<filter id="f" filterUnits="userSpaceOnUse" x="0" y="0" width="100" height="100">%s</filter><rect width="50" height="50" fill="green" filter="url(#f)"/>'
TEXT = '<text x="10" y="50" font-size="20"%s>ab<tspan%s>cd</tspan></text>'
# enum -> (body template with %(a)s = ` attr="value"` or empty, extractor, write options)
ENUM_DOCS = {
    'LineCap': ('<path d="M 10 10 L 50 10" stroke="black" stroke-width="5"%(a)s/>', 'stroke-linecap', lambda t: first_path(t)['stroke']['linecap'], {}),
    'LineJoin': ('<path d="M 10 10 L 50 10 L 50 50" stroke="black" stroke-width="5"%(a)s/>', 'stroke-linejoin', lambda t: first_path(t)['stroke']['linejoin'], {}),
    'FillRule': ('<path d="M 10 10 L 50 10 L 50 50 Z"%(a)s/>', 'fill-rule', lambda t: first_path(t)['fill']['rule'], {}),
    'SpreadMethod': ('<linearGradient id="g"%(a)s><stop offset="0" stop-color="red"/><stop offset="1" stop-color="blue"/></linearGradient>'
                     '<rect width="50" height="50" fill="url(#g)"/>', 'spreadMethod', lambda t: t['linear_gradients'][0]['spread'], {}),
    'BlendMode': ('<g%(a)s><rect width="50" height="50" fill="red"/></g>', 'mix-blend-mode',
                  lambda t: (first_group_with(t, lambda g: True) or {'blend': 'Normal'})['blend'], {}),
    'ShapeRendering': ('<path d="M 10 10 L 50 10 L 50 50 Z"%(a)s/>', 'shape-rendering', lambda t: first_path(t)['rendering'], {}),
    'TextRendering': (TEXT % ('%(a)s', ''), 'text-rendering', lambda t: first_of(t, 'text')['rendering'], dict(pt=True)),
    'ImageRendering': ('<image width="20" height="20" xlink:href="data:image/png;base64,' + PNG + '"%(a)s/>', 'image-rendering',
                       lambda t: first_of(t, 'image')['rendering'], {}),
    'TextAnchor': (TEXT % ('%(a)s', ''), 'text-anchor', lambda t: first_of(t, 'text')['chunks'][0]['anchor'], dict(pt=True)),
    'FontStyle': (TEXT % ('%(a)s', ''), 'font-style', lambda t: first_of(t, 'text')['chunks'][0]['spans'][0]['font_style'], dict(pt=True)),
    'FontStretch': (TEXT % ('%(a)s', ''), 'font-stretch', lambda t: first_of(t, 'text')['chunks'][0]['spans'][0]['font_stretch'], dict(pt=True)),
    'DominantBaseline': (TEXT % ('%(a)s', ''), 'dominant-baseline',
                         lambda t: first_of(t, 'text')['chunks'][0]['spans'][0]['dominant_baseline'], dict(pt=True)),
    'AlignmentBaseline': (TEXT % ('', '%(a)s'), 'alignment-baseline',
                          lambda t: first_of(t, 'text')['chunks'][0]['spans'][1]['alignment_baseline'], dict(pt=True)),
    'LengthAdjust': (TEXT % (' textLength="90"%(a)s', ''), 'lengthAdjust',
                     lambda t: first_of(t, 'text')['chunks'][0]['spans'][0]['length_adjust'], dict(pt=True)),
    'WritingMode': (TEXT % ('%(a)s', ''), 'writing-mode', lambda t: first_of(t, 'text')['writing_mode'], dict(pt=True)),
    'ColorInterpolation': (FILTER % '<feFlood flood-color="red"%(a)s/>', 'color-interpolation-filters', lambda t: prim0(t)['ci'], {}),
    'CompositeOperator': (FILTER % '<feComposite in2="SourceAlpha" k1="0.5" k2="0.5"%(a)s/>', 'operator', comp_op, {}),
    'EdgeMode': (FILTER % '<feConvolveMatrix kernelMatrix="1 0 0 0 1 0 0 0 1"%(a)s/>', 'edgeMode', lambda t: prim0(t)['kind']['edge_mode'], {}),
    'ColorChannel': (FILTER % '<feDisplacementMap in2="SourceGraphic" scale="5"%(a)s/>', 'xChannelSelector', lambda t: prim0(t)['kind']['xch'], {}),
    'MorphologyOperator': (FILTER % '<feMorphology radius="1"%(a)s/>', 'operator', lambda t: prim0(t)['kind']['op'], {}),
    'TurbulenceKind': (FILTER % '<feTurbulence baseFrequency="0.05"%(a)s/>', 'type', lambda t: prim0(t)['kind']['kind'], {}),
    'MaskType': ('<mask id="m"%(a)s><rect width="50" height="50" fill="white"/></mask><rect width="50" height="50" mask="url(#m)"/>', 'mask-type',
                 lambda t: t['masks'][0]['kind'], {}),
}
# fields that are not string tables in the tree (bool / svgtypes parsers): round trip only
EXTRA_RT = [
    ('paint-order', '<path d="M 10 10 L 50 10 L 50 50 Z" stroke="red" stroke-width="4" paint-order="%s"/>', ['stroke', 'fill', 'normal', 'stroke fill', 'markers stroke'],
     lambda t: first_path(t)['paint_order'], {}),
    ('visibility', '<path d="M 10 10 L 50 10 L 50 50 Z" visibility="%s"/><rect width="5" height="5"/>', ['hidden', 'visible'],
     lambda t: [n.get('visible') for n in t['root']['children'] if n['t'] == 'path'], {}),
    ('stitchTiles', FILTER % '<feTurbulence baseFrequency="0.05" stitchTiles="%s"/>', ['stitch', 'noStitch'], lambda t: prim0(t)['kind']['stitch'], {}),
    ('preserveAlpha', FILTER % '<feConvolveMatrix kernelMatrix="1 0 0 0 1 0 0 0 1" preserveAlpha="%s"/>', ['true', 'false'],
     lambda t: prim0(t)['kind']['preserve_alpha'], {}),
    ('feBlend mode', FILTER % '<feBlend in2="SourceAlpha" mode="%s"/>', ['multiply', 'color-dodge', 'luminosity', 'normal', 'hard-light'],
     lambda t: prim0(t)['kind']['mode'], {}),
    ('gradientUnits', '<linearGradient id="g" gradientUnits="%s" x1="0" x2="50"><stop offset="0" stop-color="red"/><stop offset="1" stop-color="blue"/>'
     '</linearGradient><rect x="10" width="50" height="50" fill="url(#g)"/>', ['userSpaceOnUse', 'objectBoundingBox'],
     lambda t: [t['linear_gradients'][0][k] for k in ('x1', 'x2', 'ts')], {}),
    ('letter-spacing', TEXT % (' letter-spacing="%s"', ''), ['-2', '3', '0'], lambda t: first_of(t, 'text')['chunks'][0]['spans'][0]['letter_spacing'], dict(pt=True)),
    ('word-spacing', '<text x="10" y="50" font-size="20" word-spacing="%s">a b c</text>', ['-4', '5'],
     lambda t: first_of(t, 'text')['chunks'][0]['spans'][0]['word_spacing'], dict(pt=True)),
    ('stroke-dashoffset', '<path d="M 10 10 L 90 10" stroke="black" stroke-dasharray="5 3" stroke-dashoffset="%s"/>', ['-2', '2'],
     lambda t: first_path(t)['stroke']['dashoffset'], {}),
    ('id prefix', '<linearGradient id="pre-g"><stop offset="0" stop-color="red"/><stop offset="1" stop-color="blue"/></linearGradient>'
     '<rect width="50" height="50" fill="url(#%s)"/>', ['pre-g'],
     lambda t: [len(t['linear_gradients']), first_path(t)['fill']['paint']['k']], dict(prefix='pre-')),
    ('lighting in', FILTER % '<feFlood flood-color="red" result="a"/><feOffset dx="1" result="b"/><feDiffuseLighting in="%s"><feDistantLight azimuth="10" elevation="20"/></feDiffuseLighting>',
     ['SourceGraphic', 'a', 'b'], lambda t: t['filters'][0]['primitives'][2]['kind']['in'], {}),
]


# conditionally written numeric attributes (Gen/ElisionTables.v): AId name -> (attribute, body with %s = value, values, extractor, options)
STROKED = '<path d="M 10 50 L 50 10 L 90 50" fill="none" stroke="black" stroke-width="8" stroke-linejoin="%s" stroke-miterlimit="%%s"/>'
TPDOC = ('<defs><path id="curve" d="M 10 60 C 30 10 70 10 90 60"/></defs><text font-size="12"><textPath xlink:href="#curve" startOffset="%s">'
         'on a path</textPath></text>')
ELISION_RT = [
    ('StrokeMiterlimit', 'stroke-miterlimit', STROKED % lj, ['4', '1', '10', '2.5'],
     (lambda t: [first_path(t)['stroke']['miterlimit'], first_path(t)['stroke']['linejoin']]), {}) for lj in ('miter', 'miter-clip', 'round', 'bevel')
] + [
    ('StrokeWidth', 'stroke-width', '<path d="M 10 10 L 90 10" stroke="black" stroke-width="%s"/>', ['1', '3', '0.5'], lambda t: first_path(t)['stroke']['width'], {}),
    ('StrokeOpacity', 'stroke-opacity', '<path d="M 10 10 L 90 10" stroke="black" stroke-opacity="%s"/>', ['1', '0.5', '0.25'],
     lambda t: first_path(t)['stroke']['opacity'], {}),
    ('FillOpacity', 'fill-opacity', '<path d="M 10 10 L 90 10 L 50 50 Z" fill-opacity="%s"/>', ['1', '0.5', '0.25'], lambda t: first_path(t)['fill']['opacity'], {}),
    ('Opacity', 'opacity', '<g opacity="%s"><rect width="50" height="50" fill="red"/><rect x="20" y="20" width="50" height="50" fill="blue"/></g>',
     ['1', '0.5', '0.25'], lambda t: (first_group_with(t, lambda g: True) or {'opacity': 1})['opacity'], {}),
    ('StopOpacity', 'stop-opacity', '<linearGradient id="g"><stop offset="0" stop-color="red" stop-opacity="%s"/><stop offset="1" stop-color="blue"/></linearGradient>'
     '<rect width="50" height="50" fill="url(#g)"/>', ['1', '0.5', '0.25'], lambda t: t['linear_gradients'][0]['stops'][0]['opacity'], {}),
    ('StrokeDashoffset', 'stroke-dashoffset', '<path d="M 10 10 L 90 10" stroke="black" stroke-dasharray="5 3" stroke-dashoffset="%s"/>', ['0', '-2', '2.5'],
     lambda t: first_path(t)['stroke']['dashoffset'], {}),
    ('FontWeight', 'font-weight', '<text x="10" y="50" font-size="20" font-weight="%s">ab</text>', ['400', '700', '100', '900'],
     lambda t: first_of(t, 'text')['chunks'][0]['spans'][0]['font_weight'], dict(pt=True)),
    ('LetterSpacing', 'letter-spacing', TEXT % (' letter-spacing="%s"', ''), ['0', '3', '-1.5'],
     lambda t: first_of(t, 'text')['chunks'][0]['spans'][0]['letter_spacing'], dict(pt=True)),
    ('WordSpacing', 'word-spacing', '<text x="10" y="50" font-size="20" word-spacing="%s">a b c</text>', ['0', '5', '-4'],
     lambda t: first_of(t, 'text')['chunks'][0]['spans'][0]['word_spacing'], dict(pt=True)),
    ('StartOffset', 'startOffset', TPDOC, ['0', '20', '7.5'], lambda t: first_of(t, 'text')['chunks'][0]['flow']['start_offset'], dict(pt=True)),
]


def elision_table():
    """Gen/ElisionTables.v -> {AId name: constant of the writer's condition (float) or None when the condition is not understood}"""
    out = {}
    tp = os.path.join(vlib.COQ, 'Gen', 'ElisionTables.v')
    if not os.path.exists(tp):
        return out
    for m in re.finditer(r'^\s*\("([A-Za-z]+)@[a-z_0-9]+", (CNe|CApprox|COther) (\(?-?\d+(?: # \d+)?\)?|"[^"]*")', open(tp).read(), re.M):
        if m.group(2) == 'COther':
            out[m.group(1)] = None
        else:
            v = m.group(3).strip('()').split(' # ')
            out[m.group(1)] = float(v[0]) / (float(v[1]) if len(v) > 1 else 1.0)
    return out


def enum_doc(body):
    return '<svg %s width="100" height="100">%s</svg>' % (NS, body)


# spellings that the converter resolves instead of storing (`no-change` = use the parent's value): round trip only
RESOLVED = {('DominantBaseline', 'no-change')}


def attr_text(enum, attr, value):
    if value is None:
        return ''
    if enum == 'BlendMode':
        return ' style="mix-blend-mode:%s"' % value
    if enum == 'ImageRendering':
        # the CSS-only values are accepted in `style` (that is also how the writer emits them)
        return ' style="image-rendering:%s"' % value
    return ' %s="%s"' % (attr, value)


# ------------------------------------------------------------------------------------------------
# classes of the rendering oracle
# ------------------------------------------------------------------------------------------------
def textpaths_written_properly(sk, prefix, tp_ids):
    """every <textPath> of the written skeleton points at prefix + (a text-path id of the tree) and <defs> holds a <path> of that id"""
    def_paths, hrefs = set(), []

    def visit(e, parent):
        if e[0] == 'path' and parent is not None and parent[0] == 'defs' and e[1].get('id'):
            def_paths.add(e[1]['id'])
        if e[0] == 'textPath':
            hrefs.append(e[1].get('xlink:href', ''))
    c07.sk_walk(sk, visit)
    return bool(hrefs) and all(h.startswith('#') and h[1:] in def_paths and h[1:] in set(prefix + i for i in tp_ids) for h in hrefs)


def tree_classes(d, w, first_trip_differs=True, skeleton=None):
    """known classes whose predicate holds for the tree T (dump) and the options; each explains a rendering difference"""
    out = []
    prefix = w.get('prefix') or ''
    wk = treeref.Walk(d)
    fe_kids = [p['kind']['root']['children'] for f in d['filters'] for p in f['primitives'] if p['kind']['k'] == 'Image']
    # the id is lost in the first re-parse: T2 is still right, T3 is not; the first trip is only affected when the id is
    # already empty in T (feImage -> use)
    if fe_kids and (not first_trip_differs or any(k and k[0]['id'] == '' for k in fe_kids)):
        out.append('feimage-id-lost')
    root_ids = set(n['id'] for n, ctx in wk.nodes if n['id'] and all(c in ('root', 'text', 'image') for c in ctx))
    # the feImage target is also rendered in place: two elements carry its id and href="#id" resolves to the other one
    if any(k and k[0]['id'] and k[0]['id'] in root_ids for k in fe_kids):
        out.append('feimage-target-twice')
    # only when the writer did its part (the <defs> copy carries prefix + id and the textPath points at prefix + id): a
    # dangling or doubly prefixed text-path reference is NOT this class (seeded C08-14)
    if w.get('pt') and any(k == 'textpath' and i in root_ids for k, ptr, i, ctx, via in wk.defs) and \
            (skeleton is None or textpaths_written_properly(skeleton, prefix, set(i for k, ptr, i, ctx, via in wk.defs if k == 'textpath'))):
        out.append('textpath-id-twice')
    if any(p['kind']['k'] == 'ColorMatrix' and p['kind']['kind']['k'] == 'Saturate' and isinstance(p['kind']['kind']['v'], (int, float))
           and p['kind']['kind']['v'] > 1 for f in d['filters'] for p in f['primitives']):
        out.append('saturate-above-one')
    for n, ctx in wk.nodes:
        if n['t'] == 'path':
            for k in ('fill', 'stroke'):
                fs = n.get(k)
                if fs and fs.get('ctx') and fs['paint']['k'] == 'pattern':
                    out.append('context-paint-pattern')
    ids = {}
    for c in d['clip_paths']:
        ids.setdefault(c['id'], set()).add(c['ptr'])
    if any(len(v) > 1 and re.fullmatch(r"cp\d+", i) for i, v in ids.items()):
        out.append('colr-glyph-clip-id')
    if w.get('pt'):
        have = set(x['ptr'] for c in ('linear_gradients', 'radial_gradients', 'patterns') for x in d[c])
        if any(via == 'span' and ptr not in have for k, ptr, i, ctx, via in wk.defs if k != 'textpath'):
            out.append('text-span-paint')
    if set(prefix) & c07.URL_BREAKERS:
        out.append('prefix-breaks-url')
    # a clipPath child under two clipped group levels is not written (C07 class of the same name; predicate shared with c07.py)
    if c07.double_clip_children(d):
        out.append('clip-child-double-clip')
    # nested SVG image whose definitions collide with ids of the outer tree
    outer, inner = set(), set()
    for k, ptr, i, ctx, via in wk.defs:
        (inner if 'image' in ctx else outer).add(i)
    for n, ctx in wk.nodes:
        if n['id']:
            (inner if 'image' in ctx else outer).add(n['id'])
    if outer & inner:
        out.append('nested-image-defs')
    return sorted(set(out))


def run(ctx):
    rng = ctx.rng
    quick = ctx.tier == 'quick'
    ctx.cov['trusted_base'] = vlib.BASE_TRUSTED + [
        "tools/gen_roundtrip.py: the data-flow walk from every id / reference write site of writer.rs back to tree ids, the prefix and literals "
        "(cross-checked by the id-once correspondence on the written text); svgtypes' IRI / FuncIRI reading is a hand model (external crate)",
        "tools/gen_enums.py: pattern extraction of the parser / writer string tables (cross-checked by the enum-rt op: the "
        "constructor the real parser produces for every spelling must be the one the generated table says)",
        "the parser default of an enum is taken from `impl Default` / the `_` arm; usvg::Options rendering-mode overrides are not modelled",
        "resvg (rasteriser) and the whole re-parse: exercised by the rendering oracle, not modelled; f32 rounding inside write_num idealised",
    ]
    ctx.assumptions = ["default usvg::Options (the elided rendering modes are the Options defaults)",
                       "equality of the re-parsed tree for structured content is validated by rendering, not proved"]
    broken = ctx.translate()
    # the <defs> corollary (Proofs/DefsOnce.v) stands on C05's collectors: their tie (Gen/CollectTables.v, tools/gen_ids.py) is ours too
    broken += [b for b in ctx.status.get('broken', []) if b not in broken and b.get('name') == 'tree.collect_loops']
    res = ctx.coq_props()
    proof_ok = res['ok'] and not broken
    ctx.coq_build(['Model/Corr.v', 'Model/WriteNum.v'])      # what the correspondence evaluations import
    if not quick and hasattr(ctx, 'coqchk') and res['ok']:
        if not ctx.coqchk():
            proof_ok = False

    binp, blog = ctx.harness('release')
    if binp is None:
        ctx.violation("harness does not build against the current tree (correspondence cannot run)",
                      dict(build_log=blog[-2000:]), found_input=False)
        return

    # ------------------------------------------------------------------ K: enum-rt (exhaustive)
    tables = {}
    tp = os.path.join(vlib.COQ, 'Gen', 'EnumTables.json')
    if os.path.exists(tp) and not broken:
        tables = json.load(open(tp))
    ecases = []
    for enum, (body, attr, ext, wo) in ENUM_DOCS.items():
        tab = tables.get(enum)
        if tab is None:
            continue
        spellings = list(tab['parse'].items()) + [(None, tab['default'])]
        # the value the writer emits for every constructor must be among the spellings tried
        for v, s in tab['write'].items():
            if s is not None and s not in tab['parse'] and tab.get('fallback') != v:
                spellings.append((s, v))
            elif s is not None and s not in tab['parse']:
                spellings.append((s, v))
        for s, v in spellings:
            ecases.append(dict(enum=enum, spelling=s, expect=v, doc=enum_doc(body % dict(a=attr_text(enum, attr, s))), ext=ext, wo=wo))
    for name, body, values, ext, wo in EXTRA_RT:
        for s in values:
            ecases.append(dict(enum=name, spelling=s, expect=None, doc=enum_doc(body % s), ext=ext, wo=wo))
    etab = elision_table()
    for aid, attr, body, values, ext, wo in ELISION_RT:
        for v in values:
            ecases.append(dict(enum='elision/' + attr, spelling=v, expect=None, doc=enum_doc(body % v), ext=ext, wo=wo, elide=(aid, attr, float(v))))
    # gradient stops (C08_stops_roundtrip on the real code): the stop list of the tree is the stop list after write + re-parse
    for lab, d in rtgen.gradient_stop_docs():
        ecases.append(dict(enum='stops', spelling=lab, expect=None, doc=d, wo={},
                           ext=lambda t: (t['linear_gradients'] + t['radial_gradients'])[0]['stops']))
    eouts = ctx.rvh_batch(binp, 'c08-rt', ["-\t%s\t%s" % (c07.wopts_str(c['wo']), c['doc']) for c in ecases])
    ehist = {}
    for c, o in zip(ecases, eouts):
        r = jload(o)
        key = "enum/%s/%s" % (c['enum'], c['spelling'])
        if 'a' not in r:
            ctx.violation("enum-rt: the one-element document for %s=%r does not parse: %s" % (c['enum'], c['spelling'], str(r)[:200]),
                          dict(doc=c['doc'], wopts=c07.wopts_str(c['wo']), op='c08-rt'))
            continue
        try:
            va = c['ext'](r['a'])
        except (KeyError, IndexError, TypeError) as e:
            ctx.violation("enum-rt: %s=%r: the element is missing from the parsed tree (%s)" % (c['enum'], c['spelling'], e),
                          dict(doc=c['doc'], wopts=c07.wopts_str(c['wo']), op='c08-rt'))
            continue
        ctx.note_case(key, nontrivial=c['spelling'] is not None)
        ehist[c['enum']] = ehist.get(c['enum'], 0) + 1
        if c['expect'] is not None and (c['enum'], c['spelling']) not in RESOLVED and va != c['expect']:
            ctx.violation("enum-rt: the parser reads %s=%r as %s, the source-derived table (Gen/EnumTables.v) says %s"
                          % (c['enum'], c['spelling'], va, c['expect']),
                          dict(doc=c['doc'], wopts=c07.wopts_str(c['wo']), op='c08-rt', parsed=va, table=c['expect']))
            continue
        if 'error' in r['b']:
            ctx.violation("enum-rt: %s=%r: the written text does not parse again: %s" % (c['enum'], c['spelling'], r['b']['error']),
                          dict(doc=c['doc'], wopts=c07.wopts_str(c['wo']), op='c08-rt', text=r.get('text', '')[:1500]))
            continue
        try:
            vb = c['ext'](r['b'])
        except (KeyError, IndexError, TypeError) as e:
            vb = 'missing (%s)' % e
        if c.get('elide') and c['elide'][0] in etab and va == vb:
            # the generated table against the real writer: the attribute is in the written text iff the table's condition says so
            aid, attr, v = c['elide']
            const = etab[aid]
            in_text = re.search(r'[\s"\']%s=' % re.escape(attr), r.get('text', '')) is not None
            if const is not None and in_text != (v != const):
                ctx.violation("elision tie: %s=%r is %s by the real writer, Gen/ElisionTables.v (condition constant %r) says the opposite"
                              % (attr, c['spelling'], 'written' if in_text else 'not written', const),
                              dict(doc=c['doc'], wopts=c07.wopts_str(c['wo']), op='c08-rt', text=r.get('text', '')[:1500]))
        if va != vb:
            cls = None
            if c['enum'] == 'stops' and isinstance(va, list) and isinstance(vb, list) and len(va) == len(vb) and \
                    all(a['rgb'] == b['rgb'] and a['opacity'] == b['opacity'] and abs(a['offset'] - b['offset']) <= 1e-6 for a, b in zip(va, vb)) and \
                    any(abs(x['offset'] - y['offset']) <= 5e-7 for x, y in zip(va, va[1:])):
                # convert_stops' "shift equal offsets" step treats offsets within 4 ulps as equal: the pair it separated by f32::EPSILON
                # (2 ulps at 0.5) is separated again on every re-parse
                cls = 'stop-offset-shift-drift'
            text = ("enum-rt: %s=%r is %s in the tree, but %s after writing and parsing again" % (c['enum'], c['spelling'], va, vb))
            rep = dict(doc=c['doc'], wopts=c07.wopts_str(c['wo']), op='c08-rt', before=va, after=vb, text=r.get('text', '')[:1500])
            if cls:
                ctx.known_or_violation(cls, text, rep)
            else:
                ctx.violation(text, rep)
    ctx.cov['enum_rt_cases'] = len(ecases)
    ctx.cov['enum_rt_per_enum'] = ehist
    ctx.cov['exhaustive_tables'] = sorted(tables.keys())

    # ------------------------------------------------------------------ K: id-once (C08_id_prefixed_once on the real output)
    # every id="" / url(#..) / xlink:href="#.." of the written text is prefix + an id of the tree, once; on the text matrix also:
    # every reference has a definition.  Documents: the text x textPath matrix, the crafted reference-graph documents.
    tdocs = rtgen.text_docs()
    idocs = [(lab, d, True) for lab, d in tdocs] + [('crafted#%d' % i, d, False) for i, d in enumerate(refgen.crafted_docs())]
    icases = [(lab, d, own, w) for lab, d, own in idocs for w in rtgen.OPTION_MATRIX if own or w['prefix']]
    iouts = ctx.rvh_batch(binp, 'c08-rt', ["-\t%s\t%s" % (c07.wopts_str(w), d) for lab, d, own, w in icases])
    n_id = n_idv = 0
    for (lab, d, own, w), o in zip(icases, iouts):
        r = jload(o)
        rep = dict(doc=d, wopts=c07.wopts_str(w), op='c08-rt')
        if 'a' not in r or 'text' not in r:
            if own:
                ctx.violation("id-once: the %s document does not parse / write: %s" % (lab, str(r)[:200]), rep)
            continue
        wk = treeref.Walk(r['a'])
        probs = rtgen.id_once_problems(r['text'], r['a'], wk, w['prefix'])
        if not own:
            # the crafted documents hold known dangling references (closure is C07's matter): only the prefix form is checked
            probs = [x for x in probs if 'has no written definition' not in x]
        has_tp = any(k == 'textpath' for k, ptr, i, ctx_, via in wk.defs)
        ctx.note_case("id-once/%s|%s" % (lab, c07.wopts_str(w)), nontrivial=bool(w['prefix']) or has_tp)
        n_id += 1
        n_idv = n_idv + 1 if probs else n_idv
        if probs and n_idv <= 6:
            ctx.violation("id-once: %s [%s]: %s (C08_id_prefixed_once / C08_written_refs_resolve say: every id and every reference is "
                          "prefix ++ id, exactly once)" % (lab, c07.wopts_str(w), '; '.join(probs[:3])),
                          dict(rep, problems=probs[:6], text=r['text'][:1500]))
    ctx.cov['id_once_cases'] = n_id

    # ------------------------------------------------------------------ K: num-idem (C08_write_num_idempotent / C08_path_data_roundtrip /
    # C08_transform_roundtrip on the real writer + parser): adversarial floats in path data and in a matrix, every interesting precision.
    #   (i)  every number of the first written text is within 0.5 * 10^-min(p,12) (+ 2 f32 ulps) of the f32 value in the tree
    #   (ii) the numbers of write(parse(write T)) and of the third write are those of the first (idempotence)
    # Outside the model's idealisation (|x * 10^p| >= 2^24: f32 rounding inside write_num, class write-num-ulp F47) a failure of (ii) is
    # that class; inside it is a violation.
    ADV = [0.5, 1.5, 2.5, -0.5, -2.5, 0.05, 0.25, 0.0005, 0.0015, 1.0005, 0.000000005, 1e-7, 1e-9, -1e-9, 16777217.0, 8388607.5, -0.0, 1e-40,
           1.4e-45, -1e-40, 0.1, 1.0 / 3, 123456.789, 105.5, 2147483648.0, 3e9, -3e9, 0.99999994, 1.0000001, 99999.9, 0.125, 7.0, -12.0, 0.3]
    ADV += [c07.f32(rng.below(2000000) / 1000.0 - 1000.0) for _ in range(6)] + [c07.f32((rng.below(1 << 23) + 0.5) / float(1 << rng.below(24))) for _ in range(6)]
    ncases = []
    for v in ADV:
        for prec in (8, 3, 0, 12, 1, 255, (8, 2), (1, 8)):
            vs = repr(float(v))
            doc = ('<svg %s width="100" height="100"><g transform="matrix(1 0 0 1 %s 3)"><path d="M %s 1 L 2 %s Q %s 3 4 5 C 1 2 %s 4 5 6 Z" '
                   'stroke="black" stroke-dasharray="%s 3"/></g></svg>' % (NS, vs, vs, vs, vs, vs, repr(abs(float(v)) + 1.0)))
            cp, tp = prec if isinstance(prec, tuple) else (prec, prec)
            ncases.append((c07.f32(v), (cp, tp), doc, dict(cp=cp, tp=tp)))
    nouts = ctx.rvh_batch(binp, 'c08-idem', ["-\t%s\t%s" % (c07.wopts_str(w), d) for v, prec, d, w in ncases])
    num_re = re.compile(r'-?(?:\d+\.?\d*|\.\d+)(?:[eE][-+]?\d+)?|-?inf|NaN')

    def written_numbers(text, attrs=('d', 'transform', 'stroke-dasharray')):
        out = []
        for m in re.finditer(r'\s(?:%s)="([^"]*)"' % '|'.join(attrs), text):
            out += [float(t) for t in num_re.findall(m.group(1))]
        return out
    nhist = dict(cases=0, bound_ok=0, idempotent=0, textual_fixed=0, f47=0)
    nv = 0
    for (v, prec, d, w), o in zip(ncases, nouts):
        r = jload(o)
        rep = dict(doc=d, wopts=c07.wopts_str(w), op='c08-idem', value=v, precision=prec)
        if 'w1' not in r or 'reparse' in r:
            ctx.violation("num-idem: value %r at precision %r: the document does not survive the round trip: %s" % (v, prec, str(r)[:200]), rep)
            continue
        n1, n2, n3 = written_numbers(r['w1']), written_numbers(r['w2']), written_numbers(r['w3'])
        nhist['cases'] += 1
        ctx.note_case("num-idem/%r/%r" % (v, prec), nontrivial=len(n1) > 0 and v != int(v))
        # (i) the occurrences of v: every written number that is not one of the fixed literals must be close to v (or |v| + 1: dash array)
        fixed = (0.0, 1.0, 2.0, 3.0, 4.0, 5.0, 6.0)      # the other numbers of the document: integers, written exactly at every precision
        off = []
        for attrs, pr in ((('d',), prec[0]), (('transform',), prec[1]), (('stroke-dasharray',), 12)):
            bound = 0.5 * 10.0 ** (-min(pr, 12)) + 4 * abs(v) * 2.0 ** -23 + 1e-44
            cand = [t for t in written_numbers(r['w1'], attrs) if t not in fixed]
            off += [(t, bound) for t in cand if abs(t - v) > bound and abs(t - (abs(v) + 1.0)) > bound]
        in_model = abs(v) * 10.0 ** min(max(prec), 12) < 2.0 ** 24
        if off and nv < 4:
            nv += 1
            ctx.violation("num-idem: value %r at precisions (coordinates, transforms) = %r is written as %r: further than %.3g away "
                          "(C08_path_data_roundtrip / C08_transform_roundtrip)" % (v, prec, off[0][0], off[0][1]), dict(rep, written=r['w1'][:800]))
            continue
        nhist['bound_ok'] += 1
        nhist['textual_fixed'] += 1 if r['w2'] == r['w1'] else 0
        if n2 == n1 and n3 == n2:
            nhist['idempotent'] += 1
            continue
        text = ("num-idem: value %r at precision %r: the numbers written change in the %s write (%r -> %r); C08_write_num_idempotent says they do not"
                % (v, prec, 'second' if n2 != n1 else 'third', [a for a, b in zip(n1, n2) if a != b][:3] if n2 != n1 else [a for a, b in zip(n2, n3) if a != b][:3],
                   [b for a, b in zip(n1, n2) if a != b][:3] if n2 != n1 else [b for a, b in zip(n2, n3) if a != b][:3]))
        if in_model:
            if nv < 4:
                nv += 1
                ctx.violation(text, dict(rep, w1=r['w1'][:600], w2=r['w2'][:600]))
        else:
            nhist['f47'] += 1
            ctx.known_or_violation('write-num-ulp', text, dict(rep, w1=r['w1'][:600], w2=r['w2'][:600]))
    ctx.cov['num_idem'] = nhist

    # ------------------------------------------------------------------ S: round-trip rendering
    wit = sorted(os.path.join(WITNESS, f) for f in os.listdir(WITNESS) if f.endswith('.svg'))
    strict = set(k for k, f in enumerate(wit) if os.path.basename(f) in ('F08.svg', 'F09.svg', 'F13.svg', 'F46.svg', 'C19-clip-text-transform-writer.svg'))
    corpus = vlib.corpus_files()
    ngen = 150 if quick else 1500
    gen_docs = [refgen.gen_ref_doc(rng, id_style=['plain', 'genlike', 'weird'][i % 3], big=(i % 5 == 0)) for i in range(ngen)]
    inner = ('<svg %s width="50" height="50"><symbol id="s" viewBox="0 0 10 10"><circle cx="5" cy="5" r="8"/></symbol>'
             '<use xlink:href="#s" width="20" height="20"/></svg>' % NS)
    extra = [
        # F41: nested image first, so that its clipPath1 precedes the outer one in <defs>
        '<svg %s width="100" height="100"><image x="0" y="0" width="50" height="50" xlink:href="data:image/svg+xml;base64,%s"/>'
        '<symbol id="s" viewBox="0 0 10 10"><circle cx="5" cy="5" r="8" fill="blue"/></symbol>'
        '<use xlink:href="#s" x="30" y="30" width="40" height="40"/></svg>' % (NS, base64.b64encode(inner.encode()).decode()),
        # F46 (fixed): lighting primitive with an explicit input that is not the previous result; must pass
        enum_doc(FILTER % '<feFlood flood-color="red" flood-opacity="0.5" result="a"/><feOffset in="SourceGraphic" dx="5" result="b"/>'
                 '<feDiffuseLighting in="a" lighting-color="white"><feDistantLight azimuth="45" elevation="30"/></feDiffuseLighting>'),
    ]
    extra += refgen.crafted_docs() + refgen.group_attr_docs() + [d for d, _ in refgen.size_docs()]
    docs = ['@' + f for f in wit] + extra + ['@' + f for f in corpus] + gen_docs
    labels = [os.path.relpath(f, vlib.VERIF) for f in wit] + ['extra#%d' % i for i in range(len(extra))] + \
             [os.path.relpath(f, vlib.CORPUS) for f in corpus] + ['generated#%d' % i for i in range(ngen)]
    esc_prefixes = ['é-ü_', 'q"\'', 'a&<']
    cases = []
    for k in range(len(docs)):
        cases.append((k, dict(prefix=None, pt=False)))
        if not quick or k % 4 == 0 or k in strict:
            pre = 'pre-' if k in strict else ['pre-', None, rng.choice(esc_prefixes)][(k // 4) % 3]
            cases.append((k, dict(prefix=pre, pt=True)))
        if not quick:
            cases.append((k, dict(prefix='é-ü_' if k in strict else rng.choice(['pre-'] + esc_prefixes), pt=False)))
    # the text matrix: {plain text, tspans + decorations, textPath in every position} x {no prefix, prefix} x {flattened, preserve_text},
    # always complete, fonts loaded; no known class excuses these documents (appended last: the indices of the others stay)
    for lab, d in tdocs:
        docs.append(d)
        labels.append('text-matrix/' + lab)
        strict.add(len(docs) - 1)
        for w in rtgen.OPTION_MATRIX:
            cases.append((len(docs) - 1, dict(w)))
    # gradients whose consecutive stops repeat a colour / share an offset (seeded C08-17): strict
    for lab, d in rtgen.gradient_stop_docs():
        docs.append(d)
        labels.append('stops/' + lab)
        strict.add(len(docs) - 1)
        cases.append((len(docs) - 1, dict(prefix=None, pt=False)))
    # text inside a clipPath (with a transform: one more group level; fixed in 5d8487d): all four option sets, strict
    for lab, d in rtgen.clip_text_docs():
        docs.append(d)
        labels.append('clip-text/' + lab)
        strict.add(len(docs) - 1)
        for w in rtgen.OPTION_MATRIX:
            cases.append((len(docs) - 1, dict(w)))
    outs = ctx.rvh_batch(binp, 'c08-render', ["-\t%s\t%s" % (c07.wopts_str(w), docs[k]) for k, w in cases], per_item_timeout=90, chunk=6)
    # trees for the class predicates (only computed for cases that differ)
    hist = dict(rendered=0, rejected=0, identical_1x=0, within_tol=0, second_identical=0, skipped_2x=0, drift=0, text_fixed_after_1=0,
                text_fixed_after_2=0)
    klass_hits = {}
    nviol = 0
    need = []
    for ci, ((k, w), o) in enumerate(zip(cases, outs)):
        r = jload(o)
        lab = "%s [%s]" % (labels[k], c07.wopts_str(w))
        foreign = docs[k].startswith('@' + WITNESS) and k not in strict
        if ('crash' in r or 'panic' in r) and foreign:
            hist['rejected'] += 1          # a witness of another property's open finding
            continue
        if 'crash' in r or 'panic' in r:
            if nviol < 8:
                ctx.violation("round trip crashed: %s: %s" % (lab, str(r)[:300]), dict(doc=docs[k], wopts=c07.wopts_str(w), op='c08-render', result=r))
            nviol += 1
            continue
        if ('panic' in str(r.get('error', '')) or 'render_panic' in r) and not (docs[k].startswith('@' + WITNESS) and k not in strict):
            # corpus files and generated documents parse and render today
            if nviol < 8:
                ctx.violation("parsing or rendering crashed: %s: %s" % (lab, str(r)[:300]), dict(doc=docs[k], wopts=c07.wopts_str(w), op='c08-render', result=r))
            nviol += 1
            continue
        if 'error' in r or 'render_panic' in r:
            # not parsable / not renderable at all (a witness of another property's open finding): nothing to round-trip
            hist['rejected'] += 1
            ctx.note_case('rej/' + lab, nontrivial=False)
            continue
        if 'reparse' in r or 'reparse2' in r:
            need.append((ci, 'reparse', "the written text does not parse again: %s" % (r.get('reparse') or r.get('reparse2'))))
            continue
        hist['rendered'] += 1
        hist['skipped_2x'] += 1 if r['skipped2'] else 0
        hist['drift'] += 1 if r['drift'][1] else 0
        hist['text_fixed_after_1'] += 1 if r['fixed2'] else 0
        hist['text_fixed_after_2'] += 1 if r['fixed3'] else 0
        nonblank = max([s['nonblank'] for s in r['r']] + [0])
        if labels[k].startswith('text-matrix/') and nonblank < 100:
            # the oracle would be blind: the text of the matrix documents must actually be drawn (fonts loaded)
            ctx.violation("text matrix: %s renders only %d non-blank pixels: text is not drawn (fonts not loaded?)" % (lab, nonblank),
                          dict(doc=docs[k], wopts=c07.wopts_str(w), op='c08-render'), found_input=False)
        ctx.note_case("%s|%s" % (labels[k] if docs[k].startswith('@') else docs[k], c07.wopts_str(w)), nontrivial=nonblank > 0)
        if r['r'] and r['r'][0]['n12'] == 0 and r['r'][0]['max12'] == 0:
            hist['identical_1x'] += 1
        bad = []
        for s in r['r']:
            # noise floor measured on the whole corpus and on 4500 generated documents: edges move by one f32 ulp through
            # write_num; that changes at most 31 scattered edge pixels by at most 36 levels, or - when an edge lies on a
            # sub-scanline boundary of the 4x anti-aliasing - one row of edge pixels by 64 levels (41..52 pixels seen on 100
            # pixel wide canvases).  Allowed: none beyond 72 levels and at most max(40, canvas width) pixels beyond +-2.
            if s['big12'] > 0 or s['n12'] > max(40, s['w']):
                bad.append("at %dx %d pixels differ by more than 2 (max %d, %d by more than 72) between T and parse(write(T))"
                           % (s['scale'], s['n12'], s['max12'], s['big12']))
            if s['n23'] > 0:
                bad.append("at %dx %d pixels change in the second round trip (max %d)" % (s['scale'], s['n23'], s['max23']))
        if not bad:
            hist['within_tol'] += 1
            if all(s['n23'] == 0 for s in r['r']):
                hist['second_identical'] += 1
            continue
        need.append((ci, 'pixels', '; '.join(bad)))
    # classify the differing cases
    if need:
        douts = ctx.rvh_batch(binp, 'c07-write', ["-\t%s\t%s" % (c07.wopts_str(cases[ci][1]), docs[cases[ci][0]]) for ci, _, _ in need])
        for (ci, kind, text), do in zip(need, douts):
            k, w = cases[ci]
            lab = "%s [%s]" % (labels[k], c07.wopts_str(w))
            wr = jload(do)
            d = wr.get('dump', {})
            r = jload(outs[ci])
            first_bad = any(s['big12'] > 0 or s['n12'] > max(40, s['w']) for s in r.get('r', []))
            klasses = tree_classes(d, w, first_bad, wr.get('skeleton')) if 'root' in d else []
            if kind == 'reparse':
                strs = c07.tree_strings(d) + [w.get('prefix') or ''] if 'root' in d else []
                klasses = ['unescaped-xml-char'] if any(set(s) & c07.XML_BREAKERS for s in strs) else []
            elif not klasses and wr.get('skeleton') and c07.unresolved_obb(wr['skeleton']):
                # a paint server still in objectBoundingBox units is written (C04 / C18 shared-def-nested-obb, F25)
                klasses = ['unresolved-obb-def']
            elif not klasses and r.get('drift', [False, 0, 0])[1] > 0 and all(s['big12'] == 0 and s['max12'] <= 8 and s['n23'] == 0 for s in r['r']):
                klasses = ['write-num-ulp']
            full = "%s: %s" % (lab, text)
            rep = dict(doc=docs[k], wopts=c07.wopts_str(w), op='c08-render', problem=text, classes=klasses, result={x: r[x] for x in r if x != 'ms'})
            if not klasses or k in strict:
                if nviol < 8:
                    ctx.violation(full, rep)
                nviol += 1
            else:
                klass_hits[klasses[0]] = klass_hits.get(klasses[0], 0) + 1
                ctx.known_or_violation(klasses[0], full, rep)
    ctx.cov['oracle'] = hist
    ctx.cov['known_class_hits'] = klass_hits
    ctx.cov['e2e_cases'] = hist['rendered']

    # ------------------------------------------------------------------ proof broke: search
    if not proof_ok and not ctx.violations:
        found = False
        # an id site that does not write prefix ++ id exactly once (Gen/IdSites.v against Model/RoundTrip.v `canon`)
        isp = os.path.join(vlib.COQ, 'Gen', 'IdSites.v')
        canon = {'SDef': '[KPrefix; KRaw]', 'SIri': '[KLit "url(#"; KPrefix; KRaw; KLit ")"]', 'SHref': '[KLit "#"; KPrefix; KRaw]'}
        if os.path.exists(isp) and any('RoundTrip' in f or 'C08' in f for f in res['failed']):
            for m in re.finditer(r'^\s*\("([^"]*)", (SDef|SIri|SHref), (\[.*?\])\)[;]?$', open(isp).read(), re.M):
                if m.group(3) != canon[m.group(2)]:
                    lab = 'textpath-defs' if 'text_path' in m.group(1) else 'textpath-in-mask'
                    ctx.violation("model counterexample: the id site %s of writer.rs writes %s instead of %s (C08_id_prefixed_once fails); "
                                  "no document of the matrix shows it in the written text" % (m.group(1), m.group(3), canon[m.group(2)]),
                                  dict(doc=dict(tdocs)[lab], wopts=c07.wopts_str(dict(prefix='doc1-', pt=True)), op='c08-rt', site=m.group(1),
                                       failed_files=res['failed'], broken_ties=broken), found_input=False)
                    found = True
                    break
        if not found and any(v is None for v in etab.values()) or (not found and any('Elision' in f for f in res['failed'])):
            # a conditionally written attribute whose condition is not `value differs from the parser default`: try every
            # document of that attribute (all four line joins for the miter limit)
            badaids = [a for a, v in etab.items() if v is None] or [x[0] for x in ELISION_RT]
            for c, o in zip(ecases, eouts):
                if c.get('elide') and c['elide'][0] in badaids:
                    r = jload(o)
                    try:
                        va, vb = c['ext'](r['a']), c['ext'](r['b'])
                    except (KeyError, IndexError, TypeError):
                        continue
                    if va != vb:
                        found = True     # already reported above by enum-rt with this document
                        break
            if not found and badaids:
                ctx.violation("C08_elision_numeric_sound fails: the condition under which writer.rs writes %s is not `the value differs from "
                              "the parser default`; no document of the elision rows changes" % ', '.join(badaids),
                              dict(failed_files=res['failed'], broken_ties=broken), found_input=False)
                found = True
        if tables and not found:
            # the generated tables themselves give the witness: a constructor whose written spelling does not parse back
            for enum, tab in tables.items():
                for v in tab['variants']:
                    s = tab['write'].get(v)
                    back = tab['parse'].get(s, tab.get('fallback')) if s is not None else tab['default']
                    if back != v and enum in ENUM_DOCS:
                        body, attr, ext, wo = ENUM_DOCS[enum]
                        ctx.violation("model counterexample: %s::%s is written as %r, which the parser reads as %s"
                                      % (enum, v, s, back),
                                      dict(doc=enum_doc(body % dict(a=attr_text(enum, attr, [k for k, x in tab['parse'].items() if x == v][0]
                                                                                if [k for k, x in tab['parse'].items() if x == v] else None))),
                                           wopts=c07.wopts_str(wo), op='c08-rt', failed_files=res['failed'], broken_ties=broken))
                        found = True
                        break
                if found:
                    break
        if not found:
            body = ("From Coq Require Import ZArith QArith List Bool.\nImport ListNotations.\n"
                    "Definition cases : list (Z * Q) := [(8, 3 # 2); (8, 1 # 3); (8, inject_Z 3000000000); (8, inject_Z (-3000000000)); "
                    "(13, 3 # 2); (255, 7 # 8); (0, 5 # 2); (8, 2147483648 # 1); (12, 123456789 # 1000)]%Z.\n"
                    "Eval vm_compute in (bad_indices (fun c => chk_write_num (fst c) (snd c)) cases).\n")
            rc, out = ctx.coq_eval('search_num', body, ['Gen.WriterNum', 'Model.WriteNum', 'Model.Corr'])
            bl = ctx.parse_N_list(out) if rc == 0 else None
            if bl:
                vals = [(8, '1.5'), (8, '0.333333'), (8, '3000000000'), (8, '-3000000000'), (13, '1.5'), (255, '0.875'), (0, '2.5'), (8, '2147483648'), (12, '123456.789')]
                p, v = vals[bl[0]]
                ctx.violation("model counterexample: write_num (source-derived constants) panics or misses the error bound for %s at precision %d" % (v, p),
                              dict(doc='<svg %s width="10" height="10"><path d="M %s 1 L 2 3" stroke="black"/></svg>' % (NS, v),
                                   wopts=c07.wopts_str(dict(cp=p)), op='c07-write', failed_files=res['failed'], broken_ties=broken))
                found = True
        if not found:
            # the writer against the number model (with a broken tie: against the last tables that could be generated)
            vals = [c07.f32(v) for v in (0.012345678, 0.0012345678, 0.098765432, 0.5, 105.5, 1.2345678, 3000000000.0, -3000000000.0,
                                         0.00012345678, 7.125, 2147483648.0, 123.456)]
            n, badn = c07.write_num_tie(ctx, binp, [(8, vals[0:4]), (8, vals[4:8]), (8, vals[8:12])])
            for d, p, v, tok in (badn or [])[:1]:
                ctx.violation("write_num: coordinate %r is written as %s at the default precision %d; Model/WriteNum.v (|error| <= 1/(2*10^p)) disagrees"
                              % (v, tok, p), dict(doc=d, wopts=c07.wopts_str(dict(cp=p)), op='c07-write', value=v, written=tok,
                                                  failed_files=res['failed'], broken_ties=broken))
                found = True
        if not found:
            ctx.violation("C08 proof obligations no longer check: %s %s" % (res['failed'] + res['audit'], [b['name'] + ': ' + b['err'][:200] for b in broken]),
                          dict(failed_files=res['failed'], audit=res['audit'], broken_ties=broken, log_tail=res['log'][-3000:]),
                          found_input=False)

    ctx.add_sample(dict(op='c08-rt', doc=ecases[0]['doc']))
    ctx.add_sample(dict(op='c08-render', doc=labels[len(wit) + len(extra)], wopts=c07.wopts_str(cases[0][1])))
    ctx.add_sample(dict(op='c08-render', doc=gen_docs[0], wopts='-'))
    ctx.cov['rule'] = (
        "enum-rt: every enum of Gen/EnumTables.v that has a one-element document x every spelling the parser accepts, the spelling the "
        "writer emits and the absent attribute (exhaustive), plus round-trip-only checks of paint-order, visibility, stitchTiles, "
        "preserveAlpha, feBlend mode, gradientUnits, lighting `in`; non-trivial when the attribute is present.  rendering: every witness, "
        "every corpus file and generated reference-graph documents with default options, a quarter of them (thorough: all) also with "
        "preserve_text and an id prefix (ascii / non-ASCII / quote / XML-special); 1x and 2x (2x skipped when the 1x renders take "
        "more than 1.5 s); non-trivial when the rendering is not blank; distinct by (document, options).")


def replay(ctx, path):
    r = json.load(open(path))
    rp = r.get('replay', {})
    print(json.dumps({k: v for k, v in r.items() if k != 'replay'}, indent=1))
    print(json.dumps(rp, indent=1)[:3000])
    doc = rp.get('doc')
    if doc:
        binp, _ = ctx.harness('release')
        if binp:
            wo = rp.get('wopts', '-')
            op = rp.get('op', 'c08-render')
            if op not in ('c08-render', 'c08-rt', 'c07-write'):
                op = 'c08-render'
            o = jload(ctx.rvh_batch(binp, op, ["-\t%s\t%s" % (wo, doc)], per_item_timeout=120)[0])
            if op == 'c08-rt' and 'text' in o:
                print("written now:\n%s" % o['text'][:2500])
            else:
                print("now: %s" % json.dumps({k: v for k, v in o.items() if k not in ('dump', 'skeleton', 'a', 'b')})[:3000])
    return 0
